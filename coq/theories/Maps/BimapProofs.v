(* Proofs about the Bimap model (Maps/Bimap.v): the two maps stay mutually
   inverse, every operation refines the injective-finite-map reference, the
   observers read that reference, Range enumerates it once in any order, the
   map loops of maps.Clone / maps.Clear do not depend on the visit order, and
   operations on one handle leave every other handle untouched. *)
From Typ Require Import Lib.Base Maps.Bimap.
Local Open Scope Z_scope.

(* ---- the representation invariant ---- *)
Definition inverse (f r : gmap Z Z) : Prop := forall k v, f !! k = Some v <-> r !! v = Some k.

(* both maps nil (zero value) or both allocated and mutually inverse *)
Definition inv (b : bimap) : Prop :=
  match forward b, reverse b with
  | None, None => True
  | Some f, Some r => inverse f r
  | _, _ => False
  end.

Lemma inverse_inj_l f r k1 k2 v : inverse f r -> f !! k1 = Some v -> f !! k2 = Some v -> k1 = k2.
Proof.
  intros H H1 H2. apply H in H1. apply H in H2. congruence.
Qed.

Lemma inverse_inj_r f r v1 v2 k : inverse f r -> r !! v1 = Some k -> r !! v2 = Some k -> v1 = v2.
Proof.
  intros H H1 H2. apply H in H1. apply H in H2. congruence.
Qed.

Lemma inverse_empty : inverse ∅ ∅.
Proof. intros k v. rewrite !lookup_empty. split; discriminate. Qed.

Lemma inv_zero : inv zero_bimap.
Proof. exact I. Qed.

Lemma inv_cases b :
  inv b ->
  (forward b = None /\ reverse b = None) \/
  (exists f r, forward b = Some f /\ reverse b = Some r /\ inverse f r).
Proof.
  unfold inv. destruct b as [[f|] [r|]]; cbn; intros H; try contradiction; eauto 6.
Qed.

Lemma injective_abs b : inv b -> injective (abs b).
Proof.
  intros H. destruct (inv_cases b H) as [[Hf Hr]|(f & r & Hf & Hr & Hi)]; unfold abs; rewrite Hf; cbn.
  - intros k1 k2 v E. rewrite lookup_empty in E. discriminate.
  - intros k1 k2 v. apply (inverse_inj_l f r); exact Hi.
Qed.

(* ---- Add ---- *)

(* what the two maps hold after Add, in terms of the old forward map *)
Definition add_rel (f : gmap Z Z) (k v k' v' : Z) : Prop :=
  (k' = k /\ v' = v) \/ (k' <> k /\ v' <> v /\ f !! k' = Some v').

Lemma spec_add_lookup f k v k' v' :
  spec_add k v f !! k' = Some v' <-> add_rel f k v k' v'.
Proof.
  unfold spec_add, spec_remove_value, add_rel.
  rewrite lookup_insert_Some, map_filter_lookup_Some, lookup_delete_Some. cbn. naive_solver.
Qed.

Lemma map_eq_rel (m1 m2 : gmap Z Z) :
  (forall k v, m1 !! k = Some v <-> m2 !! k = Some v) -> m1 = m2.
Proof.
  intros H. apply map_eq. intros k. apply option_eq. intros v. apply H.
Qed.

Lemma Add_some f r k v :
  inverse f r ->
  exists f' r', Add (Bimap (Some f) (Some r)) k v = Ok (Bimap (Some f') (Some r')) /\
    (forall k' v', f' !! k' = Some v' <-> add_rel f k v k' v') /\
    (forall k' v', r' !! v' = Some k' <-> add_rel f k v k' v').
Proof.
  intros H.
  assert (Hl := inverse_inj_l f r).
  unfold Add, GetForward, GetReverse, add_rel. cbn.
  destruct (f !! k) as [ov|] eqn:Hfk; cbn.
  - (* the key is present, paired with ov *)
    assert (Hrov : r !! ov = Some k) by (apply H; exact Hfk).
    destruct (delete ov r !! v) as [okey|] eqn:Hrv; cbn.
    + apply lookup_delete_Some in Hrv as [Hne Hrv].
      assert (Hfok : f !! okey = Some v) by (apply H; exact Hrv).
      eexists _, _. split; [reflexivity|]. split; intros k' v'.
      * rewrite lookup_insert_Some, lookup_delete_Some. split.
        -- intros [[<- <-]|(Hk & Hok & Hf)]; [left; auto|]. right. repeat split; auto.
           intros ->. apply Hok. eapply Hl; eauto.
        -- intros [[-> ->]|(Hk & Hv & Hf)]; [left; auto|]. right. repeat split; auto.
           intros <-. congruence.
      * rewrite lookup_insert_Some, lookup_delete_Some. split.
        -- intros [[<- <-]|(Hv & Hov & Hr)]; [left; auto|]. apply H in Hr. right. repeat split; auto.
           intros ->. congruence.
        -- intros [[-> ->]|(Hk & Hv & Hf)]; [left; auto|]. right. repeat split; auto.
           ++ intros <-. apply Hk. eapply Hl; eauto.
           ++ apply H. exact Hf.
    + (* the value is absent from the reverse map once ov is gone *)
      eexists _, _. split; [reflexivity|]. split; intros k' v'.
      * rewrite lookup_insert_Some. split.
        -- intros [[<- <-]|(Hk & Hf)]; [left; auto|]. right. repeat split; auto.
           intros ->. apply H in Hf.
           destruct (decide (ov = v)) as [->|Hne]; [apply Hk; congruence|].
           rewrite lookup_delete_ne in Hrv by exact Hne. congruence.
        -- intros [[-> ->]|(Hk & Hv & Hf)]; [left; auto|]. right. auto.
      * rewrite lookup_insert_Some, lookup_delete_Some. split.
        -- intros [[<- <-]|(Hv & Hov & Hr)]; [left; auto|]. apply H in Hr. right. repeat split; auto.
           intros ->. congruence.
        -- intros [[-> ->]|(Hk & Hv & Hf)]; [left; auto|]. right. repeat split; auto.
           ++ intros <-. apply Hk. eapply Hl; eauto.
           ++ apply H. exact Hf.
  - (* the key is absent *)
    destruct (r !! v) as [okey|] eqn:Hrv; cbn.
    + assert (Hfok : f !! okey = Some v) by (apply H; exact Hrv).
      eexists _, _. split; [reflexivity|]. split; intros k' v'.
      * rewrite lookup_insert_Some, lookup_delete_Some. split.
        -- intros [[<- <-]|(Hk & Hok & Hf)]; [left; auto|]. right. repeat split; auto.
           intros ->. apply Hok. eapply Hl; eauto.
        -- intros [[-> ->]|(Hk & Hv & Hf)]; [left; auto|]. right. repeat split; auto.
           intros <-. congruence.
      * rewrite lookup_insert_Some. split.
        -- intros [[<- <-]|(Hv & Hr)]; [left; auto|]. apply H in Hr. right. repeat split; auto.
           intros ->. congruence.
        -- intros [[-> ->]|(Hk & Hv & Hf)]; [left; auto|]. right. split; auto. apply H. exact Hf.
    + eexists _, _. split; [reflexivity|]. split; intros k' v'.
      * rewrite lookup_insert_Some. split.
        -- intros [[<- <-]|(Hk & Hf)]; [left; auto|]. right. repeat split; auto.
           intros ->. apply H in Hf. congruence.
        -- intros [[-> ->]|(Hk & Hv & Hf)]; [left; auto|]. right. auto.
      * rewrite lookup_insert_Some. split.
        -- intros [[<- <-]|(Hv & Hr)]; [left; auto|]. apply H in Hr. right. repeat split; auto.
           intros ->. congruence.
        -- intros [[-> ->]|(Hk & Hv & Hf)]; [left; auto|]. right. split; auto. apply H. exact Hf.
Qed.

Lemma Add_spec b k v :
  inv b -> exists b', Add b k v = Ok b' /\ inv b' /\ abs b' = spec_add k v (abs b) /\ forward b' <> None.
Proof.
  intros H. destruct (inv_cases b H) as [[Hf Hr]|(f & r & Hf & Hr & Hi)]; destruct b as [bf br]; cbn in *; subst.
  - (* zero value: the lazy make, then the two writes *)
    eexists. split; [reflexivity|]. cbn. split; [|split; [|discriminate]].
    + unfold inv. cbn. intros k' v'. rewrite !lookup_insert_Some, !lookup_empty. naive_solver.
    + unfold abs. cbn. apply map_eq_rel. intros k' v'.
      rewrite spec_add_lookup. unfold add_rel. rewrite lookup_insert_Some, !lookup_empty. naive_solver.
  - destruct (Add_some f r k v Hi) as (f' & r' & E & Hf' & Hr').
    exists (Bimap (Some f') (Some r')). split; [exact E|]. split; [|split; [|discriminate]].
    + unfold inv. cbn. intros k' v'. rewrite Hf', Hr'. reflexivity.
    + unfold abs. cbn. apply map_eq_rel. intros k' v'. rewrite Hf', spec_add_lookup. reflexivity.
Qed.

(* ---- RemoveForward / RemoveReverse ---- *)
Lemma RemoveForward_spec b k :
  inv b -> inv (RemoveForward b k) /\ abs (RemoveForward b k) = delete k (abs b).
Proof.
  intros H. destruct (inv_cases b H) as [[Hf Hr]|(f & r & Hf & Hr & Hi)]; destruct b as [bf br]; cbn in *; subst.
  - unfold RemoveForward, abs. cbn. split; [exact I|]. rewrite delete_empty. reflexivity.
  - unfold RemoveForward, abs. cbn. destruct (f !! k) as [v|] eqn:Hfk; cbn.
    + split; [|reflexivity]. unfold inv. cbn. intros k' v'.
      rewrite !lookup_delete_Some. split.
      * intros [Hk Hf]. split; [|apply Hi; exact Hf]. intros <-. apply Hk. eapply inverse_inj_l; eauto.
      * intros [Hv Hr]. apply Hi in Hr. split; [|exact Hr]. intros <-. congruence.
    + split; [exact Hi|]. rewrite delete_notin by exact Hfk. reflexivity.
Qed.

Lemma RemoveReverse_spec b v :
  inv b -> inv (RemoveReverse b v) /\ abs (RemoveReverse b v) = spec_remove_value v (abs b).
Proof.
  intros H. destruct (inv_cases b H) as [[Hf Hr]|(f & r & Hf & Hr & Hi)]; destruct b as [bf br]; cbn in *; subst.
  - unfold RemoveReverse, abs, spec_remove_value. cbn. split; [exact I|]. rewrite map_filter_empty. reflexivity.
  - unfold RemoveReverse, abs. cbn. destruct (r !! v) as [k|] eqn:Hrv; cbn.
    + assert (Hfk : f !! k = Some v) by (apply Hi; exact Hrv).
      split.
      * unfold inv. cbn. intros k' v'. rewrite !lookup_delete_Some. split.
        -- intros [Hk Hf]. split; [|apply Hi; exact Hf]. intros <-. apply Hk. eapply inverse_inj_l; eauto.
        -- intros [Hv Hr]. apply Hi in Hr. split; [|exact Hr]. intros <-. congruence.
      * apply map_eq_rel. intros k' v'. unfold spec_remove_value.
        rewrite lookup_delete_Some, map_filter_lookup_Some. cbn. split.
        -- intros [Hk Hf]. split; [exact Hf|]. intros ->. apply Hk. eapply inverse_inj_l; eauto.
        -- intros [Hf Hv]. split; [|exact Hf]. intros <-. congruence.
    + split; [exact Hi|]. symmetry. apply map_eq_rel. intros k' v'. unfold spec_remove_value.
      rewrite map_filter_lookup_Some. cbn. split; [tauto|]. intros Hf. split; [exact Hf|].
      intros ->. apply Hi in Hf. congruence.
Qed.

(* ---- the loops of maps.Clear and maps.Clone, for every visit order ---- *)
Lemma maps_clear_loop_nil order : maps_clear_loop order None = None.
Proof. induction order as [|k rest IH]; cbn; auto. Qed.

Lemma maps_clear_loop_some order : forall g,
  (forall k, is_Some (g !! k) -> k ∈ order) -> maps_clear_loop order (Some g) = Some ∅.
Proof.
  induction order as [|k rest IH]; intros g Hcov; cbn.
  - f_equal. apply map_empty. intros k. destruct (g !! k) eqn:E; [|reflexivity].
    exfalso. eapply not_elem_of_nil. apply Hcov. rewrite E. eauto.
  - destruct (g !! k) as [v|] eqn:Hgk; cbn.
    + apply IH. intros k' Hk'. destruct (decide (k' = k)) as [->|Hne].
      * rewrite lookup_delete in Hk'. destruct Hk' as [? ?]. discriminate.
      * rewrite lookup_delete_ne in Hk' by auto. apply Hcov in Hk'.
        apply elem_of_cons in Hk' as [?|?]; [contradiction|assumption].
    + apply IH. intros k' Hk'. pose proof (Hcov k' Hk') as Hin.
      apply elem_of_cons in Hin as [->|?]; [|assumption].
      rewrite Hgk in Hk'. destruct Hk' as [? ?]. discriminate.
Qed.

Lemma elem_of_map_keys g k : k ∈ map_keys (Some g) <-> is_Some (g !! k).
Proof.
  unfold map_keys. rewrite elem_of_list_fmap. split.
  - intros ([k' v] & -> & Hin). apply elem_of_map_to_list in Hin. cbn. eauto.
  - intros [v Hv]. exists (k, v). split; [reflexivity|]. apply elem_of_map_to_list. exact Hv.
Qed.

(* the result of Clear does not depend on the order in which the range statement produces the keys *)
Lemma maps_clear_order_spec order m :
  order ≡ₚ map_keys m -> maps_clear_order order m = match m with None => None | Some _ => Some ∅ end.
Proof.
  intros Hp. unfold maps_clear_order. destruct m as [g|].
  - apply maps_clear_loop_some. intros k Hk. rewrite Hp. apply elem_of_map_keys. exact Hk.
  - apply maps_clear_loop_nil.
Qed.

Lemma maps_clear_spec m : maps_clear m = match m with None => None | Some _ => Some ∅ end.
Proof. apply maps_clear_order_spec. reflexivity. Qed.

Lemma maps_clone_loop_nil order acc : maps_clone_loop None order acc = Ok acc.
Proof. revert acc. induction order as [|k rest IH]; intros acc; cbn; auto. Qed.

Lemma maps_clone_loop_some g order : forall acc,
  exists acc', maps_clone_loop (Some g) order (Some acc) = Ok (Some acc') /\
    forall k, acc' !! k = if decide (k ∈ order /\ is_Some (g !! k)) then g !! k else acc !! k.
Proof.
  induction order as [|k0 rest IH]; intros acc; cbn.
  - exists acc. split; [reflexivity|]. intros k. destruct (decide _) as [[Hin _]|_]; [|reflexivity].
    exfalso. eapply not_elem_of_nil. exact Hin.
  - destruct (g !! k0) as [v0|] eqn:Hg0; cbn.
    + destruct (IH (<[k0:=v0]> acc)) as (acc' & E & Hacc'). exists acc'. split; [exact E|].
      intros k. rewrite Hacc'. destruct (decide (k ∈ rest /\ is_Some (g !! k))) as [[Hin Hs]|Hn].
      * rewrite decide_True; [reflexivity|]. split; [apply elem_of_cons; auto|exact Hs].
      * destruct (decide (k = k0)) as [->|Hne].
        -- rewrite lookup_insert. rewrite decide_True; [auto|]. split; [apply elem_of_cons; auto|]. rewrite Hg0. eauto.
        -- rewrite lookup_insert_ne by auto. rewrite decide_False; [reflexivity|].
           intros [Hin Hs]. apply Hn. split; [|exact Hs]. apply elem_of_cons in Hin as [?|?]; [contradiction|assumption].
    + destruct (IH acc) as (acc' & E & Hacc'). exists acc'. split; [exact E|].
      intros k. rewrite Hacc'. destruct (decide (k ∈ rest /\ is_Some (g !! k))) as [[Hin Hs]|Hn].
      * rewrite decide_True; [reflexivity|]. split; [apply elem_of_cons; auto|exact Hs].
      * rewrite decide_False; [reflexivity|]. intros [Hin Hs]. apply Hn. split; [|exact Hs].
        apply elem_of_cons in Hin as [->|?]; [|assumption]. rewrite Hg0 in Hs. destruct Hs as [? ?]. discriminate.
Qed.

(* the result of Clone does not depend on the visit order: an allocated copy with the same contents; nil becomes empty *)
Lemma maps_clone_order_spec order m :
  order ≡ₚ map_keys m -> maps_clone_order order m = Ok (Some (default ∅ m)).
Proof.
  intros Hp. unfold maps_clone_order. destruct m as [g|]; cbn.
  - destruct (maps_clone_loop_some g order ∅) as (acc' & E & Hacc'). rewrite E. do 2 f_equal.
    apply map_eq. intros k. rewrite Hacc'. destruct (decide _) as [_|Hn]; [reflexivity|].
    rewrite lookup_empty. destruct (g !! k) as [v|] eqn:Hgk; [|reflexivity].
    exfalso. apply Hn. split; [|eauto]. rewrite Hp. apply elem_of_map_keys. rewrite Hgk. eauto.
  - apply maps_clone_loop_nil.
Qed.

Lemma maps_clone_spec m : maps_clone m = Ok (Some (default ∅ m)).
Proof. apply maps_clone_order_spec. reflexivity. Qed.

(* ---- Clear / Clone of a Bimap ---- *)
Lemma Clear_order_eq order_f order_r b :
  order_f ≡ₚ map_keys (forward b) -> order_r ≡ₚ map_keys (reverse b) ->
  Clear_order order_f order_r b =
  Bimap (match forward b with None => None | Some _ => Some ∅ end)
        (match reverse b with None => None | Some _ => Some ∅ end).
Proof.
  intros Hf Hr. unfold Clear_order. cbn. rewrite !maps_clear_order_spec by assumption. reflexivity.
Qed.

Lemma Clear_spec b : inv b -> inv (Clear b) /\ abs (Clear b) = ∅.
Proof.
  intros H. unfold Clear. rewrite Clear_order_eq by reflexivity.
  destruct (inv_cases b H) as [[Hf Hr]|(f & r & Hf & Hr & Hi)]; rewrite Hf, Hr; unfold inv, abs; cbn.
  - auto.
  - split; [apply inverse_empty|reflexivity].
Qed.

Lemma Clone_order_eq order_f order_r b :
  order_f ≡ₚ map_keys (forward b) -> order_r ≡ₚ map_keys (reverse b) ->
  Clone_order order_f order_r b = Ok (Bimap (Some (default ∅ (forward b))) (Some (default ∅ (reverse b)))).
Proof.
  intros Hf Hr. unfold Clone_order. rewrite !maps_clone_order_spec by assumption. reflexivity.
Qed.

Lemma Clone_spec b : inv b -> exists c, Clone b = Ok c /\ inv c /\ abs c = abs b /\ forward c <> None.
Proof.
  intros H. unfold Clone. rewrite Clone_order_eq by reflexivity. eexists. split; [reflexivity|].
  destruct (inv_cases b H) as [[Hf Hr]|(f & r & Hf & Hr & Hi)]; rewrite Hf, Hr; unfold inv, abs; cbn; rewrite ?Hf; cbn.
  - split; [apply inverse_empty|]. split; [reflexivity|discriminate].
  - split; [exact Hi|]. split; [reflexivity|discriminate].
Qed.

(* ---- the observers read the reference ---- *)
Lemma GetForward_spec b k :
  GetForward b k = match abs b !! k with Some v => (v, true) | None => (0, false) end.
Proof.
  unfold GetForward, abs, map_get. destruct (forward b) as [f|]; cbn.
  - destruct (f !! k); reflexivity.
  - rewrite lookup_empty. reflexivity.
Qed.

Lemma ContainsForward_spec b k : ContainsForward b k = bool_decide (is_Some (abs b !! k)).
Proof.
  unfold ContainsForward, abs, map_get. destruct (forward b) as [f|]; cbn.
  - destruct (f !! k) eqn:E; symmetry; [apply bool_decide_eq_true; eauto|apply bool_decide_eq_false; intros [? ?]; discriminate].
  - rewrite lookup_empty. symmetry. apply bool_decide_eq_false. intros [? ?]; discriminate.
Qed.

Lemma GetReverse_spec b v : inv b ->
  (forall k, GetReverse b v = (k, true) <-> abs b !! k = Some v) /\
  (GetReverse b v = (0, false) \/ exists k, GetReverse b v = (k, true)) /\
  (GetReverse b v = (0, false) -> forall k, abs b !! k <> Some v).
Proof.
  intros H. destruct (inv_cases b H) as [[Hf Hr]|(f & r & Hf & Hr & Hi)];
    unfold GetReverse, abs, map_get; rewrite Hf, Hr; cbn.
  - split; [|split; [auto|]].
    + intros k. rewrite lookup_empty. split; discriminate.
    + intros _ k. rewrite lookup_empty. discriminate.
  - destruct (r !! v) as [k0|] eqn:Hrv.
    + split; [|split; [eauto|discriminate]].
      intros k. rewrite (Hi k v). split; [intros [= ->]; exact Hrv|]. intros E. congruence.
    + split; [|split; [auto|]].
      * intros k. rewrite (Hi k v). split; [discriminate|congruence].
      * intros _ k. rewrite (Hi k v). congruence.
Qed.

Lemma ContainsReverse_spec b v : inv b ->
  ContainsReverse b v = snd (GetReverse b v) /\
  (ContainsReverse b v = true <-> exists k, abs b !! k = Some v).
Proof.
  intros H. split.
  - unfold ContainsReverse, GetReverse. destruct (map_get (reverse b) v). reflexivity.
  - destruct (inv_cases b H) as [[Hf Hr]|(f & r & Hf & Hr & Hi)];
      unfold ContainsReverse, abs, map_get; rewrite Hf, Hr; cbn.
    + split; [discriminate|]. intros [k E]. rewrite lookup_empty in E. discriminate.
    + destruct (r !! v) as [k0|] eqn:Hrv.
      * split; [|reflexivity]. intros _. exists k0. apply Hi. exact Hrv.
      * split; [discriminate|]. intros [k E]. apply Hi in E. congruence.
Qed.

Lemma Len_spec b : Len (Some b) = Z.of_nat (size (abs b)).
Proof.
  unfold Len, abs, map_len. destruct (forward b); cbn; [reflexivity|]. rewrite map_size_empty. reflexivity.
Qed.

(* the reverse map has as many entries as the forward map *)
Lemma inverse_size f r : inverse f r -> size r = size f.
Proof.
  intros Hi.
  assert (Hperm : map_to_list r ≡ₚ (fun kv : Z * Z => (kv.2, kv.1)) <$> map_to_list f).
  { apply NoDup_Permutation.
    - apply NoDup_map_to_list.
    - apply NoDup_fmap_2; [|apply NoDup_map_to_list]. intros [a b] [c d]; cbn. congruence.
    - intros [v k]. rewrite elem_of_map_to_list, elem_of_list_fmap. split.
      + intros Hr. exists (k, v). split; [reflexivity|]. apply elem_of_map_to_list. apply Hi. exact Hr.
      + intros ([k' v'] & [= -> ->] & Hin). apply elem_of_map_to_list in Hin. apply Hi. exact Hin. }
  unfold size, map_size. rewrite Hperm, fmap_length. reflexivity.
Qed.

Lemma Len_reverse b : inv b -> map_len (reverse b) = map_len (forward b).
Proof.
  intros H. destruct (inv_cases b H) as [[Hf Hr]|(f & r & Hf & Hr & Hi)]; rewrite Hf, Hr; cbn; [reflexivity|].
  rewrite (inverse_size f r Hi). reflexivity.
Qed.

(* ---- Range ---- *)
Definition pairs_of (g : gmap Z Z) (order : list Z) : list (Z * Z) :=
  omap (fun k => v ← g !! k; Some (k, v)) order.

Lemma Range_loop_visit g order : forall T (f : T -> Z -> Z -> T * bool) s,
  Range_loop (Some g) order f s = visit (pairs_of g order) f s.
Proof.
  induction order as [|k rest IH]; intros T f s; cbn; [reflexivity|].
  destruct (g !! k) as [v|]; cbn.
  - destruct (f s k v) as [s' c]. destruct c; cbn; [apply IH|reflexivity].
  - apply IH.
Qed.

Lemma pairs_of_fst g order :
  (forall k, k ∈ order -> is_Some (g !! k)) -> (pairs_of g order).*1 = order.
Proof.
  induction order as [|k rest IH]; intros Hall; cbn; [reflexivity|].
  destruct (Hall k) as [v Hv]; [apply elem_of_cons; auto|]. rewrite Hv. cbn. f_equal.
  apply IH. intros k' Hk'. apply Hall. apply elem_of_cons; auto.
Qed.

Lemma elem_of_pairs_of g order k v : (k, v) ∈ pairs_of g order <-> k ∈ order /\ g !! k = Some v.
Proof.
  unfold pairs_of. rewrite elem_of_list_omap. split.
  - intros (k' & Hin & E). destruct (g !! k') as [v'|] eqn:Hg; cbn in E; [|discriminate].
    injection E as <- <-. auto.
  - intros [Hin Hg]. exists k. split; [exact Hin|]. rewrite Hg. reflexivity.
Qed.

Lemma pairs_of_perm g order :
  order ≡ₚ map_keys (Some g) -> (pairs_of g order).*1 = order /\ pairs_of g order ≡ₚ map_to_list g.
Proof.
  intros Hp.
  assert (Hfst : (pairs_of g order).*1 = order).
  { apply pairs_of_fst. intros k Hk. rewrite Hp in Hk. apply elem_of_map_keys. exact Hk. }
  split; [exact Hfst|].
  apply NoDup_Permutation.
  - apply (NoDup_fmap_1 fst). rewrite Hfst, Hp. apply NoDup_fst_map_to_list.
  - apply NoDup_map_to_list.
  - intros [k v]. rewrite elem_of_pairs_of, elem_of_map_to_list, Hp, elem_of_map_keys. naive_solver.
Qed.

(* For every order in which the range statement may produce the keys, Range
   hands its callback the pairs ps, one call per pair, in turn, until the
   callback returns false; ps enumerates the pair set without repetition. *)
Lemma Range_spec b order :
  order ≡ₚ map_keys (forward b) ->
  exists ps, ps.*1 = order /\ ps ≡ₚ map_to_list (abs b) /\
    forall T (f : T -> Z -> Z -> T * bool) s, Range b order f s = visit ps f s.
Proof.
  intros Hp. unfold Range, abs. destruct (forward b) as [g|]; cbn.
  - exists (pairs_of g order). destruct (pairs_of_perm g order Hp) as [H1 H2].
    split; [exact H1|]. split; [exact H2|]. intros T f s. apply Range_loop_visit.
  - cbn in Hp. apply Permutation_nil_r in Hp. subst order. exists []. split; [reflexivity|].
    split; [rewrite map_to_list_empty; reflexivity|]. reflexivity.
Qed.

Lemma visit_recording_state {T} ps (f : T -> Z -> Z -> T * bool) : forall cs s,
  snd (visit ps (recording f) (cs, s)) = visit ps f s.
Proof.
  induction ps as [|[k v] rest IH]; intros cs s; cbn; [reflexivity|].
  destruct (f s k v) as [s' c]. destruct c; [apply IH|reflexivity].
Qed.

Lemma visit_recording_prefix {T} ps (f : T -> Z -> Z -> T * bool) : forall cs s,
  exists n, fst (visit ps (recording f) (cs, s)) = cs ++ take n ps.
Proof.
  induction ps as [|[k v] rest IH]; intros cs s; cbn.
  - exists 0%nat. rewrite app_nil_r. reflexivity.
  - destruct (f s k v) as [s' c]. destruct c.
    + destruct (IH (cs ++ [(k, v)]) s') as [n E]. exists (S n). rewrite E, <- app_assoc. reflexivity.
    + exists 1%nat. cbn. rewrite take_0. reflexivity.
Qed.

Lemma visit_recording_all {T} ps (f : T -> Z -> Z -> T * bool) :
  (forall s k v, (k, v) ∈ ps -> snd (f s k v) = true) ->
  forall cs s, fst (visit ps (recording f) (cs, s)) = cs ++ ps.
Proof.
  induction ps as [|[k v] rest IH]; intros Hall cs s; cbn.
  - rewrite app_nil_r. reflexivity.
  - pose proof (Hall s k v) as Hc. destruct (f s k v) as [s' c]. cbn in Hc.
    rewrite Hc by (apply elem_of_cons; auto). rewrite IH, <- app_assoc; [reflexivity|].
    intros s0 k0 v0 Hin. apply Hall. apply elem_of_cons; auto.
Qed.

(* the callback's first [false] ends the loop: nothing after that pair is visited *)
Lemma visit_recording_stop {T} ps1 k v ps2 (f : T -> Z -> Z -> T * bool) :
  (forall s k' v', (k', v') ∈ ps1 -> snd (f s k' v') = true) ->
  (forall s, snd (f s k v) = false) ->
  forall cs s, fst (visit (ps1 ++ (k, v) :: ps2) (recording f) (cs, s)) = cs ++ ps1 ++ [(k, v)].
Proof.
  induction ps1 as [|[k1 v1] rest IH]; intros Hall Hstop cs s; cbn.
  - pose proof (Hstop s) as Hc. destruct (f s k v) as [s' c]. cbn in Hc. subst c. reflexivity.
  - pose proof (Hall s k1 v1) as Hc. destruct (f s k1 v1) as [s' c]. cbn in Hc.
    rewrite Hc by (apply elem_of_cons; auto). rewrite IH, <- app_assoc; [reflexivity| |exact Hstop].
    intros s0 k0 v0 Hin. apply Hall. apply elem_of_cons; auto.
Qed.

(* ---- histories ---- *)
Lemma get_handle_Some st h b : st !! h = Some b -> get_handle st h = Ok b.
Proof. unfold get_handle. intros ->. reflexivity. Qed.

Lemma get_handle_None st h : (length st <= h)%nat -> get_handle st h = Panic OtherPanic.
Proof. unfold get_handle. intros Hl. rewrite lookup_ge_None_2 by exact Hl. reflexivity. Qed.

Lemma Forall_inv_insert st h b : Forall inv st -> inv b -> Forall inv (<[h:=b]> st).
Proof. intros Hst Hb. apply Forall_insert; assumption. Qed.

(* an operation on a handle that does not exist *)
Lemma step_bad st o :
  (length st <= op_handle o)%nat -> step st o = Panic OtherPanic /\ spec_step (abs <$> st) o = None.
Proof.
  intros Hl.
  assert (Hs : (abs <$> st) !! op_handle o = None) by (apply lookup_ge_None_2; rewrite fmap_length; exact Hl).
  destruct o; cbn in *; rewrite get_handle_None by exact Hl; rewrite Hs; auto.
Qed.

(* what an operation writes: its handle, except that Clone writes no existing handle *)
Definition op_target (o : op) : option nat :=
  match o with OClone _ => None | _ => Some (op_handle o) end.

(* one operation: no Go panic, invariant kept, refinement step, frame *)
Lemma step_spec st o :
  Forall inv st -> (op_handle o < length st)%nat ->
  exists st', step st o = Ok st' /\ Forall inv st' /\
    spec_step (abs <$> st) o = Some (abs <$> st') /\
    length st' = (if op_is_clone o then S (length st) else length st) /\
    (forall h, op_target o <> Some h -> (h < length st)%nat -> st' !! h = st !! h).
Proof.
  intros Hst Hl. destruct (lookup_lt_is_Some_2 st _ Hl) as [b Hb].
  assert (Hinv : inv b) by (eapply Forall_lookup_1; eauto).
  assert (Hs : (abs <$> st) !! op_handle o = Some (abs b)) by (rewrite list_lookup_fmap, Hb; reflexivity).
  destruct o as [h k v|h k|h v|h|h]; cbn in *; rewrite (get_handle_Some _ _ _ Hb), Hs; cbn.
  - destruct (Add_spec b k v Hinv) as (b' & E & Hinv' & Habs & _). rewrite E. cbn.
    eexists. split; [reflexivity|]. unfold set_handle. split; [apply Forall_inv_insert; assumption|].
    split; [rewrite list_fmap_insert, Habs; reflexivity|]. split; [apply insert_length|].
    intros h' Hne _. apply list_lookup_insert_ne. congruence.
  - destruct (RemoveForward_spec b k Hinv) as [Hinv' Habs].
    eexists. split; [reflexivity|]. unfold set_handle. split; [apply Forall_inv_insert; assumption|].
    split; [rewrite list_fmap_insert, Habs; reflexivity|]. split; [apply insert_length|].
    intros h' Hne _. apply list_lookup_insert_ne. congruence.
  - destruct (RemoveReverse_spec b v Hinv) as [Hinv' Habs].
    eexists. split; [reflexivity|]. unfold set_handle. split; [apply Forall_inv_insert; assumption|].
    split; [rewrite list_fmap_insert, Habs; reflexivity|]. split; [apply insert_length|].
    intros h' Hne _. apply list_lookup_insert_ne. congruence.
  - destruct (Clear_spec b Hinv) as [Hinv' Habs].
    eexists. split; [reflexivity|]. unfold set_handle. split; [apply Forall_inv_insert; assumption|].
    split; [rewrite list_fmap_insert, Habs; reflexivity|]. split; [apply insert_length|].
    intros h' Hne _. apply list_lookup_insert_ne. congruence.
  - destruct (Clone_spec b Hinv) as (c & E & Hinv' & Habs & _). rewrite E. cbn.
    eexists. split; [reflexivity|]. split; [apply Forall_app; split; [assumption|repeat constructor; assumption]|].
    split; [rewrite fmap_app; cbn; rewrite Habs; reflexivity|]. split; [rewrite app_length; cbn; lia|].
    intros h' _ Hlt. apply lookup_app_l. exact Hlt.
Qed.

Lemma run_from_spec ops : forall st,
  Forall inv st -> wf_ops_from (length st) ops = true ->
  exists st', run_from st ops = Ok st' /\ Forall inv st' /\
    spec_run_from (abs <$> st) ops = Some (abs <$> st').
Proof.
  induction ops as [|o rest IH]; intros st Hst Hwf; cbn [wf_ops_from run_from spec_run_from] in *.
  - eauto.
  - apply andb_true_iff in Hwf as [Hh Hwf]. apply Nat.ltb_lt in Hh.
    destruct (step_spec st o Hst Hh) as (st1 & E & Hst1 & Hsp & Hlen & _).
    rewrite E, Hsp. cbn [bind mbind option_bind]. apply IH; [exact Hst1|]. rewrite Hlen. exact Hwf.
Qed.

Lemma run_from_bad ops : forall st,
  Forall inv st -> wf_ops_from (length st) ops = false ->
  run_from st ops = Panic OtherPanic /\ spec_run_from (abs <$> st) ops = None.
Proof.
  induction ops as [|o rest IH]; intros st Hst Hwf; cbn [wf_ops_from run_from spec_run_from] in *; [discriminate|].
  destruct (Nat.ltb_spec (op_handle o) (length st)) as [Hh|Hh]; cbn [andb] in Hwf.
  - destruct (step_spec st o Hst Hh) as (st1 & E & Hst1 & Hsp & Hlen & _).
    rewrite E, Hsp. cbn [bind mbind option_bind]. apply IH; [exact Hst1|]. rewrite Hlen. exact Hwf.
  - destruct (step_bad st o Hh) as [E Hsp]. rewrite E, Hsp. auto.
Qed.

Lemma Forall_inv_init : Forall inv init_state.
Proof. repeat constructor. Qed.

(* a history runs to completion, without any Go panic, exactly when it only names existing handles *)
Lemma run_total ops :
  (wf_ops ops = true -> exists st, run ops = Ok st) /\
  (wf_ops ops = false -> run ops = Panic OtherPanic) /\
  (forall st, run ops = Ok st -> wf_ops ops = true).
Proof.
  unfold run, wf_ops. split; [|split].
  - intros Hwf. destruct (run_from_spec ops init_state Forall_inv_init Hwf) as (st & E & _). eauto.
  - intros Hwf. apply (run_from_bad ops init_state Forall_inv_init Hwf).
  - intros st E. destruct (wf_ops_from 1 ops) eqn:Hwf; [reflexivity|].
    destruct (run_from_bad ops init_state Forall_inv_init Hwf) as [E' _]. cbn in *. congruence.
Qed.

Lemma run_refines ops st :
  run ops = Ok st ->
  Forall inv st /\ spec_run ops = Some (abs <$> st) /\ Forall injective (abs <$> st).
Proof.
  intros E. pose proof (proj2 (proj2 (run_total ops)) st E) as Hwf.
  unfold run, wf_ops, spec_run in *.
  destruct (run_from_spec ops init_state Forall_inv_init Hwf) as (st' & E' & Hinv & Hsp).
  assert (st' = st) by congruence. subst st'.
  split; [exact Hinv|]. split; [exact Hsp|].
  apply Forall_fmap. eapply Forall_impl; [exact Hinv|]. intros b Hb. apply injective_abs. exact Hb.
Qed.

Lemma run_inv ops st h b : run ops = Ok st -> st !! h = Some b -> inv b.
Proof.
  intros E Hb. destruct (run_refines ops st E) as [Hinv _]. eapply Forall_lookup_1; eauto.
Qed.

(* GetForward and GetReverse are inverse of each other *)
Lemma inverse_lookups b k v : inv b -> GetForward b k = (v, true) <-> GetReverse b v = (k, true).
Proof.
  intros H. destruct (GetReverse_spec b v H) as [Hr _]. rewrite Hr, GetForward_spec.
  destruct (abs b !! k) as [v'|]; split; congruence.
Qed.

(* ---- frame: operations on other handles do not change a handle ---- *)
Lemma run_from_app ops1 : forall st ops2,
  run_from st (ops1 ++ ops2) = (do st1 <- run_from st ops1; run_from st1 ops2).
Proof.
  induction ops1 as [|o rest IH]; intros st ops2; cbn; [reflexivity|].
  destruct (step st o) as [st1|kind]; cbn; [apply IH|reflexivity].
Qed.

Lemma step_length st o st' : step st o = Ok st' -> (length st <= length st')%nat.
Proof.
  destruct o as [h k v|h k|h v|h|h]; cbn; unfold get_handle, set_handle; destruct (st !! h) as [b|]; cbn; try discriminate.
  - destruct (Add b k v); cbn; [|discriminate]. intros [= <-]. rewrite insert_length. lia.
  - intros [= <-]. rewrite insert_length. lia.
  - intros [= <-]. rewrite insert_length. lia.
  - intros [= <-]. rewrite insert_length. lia.
  - destruct (Clone b); cbn; [|discriminate]. intros [= <-]. rewrite app_length. lia.
Qed.

Lemma step_frame st o st' h :
  step st o = Ok st' -> op_target o <> Some h -> (h < length st)%nat -> st' !! h = st !! h.
Proof.
  destruct o as [h0 k v|h0 k|h0 v|h0|h0]; cbn; unfold get_handle, set_handle; destruct (st !! h0) as [b|]; cbn; try discriminate.
  - destruct (Add b k v); cbn; [|discriminate]. intros [= <-] Hne _. apply list_lookup_insert_ne. congruence.
  - intros [= <-] Hne _. apply list_lookup_insert_ne. congruence.
  - intros [= <-] Hne _. apply list_lookup_insert_ne. congruence.
  - intros [= <-] Hne _. apply list_lookup_insert_ne. congruence.
  - destruct (Clone b); cbn; [|discriminate]. intros [= <-] _ Hlt. apply lookup_app_l. exact Hlt.
Qed.

Lemma run_from_frame ops : forall st st' h,
  run_from st ops = Ok st' -> (h < length st)%nat ->
  Forall (fun o => op_target o <> Some h) ops -> st' !! h = st !! h.
Proof.
  induction ops as [|o rest IH]; intros st st' h E Hlt Hall; cbn in E.
  - congruence.
  - destruct (step st o) as [st1|kind] eqn:Es; cbn in E; [|discriminate].
    apply Forall_cons in Hall as [Ho Hall].
    rewrite (IH st1 st' h E); [apply (step_frame st o st1 h Es Ho Hlt)| |exact Hall].
    pose proof (step_length st o st1 Es). lia.
Qed.

Lemma run_frame ops1 ops2 st1 st2 h :
  run ops1 = Ok st1 -> run (ops1 ++ ops2) = Ok st2 -> (h < length st1)%nat ->
  Forall (fun o => op_target o <> Some h) ops2 -> st2 !! h = st1 !! h.
Proof.
  unfold run. intros E1 E2 Hlt Hall. rewrite run_from_app, E1 in E2. cbn in E2.
  eapply run_from_frame; eauto.
Qed.

(* Clone appends a handle that reads exactly like its source and owns allocated maps *)
Lemma run_clone ops h st' :
  run (ops ++ [OClone h]) = Ok st' ->
  exists st b c, run ops = Ok st /\ st !! h = Some b /\ st' = st ++ [c] /\
    inv c /\ abs c = abs b /\ forward c <> None.
Proof.
  unfold run. rewrite run_from_app. intros E.
  destruct (run_from init_state ops) as [st|kind] eqn:E1; cbn in E; [|discriminate].
  unfold get_handle in E. destruct (st !! h) as [b|] eqn:Hb; cbn in E; [|discriminate].
  assert (Hinv : inv b) by (eapply (run_inv ops); eauto).
  destruct (Clone_spec b Hinv) as (c & Ec & Hc & Habs & Hnn). rewrite Ec in E. cbn in E.
  injection E as <-. exists st, b, c. auto 10.
Qed.

(* ---- reading the reference operations pointwise ---- *)
Lemma spec_remove_value_lookup m v k' v' :
  spec_remove_value v m !! k' = Some v' <-> m !! k' = Some v' /\ v' <> v.
Proof. unfold spec_remove_value. rewrite map_filter_lookup_Some. cbn. reflexivity. Qed.

Lemma map_keys_abs b : map_keys (forward b) = (map_to_list (abs b)).*1.
Proof. unfold abs, map_keys. destruct (forward b); cbn; [reflexivity|]. rewrite map_to_list_empty. reflexivity. Qed.

(* ---- Range, packaged for the property file ---- *)
Lemma Range_exactly_once b order {T} (f : T -> Z -> Z -> T * bool) s :
  order ≡ₚ map_keys (forward b) ->
  (forall s k v, snd (f s k v) = true) ->
  fst (Range b order (recording f) ([], s)) ≡ₚ map_to_list (abs b) /\
  (fst (Range b order (recording f) ([], s))).*1 = order.
Proof.
  intros Hp Hall. destruct (Range_spec b order Hp) as (ps & Hfst & Hperm & HR).
  rewrite HR, visit_recording_all by auto. cbn. auto.
Qed.

Lemma Range_prefix b order {T} (f : T -> Z -> Z -> T * bool) s :
  order ≡ₚ map_keys (forward b) ->
  exists ps n, ps.*1 = order /\ ps ≡ₚ map_to_list (abs b) /\
    fst (Range b order (recording f) ([], s)) = take n ps /\
    snd (Range b order (recording f) ([], s)) = Range b order f s.
Proof.
  intros Hp. destruct (Range_spec b order Hp) as (ps & Hfst & Hperm & HR).
  destruct (visit_recording_prefix ps f [] s) as [n En].
  exists ps, n. rewrite !HR, visit_recording_state. auto.
Qed.

Lemma Range_stop b order {T} (f : T -> Z -> Z -> T * bool) s k v :
  order ≡ₚ map_keys (forward b) ->
  abs b !! k = Some v ->
  (forall s k' v', (k', v') <> (k, v) -> snd (f s k' v') = true) ->
  (forall s, snd (f s k v) = false) ->
  exists ps1 ps2, (ps1 ++ (k, v) :: ps2).*1 = order /\ ps1 ++ (k, v) :: ps2 ≡ₚ map_to_list (abs b) /\
    fst (Range b order (recording f) ([], s)) = ps1 ++ [(k, v)].
Proof.
  intros Hp Hkv Hother Hstop. destruct (Range_spec b order Hp) as (ps & Hfst & Hperm & HR).
  assert (Hin : (k, v) ∈ ps) by (rewrite Hperm; apply elem_of_map_to_list; exact Hkv).
  apply elem_of_list_split in Hin as (ps1 & ps2 & ->).
  exists ps1, ps2. split; [exact Hfst|]. split; [exact Hperm|].
  rewrite HR, visit_recording_stop; [reflexivity| |exact Hstop].
  intros s0 k' v' Hin'. apply Hother. intros E. rewrite E in Hin'.
  assert (Hnd : NoDup (ps1 ++ (k, v) :: ps2)) by (rewrite Hperm; apply NoDup_map_to_list).
  apply NoDup_app in Hnd as (_ & Hdis & _). apply (Hdis _ Hin'). apply elem_of_cons; auto.
Qed.

Lemma order_irrelevant b order_f order_r :
  order_f ≡ₚ map_keys (forward b) -> order_r ≡ₚ map_keys (reverse b) ->
  Clear_order order_f order_r b = Clear b /\ Clone_order order_f order_r b = Clone b.
Proof.
  intros Hf Hr. unfold Clear, Clone.
  rewrite (Clear_order_eq order_f order_r b Hf Hr), (Clone_order_eq order_f order_r b Hf Hr).
  rewrite Clear_order_eq, Clone_order_eq by reflexivity. auto.
Qed.

(* every observer of a handle after a history, read off the reference state *)
Lemma observers ops st h b :
  run ops = Ok st -> st !! h = Some b ->
  exists sp m, spec_run ops = Some sp /\ sp !! h = Some m /\ injective m /\ m = abs b /\
    (forall k, GetForward b k = match m !! k with Some v => (v, true) | None => (0, false) end) /\
    (forall k, ContainsForward b k = bool_decide (is_Some (m !! k))) /\
    (forall v k, GetReverse b v = (k, true) <-> m !! k = Some v) /\
    (forall v, GetReverse b v = (0, false) \/ exists k, GetReverse b v = (k, true)) /\
    (forall v, ContainsReverse b v = true <-> exists k, m !! k = Some v) /\
    (forall v, ContainsReverse b v = snd (GetReverse b v)) /\
    Len (Some b) = Z.of_nat (size m) /\
    map_len (reverse b) = map_len (forward b).
Proof.
  intros E Hb. destruct (run_refines ops st E) as (Hinv & Hsp & Hinj).
  assert (Hi : inv b) by (eapply Forall_lookup_1; eauto).
  exists (abs <$> st), (abs b). split; [exact Hsp|].
  split; [rewrite list_lookup_fmap, Hb; reflexivity|].
  split; [apply injective_abs; exact Hi|]. split; [reflexivity|].
  split; [intros k; apply GetForward_spec|].
  split; [intros k; apply ContainsForward_spec|].
  split; [intros v k; apply (GetReverse_spec b v Hi)|].
  split; [intros v; apply (GetReverse_spec b v Hi)|].
  split; [intros v; apply (ContainsReverse_spec b v Hi)|].
  split; [intros v; apply (ContainsReverse_spec b v Hi)|].
  split; [apply Len_spec|apply Len_reverse; exact Hi].
Qed.

Lemma run_inverse ops st h b :
  run ops = Ok st -> st !! h = Some b ->
  forall k v, GetForward b k = (v, true) <-> GetReverse b v = (k, true).
Proof. intros E Hb k v. apply inverse_lookups. eapply run_inv; eauto. Qed.

Lemma run_range ops st h b order :
  run ops = Ok st -> st !! h = Some b -> order ≡ₚ map_keys (forward b) ->
  exists ps, ps.*1 = order /\ ps ≡ₚ map_to_list (abs b) /\
    forall T (f : T -> Z -> Z -> T * bool) s, Range b order f s = visit ps f s.
Proof. intros _ _. apply Range_spec. Qed.

(* ---- the effect of each operation, in terms of the observers only ---- *)
Lemma GetForward_char b k r :
  GetForward b k = r <->
  (exists v, r = (v, true) /\ abs b !! k = Some v) \/ (r = (0, false) /\ abs b !! k = None).
Proof.
  rewrite GetForward_spec. destruct (abs b !! k) as [v|]; split.
  - intros <-. left. eauto.
  - intros [(v' & -> & [= ->])|[_ ?]]; [reflexivity|discriminate].
  - intros <-. right. auto.
  - intros [(v' & _ & ?)|[-> _]]; [discriminate|reflexivity].
Qed.

Lemma GetReverse_char b v r : inv b ->
  GetReverse b v = r <->
  (exists k, r = (k, true) /\ abs b !! k = Some v) \/ (r = (0, false) /\ forall k, abs b !! k <> Some v).
Proof.
  intros H. destruct (GetReverse_spec b v H) as (Hsome & Hcases & Hnone). split.
  - intros <-. destruct Hcases as [E|[k E]].
    + right. split; [exact E|]. apply Hnone. exact E.
    + left. exists k. split; [exact E|]. apply Hsome. exact E.
  - intros [(k & -> & Hk)|[-> Hno]].
    + apply Hsome. exact Hk.
    + destruct Hcases as [E|[k E]]; [exact E|]. exfalso. apply (Hno k). apply Hsome. exact E.
Qed.

(* observers of b' from a pointwise description of its pair set *)
Lemma effect_forward b' (P : Z -> Z -> Prop) k' r :
  (forall k v, abs b' !! k = Some v <-> P k v) ->
  ((exists v, r = (v, true) /\ P k' v) \/ (r = (0, false) /\ forall v, ~ P k' v)) ->
  GetForward b' k' = r.
Proof.
  intros HP Hr. apply GetForward_char. destruct Hr as [(v & -> & Hv)|[-> Hno]].
  - left. exists v. split; [reflexivity|]. apply HP. exact Hv.
  - right. split; [reflexivity|]. destruct (abs b' !! k') as [v|] eqn:E; [|reflexivity].
    exfalso. apply (Hno v). apply HP. exact E.
Qed.

Lemma effect_reverse b' (P : Z -> Z -> Prop) v' r : inv b' ->
  (forall k v, abs b' !! k = Some v <-> P k v) ->
  ((exists k, r = (k, true) /\ P k v') \/ (r = (0, false) /\ forall k, ~ P k v')) ->
  GetReverse b' v' = r.
Proof.
  intros Hi HP Hr. apply (GetReverse_char b' v' r Hi). destruct Hr as [(k & -> & Hk)|[-> Hno]].
  - left. exists k. split; [reflexivity|]. apply HP. exact Hk.
  - right. split; [reflexivity|]. intros k E. apply (Hno k). apply HP. exact E.
Qed.

Lemma Add_effect b k v b' : inv b -> Add b k v = Ok b' ->
  (forall k', GetForward b' k' =
     if decide (k' = k) then (v, true)
     else if decide (GetForward b k' = (v, true)) then (0, false) else GetForward b k') /\
  (forall v', GetReverse b' v' =
     if decide (v' = v) then (k, true)
     else if decide (GetReverse b v' = (k, true)) then (0, false) else GetReverse b v').
Proof.
  intros Hi E. destruct (Add_spec b k v Hi) as (b0 & E0 & Hi' & Habs & _).
  assert (b0 = b') by congruence. subst b0.
  assert (HP : forall k0 v0, abs b' !! k0 = Some v0 <-> add_rel (abs b) k v k0 v0)
    by (intros; rewrite Habs; apply spec_add_lookup).
  pose proof (injective_abs b Hi) as Hinj.
  split.
  - intros k'. apply (effect_forward b' _ k' _ HP). unfold add_rel.
    destruct (decide (k' = k)) as [->|Hk]; [left; exists v; auto|].
    destruct (decide (GetForward b k' = (v, true))) as [Ev|Ev].
    + right. split; [reflexivity|]. intros v0 [[? _]|(_ & Hv0 & E0')]; [contradiction|].
      apply GetForward_char in Ev as [(v1 & [= <-] & E1)|[? _]]; [|discriminate]. congruence.
    + destruct (abs b !! k') as [v1|] eqn:E1.
      * left. exists v1. split; [apply GetForward_char; left; eauto|]. right. repeat split; auto.
        intros ->. apply Ev. apply GetForward_char. left. eauto.
      * right. split; [apply GetForward_char; right; auto|].
        intros v0 [[? _]|(_ & _ & E0')]; [contradiction|congruence].
  - intros v'. apply (effect_reverse b' _ v' _ Hi' HP). unfold add_rel.
    destruct (decide (v' = v)) as [->|Hv]; [left; exists k; auto|].
    destruct (decide (GetReverse b v' = (k, true))) as [Ek|Ek].
    + right. split; [reflexivity|]. intros k0 [[_ ?]|(Hk0 & _ & E0')]; [contradiction|].
      apply (GetReverse_char b v' _ Hi) in Ek as [(k1 & [= <-] & E1)|[? _]]; [|discriminate].
      apply Hk0. eapply Hinj; eauto.
    + destruct (proj1 (GetReverse_char b v' _ Hi) eq_refl) as [(k1 & Er & E1)|[Er Hno]].
      * left. exists k1. split; [exact Er|]. right. repeat split; auto.
        intros ->. apply Ek. exact Er.
      * right. split; [exact Er|]. intros k0 [[_ ?]|(_ & _ & E0')]; [contradiction|]. apply (Hno k0 E0').
Qed.

Lemma RemoveForward_effect b k : inv b ->
  (forall k', GetForward (RemoveForward b k) k' = if decide (k' = k) then (0, false) else GetForward b k') /\
  (forall v', GetReverse (RemoveForward b k) v' =
     if decide (GetReverse b v' = (k, true)) then (0, false) else GetReverse b v').
Proof.
  intros Hi. destruct (RemoveForward_spec b k Hi) as [Hi' Habs].
  set (b' := RemoveForward b k) in *.
  assert (HP : forall k0 v0, abs b' !! k0 = Some v0 <-> k <> k0 /\ abs b !! k0 = Some v0)
    by (intros; rewrite Habs; apply lookup_delete_Some).
  pose proof (injective_abs b Hi) as Hinj.
  split.
  - intros k'. apply (effect_forward b' _ k' _ HP).
    destruct (decide (k' = k)) as [->|Hk]; [right; split; [reflexivity|]; intros v0 [Hne _]; congruence|].
    destruct (abs b !! k') as [v1|] eqn:E1.
    + left. exists v1. split; [apply GetForward_char; left; eauto|]. split; [congruence|reflexivity].
    + right. split; [apply GetForward_char; right; auto|]. intros v0 [_ ?]. congruence.
  - intros v'. apply (effect_reverse b' _ v' _ Hi' HP).
    destruct (decide (GetReverse b v' = (k, true))) as [Ek|Ek].
    + right. split; [reflexivity|]. intros k0 [Hk0 E0'].
      apply (GetReverse_char b v' _ Hi) in Ek as [(k1 & [= <-] & E1)|[? _]]; [|discriminate].
      apply Hk0. eapply Hinj; eauto.
    + destruct (proj1 (GetReverse_char b v' _ Hi) eq_refl) as [(k1 & Er & E1)|[Er Hno]].
      * left. exists k1. split; [exact Er|]. split; [|exact E1]. intros E'. subst k1. apply Ek. exact Er.
      * right. split; [exact Er|]. intros k0 [_ E0']. apply (Hno k0 E0').
Qed.

Lemma RemoveReverse_effect b v : inv b ->
  (forall v', GetReverse (RemoveReverse b v) v' = if decide (v' = v) then (0, false) else GetReverse b v') /\
  (forall k', GetForward (RemoveReverse b v) k' =
     if decide (GetForward b k' = (v, true)) then (0, false) else GetForward b k').
Proof.
  intros Hi. destruct (RemoveReverse_spec b v Hi) as [Hi' Habs].
  set (b' := RemoveReverse b v) in *.
  assert (HP : forall k0 v0, abs b' !! k0 = Some v0 <-> abs b !! k0 = Some v0 /\ v0 <> v)
    by (intros; rewrite Habs; apply spec_remove_value_lookup).
  split.
  - intros v'. apply (effect_reverse b' _ v' _ Hi' HP).
    destruct (decide (v' = v)) as [->|Hv]; [right; split; [reflexivity|]; intros k0 [_ ?]; contradiction|].
    destruct (proj1 (GetReverse_char b v' _ Hi) eq_refl) as [(k1 & Er & E1)|[Er Hno]].
    + left. exists k1. auto.
    + right. split; [exact Er|]. intros k0 [E0' _]. apply (Hno k0 E0').
  - intros k'. apply (effect_forward b' _ k' _ HP).
    destruct (decide (GetForward b k' = (v, true))) as [Ev|Ev].
    + right. split; [reflexivity|]. intros v0 [E0' Hv0].
      apply GetForward_char in Ev as [(v1 & [= <-] & E1)|[? _]]; [|discriminate]. congruence.
    + destruct (abs b !! k') as [v1|] eqn:E1.
      * left. exists v1. split; [apply GetForward_char; left; eauto|]. split; [reflexivity|].
        intros ->. apply Ev. apply GetForward_char. left. eauto.
      * right. split; [apply GetForward_char; right; auto|]. intros v0 [? _]. congruence.
Qed.

Lemma Clear_effect b : inv b ->
  (forall k', GetForward (Clear b) k' = (0, false)) /\ (forall v', GetReverse (Clear b) v' = (0, false)).
Proof.
  intros Hi. destruct (Clear_spec b Hi) as [Hi' Habs].
  assert (HP : forall k0 v0 : Z, abs (Clear b) !! k0 = Some v0 <-> False)
    by (intros; rewrite Habs, lookup_empty; split; [discriminate|contradiction]).
  split.
  - intros k'. apply (effect_forward _ _ k' _ HP). right. auto.
  - intros v'. apply (effect_reverse _ _ v' _ Hi' HP). right. auto.
Qed.

(* lifting to histories: the last operation of a history *)
Lemma run_snoc ops o st' :
  run (ops ++ [o]) = Ok st' -> exists st, run ops = Ok st /\ Forall inv st /\ step st o = Ok st'.
Proof.
  unfold run. rewrite run_from_app. intros E.
  destruct (run_from init_state ops) as [st|kind] eqn:E1; cbn in E; [|discriminate].
  exists st. split; [reflexivity|]. split; [apply (run_refines ops st E1)|].
  destruct (step st o); cbn in E; congruence.
Qed.

Lemma run_add_effect ops h k v st' :
  run (ops ++ [OAdd h k v]) = Ok st' ->
  exists st b b', run ops = Ok st /\ st !! h = Some b /\ st' = <[h:=b']> st /\ st' !! h = Some b' /\
  (forall k', GetForward b' k' =
     if decide (k' = k) then (v, true)
     else if decide (GetForward b k' = (v, true)) then (0, false) else GetForward b k') /\
  (forall v', GetReverse b' v' =
     if decide (v' = v) then (k, true)
     else if decide (GetReverse b v' = (k, true)) then (0, false) else GetReverse b v').
Proof.
  intros E. destruct (run_snoc _ _ _ E) as (st & E1 & Hinv & Es). cbn in Es.
  unfold get_handle, set_handle in Es. destruct (st !! h) as [b|] eqn:Hb; cbn in Es; [|discriminate].
  destruct (Add b k v) as [b'|] eqn:Ea; cbn in Es; [|discriminate]. injection Es as <-.
  assert (Hi : inv b) by (eapply Forall_lookup_1; eauto).
  exists st, b, b'. split; [exact E1|]. split; [exact Hb|]. split; [reflexivity|].
  split; [apply list_lookup_insert; eapply lookup_lt_Some; eauto|].
  apply Add_effect; assumption.
Qed.

Lemma run_remove_forward_effect ops h k st' :
  run (ops ++ [ORemoveForward h k]) = Ok st' ->
  exists st b b', run ops = Ok st /\ st !! h = Some b /\ st' = <[h:=b']> st /\ st' !! h = Some b' /\
  (forall k', GetForward b' k' = if decide (k' = k) then (0, false) else GetForward b k') /\
  (forall v', GetReverse b' v' = if decide (GetReverse b v' = (k, true)) then (0, false) else GetReverse b v').
Proof.
  intros E. destruct (run_snoc _ _ _ E) as (st & E1 & Hinv & Es). cbn in Es.
  unfold get_handle, set_handle in Es. destruct (st !! h) as [b|] eqn:Hb; cbn in Es; [|discriminate].
  injection Es as <-. assert (Hi : inv b) by (eapply Forall_lookup_1; eauto).
  exists st, b, (RemoveForward b k). split; [exact E1|]. split; [exact Hb|]. split; [reflexivity|].
  split; [apply list_lookup_insert; eapply lookup_lt_Some; eauto|].
  apply RemoveForward_effect; assumption.
Qed.

Lemma run_remove_reverse_effect ops h v st' :
  run (ops ++ [ORemoveReverse h v]) = Ok st' ->
  exists st b b', run ops = Ok st /\ st !! h = Some b /\ st' = <[h:=b']> st /\ st' !! h = Some b' /\
  (forall v', GetReverse b' v' = if decide (v' = v) then (0, false) else GetReverse b v') /\
  (forall k', GetForward b' k' = if decide (GetForward b k' = (v, true)) then (0, false) else GetForward b k').
Proof.
  intros E. destruct (run_snoc _ _ _ E) as (st & E1 & Hinv & Es). cbn in Es.
  unfold get_handle, set_handle in Es. destruct (st !! h) as [b|] eqn:Hb; cbn in Es; [|discriminate].
  injection Es as <-. assert (Hi : inv b) by (eapply Forall_lookup_1; eauto).
  exists st, b, (RemoveReverse b v). split; [exact E1|]. split; [exact Hb|]. split; [reflexivity|].
  split; [apply list_lookup_insert; eapply lookup_lt_Some; eauto|].
  apply RemoveReverse_effect; assumption.
Qed.

Lemma run_clear_effect ops h st' :
  run (ops ++ [OClear h]) = Ok st' ->
  exists st b b', run ops = Ok st /\ st !! h = Some b /\ st' = <[h:=b']> st /\ st' !! h = Some b' /\
  (forall k', GetForward b' k' = (0, false)) /\ (forall v', GetReverse b' v' = (0, false)) /\ Len (Some b') = 0.
Proof.
  intros E. destruct (run_snoc _ _ _ E) as (st & E1 & Hinv & Es). cbn in Es.
  unfold get_handle, set_handle in Es. destruct (st !! h) as [b|] eqn:Hb; cbn in Es; [|discriminate].
  injection Es as <-. assert (Hi : inv b) by (eapply Forall_lookup_1; eauto).
  exists st, b, (Clear b). split; [exact E1|]. split; [exact Hb|]. split; [reflexivity|].
  split; [apply list_lookup_insert; eapply lookup_lt_Some; eauto|].
  destruct (Clear_effect b Hi) as [Hf Hr]. split; [exact Hf|]. split; [exact Hr|].
  rewrite Len_spec. destruct (Clear_spec b Hi) as [_ ->]. rewrite map_size_empty. reflexivity.
Qed.

(* the reference states on their own: every reachable reference state is injective *)
Lemma spec_run_injective ops sp : spec_run ops = Some sp -> Forall injective sp.
Proof.
  intros Hsp. destruct (wf_ops ops) eqn:Hwf.
  - destruct (proj1 (run_total ops) Hwf) as [st E].
    destruct (run_refines ops st E) as (_ & Hsp' & Hinj). congruence.
  - unfold wf_ops, spec_run in *.
    destruct (run_from_bad ops init_state Forall_inv_init Hwf) as [_ Hn]. cbn in Hn. congruence.
Qed.
