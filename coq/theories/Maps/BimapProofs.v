(* Proofs about the Bimap model (Maps/Bimap.v): the two maps stay mutually
   inverse, every operation refines the injective-finite-map reference, the
   observers read that reference, Range enumerates it once in any order, the
   map loops of maps.Clone / maps.Clear do not depend on the visit order, and
   operations on one handle leave every other handle untouched. *)
From Typ Require Import Lib.Base Maps.Bimap.
Local Open Scope Z_scope.

(* ---- the representation invariant ---- *)
Definition inverse (f r : gmap Z Z) : Prop := forall k v, f !! k = Some v <-> r !! v = Some k.

(* both maps nil (zero value) or both allocated and mutually inverse *)
Definition inv (b : bimap) : Prop :=
  match forward b, reverse b with
  | None, None => True
  | Some f, Some r => inverse f r
  | _, _ => False
  end.

Lemma inverse_inj_l f r k1 k2 v : inverse f r -> f !! k1 = Some v -> f !! k2 = Some v -> k1 = k2.
Proof.
  intros H H1 H2. apply H in H1. apply H in H2. congruence.
Qed.

Lemma inverse_inj_r f r v1 v2 k : inverse f r -> r !! v1 = Some k -> r !! v2 = Some k -> v1 = v2.
Proof.
  intros H H1 H2. apply H in H1. apply H in H2. congruence.
Qed.

Lemma inverse_empty : inverse ∅ ∅.
Proof. intros k v. rewrite !lookup_empty. split; discriminate. Qed.

Lemma inv_zero : inv zero_bimap.
Proof. exact I. Qed.

Lemma inv_cases b :
  inv b ->
  (forward b = None /\ reverse b = None) \/
  (exists f r, forward b = Some f /\ reverse b = Some r /\ inverse f r).
Proof.
  unfold inv. destruct b as [[f|] [r|]]; cbn; intros H; try contradiction; eauto 6.
Qed.

Lemma injective_abs b : inv b -> injective (abs b).
Proof.
  intros H. destruct (inv_cases b H) as [[Hf Hr]|(f & r & Hf & Hr & Hi)]; unfold abs; rewrite Hf; cbn.
  - intros k1 k2 v E. rewrite lookup_empty in E. discriminate.
  - intros k1 k2 v. apply (inverse_inj_l f r); exact Hi.
Qed.

(* ---- Add ---- *)

(* what the two maps hold after Add, in terms of the old forward map *)
Definition add_rel (f : gmap Z Z) (k v k' v' : Z) : Prop :=
  (k' = k /\ v' = v) \/ (k' <> k /\ v' <> v /\ f !! k' = Some v').

Lemma spec_add_lookup f k v k' v' :
  spec_add k v f !! k' = Some v' <-> add_rel f k v k' v'.
Proof.
  unfold spec_add, spec_remove_value, add_rel.
  rewrite lookup_insert_Some, map_filter_lookup_Some, lookup_delete_Some. cbn. naive_solver.
Qed.

Lemma map_eq_rel (m1 m2 : gmap Z Z) :
  (forall k v, m1 !! k = Some v <-> m2 !! k = Some v) -> m1 = m2.
Proof.
  intros H. apply map_eq. intros k. apply option_eq. intros v. apply H.
Qed.

Lemma Add_some f r k v :
  inverse f r ->
  exists f' r', Add (Bimap (Some f) (Some r)) k v = Ok (Bimap (Some f') (Some r')) /\
    (forall k' v', f' !! k' = Some v' <-> add_rel f k v k' v') /\
    (forall k' v', r' !! v' = Some k' <-> add_rel f k v k' v').
Proof.
  intros H.
  assert (Hl := inverse_inj_l f r).
  unfold Add, GetForward, GetReverse, add_rel. cbn.
  destruct (f !! k) as [ov|] eqn:Hfk; cbn.
  - (* the key is present, paired with ov *)
    assert (Hrov : r !! ov = Some k) by (apply H; exact Hfk).
    destruct (delete ov r !! v) as [okey|] eqn:Hrv; cbn.
    + apply lookup_delete_Some in Hrv as [Hne Hrv].
      assert (Hfok : f !! okey = Some v) by (apply H; exact Hrv).
      eexists _, _. split; [reflexivity|]. split; intros k' v'.
      * rewrite lookup_insert_Some, lookup_delete_Some. split.
        -- intros [[<- <-]|(Hk & Hok & Hf)]; [left; auto|]. right. repeat split; auto.
           intros ->. apply Hok. eapply Hl; eauto.
        -- intros [[-> ->]|(Hk & Hv & Hf)]; [left; auto|]. right. repeat split; auto.
           intros <-. congruence.
      * rewrite lookup_insert_Some, lookup_delete_Some. split.
        -- intros [[<- <-]|(Hv & Hov & Hr)]; [left; auto|]. apply H in Hr. right. repeat split; auto.
           intros ->. congruence.
        -- intros [[-> ->]|(Hk & Hv & Hf)]; [left; auto|]. right. repeat split; auto.
           ++ intros <-. apply Hk. eapply Hl; eauto.
           ++ apply H. exact Hf.
    + (* the value is absent from the reverse map once ov is gone *)
      eexists _, _. split; [reflexivity|]. split; intros k' v'.
      * rewrite lookup_insert_Some. split.
        -- intros [[<- <-]|(Hk & Hf)]; [left; auto|]. right. repeat split; auto.
           intros ->. apply H in Hf.
           destruct (decide (ov = v)) as [->|Hne]; [apply Hk; congruence|].
           rewrite lookup_delete_ne in Hrv by exact Hne. congruence.
        -- intros [[-> ->]|(Hk & Hv & Hf)]; [left; auto|]. right. auto.
      * rewrite lookup_insert_Some, lookup_delete_Some. split.
        -- intros [[<- <-]|(Hv & Hov & Hr)]; [left; auto|]. apply H in Hr. right. repeat split; auto.
           intros ->. congruence.
        -- intros [[-> ->]|(Hk & Hv & Hf)]; [left; auto|]. right. repeat split; auto.
           ++ intros <-. apply Hk. eapply Hl; eauto.
           ++ apply H. exact Hf.
  - (* the key is absent *)
    destruct (r !! v) as [okey|] eqn:Hrv; cbn.
    + assert (Hfok : f !! okey = Some v) by (apply H; exact Hrv).
      eexists _, _. split; [reflexivity|]. split; intros k' v'.
      * rewrite lookup_insert_Some, lookup_delete_Some. split.
        -- intros [[<- <-]|(Hk & Hok & Hf)]; [left; auto|]. right. repeat split; auto.
           intros ->. apply Hok. eapply Hl; eauto.
        -- intros [[-> ->]|(Hk & Hv & Hf)]; [left; auto|]. right. repeat split; auto.
           intros <-. congruence.
      * rewrite lookup_insert_Some. split.
        -- intros [[<- <-]|(Hv & Hr)]; [left; auto|]. apply H in Hr. right. repeat split; auto.
           intros ->. congruence.
        -- intros [[-> ->]|(Hk & Hv & Hf)]; [left; auto|]. right. split; auto. apply H. exact Hf.
    + eexists _, _. split; [reflexivity|]. split; intros k' v'.
      * rewrite lookup_insert_Some. split.
        -- intros [[<- <-]|(Hk & Hf)]; [left; auto|]. right. repeat split; auto.
           intros ->. apply H in Hf. congruence.
        -- intros [[-> ->]|(Hk & Hv & Hf)]; [left; auto|]. right. auto.
      * rewrite lookup_insert_Some. split.
        -- intros [[<- <-]|(Hv & Hr)]; [left; auto|]. apply H in Hr. right. repeat split; auto.
           intros ->. congruence.
        -- intros [[-> ->]|(Hk & Hv & Hf)]; [left; auto|]. right. split; auto. apply H. exact Hf.
Qed.

Lemma Add_spec b k v :
  inv b -> exists b', Add b k v = Ok b' /\ inv b' /\ abs b' = spec_add k v (abs b) /\ forward b' <> None.
Proof.
  intros H. destruct (inv_cases b H) as [[Hf Hr]|(f & r & Hf & Hr & Hi)]; destruct b as [bf br]; cbn in *; subst.
  - (* zero value: the lazy make, then the two writes *)
    eexists. split; [reflexivity|]. cbn. split; [|split; [|discriminate]].
    + unfold inv. cbn. intros k' v'. rewrite !lookup_insert_Some, !lookup_empty. naive_solver.
    + unfold abs. cbn. apply map_eq_rel. intros k' v'.
      rewrite spec_add_lookup. unfold add_rel. rewrite lookup_insert_Some, !lookup_empty. naive_solver.
  - destruct (Add_some f r k v Hi) as (f' & r' & E & Hf' & Hr').
    exists (Bimap (Some f') (Some r')). split; [exact E|]. split; [|split; [|discriminate]].
    + unfold inv. cbn. intros k' v'. rewrite Hf', Hr'. reflexivity.
    + unfold abs. cbn. apply map_eq_rel. intros k' v'. rewrite Hf', spec_add_lookup. reflexivity.
Qed.

(* ---- RemoveForward / RemoveReverse ---- *)
Lemma RemoveForward_spec b k :
  inv b -> inv (RemoveForward b k) /\ abs (RemoveForward b k) = delete k (abs b).
Proof.
  intros H. destruct (inv_cases b H) as [[Hf Hr]|(f & r & Hf & Hr & Hi)]; destruct b as [bf br]; cbn in *; subst.
  - unfold RemoveForward, abs. cbn. split; [exact I|]. rewrite delete_empty. reflexivity.
  - unfold RemoveForward, abs. cbn. destruct (f !! k) as [v|] eqn:Hfk; cbn.
    + split; [|reflexivity]. unfold inv. cbn. intros k' v'.
      rewrite !lookup_delete_Some. split.
      * intros [Hk Hf]. split; [|apply Hi; exact Hf]. intros <-. apply Hk. eapply inverse_inj_l; eauto.
      * intros [Hv Hr]. apply Hi in Hr. split; [|exact Hr]. intros <-. congruence.
    + split; [exact Hi|]. rewrite delete_notin by exact Hfk. reflexivity.
Qed.

Lemma RemoveReverse_spec b v :
  inv b -> inv (RemoveReverse b v) /\ abs (RemoveReverse b v) = spec_remove_value v (abs b).
Proof.
  intros H. destruct (inv_cases b H) as [[Hf Hr]|(f & r & Hf & Hr & Hi)]; destruct b as [bf br]; cbn in *; subst.
  - unfold RemoveReverse, abs, spec_remove_value. cbn. split; [exact I|]. rewrite map_filter_empty. reflexivity.
  - unfold RemoveReverse, abs. cbn. destruct (r !! v) as [k|] eqn:Hrv; cbn.
    + assert (Hfk : f !! k = Some v) by (apply Hi; exact Hrv).
      split.
      * unfold inv. cbn. intros k' v'. rewrite !lookup_delete_Some. split.
        -- intros [Hk Hf]. split; [|apply Hi; exact Hf]. intros <-. congruence.
        -- intros [Hv Hr]. apply Hi in Hr. split; [|exact Hr]. intros <-. congruence.
      * apply map_eq_rel. intros k' v'. unfold spec_remove_value.
        rewrite lookup_delete_Some, map_filter_lookup_Some. cbn. split.
        -- intros [Hk Hf]. split; [exact Hf|]. intros ->. apply Hk. eapply inverse_inj_l; eauto.
        -- intros [Hf Hv]. split; [|exact Hf]. intros <-. congruence.
    + split; [exact Hi|]. symmetry. apply map_eq_rel. intros k' v'. unfold spec_remove_value.
      rewrite map_filter_lookup_Some. cbn. split; [tauto|]. intros Hf. split; [exact Hf|].
      intros ->. apply Hi in Hf. congruence.
Qed.

(* ---- the loops of maps.Clear and maps.Clone, for every visit order ---- *)
Lemma maps_clear_loop_nil order : maps_clear_loop order None = None.
Proof. induction order as [|k rest IH]; cbn; auto. Qed.

Lemma maps_clear_loop_some order : forall g,
  (forall k, is_Some (g !! k) -> k ∈ order) -> maps_clear_loop order (Some g) = Some ∅.
Proof.
  induction order as [|k rest IH]; intros g Hcov; cbn.
  - f_equal. apply map_empty. intros k. destruct (g !! k) eqn:E; [|reflexivity].
    exfalso. eapply not_elem_of_nil. apply Hcov. rewrite E. eauto.
  - destruct (g !! k) as [v|] eqn:Hgk; cbn.
    + apply IH. intros k' Hk'. destruct (decide (k' = k)) as [->|Hne].
      * rewrite lookup_delete in Hk'. destruct Hk' as [? ?]. discriminate.
      * rewrite lookup_delete_ne in Hk' by auto. apply Hcov in Hk'.
        apply elem_of_cons in Hk' as [?|?]; [contradiction|assumption].
    + apply IH. intros k' Hk'. pose proof (Hcov k' Hk') as Hin.
      apply elem_of_cons in Hin as [->|?]; [|assumption].
      rewrite Hgk in Hk'. destruct Hk' as [? ?]. discriminate.
Qed.

Lemma elem_of_map_keys g k : k ∈ map_keys (Some g) <-> is_Some (g !! k).
Proof.
  unfold map_keys. rewrite elem_of_list_fmap. split.
  - intros ([k' v] & -> & Hin). apply elem_of_map_to_list in Hin. cbn. eauto.
  - intros [v Hv]. exists (k, v). split; [reflexivity|]. apply elem_of_map_to_list. exact Hv.
Qed.

(* the result of Clear does not depend on the order in which the range statement produces the keys *)
Lemma maps_clear_order_spec order m :
  order ≡ₚ map_keys m -> maps_clear_order order m = match m with None => None | Some _ => Some ∅ end.
Proof.
  intros Hp. unfold maps_clear_order. destruct m as [g|].
  - apply maps_clear_loop_some. intros k Hk. rewrite Hp. apply elem_of_map_keys. exact Hk.
  - apply maps_clear_loop_nil.
Qed.

Lemma maps_clear_spec m : maps_clear m = match m with None => None | Some _ => Some ∅ end.
Proof. apply maps_clear_order_spec. reflexivity. Qed.

Lemma maps_clone_loop_nil order acc : maps_clone_loop None order acc = Ok acc.
Proof. revert acc. induction order as [|k rest IH]; intros acc; cbn; auto. Qed.

Lemma maps_clone_loop_some g order : forall acc,
  exists acc', maps_clone_loop (Some g) order (Some acc) = Ok (Some acc') /\
    forall k, acc' !! k = if decide (k ∈ order /\ is_Some (g !! k)) then g !! k else acc !! k.
Proof.
  induction order as [|k0 rest IH]; intros acc; cbn.
  - exists acc. split; [reflexivity|]. intros k. destruct (decide _) as [[Hin _]|_]; [|reflexivity].
    exfalso. eapply not_elem_of_nil. exact Hin.
  - destruct (g !! k0) as [v0|] eqn:Hg0; cbn.
    + destruct (IH (<[k0:=v0]> acc)) as (acc' & E & Hacc'). exists acc'. split; [exact E|].
      intros k. rewrite Hacc'. destruct (decide (k ∈ rest /\ is_Some (g !! k))) as [[Hin Hs]|Hn].
      * rewrite decide_True; [reflexivity|]. split; [apply elem_of_cons; auto|exact Hs].
      * destruct (decide (k = k0)) as [->|Hne].
        -- rewrite lookup_insert. rewrite decide_True; [auto|]. split; [apply elem_of_cons; auto|]. rewrite Hg0. eauto.
        -- rewrite lookup_insert_ne by auto. rewrite decide_False; [reflexivity|].
           intros [Hin Hs]. apply Hn. split; [|exact Hs]. apply elem_of_cons in Hin as [?|?]; [contradiction|assumption].
    + destruct (IH acc) as (acc' & E & Hacc'). exists acc'. split; [exact E|].
      intros k. rewrite Hacc'. destruct (decide (k ∈ rest /\ is_Some (g !! k))) as [[Hin Hs]|Hn].
      * rewrite decide_True; [reflexivity|]. split; [apply elem_of_cons; auto|exact Hs].
      * rewrite decide_False; [reflexivity|]. intros [Hin Hs]. apply Hn. split; [|exact Hs].
        apply elem_of_cons in Hin as [->|?]; [|assumption]. rewrite Hg0 in Hs. destruct Hs as [? ?]. discriminate.
Qed.

(* the result of Clone does not depend on the visit order: an allocated copy with the same contents; nil becomes empty *)
Lemma maps_clone_order_spec order m :
  order ≡ₚ map_keys m -> maps_clone_order order m = Ok (Some (default ∅ m)).
Proof.
  intros Hp. unfold maps_clone_order. destruct m as [g|]; cbn.
  - destruct (maps_clone_loop_some g order ∅) as (acc' & E & Hacc'). rewrite E. do 2 f_equal.
    apply map_eq. intros k. rewrite Hacc'. destruct (decide _) as [_|Hn]; [reflexivity|].
    rewrite lookup_empty. destruct (g !! k) as [v|] eqn:Hgk; [|reflexivity].
    exfalso. apply Hn. split; [|eauto]. rewrite Hp. apply elem_of_map_keys. rewrite Hgk. eauto.
  - apply maps_clone_loop_nil.
Qed.

Lemma maps_clone_spec m : maps_clone m = Ok (Some (default ∅ m)).
Proof. apply maps_clone_order_spec. reflexivity. Qed.

(* ---- Clear / Clone of a Bimap ---- *)
Lemma Clear_order_eq order_f order_r b :
  order_f ≡ₚ map_keys (forward b) -> order_r ≡ₚ map_keys (reverse b) ->
  Clear_order order_f order_r b =
  Bimap (match forward b with None => None | Some _ => Some ∅ end)
        (match reverse b with None => None | Some _ => Some ∅ end).
Proof.
  intros Hf Hr. unfold Clear_order. cbn. rewrite !maps_clear_order_spec by assumption. reflexivity.
Qed.

Lemma Clear_spec b : inv b -> inv (Clear b) /\ abs (Clear b) = ∅.
Proof.
  intros H. unfold Clear. rewrite Clear_order_eq by reflexivity.
  destruct (inv_cases b H) as [[Hf Hr]|(f & r & Hf & Hr & Hi)]; rewrite Hf, Hr; unfold inv, abs; cbn.
  - auto.
  - split; [apply inverse_empty|reflexivity].
Qed.

Lemma Clone_order_eq order_f order_r b :
  order_f ≡ₚ map_keys (forward b) -> order_r ≡ₚ map_keys (reverse b) ->
  Clone_order order_f order_r b = Ok (Bimap (Some (default ∅ (forward b))) (Some (default ∅ (reverse b)))).
Proof.
  intros Hf Hr. unfold Clone_order. rewrite !maps_clone_order_spec by assumption. reflexivity.
Qed.

Lemma Clone_spec b : inv b -> exists c, Clone b = Ok c /\ inv c /\ abs c = abs b /\ forward c <> None.
Proof.
  intros H. unfold Clone. rewrite Clone_order_eq by reflexivity. eexists. split; [reflexivity|].
  destruct (inv_cases b H) as [[Hf Hr]|(f & r & Hf & Hr & Hi)]; rewrite Hf, Hr; unfold inv, abs; cbn; rewrite ?Hf; cbn.
  - split; [apply inverse_empty|]. split; [reflexivity|discriminate].
  - split; [exact Hi|]. split; [reflexivity|discriminate].
Qed.

(* ---- the observers read the reference ---- *)
Lemma GetForward_spec b k :
  GetForward b k = match abs b !! k with Some v => (v, true) | None => (0, false) end.
Proof.
  unfold GetForward, abs, map_get. destruct (forward b) as [f|]; cbn.
  - destruct (f !! k); reflexivity.
  - rewrite lookup_empty. reflexivity.
Qed.

Lemma ContainsForward_spec b k : ContainsForward b k = bool_decide (is_Some (abs b !! k)).
Proof.
  unfold ContainsForward, abs, map_get. destruct (forward b) as [f|]; cbn.
  - destruct (f !! k) eqn:E; symmetry; [apply bool_decide_eq_true; eauto|apply bool_decide_eq_false; intros [? ?]; discriminate].
  - rewrite lookup_empty. symmetry. apply bool_decide_eq_false. intros [? ?]; discriminate.
Qed.

Lemma GetReverse_spec b v : inv b ->
  (forall k, GetReverse b v = (k, true) <-> abs b !! k = Some v) /\
  (GetReverse b v = (0, false) \/ exists k, GetReverse b v = (k, true)) /\
  (GetReverse b v = (0, false) -> forall k, abs b !! k <> Some v).
Proof.
  intros H. destruct (inv_cases b H) as [[Hf Hr]|(f & r & Hf & Hr & Hi)];
    unfold GetReverse, abs, map_get; rewrite Hf, Hr; cbn.
  - split; [|split; [auto|]].
    + intros k. rewrite lookup_empty. split; discriminate.
    + intros _ k. rewrite lookup_empty. discriminate.
  - destruct (r !! v) as [k0|] eqn:Hrv.
    + split; [|split; [eauto|discriminate]].
      intros k. rewrite Hi. split; [intros [= ->]; exact Hrv|]. intros E. congruence.
    + split; [|split; [auto|]].
      * intros k. rewrite Hi. split; [discriminate|congruence].
      * intros _ k. rewrite Hi. congruence.
Qed.

Lemma ContainsReverse_spec b v : inv b ->
  ContainsReverse b v = snd (GetReverse b v) /\
  (ContainsReverse b v = true <-> exists k, abs b !! k = Some v).
Proof.
  intros H. split.
  - unfold ContainsReverse, GetReverse. destruct (map_get (reverse b) v). reflexivity.
  - destruct (inv_cases b H) as [[Hf Hr]|(f & r & Hf & Hr & Hi)];
      unfold ContainsReverse, abs, map_get; rewrite Hf, Hr; cbn.
    + split; [discriminate|]. intros [k E]. rewrite lookup_empty in E. discriminate.
    + destruct (r !! v) as [k0|] eqn:Hrv.
      * split; [|reflexivity]. intros _. exists k0. apply Hi. exact Hrv.
      * split; [discriminate|]. intros [k E]. apply Hi in E. congruence.
Qed.

Lemma Len_spec b : Len (Some b) = Z.of_nat (size (abs b)).
Proof.
  unfold Len, abs, map_len. destruct (forward b); cbn; [reflexivity|]. rewrite map_size_empty. reflexivity.
Qed.

