(* Model of /repo/maps/maps.go: ContainsValue, KeyOf, Clone, Clear, HasKey,
   Keys, Values -- transcribed statement by statement.

   A Go map[K]V is a [gmap K V] (std++, axiom free). The order in which a
   [range] statement visits a map is not specified by Go; every function that
   ranges over its map takes the visited sequence of (key, value) pairs as the
   explicit argument [visit]. The theorems quantify over every [visit] that is
   a permutation of the map's entries. Definitions only. *)
From stdpp Require Export gmap.

Section MapHelpers.
Context `{Countable K} {V : Type}.

(* func ContainsValue(m, value) bool:
   for _, v := range m { if v == value { return true } }; return false *)
Fixpoint containsvalue_loop (veqb : V -> V -> bool) (value : V) (visit : list (K * V)) : bool :=
  match visit with
  | [] => false
  | (_, v) :: rest => if veqb v value then true else containsvalue_loop veqb value rest
  end.
Definition containsvalue (veqb : V -> V -> bool) (m : gmap K V) (visit : list (K * V)) (value : V) : bool :=
  containsvalue_loop veqb value visit.

(* func KeyOf(m, value) (K, bool):
   for k, v := range m { if v == value { return k, true } }; return typ.Zero[K](), false *)
Fixpoint keyof_loop (veqb : V -> V -> bool) (zero : K) (value : V) (visit : list (K * V)) : K * bool :=
  match visit with
  | [] => (zero, false)
  | (k, v) :: rest => if veqb v value then (k, true) else keyof_loop veqb zero value rest
  end.
Definition keyof (veqb : V -> V -> bool) (zero : K) (m : gmap K V) (visit : list (K * V)) (value : V) : K * bool :=
  keyof_loop veqb zero value visit.

(* func Clone(m) M:
   newMap := make(M, len(m)); for k, v := range m { newMap[k] = v }; return newMap *)
Fixpoint clone_loop (visit : list (K * V)) (newMap : gmap K V) : gmap K V :=
  match visit with
  | [] => newMap
  | (k, v) :: rest => clone_loop rest (<[k := v]> newMap)
  end.
Definition clone (m : gmap K V) (visit : list (K * V)) : gmap K V :=
  let newMap : gmap K V := ∅ in
  clone_loop visit newMap.

(* func Clear(m):  for k := range m { delete(m, k) }
   Returns the map after the call. Every visited key is deleted at once, so
   deleting never removes a key the range has still to visit. *)
Fixpoint clear_loop (visit : list (K * V)) (m : gmap K V) : gmap K V :=
  match visit with
  | [] => m
  | (k, _) :: rest => clear_loop rest (delete k m)
  end.
Definition clear (m : gmap K V) (visit : list (K * V)) : gmap K V := clear_loop visit m.

(* func HasKey(m, key) bool:  _, ok := m[key]; return ok *)
Definition haskey (m : gmap K V) (key : K) : bool :=
  match m !! key with Some _ => true | None => false end.

(* func Keys(m) []K:
   keys := make([]K, 0, len(m)); for k := range m { keys = append(keys, k) }; return keys *)
Fixpoint keys_loop (visit : list (K * V)) (keys : list K) : list K :=
  match visit with
  | [] => keys
  | (k, _) :: rest => keys_loop rest (keys ++ [k])
  end.
Definition keys (m : gmap K V) (visit : list (K * V)) : list K := keys_loop visit [].

(* func Values(m) []V *)
Fixpoint values_loop (visit : list (K * V)) (values : list V) : list V :=
  match visit with
  | [] => values
  | (_, v) :: rest => values_loop rest (values ++ [v])
  end.
Definition values (m : gmap K V) (visit : list (K * V)) : list V := values_loop visit [].

End MapHelpers.
