(* Correspondence check for C11: the harness runs a history of Add /
   RemoveForward / RemoveReverse / Clear / Clone on real maps.Bimap[int,int]
   values and, after chosen steps, re-reads every observer of chosen handles
   over a universe of keys/values; [check_case] re-runs the model on the same
   history and compares every recorded observation. Definitions only. *)
From Typ Require Export Lib.Base.
From Typ Require Import Maps.Bimap.
From stdpp Require Import sorting.
Local Open Scope Z_scope.

(* operations with Z handles (case data is all Z) *)
Inductive cop :=
| CAdd (h k v : Z)
| CRemoveForward (h k : Z)
| CRemoveReverse (h v : Z)
| CClear (h : Z)
| CClone (h : Z).

Definition to_op (o : cop) : op :=
  match o with
  | CAdd h k v => OAdd (Z.to_nat h) k v
  | CRemoveForward h k => ORemoveForward (Z.to_nat h) k
  | CRemoveReverse h v => ORemoveReverse (Z.to_nat h) v
  | CClear h => OClear (Z.to_nat h)
  | CClone h => OClone (Z.to_nat h)
  end.

(* Monomorphic pairs: the case files are large and coqc's cost is per node of
   the elaborated term, so the case data avoids [prod] and its type arguments. *)
Inductive zb := ZB (z : Z) (b : bool).      (* a (value, ok) result *)
Inductive zz := ZZ (k v : Z).               (* a (key, value) pair handed to a Range callback *)
Definition zb_pair (x : zb) : Z * bool := let 'ZB z b := x in (z, b).
Definition zz_pair (x : zz) : Z * Z := let 'ZZ k v := x in (k, v).

(* everything the API lets one read from one Bimap, over the universe u *)
Record obs := Obs {
  o_fwd : list zb;             (* GetForward u_i *)
  o_rev : list zb;             (* GetReverse u_i *)
  o_cf : list bool;            (* ContainsForward u_i *)
  o_cr : list bool;            (* ContainsReverse u_i *)
  o_len : Z;                   (* Len *)
  o_range : list zz;           (* Range, callback always true: its arguments in call order *)
  o_stop : Z;                  (* a second Range whose callback returns false on call number o_stop (>= 1) *)
  o_stopped : list zz          (* ... and the arguments that one received, in call order *)
}.

Inductive hobs := H (h : Z) (o : obs).               (* observation of handle h *)
Inductive cstep := St (o : cop) (after : list hobs).  (* operation, then observations made after it *)

Record case := Case {
  c_univ : list Z;             (* keys and values the observers are asked about *)
  c_nil_len : Z;               (* Len called on a nil *Bimap *)
  c_init : list hobs;          (* observations before the first operation *)
  c_steps : list cstep;        (* the history *)
  c_fan : list cstep           (* alternatives: each one is run, on its own, on the state after c_steps *)
}.

Definition zz_eqb : Z * Z -> Z * Z -> bool := prod_eqb Z.eqb Z.eqb.
Definition zb_eqb : Z * bool -> Z * bool -> bool := prod_eqb Z.eqb Bool.eqb.

Definition sortZ (l : list Z) : list Z := merge_sort Z.le l.

(* callback of the second Range: counts its calls, false on call number [stop] *)
Definition stop_after (stop : Z) : Z -> Z -> Z -> Z * bool :=
  fun n _ _ => (n + 1, n + 1 <? stop).

Definition always_true : unit -> Z -> Z -> unit * bool := fun _ _ _ => (tt, true).

Definition inb (x : Z) (l : list Z) : bool := existsb (Z.eqb x) l.

Definition check_obs (u : list Z) (b : bimap) (o : obs) : bool :=
  list_eqb zb_eqb (map (GetForward b) u) (map zb_pair (o_fwd o)) &&
  list_eqb zb_eqb (map (GetReverse b) u) (map zb_pair (o_rev o)) &&
  list_eqb Bool.eqb (map (ContainsForward b) u) (o_cf o) &&
  list_eqb Bool.eqb (map (ContainsReverse b) u) (o_cr o) &&
  (Len (Some b) =? o_len o) &&
  (* the order the real Range used must be an enumeration of the keys ... *)
  (let observed := map zz_pair (o_range o) in
   let order := map fst observed in
   list_eqb Z.eqb (sortZ order) (sortZ (map_keys (forward b))) &&
   (* ... and with that order the model's Range calls back with the same arguments *)
   list_eqb zz_eqb (fst (Range b order (recording always_true) ([], tt))) observed) &&
  (* second Range: the observed calls, then the keys it did not get to *)
  (let observed := map zz_pair (o_stopped o) in
   let seen := map fst observed in
   let order := seen ++ List.filter (fun k => negb (inb k seen)) (map_keys (forward b)) in
   (* every pair at most once, and only keys of the Bimap: the completed order is an enumeration of the keys *)
   list_eqb Z.eqb (sortZ order) (sortZ (map_keys (forward b))) &&
   list_eqb zz_eqb (fst (Range b order (recording (stop_after (o_stop o))) ([], 0))) observed).

Definition check_handle_obs (u : list Z) (st : state) (ho : hobs) : bool :=
  let 'H h o := ho in
  match st !! Z.to_nat h with
  | Some b => check_obs u b o
  | None => false
  end.

(* runs the steps, checking the observations on the way; None = a mismatch (or a panic) *)
Fixpoint check_steps (u : list Z) (st : state) (steps : list cstep) : option state :=
  match steps with
  | [] => Some st
  | St o hos :: rest =>
      match step st (to_op o) with
      | Ok st' => if forallb (check_handle_obs u st') hos then check_steps u st' rest else None
      | Panic _ => None     (* the real code never panics on these histories *)
      end
  end.

Definition check_case (c : case) : bool :=
  (Len None =? c_nil_len c) &&
  forallb (check_handle_obs (c_univ c) init_state) (c_init c) &&
  match check_steps (c_univ c) init_state (c_steps c) with
  | Some st => forallb (fun alt => match check_steps (c_univ c) st [alt] with Some _ => true | None => false end) (c_fan c)
  | None => false
  end.
