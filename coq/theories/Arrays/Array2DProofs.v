(* Proofs about the Array2D model (C08).  Everything is reduced to pointwise
   statements about [nth_error] of the backing list; the index arithmetic
   (range, injectivity, "which cells does a row window cover") is done once
   in Z and holds for every width and height. *)
From Typ Require Import Lib.Base Arrays.Array2D.

Local Open Scope Z_scope.

(* ---- the index expression: range and injectivity, for every width and height ---- *)

Lemma idx_range w h x y : 0 <= x < w -> 0 <= y < h -> 0 <= x + y * w < w * h.
Proof. intros Hx Hy. nia. Qed.

Lemma idx_inj w x y x' y' : 0 <= x < w -> 0 <= x' < w -> 0 <= y -> 0 <= y' ->
  x + y * w = x' + y' * w -> x = x' /\ y = y'.
Proof. intros Hx Hx' Hy Hy' E. assert (y = y') by nia. subst. lia. Qed.

Lemma idx_index : forall w h x y x' y',
  0 <= x < w -> 0 <= y < h -> 0 <= x' < w -> 0 <= y' < h ->
  0 <= x + y * w < w * h /\ (x + y * w = x' + y' * w -> x = x' /\ y = y').
Proof.
  intros w h x y x' y' Hx Hy Hx' Hy'. split; [apply idx_range; assumption|].
  apply idx_inj; lia.
Qed.

(* the cells [x1+y*w, x1+y*w + (x2-x1+1)) are exactly the cells (x1..x2, y) *)
Lemma in_row_window w x1 x2 y x' y' :
  0 <= x1 -> x2 < w -> 0 <= y -> 0 <= x' < w -> 0 <= y' ->
  (x1 + y * w <= x' + y' * w < x1 + y * w + (x2 - x1 + 1)) <-> (y' = y /\ x1 <= x' <= x2).
Proof.
  intros H1 H2 Hy Hx' Hy'. split.
  - intros [Ha Hb]. assert (y' = y) by nia. subst. lia.
  - intros [-> Hx]. lia.
Qed.

(* ---- lists ---- *)
Section Lists.
Context {A : Type}.
Implicit Types (c l : list A).

Lemma set_nth_nth_error i (x : A) l l' : set_nth i x l = Ok l' ->
  forall j, nth_error l' j = if (j =? i)%nat then Some x else nth_error l j.
Proof.
  revert i l'; induction l as [|h t IH]; intros [|i] l' E j; simpl in E; try discriminate.
  - injection E as <-. destruct j; reflexivity.
  - destruct (set_nth i x t) as [t'|] eqn:Et; simpl in E; [|discriminate].
    injection E as <-. destruct j as [|j]; [reflexivity|]. simpl. apply (IH _ _ Et).
Qed.

Lemma nth_error_ext l l' : (forall j, nth_error l j = nth_error l' j) -> l = l'.
Proof.
  revert l'; induction l as [|h t IH]; intros [|h' t'] E.
  - reflexivity.
  - specialize (E 0%nat). discriminate.
  - specialize (E 0%nat). discriminate.
  - pose proof (E 0%nat) as E0. simpl in E0. injection E0 as ->. f_equal.
    apply IH. intro j. apply (E (S j)).
Qed.

Lemma nth_error_splice l1 l2 l3 j :
  nth_error (l1 ++ l2 ++ l3) j =
  if (j <? length l1)%nat then nth_error l1 j
  else if (j <? length l1 + length l2)%nat then nth_error l2 (j - length l1)
  else nth_error l3 (j - length l1 - length l2).
Proof.
  destruct (Nat.ltb_spec j (length l1)) as [H|H].
  - apply nth_error_app1. exact H.
  - rewrite nth_error_app2 by exact H.
    destruct (Nat.ltb_spec j (length l1 + length l2)) as [H2|H2].
    + apply nth_error_app1. lia.
    + rewrite nth_error_app2 by lia. reflexivity.
Qed.

Lemma nth_error_firstn n l j : nth_error (firstn n l) j = if (j <? n)%nat then nth_error l j else None.
Proof.
  revert n j; induction l as [|h t IH]; intros [|n] [|j]; simpl; try reflexivity.
  - destruct (S j <? S n)%nat; reflexivity.
  - rewrite IH. reflexivity.
Qed.

Lemma nth_error_skipn n l j : nth_error (skipn n l) j = nth_error l (n + j).
Proof.
  revert l; induction n as [|n IH]; intros [|h t]; simpl; try reflexivity.
  - destruct j; reflexivity.
  - apply IH.
Qed.

Lemma win_read_nth c off n j : nth_error (win_read c (off, n)) j = if (j <? n)%nat then nth_error c (off + j) else None.
Proof. unfold win_read; simpl. rewrite nth_error_firstn, nth_error_skipn. reflexivity. Qed.

Lemma win_read_length c off n : (off + n <= length c)%nat -> length (win_read c (off, n)) = n.
Proof. intro H. unfold win_read; simpl. rewrite firstn_length, skipn_length. lia. Qed.

Lemma copy_into_length c off n src : (off + Nat.min n (length src) <= length c)%nat ->
  length (copy_into c (off, n) src) = length c.
Proof.
  intro H. unfold copy_into; simpl. rewrite !app_length, !firstn_length, skipn_length. lia.
Qed.

Lemma copy_into_nth c off n src j : (off + Nat.min n (length src) <= length c)%nat ->
  nth_error (copy_into c (off, n) src) j =
  if ((off <=? j) && (j <? off + Nat.min n (length src)))%nat then nth_error src (j - off) else nth_error c j.
Proof.
  intro H. unfold copy_into; simpl. rewrite nth_error_splice.
  rewrite !firstn_length. replace (Nat.min off (length c)) with off by lia.
  replace (Nat.min (Nat.min n (length src)) (length src)) with (Nat.min n (length src)) by lia.
  destruct (Nat.ltb_spec j off) as [H1|H1].
  - replace (off <=? j)%nat with false by (symmetry; apply Nat.leb_gt; lia). simpl.
    rewrite nth_error_firstn. replace (j <? off)%nat with true by (symmetry; apply Nat.ltb_lt; lia). reflexivity.
  - replace (off <=? j)%nat with true by (symmetry; apply Nat.leb_le; lia). simpl.
    destruct (Nat.ltb_spec j (off + Nat.min n (length src))) as [H2|H2].
    + rewrite nth_error_firstn.
      replace (j - off <? Nat.min n (length src))%nat with true by (symmetry; apply Nat.ltb_lt; lia). reflexivity.
    + rewrite nth_error_skipn. f_equal. lia.
Qed.

(* s[i] and s[i] = v with an int index inside the slice *)
Lemma index_get_nth l i : 0 <= i ->
  index_get l i = match nth_error l (Z.to_nat i) with Some v => Ok v | None => Panic IndexOutOfRange end.
Proof. intro H. unfold index_get, get_nth. destruct (Z.ltb_spec i 0); [lia|reflexivity]. Qed.

Lemma index_set_ok l i (v : A) : 0 <= i < Z.of_nat (length l) ->
  exists l', index_set l i v = Ok l' /\ length l' = length l /\
    forall j, nth_error l' j = if (j =? Z.to_nat i)%nat then Some v else nth_error l j.
Proof.
  intro H. unfold index_set. destruct (Z.ltb_spec i 0); [lia|].
  destruct (set_nth_ok (Z.to_nat i) v l) as [l' E]; [lia|].
  exists l'. split; [exact E|]. split; [eapply set_nth_length; exact E|]. apply set_nth_nth_error. exact E.
Qed.

Lemma store_ok c i (v : A) : 0 <= i < Z.of_nat (length c) ->
  exists c', store c i v = (c', None) /\ length c' = length c /\
    forall j, nth_error c' j = if (j =? Z.to_nat i)%nat then Some v else nth_error c j.
Proof.
  intro H. destruct (index_set_ok c i v H) as (c' & E & HL & Hn).
  exists c'. unfold store. rewrite E. auto.
Qed.

End Lists.

(* ---- Get / Set ---- *)
Section Cells.
Context {A : Type}.
Implicit Types (a : array2d A).

(* the position of cell (x,y) in the backing list *)
Definition pos a (x y : Z) : nat := Z.to_nat (x + y * width a).

Lemma wf_length a : wf a -> Z.of_nat (length (cells a)) = width a * height a.
Proof. intros (Hw & Hh & HL). rewrite HL. apply Z2Nat.id. nia. Qed.

Lemma pos_lt a x y : wf a -> in_bounds a x y -> (pos a x y < length (cells a))%nat.
Proof.
  intros Hwf [Hx Hy]. pose proof (wf_length a Hwf) as HL. pose proof (idx_range _ _ _ _ Hx Hy) as R.
  unfold pos. lia.
Qed.

Lemma pos_inj a x y x' y' : in_bounds a x y -> in_bounds a x' y' -> pos a x y = pos a x' y' -> x = x' /\ y = y'.
Proof.
  intros [Hx Hy] [Hx' Hy'] E. unfold pos in E.
  apply (idx_inj (width a)); try lia.
  assert (0 <= x + y * width a) by nia. assert (0 <= x' + y' * width a) by nia. lia.
Qed.

Lemma in_bounds_dec a x y :
  ((x <? 0) || (x >=? width a) = false /\ (y <? 0) || (y >=? height a) = false /\ in_bounds a x y) \/
  (((x <? 0) || (x >=? width a) = true \/ (y <? 0) || (y >=? height a) = true) /\ ~ in_bounds a x y).
Proof.
  unfold in_bounds.
  destruct (Z.ltb_spec x 0), (Z.geb_spec x (width a)), (Z.ltb_spec y 0), (Z.geb_spec y (height a)); simpl;
    first [left; repeat split; (reflexivity || lia) | right; split; [auto | lia]].
Qed.

Lemma get_cell a x y : in_bounds a x y ->
  get a x y = match nth_error (cells a) (pos a x y) with Some v => Ok v | None => Panic IndexOutOfRange end.
Proof.
  intro H. destruct (in_bounds_dec a x y) as [(E1 & E2 & _)|[_ N]]; [|contradiction].
  unfold get, get_unchecked. rewrite E1, E2. destruct H as [Hx Hy]. apply index_get_nth. nia.
Qed.

Lemma get_in a x y : wf a -> in_bounds a x y ->
  exists v, get a x y = Ok v /\ nth_error (cells a) (pos a x y) = Some v.
Proof.
  intros Hwf H. rewrite (get_cell a x y H).
  destruct (nth_error (cells a) (pos a x y)) as [v|] eqn:E.
  - exists v. auto.
  - apply nth_error_None in E. pose proof (pos_lt a x y Hwf H). lia.
Qed.

Lemma get_out a x y : ~ in_bounds a x y -> get a x y = Panic IndexOutOfRange.
Proof.
  intro N. destruct (in_bounds_dec a x y) as [(_ & _ & H)|[[E|E] _]]; [contradiction| |]; unfold get.
  - rewrite E. reflexivity.
  - rewrite E. destruct ((x <? 0) || (x >=? width a)); reflexivity.
Qed.

(* two well-formed arrays of the same shape whose backing lists agree at a cell's position
   give the same Get there *)
Lemma get_same_shape a a' x y : width a' = width a -> height a' = height a ->
  (in_bounds a x y -> nth_error (cells a') (pos a x y) = nth_error (cells a) (pos a x y)) ->
  get a' x y = get a x y.
Proof.
  intros Ew Eh E. destruct (in_bounds_dec a x y) as [(_ & _ & H)|[_ N]].
  - assert (H' : in_bounds a' x y) by (unfold in_bounds; rewrite Ew, Eh; exact H).
    rewrite (get_cell a x y H), (get_cell a' x y H'). unfold pos in *. rewrite Ew. rewrite (E H). reflexivity.
  - rewrite (get_out a x y N). apply get_out. unfold in_bounds. rewrite Ew, Eh. exact N.
Qed.

Lemma set_in a x y (v : A) : wf a -> in_bounds a x y ->
  exists a', set a x y v = (a', None) /\ wf a' /\ width a' = width a /\ height a' = height a /\
    get a' x y = Ok v /\
    forall x' y', (x', y') <> (x, y) -> get a' x' y' = get a x' y'.
Proof.
  intros Hwf H. destruct (in_bounds_dec a x y) as [(E1 & E2 & _)|[_ N]]; [|contradiction].
  pose proof (pos_lt a x y Hwf H) as Hlt.
  destruct (store_ok (cells a) (x + y * width a) v) as (c' & Es & HL & Hn).
  { destruct H as [Hx Hy]. unfold pos in Hlt. split; [nia|]. lia. }
  exists (Arr (width a) (height a) c').
  unfold set, set_unchecked, with_cells. rewrite E1, E2, Es. simpl.
  split; [reflexivity|]. split.
  { destruct Hwf as (Hw & Hh & HLa). unfold wf; simpl. rewrite HL. auto. }
  split; [reflexivity|]. split; [reflexivity|]. split.
  - rewrite get_cell by exact H. unfold pos; simpl. rewrite Hn, Nat.eqb_refl. reflexivity.
  - intros x' y' Hne. apply get_same_shape; try reflexivity. intro H'. simpl. rewrite Hn.
    destruct (Nat.eqb_spec (pos a x' y') (Z.to_nat (x + y * width a))) as [E|E]; [|reflexivity].
    destruct (pos_inj a x' y' x y H' H E) as [-> ->]. contradiction.
Qed.

Lemma set_out a x y (v : A) : ~ in_bounds a x y -> set a x y v = (a, Some IndexOutOfRange).
Proof.
  intro N. destruct (in_bounds_dec a x y) as [(_ & _ & H)|[[E|E] _]]; [contradiction| |]; unfold set.
  - rewrite E. reflexivity.
  - rewrite E. destruct ((x <? 0) || (x >=? width a)); reflexivity.
Qed.

End Cells.

(* ---- Row / RowSpan: live windows onto exactly the cells of that part of the row ---- *)
Section Windows.
Context {A : Type}.
Implicit Types (a : array2d A).

Lemma slice_win_ok (s : list A) lo hi : 0 <= lo <= hi -> hi <= Z.of_nat (length s) ->
  slice_win s lo hi = Ok (Z.to_nat lo, Z.to_nat (hi - lo)).
Proof.
  intros H1 H2. unfold slice_win.
  destruct (Z.leb_spec 0 lo), (Z.leb_spec lo hi), (Z.leb_spec hi (Z.of_nat (length s))); first [reflexivity | lia].
Qed.

Lemma oob_false x n : 0 <= x < n -> (x <? 0) || (x >=? n) = false.
Proof. intro H. destruct (Z.ltb_spec x 0), (Z.geb_spec x n); first [reflexivity | lia]. Qed.

Lemma oob_true x n : ~ 0 <= x < n -> (x <? 0) || (x >=? n) = true.
Proof. intro H. destruct (Z.ltb_spec x 0), (Z.geb_spec x n); first [reflexivity | lia]. Qed.

(* position i of the window (pos x1 y, n) is cell (x1+i, y), for reading and for writing,
   on whatever the array holds when the window is used (liveness) *)
Lemma window_is_cells a x1 y n i (v : A) :
  0 <= x1 -> 0 <= y < height a -> 0 <= i < Z.of_nat n -> x1 + i < width a ->
  let win := (pos a x1 y, n) in
  win_get (cells a) win i = get a (x1 + i) y /\
  with_cells a (win_store (cells a) win i v) = set a (x1 + i) y v.
Proof.
  intros Hx1 Hy Hi Hx win. unfold win, win_get, win_store, get, set, get_unchecked, set_unchecked. simpl.
  rewrite (oob_false i (Z.of_nat n)) by lia.
  rewrite (oob_false (x1 + i) (width a)) by lia.
  rewrite (oob_false y (height a)) by lia.
  assert (E : Z.of_nat (pos a x1 y) + i = x1 + i + y * width a).
  { unfold pos. rewrite Z2Nat.id by nia. lia. }
  rewrite E. split; reflexivity.
Qed.

Lemma window_outside (c : list A) win i (v : A) : ~ 0 <= i < Z.of_nat (snd win) ->
  win_get c win i = Panic IndexOutOfRange /\ win_store c win i v = (c, Some IndexOutOfRange).
Proof. intro H. unfold win_get, win_store. rewrite (oob_true _ _ H). auto. Qed.

Lemma row_span_in a x1 x2 y : wf a -> 0 <= x1 < width a -> 0 <= x2 < width a -> x1 <= x2 + 1 -> 0 <= y < height a ->
  row_span a x1 x2 y = Ok (pos a x1 y, Z.to_nat (x2 - x1 + 1)).
Proof.
  intros Hwf H1 H2 H12 Hy. unfold row_span.
  rewrite (oob_false x1 (width a)) by lia. rewrite (oob_false y (height a)) by lia.
  rewrite (oob_false x2 (width a)) by lia.
  rewrite slice_win_ok.
  - replace (1 + x2 + y * width a - (x1 + y * width a)) with (x2 - x1 + 1) by lia. reflexivity.
  - nia.
  - rewrite (wf_length a Hwf). nia.
Qed.

Lemma row_span_out a x1 x2 y : ~ (0 <= x1 < width a /\ 0 <= x2 < width a /\ 0 <= y < height a) ->
  row_span a x1 x2 y = Panic IndexOutOfRange.
Proof.
  intro N. unfold row_span.
  destruct (Z.ltb_spec x1 0), (Z.geb_spec x1 (width a)); simpl; try reflexivity.
  destruct (Z.ltb_spec y 0), (Z.geb_spec y (height a)); simpl; try reflexivity.
  destruct (Z.ltb_spec x2 0), (Z.geb_spec x2 (width a)); simpl; try reflexivity.
  lia.
Qed.

Lemma row_in a y : wf a -> 0 <= y < height a -> row a y = Ok (pos a 0 y, Z.to_nat (width a)).
Proof.
  intros Hwf Hy. unfold row. rewrite (oob_false y (height a)) by lia.
  destruct Hwf as (Hw & Hh & HL).
  rewrite slice_win_ok.
  - replace (width a + y * width a - y * width a) with (width a) by lia. unfold pos. rewrite Z.add_0_l. reflexivity.
  - nia.
  - rewrite HL. rewrite Z2Nat.id by nia. nia.
Qed.

Lemma row_out a y : ~ 0 <= y < height a -> row a y = Panic IndexOutOfRange.
Proof. intro N. unfold row. rewrite (oob_true _ _ N). reflexivity. Qed.

(* the statements in the form used by Props/C08.v *)
Lemma row_span_window a x1 x2 y : wf a -> 0 <= x1 -> x1 <= x2 -> x2 < width a -> 0 <= y < height a ->
  exists win, row_span a x1 x2 y = Ok win /\ Z.of_nat (snd win) = x2 - x1 + 1 /\
    forall a', wf a' -> width a' = width a -> height a' = height a ->
    forall i v, 0 <= i <= x2 - x1 ->
      win_get (cells a') win i = get a' (x1 + i) y /\
      with_cells a' (win_store (cells a') win i v) = set a' (x1 + i) y v.
Proof.
  intros Hwf H1 H12 H2 Hy. eexists. split; [apply row_span_in; (assumption || lia)|]. simpl.
  split; [lia|]. intros a' _ Ew Eh i v Hi.
  replace (pos a x1 y) with (pos a' x1 y) by (unfold pos; rewrite Ew; reflexivity).
  apply window_is_cells; lia.
Qed.

Lemma row_window a y : wf a -> 0 <= y < height a ->
  exists win, row a y = Ok win /\ Z.of_nat (snd win) = width a /\
    forall a', wf a' -> width a' = width a -> height a' = height a ->
    forall i v, 0 <= i < width a ->
      win_get (cells a') win i = get a' i y /\
      with_cells a' (win_store (cells a') win i v) = set a' i y v.
Proof.
  intros Hwf Hy. eexists. split; [apply row_in; assumption|]. simpl.
  destruct Hwf as (Hw & Hh & HL).
  split; [lia|]. intros a' _ Ew Eh i v Hi.
  replace (pos a 0 y) with (pos a' 0 y) by (unfold pos; rewrite Ew; reflexivity).
  change i with (0 + i) at 2 4.
  apply window_is_cells; lia.
Qed.

End Windows.

(* ---- slices.Fill on a window: the exponential copy assigns exactly the window ---- *)
Section Fill.
Context {A : Type}.
Implicit Types (a : array2d A) (c : list A).

Definition in_win (off n j : nat) : bool := ((off <=? j) && (j <? off + n))%nat.

Lemma in_win_true off n j : (off <= j < off + n)%nat -> in_win off n j = true.
Proof. intro H. unfold in_win. apply andb_true_iff. split; [apply Nat.leb_le|apply Nat.ltb_lt]; lia. Qed.

Lemma in_win_false off n j : ~ (off <= j < off + n)%nat -> in_win off n j = false.
Proof.
  intro H. unfold in_win. destruct (Nat.leb_spec off j), (Nat.ltb_spec j (off + n)); simpl; try reflexivity. lia.
Qed.

Lemma in_win_spec off n j : in_win off n j = true <-> (off <= j < off + n)%nat.
Proof.
  split; [|apply in_win_true]. unfold in_win. intro H. apply andb_true_iff in H as [H1 H2].
  apply Nat.leb_le in H1. apply Nat.ltb_lt in H2. lia.
Qed.

Lemma fill_loop_spec (v : A) off n : forall fuel c i,
  (1 <= i)%nat -> (n <= i + fuel)%nat -> (off + n <= length c)%nat ->
  (forall j, (off <= j < off + Nat.min i n)%nat -> nth_error c j = Some v) ->
  exists c', fill_loop fuel c (off, n) i = (c', None) /\ length c' = length c /\
    forall j, nth_error c' j = if in_win off n j then Some v else nth_error c j.
Proof.
  induction fuel as [|fuel IH]; intros c i Hi Hfuel Hlen Hdone.
  - exists c. simpl. replace (i <? n)%nat with false by (symmetry; apply Nat.ltb_ge; lia).
    split; [reflexivity|]. split; [reflexivity|]. intro j.
    destruct (in_win off n j) eqn:E; [|reflexivity]. apply in_win_spec in E. apply Hdone. lia.
  - simpl. destruct (Nat.ltb_spec i n) as [Hlt|Hge].
    + set (src := win_read c (off, i)).
      assert (Hsl : length src = i) by (apply win_read_length; lia).
      set (c1 := copy_into c ((off + i)%nat, (n - i)%nat) src).
      assert (Hpre : (off + i + Nat.min (n - i) (length src) <= length c)%nat) by lia.
      assert (HL1 : length c1 = length c) by (apply copy_into_length; exact Hpre).
      assert (Hn1 : forall j, nth_error c1 j =
                if in_win (off + i) (Nat.min (n - i) i) j then Some v else nth_error c j).
      { intro j. unfold c1. rewrite copy_into_nth by exact Hpre. rewrite Hsl.
        fold (in_win (off + i) (Nat.min (n - i) i) j).
        destruct (in_win (off + i) (Nat.min (n - i) i) j) eqn:E; [|reflexivity].
        apply in_win_spec in E. unfold src. rewrite win_read_nth.
        replace (j - (off + i) <? i)%nat with true by (symmetry; apply Nat.ltb_lt; lia).
        apply Hdone. lia. }
      destruct (IH c1 (i + i)%nat) as (c' & E & HL & Hn); try lia.
      { intros j Hj. rewrite Hn1.
        destruct (in_win (off + i) (Nat.min (n - i) i) j) eqn:E; [reflexivity|].
        apply Hdone. assert (~ (off + i <= j < off + i + Nat.min (n - i) i)%nat).
        { intro X. apply in_win_true in X. congruence. } lia. }
      exists c'. split; [exact E|]. split; [lia|]. intro j. rewrite Hn.
      destruct (in_win off n j) eqn:Ej; [reflexivity|]. rewrite Hn1.
      rewrite in_win_false; [reflexivity|].
      assert (~ (off <= j < off + n)%nat) by (intro X; apply in_win_true in X; congruence). lia.
    + exists c. split; [reflexivity|]. split; [reflexivity|]. intro j.
      destruct (in_win off n j) eqn:E; [|reflexivity]. apply in_win_spec in E. apply Hdone. lia.
Qed.

Lemma slices_fill_spec (v : A) c off n : (off + n <= length c)%nat ->
  exists c', slices_fill c (off, n) v = (c', None) /\ length c' = length c /\
    forall j, nth_error c' j = if in_win off n j then Some v else nth_error c j.
Proof.
  intro Hlen. unfold slices_fill. cbn [fst snd]. destruct (Nat.eqb_spec n 0) as [->|Hn0].
  - exists c. split; [reflexivity|]. split; [reflexivity|]. intro j.
    rewrite in_win_false by lia. reflexivity.
  - unfold win_store. cbn [fst snd]. rewrite oob_false by lia.
    destruct (store_ok c (Z.of_nat off + 0) v) as (c1 & Es & HL1 & Hn1); [lia|].
    rewrite Es. simpl.
    destruct (fill_loop_spec v off n n c1 1%nat) as (c' & E & HL & Hn); try lia.
    { intros j Hj. rewrite Hn1. replace (j =? Z.to_nat (Z.of_nat off + 0))%nat with true; [reflexivity|].
      symmetry. apply Nat.eqb_eq. lia. }
    exists c'. split; [exact E|]. split; [lia|]. intro j. rewrite Hn.
    destruct (in_win off n j) eqn:Ej; [reflexivity|]. rewrite Hn1.
    destruct (Nat.eqb_spec j (Z.to_nat (Z.of_nat off + 0))) as [Ej'|]; [|reflexivity].
    assert (~ (off <= j < off + n)%nat) by (intro X; apply in_win_true in X; congruence). lia.
Qed.

End Fill.

(* ---- Array2D.Fill ---- *)
Section FillRect.
Context {A : Type}.
Implicit Types (a : array2d A) (c : list A).

(* raw window of the backing list <-> coordinates *)
Lemma in_win_coords w x1 x2 y x' y' : 0 <= x1 -> x1 <= x2 -> x2 < w -> 0 <= y -> 0 <= x' < w -> 0 <= y' ->
  in_win (Z.to_nat (x1 + y * w)) (Z.to_nat (x2 - x1 + 1)) (Z.to_nat (x' + y' * w))
  = (y' =? y) && (x1 <=? x') && (x' <=? x2).
Proof.
  intros H1 H12 H2 Hy Hx' Hy'.
  pose proof (in_row_window w x1 x2 y x' y' H1 H2 Hy Hx' Hy') as [F B].
  assert (0 <= y * w) by nia. assert (0 <= y' * w) by nia.
  destruct (Z.eqb_spec y' y) as [Ey|Ey], (Z.leb_spec x1 x') as [Ea|Ea], (Z.leb_spec x' x2) as [Eb|Eb]; simpl;
    try (apply in_win_false; intro X;
         assert (Y : x1 + y * w <= x' + y' * w < x1 + y * w + (x2 - x1 + 1)) by lia;
         apply F in Y; lia).
  apply in_win_true. assert (Y : x1 + y * w <= x' + y' * w < x1 + y * w + (x2 - x1 + 1)) by (apply B; lia). lia.
Qed.

Section Sorted.
Variables (v : A) (w h x1 x2 y1 y2 : Z).
Hypothesis (Hx1 : 0 <= x1) (Hx12 : x1 <= x2) (Hx2 : x2 < w) (Hy1 : 0 <= y1) (Hy2 : y2 < h).
Let fr : window := (Z.to_nat (x1 + y1 * w), Z.to_nat (x2 - x1 + 1)).

Lemma fill_rows_spec : forall fuel c y,
  y1 < y <= y2 + 1 -> (Z.to_nat (y2 + 1 - y) <= fuel)%nat -> length c = Z.to_nat (w * h) ->
  (forall j, in_win (fst fr) (snd fr) j = true -> nth_error c j = Some v) ->
  exists c', fill_rows fuel w c x1 x2 y y2 fr = (c', None) /\ length c' = length c /\
    forall x' y', 0 <= x' < w -> 0 <= y' < h ->
      nth_error c' (Z.to_nat (x' + y' * w)) =
      if (x1 <=? x') && (x' <=? x2) && (y <=? y') && (y' <=? y2) then Some v
      else nth_error c (Z.to_nat (x' + y' * w)).
Proof.
  induction fuel as [|fuel IH]; intros c y Hy Hfuel Hlen Hfr.
  - assert (y = y2 + 1) by lia. subst y. exists c. simpl.
    destruct (Z.leb_spec (y2 + 1) y2); [lia|]. split; [reflexivity|]. split; [reflexivity|].
    intros x' y' Hx' Hy'.
    destruct (Z.leb_spec (y2 + 1) y'), (Z.leb_spec y' y2); try lia; rewrite ?andb_false_r; reflexivity.
  - cbn [fill_rows]. destruct (Z.leb_spec y y2) as [Hle|Hgt].
    + assert (Hwh : Z.of_nat (length c) = w * h) by (rewrite Hlen; apply Z2Nat.id; nia).
      rewrite slice_win_ok; [|nia|nia].
      replace (1 + x2 + y * w - (x1 + y * w)) with (x2 - x1 + 1) by lia.
      set (n := Z.to_nat (x2 - x1 + 1)).
      set (src := win_read c fr).
      assert (Hfrlen : (fst fr + snd fr <= length c)%nat).
      { unfold fr; cbn [fst snd]. assert (0 <= y1 * w) by nia. nia. }
      assert (Hsl : length src = n).
      { unfold src, fr. apply win_read_length. exact Hfrlen. }
      set (off := Z.to_nat (x1 + y * w)).
      assert (Hpre : (off + Nat.min n (length src) <= length c)%nat).
      { rewrite Hsl. unfold off, n. assert (0 <= y * w) by nia. nia. }
      set (c1 := copy_into c (off, n) src).
      assert (HL1 : length c1 = length c) by (apply copy_into_length; exact Hpre).
      assert (Hn1 : forall j, nth_error c1 j = if in_win off n j then Some v else nth_error c j).
      { intro j. unfold c1. rewrite copy_into_nth by exact Hpre. rewrite Hsl, Nat.min_id.
        fold (in_win off n j). destruct (in_win off n j) eqn:E; [|reflexivity].
        apply in_win_spec in E. unfold src, fr. rewrite win_read_nth. fold n.
        replace (j - off <? n)%nat with true by (symmetry; apply Nat.ltb_lt; lia).
        apply Hfr. apply in_win_true. unfold fr; cbn [fst snd]. fold n. lia. }
      destruct (IH c1 (y + 1)) as (c' & E & HL & Hn); try lia.
      { intros j Hj. rewrite Hn1. destruct (in_win off n j); [reflexivity|]. apply Hfr. exact Hj. }
      exists c'. split; [exact E|]. split; [lia|].
      intros x' y' Hx' Hy'. rewrite (Hn x' y' Hx' Hy'). rewrite Hn1.
      unfold off, n. rewrite in_win_coords by lia.
      destruct (Z.leb_spec x1 x'), (Z.leb_spec x' x2), (Z.leb_spec (y + 1) y'), (Z.leb_spec y' y2),
               (Z.leb_spec y y'), (Z.eqb_spec y' y); simpl; try reflexivity; lia.
    + exists c. split; [reflexivity|]. split; [reflexivity|].
      intros x' y' Hx' Hy'.
      destruct (Z.leb_spec y y'), (Z.leb_spec y' y2); try lia; rewrite ?andb_false_r; reflexivity.
Qed.

(* Fill with sorted corners, on the backing list *)
Lemma fill_sorted_spec c : y1 <= y2 -> length c = Z.to_nat (w * h) ->
  exists c',
    and_then (slices_fill c fr v) (fun c => fill_rows (Z.to_nat (y2 - y1)) w c x1 x2 (y1 + 1) y2 fr) = (c', None) /\
    length c' = length c /\
    forall x' y', 0 <= x' < w -> 0 <= y' < h ->
      nth_error c' (Z.to_nat (x' + y' * w)) =
      if (x1 <=? x') && (x' <=? x2) && (y1 <=? y') && (y' <=? y2) then Some v
      else nth_error c (Z.to_nat (x' + y' * w)).
Proof.
  intros Hy12 Hlen.
  assert (Hfrlen : (fst fr + snd fr <= length c)%nat).
  { unfold fr; cbn [fst snd]. assert (0 <= y1 * w) by nia. nia. }
  destruct (slices_fill_spec v c (fst fr) (snd fr) Hfrlen) as (c1 & E1 & HL1 & Hn1).
  change (fst fr, snd fr) with fr in E1. rewrite E1. cbn [and_then].
  destruct (fill_rows_spec (Z.to_nat (y2 - y1)) c1 (y1 + 1)) as (c' & E & HL & Hn); try lia.
  { intros j Hj. rewrite Hn1, Hj. reflexivity. }
  exists c'. split; [exact E|]. split; [lia|].
  intros x' y' Hx' Hy'. rewrite (Hn x' y' Hx' Hy'), Hn1.
  unfold fr; cbn [fst snd]. rewrite in_win_coords by lia.
  destruct (Z.leb_spec x1 x'), (Z.leb_spec x' x2), (Z.leb_spec (y1 + 1) y'), (Z.leb_spec y' y2),
           (Z.leb_spec y1 y'), (Z.eqb_spec y' y1); simpl; try reflexivity; lia.
Qed.

End Sorted.
End FillRect.

Section FillTop.
Context {A : Type}.
Implicit Types (a : array2d A).

Lemma fill_body_sorted a lx hx ly hy (v : A) : wf a ->
  0 <= lx -> lx <= hx -> hx < width a -> 0 <= ly -> ly <= hy -> hy < height a ->
  exists a',
    match slice_win (cells a) (lx + ly * width a) (1 + hx + ly * width a) with
    | Panic k => (a, Some k)
    | Ok firstRow =>
        with_cells a
          (and_then (slices_fill (cells a) firstRow v) (fun c =>
           fill_rows (Z.to_nat (hy - ly)) (width a) c lx hx (ly + 1) hy firstRow))
    end = (a', None) /\
    wf a' /\ width a' = width a /\ height a' = height a /\
    forall x y, in_bounds a x y ->
      get a' x y = if (lx <=? x) && (x <=? hx) && (ly <=? y) && (y <=? hy) then Ok v else get a x y.
Proof.
  intros Hwf H1 H2 H3 H4 H5 H6. pose proof Hwf as (Hw & Hh & HL).
  rewrite slice_win_ok; [| nia | rewrite (wf_length a Hwf); nia].
  replace (1 + hx + ly * width a - (lx + ly * width a)) with (hx - lx + 1) by lia.
  destruct (fill_sorted_spec v (width a) (height a) lx hx ly hy H1 H2 H3 H4 H6 (cells a) H5 HL)
    as (c' & E & HLc & Hn).
  cbv zeta in E. rewrite E. unfold with_cells. cbn [fst snd].
  eexists. split; [reflexivity|]. split; [unfold wf; cbn [width height cells]; rewrite HLc; auto|].
  split; [reflexivity|]. split; [reflexivity|].
  intros x y Hin. pose proof Hin as [Hx Hy].
  rewrite (get_cell a x y Hin).
  rewrite get_cell by exact Hin. unfold pos. cbn [width height cells].
  rewrite (Hn x y Hx Hy).
  destruct ((lx <=? x) && (x <=? hx) && (ly <=? y) && (y <=? hy)); reflexivity.
Qed.

Lemma in_rect_sorted x1 y1 x2 y2 x y :
  in_rect x1 y1 x2 y2 x y =
  (Z.min x1 x2 <=? x) && (x <=? Z.max x1 x2) && (Z.min y1 y2 <=? y) && (y <=? Z.max y1 y2).
Proof. reflexivity. Qed.

Lemma fill_in a x1 y1 x2 y2 (v : A) : wf a -> in_bounds a x1 y1 -> in_bounds a x2 y2 ->
  exists a', fill a x1 y1 x2 y2 v = (a', None) /\
    wf a' /\ width a' = width a /\ height a' = height a /\
    forall x y, in_bounds a x y ->
      get a' x y = if in_rect x1 y1 x2 y2 x y then Ok v else get a x y.
Proof.
  intros Hwf [Hx1 Hy1] [Hx2 Hy2]. unfold fill.
  rewrite (oob_false x1 (width a)) by lia. rewrite (oob_false y1 (height a)) by lia.
  rewrite (oob_false x2 (width a)) by lia. rewrite (oob_false y2 (height a)) by lia.
  unfold in_rect.
  destruct (Z.ltb_spec x2 x1) as [Hx|Hx], (Z.ltb_spec y2 y1) as [Hy|Hy].
  - rewrite (Z.min_r x1 x2), (Z.max_l x1 x2), (Z.min_r y1 y2), (Z.max_l y1 y2) by lia.
    apply fill_body_sorted; (assumption || lia).
  - rewrite (Z.min_r x1 x2), (Z.max_l x1 x2), (Z.min_l y1 y2), (Z.max_r y1 y2) by lia.
    apply fill_body_sorted; (assumption || lia).
  - rewrite (Z.min_l x1 x2), (Z.max_r x1 x2), (Z.min_r y1 y2), (Z.max_l y1 y2) by lia.
    apply fill_body_sorted; (assumption || lia).
  - rewrite (Z.min_l x1 x2), (Z.max_r x1 x2), (Z.min_l y1 y2), (Z.max_r y1 y2) by lia.
    apply fill_body_sorted; (assumption || lia).
Qed.

Lemma fill_out a x1 y1 x2 y2 (v : A) : ~ (in_bounds a x1 y1 /\ in_bounds a x2 y2) ->
  fill a x1 y1 x2 y2 v = (a, Some IndexOutOfRange).
Proof.
  intro N. unfold fill, in_bounds in *.
  destruct (Z.ltb_spec x1 0), (Z.geb_spec x1 (width a)); simpl; try reflexivity.
  destruct (Z.ltb_spec y1 0), (Z.geb_spec y1 (height a)); simpl; try reflexivity.
  destruct (Z.ltb_spec x2 0), (Z.geb_spec x2 (width a)); simpl; try reflexivity.
  destruct (Z.ltb_spec y2 0), (Z.geb_spec y2 (height a)); simpl; try reflexivity.
  lia.
Qed.

End FillTop.

(* ---- constructors, Clone, String ---- *)
Section Constructors.
Context {A : Type}.
Variable zero : A.
Implicit Types (a : array2d A).

Lemma nth_error_repeat (x : A) n j : nth_error (repeat x n) j = if (j <? n)%nat then Some x else None.
Proof.
  revert j; induction n as [|n IH]; intros [|j]; simpl; try reflexivity. rewrite IH.
  reflexivity.
Qed.

Lemma new2d_spec w h : 0 <= w -> 0 <= h ->
  exists a, new2d zero w h = Ok a /\ wf a /\ width a = w /\ height a = h /\
    forall x y, in_bounds a x y -> get a x y = Ok zero.
Proof.
  intros Hw Hh. unfold new2d. destruct (Z.ltb_spec (w * h) 0); [nia|].
  eexists. split; [reflexivity|]. split; [unfold wf; cbn [width height cells]; rewrite repeat_length; auto|].
  split; [reflexivity|]. split; [reflexivity|].
  intros x y Hin. rewrite (get_cell _ x y Hin). unfold pos. cbn [width height cells] in *.
  rewrite nth_error_repeat. destruct Hin as [Hx Hy]. cbn [width height] in Hx, Hy.
  pose proof (idx_range w h x y Hx Hy).
  replace (Z.to_nat (x + y * w) <? Z.to_nat (w * h))%nat with true by (symmetry; apply Nat.ltb_lt; lia).
  reflexivity.
Qed.

Lemma new2d_filled_spec w h (v : A) : 0 <= w -> 0 <= h ->
  exists a, new2d_filled zero w h v = Ok a /\ wf a /\ width a = w /\ height a = h /\
    forall x y, in_bounds a x y -> get a x y = Ok v.
Proof.
  intros Hw Hh. unfold new2d_filled. destruct (Z.ltb_spec (w * h) 0); [nia|].
  set (slice := repeat zero (Z.to_nat (w * h))).
  assert (HLs : length slice = Z.to_nat (w * h)) by apply repeat_length.
  destruct (slices_fill_spec v slice 0%nat (length slice)) as (c' & E & HL & Hn); [lia|].
  cbv zeta. rewrite E.
  eexists. split; [reflexivity|]. split; [unfold wf; cbn [width height cells]; rewrite HL; auto|].
  split; [reflexivity|]. split; [reflexivity|].
  intros x y Hin. rewrite (get_cell _ x y Hin). unfold pos. cbn [width height cells] in *.
  destruct Hin as [Hx Hy]. cbn [width height] in Hx, Hy.
  pose proof (idx_range w h x y Hx Hy).
  rewrite Hn. rewrite in_win_true by lia. reflexivity.
Qed.

Lemma clone_spec a : clone zero a = a.
Proof.
  destruct a as [w h c]. unfold clone. cbn [width height cells]. f_equal.
  apply nth_error_ext. intro j. rewrite repeat_length.
  rewrite copy_into_nth by (rewrite repeat_length; lia). rewrite Nat.min_id. simpl.
  destruct (Nat.ltb_spec j (length c)) as [Hj|Hj].
  - f_equal. lia.
  - rewrite nth_error_repeat. replace (j <? length c)%nat with false by (symmetry; apply Nat.ltb_ge; lia).
    symmetry. apply nth_error_None. lia.
Qed.

(* the value the jagged input prescribes for cell (x, y0 + k): the jagged value if it exists, else [old] *)
Definition jag_value (jagged : list (list A)) (k x : Z) (old : option A) : option A :=
  if k <? 0 then old else
  match nth_error jagged (Z.to_nat k) with
  | Some r => match nth_error r (Z.to_nat x) with Some v => Some v | None => old end
  | None => old
  end.

Lemma from_jagged_loop_spec : forall (jagged : list (list A)) a y0, wf a -> 0 <= y0 ->
  exists a', from_jagged_loop a y0 jagged = Ok a' /\ wf a' /\ width a' = width a /\ height a' = height a /\
    forall x y, in_bounds a x y ->
      nth_error (cells a') (pos a x y) = jag_value jagged (y - y0) x (nth_error (cells a) (pos a x y)).
Proof.
  induction jagged as [|r rest IH]; intros a y0 Hwf Hy0.
  - exists a. simpl. split; [reflexivity|]. split; [exact Hwf|]. split; [reflexivity|]. split; [reflexivity|].
    intros x y Hin. unfold jag_value. destruct (y - y0 <? 0); [reflexivity|].
    destruct (Z.to_nat (y - y0)); reflexivity.
  - cbn [from_jagged_loop]. destruct (Z.geb_spec y0 (height a)) as [Hge|Hlt].
    + exists a. split; [reflexivity|]. split; [exact Hwf|]. split; [reflexivity|]. split; [reflexivity|].
      intros x y [Hx Hy]. unfold jag_value. destruct (Z.ltb_spec (y - y0) 0); [reflexivity|]. lia.
    + rewrite row_in by (assumption || lia). cbn [bind].
      pose proof Hwf as (Hw & Hh & HL).
      set (off := pos a 0 y0). set (n := Z.to_nat (width a)).
      assert (Hpre : (off + Nat.min n (length r) <= length (cells a))%nat).
      { unfold off, n, pos. assert (0 <= y0 * width a) by nia. nia. }
      set (a1 := Arr (width a) (height a) (copy_into (cells a) (off, n) r)).
      assert (Hwf1 : wf a1).
      { unfold wf, a1; cbn [width height cells]. rewrite copy_into_length by exact Hpre. auto. }
      destruct (IH a1 (y0 + 1) Hwf1) as (a' & E & Hwf' & Ew & Eh & Hn); [lia|].
      exists a'. split; [exact E|]. split; [exact Hwf'|]. split; [exact Ew|]. split; [exact Eh|].
      intros x y Hin. pose proof Hin as [Hx Hy].
      assert (Hin1 : in_bounds a1 x y) by exact Hin.
      specialize (Hn x y Hin1). unfold pos in Hn. cbn [width height cells a1] in Hn.
      unfold pos. rewrite Hn. rewrite copy_into_nth by exact Hpre.
      assert (Hcoord : in_win off (Z.to_nat (width a - 1 - 0 + 1)) (Z.to_nat (x + y * width a)) =
                       (y =? y0) && (0 <=? x) && (x <=? width a - 1)).
      { unfold off, pos. apply in_win_coords; lia. }
      replace (width a - 1 - 0 + 1) with (width a) in Hcoord by lia. fold n in Hcoord.
      assert (0 <= y0 * width a) by nia. assert (0 <= y * width a) by nia.
      unfold jag_value.
      destruct (Z.ltb_spec (y - (y0 + 1)) 0) as [Hk1|Hk1], (Z.ltb_spec (y - y0) 0) as [Hk|Hk]; try lia.
      * (* y < y0: untouched *)
        replace ((off <=? Z.to_nat (x + y * width a)) && (Z.to_nat (x + y * width a) <? off + Nat.min n (length r)))%nat
          with false; [reflexivity|].
        symmetry. apply andb_false_iff.
        destruct (Nat.leb_spec off (Z.to_nat (x + y * width a))) as [Hle|]; [|left; reflexivity].
        exfalso. assert (Hw' : in_win off n (Z.to_nat (x + y * width a)) = false).
        { rewrite Hcoord. destruct (Z.eqb_spec y y0); [lia|reflexivity]. }
        unfold off, pos in Hle. nia.
      * (* y = y0: this row *)
        assert (y = y0) by lia. subst y. replace (y0 - y0) with 0 by lia. cbn [Z.to_nat nth_error].
        assert (Hposx : (Z.to_nat (x + y0 * width a) - off = Z.to_nat x)%nat) by (unfold off, pos; lia).
        assert (Hoff : (off <=? Z.to_nat (x + y0 * width a))%nat = true) by (apply Nat.leb_le; unfold off, pos; lia).
        rewrite Hoff. cbn [andb]. rewrite Hposx.
        destruct (Nat.ltb_spec (Z.to_nat (x + y0 * width a)) (off + Nat.min n (length r))) as [Hl|Hl].
        -- destruct (nth_error r (Z.to_nat x)) eqn:Er; [reflexivity|].
           apply nth_error_None in Er. unfold off, pos, n in Hl. lia.
        -- destruct (nth_error r (Z.to_nat x)) eqn:Er; [|reflexivity].
           assert (Z.to_nat x < length r)%nat by (apply nth_error_Some; congruence).
           unfold off, pos, n in Hl. lia.
      * (* y > y0: a later row, not touched by this copy *)
        replace (Z.to_nat (y - y0)) with (S (Z.to_nat (y - (y0 + 1)))) by lia. cbn [nth_error].
        assert (Hw' : in_win off n (Z.to_nat (x + y * width a)) = false).
        { rewrite Hcoord. destruct (Z.eqb_spec y y0); [lia|reflexivity]. }
        assert (Hw'' : ((off <=? Z.to_nat (x + y * width a)) &&
                        (Z.to_nat (x + y * width a) <? off + Nat.min n (length r)))%nat = false).
        { apply andb_false_iff. unfold in_win in Hw'. apply andb_false_iff in Hw' as [Hf|Hf]; [left; exact Hf|].
          right. apply Nat.ltb_ge. apply Nat.ltb_ge in Hf. lia. }
        rewrite Hw''. reflexivity.
Qed.

Lemma new2d_from_jagged_spec w h (jagged : list (list A)) : 0 <= w -> 0 <= h ->
  exists a, new2d_from_jagged zero w h jagged = Ok a /\ wf a /\ width a = w /\ height a = h /\
    forall x y, in_bounds a x y ->
      get a x y = Ok (match nth_error jagged (Z.to_nat y) with
                      | Some r => match nth_error r (Z.to_nat x) with Some v => v | None => zero end
                      | None => zero
                      end).
Proof.
  intros Hw Hh. unfold new2d_from_jagged.
  destruct (new2d_spec w h Hw Hh) as (a0 & E0 & Hwf0 & Ew0 & Eh0 & Hz). rewrite E0. cbn [bind].
  destruct (from_jagged_loop_spec jagged a0 0 Hwf0) as (a & E & Hwf & Ew & Eh & Hn); [lia|].
  exists a. split; [exact E|]. split; [exact Hwf|]. split; [lia|]. split; [lia|].
  intros x y Hin. assert (Hin0 : in_bounds a0 x y) by (unfold in_bounds in *; rewrite <- Ew, <- Eh; exact Hin).
  rewrite (get_cell a x y Hin). replace (pos a x y) with (pos a0 x y) by (unfold pos; rewrite Ew; reflexivity).
  rewrite (Hn x y Hin0).
  pose proof (Hz x y Hin0) as Hz'. rewrite (get_cell a0 x y Hin0) in Hz'.
  destruct (nth_error (cells a0) (pos a0 x y)) as [z|] eqn:Ez; [|discriminate]. injection Hz' as ->.
  unfold jag_value. replace (y - 0) with y by lia. destruct Hin0 as [_ Hy].
  destruct (Z.ltb_spec y 0); [lia|].
  destruct (nth_error jagged (Z.to_nat y)) as [r|]; [|reflexivity].
  destruct (nth_error r (Z.to_nat x)); reflexivity.
Qed.

End Constructors.

(* ---- String ---- *)
Section StringRows.
Context {A : Type}.
Implicit Types (a : array2d A).

Lemma mapM_total {X Y : Type} (f : X -> result Y) (l : list X) :
  (forall x, In x l -> exists y, f x = Ok y) -> exists ys, mapM f l = Ok ys.
Proof.
  induction l as [|x l IH]; intro H; simpl; [eexists; reflexivity|].
  destruct (H x) as [y Ey]; [left; reflexivity|]. rewrite Ey. simpl.
  destruct IH as [ys Eys]; [intros; apply H; right; assumption|]. rewrite Eys. simpl. eexists; reflexivity.
Qed.

Lemma mapM_inv {X Y : Type} (f : X -> result Y) : forall (l : list X) ys, mapM f l = Ok ys ->
  (length ys = length l)%nat /\
  forall i x, nth_error l i = Some x -> exists y, nth_error ys i = Some y /\ f x = Ok y.
Proof.
  induction l as [|x l IH]; intros ys E; simpl in E.
  - injection E as <-. split; [reflexivity|]. intros [|i] x H; discriminate.
  - destruct (f x) as [y|] eqn:Ey; simpl in E; [|discriminate].
    destruct (mapM f l) as [ys'|] eqn:Eys; simpl in E; [|discriminate]. injection E as <-.
    destruct (IH ys' eq_refl) as [HL Hn]. split; [simpl; congruence|].
    intros [|i] x' H; simpl in H.
    + injection H as <-. exists y. auto.
    + apply Hn. exact H.
Qed.

Lemma string_rows_spec a : wf a ->
  exists rows, string_rows a = Ok rows /\ length rows = Z.to_nat (height a) /\
   forall x y, in_bounds a x y ->
      exists r v, nth_error rows (Z.to_nat y) = Some r /\ length r = Z.to_nat (width a) /\
                 nth_error r (Z.to_nat x) = Some v /\ get a x y = Ok v.
Proof.
  intro Hwf.
  assert (G : forall x y, (x < Z.to_nat (width a))%nat -> (y < Z.to_nat (height a))%nat ->
            get_unchecked a (Z.of_nat x) (Z.of_nat y) = get a (Z.of_nat x) (Z.of_nat y) /\
           exists v, get a (Z.of_nat x) (Z.of_nat y) = Ok v).
  { intros x y Hx Hy. assert (Hin : in_bounds a (Z.of_nat x) (Z.of_nat y)) by (unfold in_bounds; lia).
    destruct (get_in a _ _ Hwf Hin) as (v & Eg & _). split; [|exists v; exact Eg].
    unfold get. rewrite (oob_false (Z.of_nat x) (width a)), (oob_false (Z.of_nat y) (height a)) by lia.
    reflexivity. }
  unfold string_rows.
  destruct (mapM_total
    (fun y => mapM (fun x => get_unchecked a (Z.of_nat x) (Z.of_nat y)) (seq 0 (Z.to_nat (width a))))
    (seq 0 (Z.to_nat (height a)))) as [rows Erows].
  { intros y Hy. apply in_seq in Hy. apply mapM_total. intros x Hx. apply in_seq in Hx.
    destruct (G x y) as [E [v Ev]]; try lia. exists v. congruence. }
  exists rows. split; [exact Erows|]. destruct (mapM_inv _ _ _ Erows) as [HL Hn].
  split; [rewrite HL; apply seq_length|].
  intros x y [Hx Hy].
  destruct (Hn (Z.to_nat y) (Z.to_nat y)) as (r & Er & Emr).
  { rewrite nth_error_nth' with (d := 0%nat) by (rewrite seq_length; lia). rewrite seq_nth by lia. reflexivity. }
  destruct (mapM_inv _ _ _ Emr) as [HLr Hnr].
  destruct (Hnr (Z.to_nat x) (Z.to_nat x)) as (v & Ev & Eg).
  { rewrite nth_error_nth' with (d := 0%nat) by (rewrite seq_length; lia). rewrite seq_nth by lia. reflexivity. }
  exists r, v. split; [exact Er|]. split; [rewrite HLr; apply seq_length|]. split; [exact Ev|].
  destruct (G (Z.to_nat x) (Z.to_nat y)) as [E _]; try lia.
  rewrite !Z2Nat.id in E by lia. rewrite <- E. rewrite !Z2Nat.id in Eg by lia. exact Eg.
Qed.

End StringRows.

(* ---- Get returns the last value stored, for every sequence of Sets ---- *)
Section LastStored.
Context {A : Type}.
Implicit Types (a : array2d A).

Lemma set_all_spec : forall (ops : list (Z * Z * A)) a, wf a ->
  Forall (fun o => in_bounds a (fst (fst o)) (snd (fst o))) ops ->
  exists a', set_all a ops = (a', None) /\ wf a' /\ width a' = width a /\ height a' = height a /\
    forall x y, get a' x y = match last_stored ops x y with Some v => Ok v | None => get a x y end.
Proof.
  induction ops as [|[[x0 y0] v0] rest IH]; intros a Hwf Hall.
  - exists a. simpl. auto.
  - inversion Hall as [|o l Hin Hrest]; subst. cbn [fst snd] in Hin.
    destruct (set_in a x0 y0 v0 Hwf Hin) as (a1 & E1 & Hwf1 & Ew1 & Eh1 & Hg1 & Hother).
    destruct (IH a1 Hwf1) as (a' & E & Hwf' & Ew & Eh & Hg).
    { eapply Forall_impl; [|exact Hrest]. intros o Ho. unfold in_bounds in *. rewrite Ew1, Eh1. exact Ho. }
    exists a'. cbn [set_all]. rewrite E1. split; [exact E|]. split; [exact Hwf'|].
    split; [congruence|]. split; [congruence|].
    intros x y. rewrite Hg. cbn [last_stored].
    destruct (last_stored rest x y); [reflexivity|].
    destruct (Z.eqb_spec x0 x) as [->|Nx]; [destruct (Z.eqb_spec y0 y) as [->|Ny]|]; cbn [andb].
    + exact Hg1.
    + apply Hother. congruence.
    + apply Hother. congruence.
Qed.

End LastStored.

(* ---- the property as a refinement: every program of mutating calls ---- *)
Section Refinement.
Context {A : Type}.
Implicit Types (a : array2d A) (g : grid A).

Lemma inb_spec a x y : inb (width a) (height a) x y = true <-> in_bounds a x y.
Proof.
  unfold inb, in_bounds.
  destruct (Z.leb_spec 0 x), (Z.ltb_spec x (width a)), (Z.leb_spec 0 y), (Z.ltb_spec y (height a)); simpl;
    split; intro; try discriminate; try reflexivity; lia.
Qed.

Lemma inb_false a x y : inb (width a) (height a) x y = false <-> ~ in_bounds a x y.
Proof.
  rewrite <- inb_spec. destruct (inb (width a) (height a) x y); split; intro; congruence.
Qed.

Lemma agrees_same a a' g : width a' = width a -> height a' = height a ->
  (forall x y, get a' x y = get a x y) -> agrees a g -> agrees a' g.
Proof.
  intros Ew Eh E H x y Hin. rewrite E. apply H. unfold in_bounds in *. rewrite <- Ew, <- Eh. exact Hin.
Qed.

(* the result of Set in terms of the cell model *)
Lemma set_refines a g x y (v : A) : wf a -> agrees a g -> in_bounds a x y ->
  exists a', set a x y v = (a', None) /\ wf a' /\ width a' = width a /\ height a' = height a /\
    agrees a' (upd g x y v).
Proof.
  intros Hwf Hag Hin. destruct (set_in a x y v Hwf Hin) as (a' & E & Hwf' & Ew & Eh & Hg & Ho).
  exists a'. repeat (split; [assumption|]). intros x' y' Hin'. unfold upd.
  destruct (Z.eqb_spec x' x) as [->|Nx]; [destruct (Z.eqb_spec y' y) as [->|Ny]|]; cbn [andb].
  - exact Hg.
  - rewrite Ho by congruence. apply Hag. unfold in_bounds in *. rewrite <- Ew, <- Eh. exact Hin'.
  - rewrite Ho by congruence. apply Hag. unfold in_bounds in *. rewrite <- Ew, <- Eh. exact Hin'.
Qed.

(* a panicking call through a window leaves an array with the same cells *)
Lemma with_cells_same a p : with_cells a (cells a, p) = (a, p).
Proof. destruct a. reflexivity. Qed.

Lemma run_call_refines a g (k : call A) : wf a -> agrees a g ->
  exists a' p, run_call a k = (a', p) /\ wf a' /\ width a' = width a /\ height a' = height a /\
    agrees a' (fst (ref_call (width a) (height a) g k)) /\
    snd (ref_call (width a) (height a) g k) = match p with Some _ => true | None => false end.
Proof.
  intros Hwf Hag. destruct k as [x y v|x1 y1 x2 y2 v|y i v|x1 x2 y i v]; cbn [run_call ref_call].
  - (* Set *)
    destruct (inb (width a) (height a) x y) eqn:Ei.
    + apply inb_spec in Ei. destruct (set_refines a g x y v Hwf Hag Ei) as (a' & E & H1 & H2 & H3 & H4).
      exists a', None. rewrite E. cbn [fst snd]. auto 10.
    + apply inb_false in Ei. rewrite (set_out a x y v Ei). exists a, (Some IndexOutOfRange). cbn [fst snd]. auto 10.
  - (* Fill *)
    destruct (inb (width a) (height a) x1 y1) eqn:E1; [destruct (inb (width a) (height a) x2 y2) eqn:E2|]; cbn [andb].
    + apply inb_spec in E1, E2.
      destruct (fill_in a x1 y1 x2 y2 v Hwf E1 E2) as (a' & E & Hwf' & Ew & Eh & Hg).
      exists a', None. rewrite E. cbn [fst snd]. repeat (split; [assumption || reflexivity|]). split; [|reflexivity].
      intros x y Hin. assert (Hin0 : in_bounds a x y) by (unfold in_bounds in *; rewrite <- Ew, <- Eh; exact Hin).
      rewrite (Hg x y Hin0). destruct (in_rect x1 y1 x2 y2 x y); [reflexivity|]. apply Hag. exact Hin0.
    + apply inb_false in E2. rewrite (fill_out a x1 y1 x2 y2 v) by tauto.
      exists a, (Some IndexOutOfRange). cbn [fst snd]. auto 10.
    + apply inb_false in E1. rewrite (fill_out a x1 y1 x2 y2 v) by tauto.
      exists a, (Some IndexOutOfRange). cbn [fst snd]. auto 10.
  - (* Row(y)[i] = v *)
    destruct (inb (width a) (height a) i y) eqn:Ei.
    + apply inb_spec in Ei. pose proof Ei as [Hi Hy].
      rewrite (row_in a y Hwf Hy).
      destruct (window_is_cells a 0 y (Z.to_nat (width a)) i v) as [_ Ews]; try lia.
      cbv zeta in Ews. rewrite Ews. replace (0 + i) with i by lia.
      destruct (set_refines a g i y v Hwf Hag Ei) as (a' & E & H1 & H2 & H3 & H4).
      exists a', None. rewrite E. cbn [fst snd]. auto 10.
    + apply inb_false in Ei.
      assert (exists p, match row a y with
                        | Ok win => with_cells a (win_store (cells a) win i v)
                        | Panic p => (a, Some p) end = (a, Some p)) as [p Ep].
      { destruct (Z.ltb_spec y 0) as [Hy|Hy]; [|destruct (Z.ltb_spec y (height a)) as [Hy2|Hy2]].
        - rewrite row_out by lia. eexists; reflexivity.
        - rewrite (row_in a y Hwf) by lia.
          destruct (window_outside (cells a) (pos a 0 y, Z.to_nat (width a)) i v) as [_ Es].
          { cbn [snd]. destruct Hwf as (Hw & _). unfold in_bounds in Ei. lia. }
          rewrite Es, with_cells_same. eexists; reflexivity.
        - rewrite row_out by lia. eexists; reflexivity. }
      rewrite Ep. exists a, (Some p). cbn [fst snd]. auto 10.
  - (* RowSpan(x1,x2,y)[i] = v *)
    destruct (inb (width a) (height a) x1 y && inb (width a) (height a) x2 y && (0 <=? i) && (i <=? x2 - x1)) eqn:Ei.
    + apply andb_true_iff in Ei as [Ei Ei4]. apply andb_true_iff in Ei as [Ei Ei3].
      apply andb_true_iff in Ei as [Ei1 Ei2]. apply inb_spec in Ei1, Ei2.
      apply Z.leb_le in Ei3, Ei4. destruct Ei1 as [Hx1 Hy], Ei2 as [Hx2 _].
      rewrite (row_span_in a x1 x2 y Hwf) by lia.
      destruct (window_is_cells a x1 y (Z.to_nat (x2 - x1 + 1)) i v) as [_ Ews]; try lia.
      cbv zeta in Ews. rewrite Ews.
      assert (Hin : in_bounds a (x1 + i) y) by (unfold in_bounds; lia).
      destruct (set_refines a g (x1 + i) y v Hwf Hag Hin) as (a' & E & H1 & H2 & H3 & H4).
      exists a', None. rewrite E. cbn [fst snd]. auto 10.
    + assert (exists p, match row_span a x1 x2 y with
                        | Ok win => with_cells a (win_store (cells a) win i v)
                        | Panic p => (a, Some p) end = (a, Some p)) as [p Ep].
      { destruct (inb (width a) (height a) x1 y) eqn:E1; [destruct (inb (width a) (height a) x2 y) eqn:E2|].
        - apply inb_spec in E1, E2. destruct E1 as [Hx1 Hy], E2 as [Hx2 _]. cbn [andb] in Ei.
          destruct (Z.leb_spec x1 (x2 + 1)) as [H12|H12].
          + rewrite (row_span_in a x1 x2 y Hwf) by lia.
            destruct (window_outside (cells a) (pos a x1 y, Z.to_nat (x2 - x1 + 1)) i v) as [_ Es].
            { cbn [snd]. destruct (Z.leb_spec 0 i), (Z.leb_spec i (x2 - x1)); try discriminate; lia. }
            rewrite Es, with_cells_same. eexists; reflexivity.
          + unfold row_span. rewrite (oob_false x1), (oob_false y), (oob_false x2) by lia.
            unfold slice_win.
            destruct (Z.leb_spec (x1 + y * width a) (1 + x2 + y * width a)); [lia|].
            rewrite andb_false_r. cbn [andb]. eexists; reflexivity.
        - apply inb_false in E2. rewrite row_span_out by (unfold in_bounds in E2; lia). eexists; reflexivity.
        - apply inb_false in E1. rewrite row_span_out by (unfold in_bounds in E1; lia). eexists; reflexivity. }
      rewrite Ep. exists a, (Some p). cbn [fst snd]. auto 10.
Qed.

Theorem run_calls_refine : forall (ks : list (call A)) a g, wf a -> agrees a g ->
  wf (fst (run_calls a ks)) /\
  width (fst (run_calls a ks)) = width a /\ height (fst (run_calls a ks)) = height a /\
  agrees (fst (run_calls a ks)) (fst (ref_calls (width a) (height a) g ks)) /\
  snd (run_calls a ks) = snd (ref_calls (width a) (height a) g ks).
Proof.
  induction ks as [|k rest IH]; intros a g Hwf Hag.
  - simpl. auto.
  - cbn [run_calls ref_calls].
    destruct (run_call_refines a g k Hwf Hag) as (a1 & p & E & Hwf1 & Ew & Eh & Hag1 & Hp).
    rewrite E. destruct (ref_call (width a) (height a) g k) as [g1 b] eqn:Er. cbn [fst snd] in Hag1, Hp.
    specialize (IH a1 g1 Hwf1 Hag1). rewrite Ew, Eh in IH.
    destruct (run_calls a1 rest) as [a2 ps]. destruct (ref_calls (width a) (height a) g1 rest) as [g2 bs].
    cbn [fst snd] in *. destruct IH as (H1 & H2 & H3 & H4 & H5).
    repeat (split; [assumption|]). rewrite H5, Hp. reflexivity.
Qed.

End Refinement.

(* non-vacuity of [agrees]: a concrete 3x2 array and its cell function *)
Lemma agrees_example : agrees (Arr 3 2 [1;2;3;4;5;6]) (fun x y => 1 + x + y * 3).
Proof.
  intros x y [Hx Hy]. cbn [width height] in Hx, Hy.
  assert (x = 0 \/ x = 1 \/ x = 2) as [->|[->| ->]] by lia;
    (assert (y = 0 \/ y = 1) as [->| ->] by lia); reflexivity.
Qed.

Lemma wf_agrees_example :
  wf (Arr 3 2 [1;2;3;4;5;6]) /\ agrees (Arr 3 2 [1;2;3;4;5;6]) (fun x y => 1 + x + y * 3).
Proof. split; [unfold wf; cbn; lia | exact agrees_example]. Qed.

(* ---- the two transcriptions of slices.Fill agree ----
   C12 (Slices/Splice.v) models a Go slice as its backing array from the slice's first
   element to the end of its capacity plus its length; here a slice is a window (off, n)
   of the backing list [c], i.e. the C12 slice [GS (skipn off c) n].  Filling through either
   transcription gives the same backing array (and nothing before the window is touched). *)
From Typ Require Slices.Splice Slices.SpliceProofs.

Lemma slices_fill_is_splice_fill {A : Type} (v : A) (c : list A) off n : (off + n <= length c)%nat ->
  exists c', slices_fill c (off, n) v = (c', None) /\
    Splice.fill (Splice.GS (skipn off c) n) v = Ok (Splice.GS (skipn off c') n) /\
    firstn off c' = firstn off c /\ length c' = length c.
Proof.
  intro Hlen. destruct (slices_fill_spec v c off n Hlen) as (c' & E & HL & Hn).
  exists c'. split; [exact E|].
  assert (Hskip : skipn off c' = (repeat v n ++ skipn n (skipn off c))%list).
  { apply nth_error_ext. intro j. rewrite nth_error_skipn, Hn.
    destruct (Nat.ltb_spec j n) as [Hj|Hj].
    - rewrite in_win_true by lia. rewrite nth_error_app1 by (rewrite repeat_length; exact Hj).
      rewrite nth_error_repeat. replace (j <? n)%nat with true by (symmetry; apply Nat.ltb_lt; exact Hj). reflexivity.
    - rewrite in_win_false by lia. rewrite nth_error_app2 by (rewrite repeat_length; exact Hj).
      rewrite repeat_length, !nth_error_skipn. f_equal. lia. }
  split.
  - rewrite SpliceProofs.fill_correct.
    + cbn [Splice.arr Splice.len]. rewrite Hskip. reflexivity.
    + unfold Splice.wf, Splice.cap. cbn [Splice.arr Splice.len]. rewrite skipn_length. lia.
  - split; [|exact HL]. apply nth_error_ext. intro j. rewrite !nth_error_firstn.
    destruct (Nat.ltb_spec j off); [|reflexivity]. rewrite Hn. rewrite in_win_false by lia. reflexivity.
Qed.
