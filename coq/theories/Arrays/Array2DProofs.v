(* Proofs about the Array2D model (C08). *)
From Typ Require Import Lib.Base Arrays.Array2D.

Local Open Scope Z_scope.

(* ---- the index expression: range and injectivity, for every width and height ---- *)

Lemma idx_range w h x y : 0 <= x < w -> 0 <= y < h -> 0 <= x + y * w < w * h.
Proof. intros Hx Hy. nia. Qed.

Lemma idx_inj w x y x' y' : 0 <= x < w -> 0 <= x' < w -> 0 <= y -> 0 <= y' ->
  x + y * w = x' + y' * w -> x = x' /\ y = y'.
Proof. intros Hx Hx' Hy Hy' E. assert (y = y') by nia. subst. lia. Qed.
