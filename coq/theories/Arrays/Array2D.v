(* Model of arrays.Array2D (/repo/arrays/array2d.go) and of slices.Fill
   (/repo/slices/slices.go) as used by it, transcribed function by function.

   Backing-array model: an Array2D is its width, its height and the list of
   the elements of its backing slice.  A Go sub-slice of the backing slice
   (what Row, RowSpan and the locals of Fill are) is a [window]: offset and
   length into [cells]; reading or writing through it is reading or writing
   [cells] at offset+i, which is what makes it "live".
   Methods that write return the array after the call TOGETHER with the panic
   (if any), so "panics without altering the array" is a statement about the
   model and not true by construction.
   The index expression of each of the six sites (getUnchecked, setUnchecked,
   RowSpan, Row, two in Fill) is written out at that site exactly as in the Go
   source; nothing is shared between them.
   Go int is Z.  Definitions only. *)
From Typ Require Export Lib.Base.

Local Open Scope Z_scope.

(* offset and length, in elements, into the backing list *)
Definition window := (nat * nat)%type.

Section Array2D.
Context {A : Type}.
Variable zero : A.   (* the zero value of the element type (what make() fills with) *)

Record array2d := Arr { width : Z; height : Z; cells : list A }.

(* ---- Go slice primitives on the backing list ---- *)

(* s[i] *)
Definition index_get (s : list A) (i : Z) : result A :=
  if i <? 0 then Panic IndexOutOfRange else get_nth (Z.to_nat i) s.

(* s[i] = v *)
Definition index_set (s : list A) (i : Z) (v : A) : result (list A) :=
  if i <? 0 then Panic IndexOutOfRange else set_nth (Z.to_nat i) v s.

(* s[lo:hi] of a slice whose len and cap are both [length s] (it was made by make(n)) *)
Definition slice_win (s : list A) (lo hi : Z) : result window :=
  if (0 <=? lo) && (lo <=? hi) && (hi <=? Z.of_nat (length s))
  then Ok (Z.to_nat lo, Z.to_nat (hi - lo))
  else Panic IndexOutOfRange.

(* the backing list after some writes, and the panic that stopped them (if any) *)
Definition mut := (list A * option panic_kind)%type.

Definition and_then (m : mut) (f : list A -> mut) : mut :=
  match m with
  | (c, None) => f c
  | (c, Some k) => (c, Some k)
  end.

Definition store (c : list A) (i : Z) (v : A) : mut :=
  match index_set c i v with
  | Ok c' => (c', None)
  | Panic k => (c, Some k)
  end.

(* the elements seen through a window *)
Definition win_read (c : list A) (w : window) : list A := firstn (snd w) (skipn (fst w) c).

(* w[i] and w[i] = v for a window w (index checked against the window's length) *)
Definition win_get (c : list A) (w : window) (i : Z) : result A :=
  if (i <? 0) || (i >=? Z.of_nat (snd w)) then Panic IndexOutOfRange
  else index_get c (Z.of_nat (fst w) + i).
Definition win_store (c : list A) (w : window) (i : Z) (v : A) : mut :=
  if (i <? 0) || (i >=? Z.of_nat (snd w)) then (c, Some IndexOutOfRange)
  else store c (Z.of_nat (fst w) + i) v.

(* copy(dst, src): dst is the window [d] of [c]; [src] are the source values,
   read before anything is written (memmove semantics); min(len) elements. *)
Definition copy_into (c : list A) (d : window) (src : list A) : list A :=
  let n := Nat.min (snd d) (length src) in
  (firstn (fst d) c ++ firstn n src ++ skipn (fst d + n) c)%list.

(* ---- slices.Fill(slice, value), slice being the window [s] ---- *)

(* for i := 1; i < len(slice); i += i { copy(slice[i:], slice[:i]) } *)
Fixpoint fill_loop (fuel : nat) (c : list A) (s : window) (i : nat) : mut :=
  if (i <? snd s)%nat then
    match fuel with
    | O => (c, Some OtherPanic) (* out of fuel; excluded by the theorems *)
    | S f =>
        let dst := (fst s + i, snd s - i)%nat in      (* slice[i:] *)
        let src := win_read c (fst s, i) in           (* slice[:i] *)
        fill_loop f (copy_into c dst src) s (i + i)
    end
  else (c, None).

Definition slices_fill (c : list A) (s : window) (v : A) : mut :=
  if (snd s =? 0)%nat then (c, None) else
  and_then (win_store c s 0 v) (fun c => fill_loop (snd s) c s 1).

(* ---- constructors ---- *)

Definition new2d (w h : Z) : result array2d :=
  if w * h <? 0 then Panic OtherPanic (* makeslice: len out of range *) else
  Ok (Arr w h (repeat zero (Z.to_nat (w * h)))).

Definition new2d_filled (w h : Z) (value : A) : result array2d :=
  if w * h <? 0 then Panic OtherPanic else
  let slice := repeat zero (Z.to_nat (w * h)) in
  match slices_fill slice (0%nat, length slice) value with
  | (slice', None) => Ok (Arr w h slice')
  | (_, Some k) => Panic k
  end.

(* ---- methods ---- *)

Definition get_unchecked (a : array2d) (x y : Z) : result A :=
  index_get (cells a) (x + y * width a).

Definition get (a : array2d) (x y : Z) : result A :=
  if (x <? 0) || (x >=? width a) then Panic IndexOutOfRange else
  if (y <? 0) || (y >=? height a) then Panic IndexOutOfRange else
  get_unchecked a x y.

(* the array after a mutating call, and the panic of that call (if any) *)
Definition amut := (array2d * option panic_kind)%type.
Definition with_cells (a : array2d) (m : mut) : amut := (Arr (width a) (height a) (fst m), snd m).

Definition set_unchecked (a : array2d) (x y : Z) (value : A) : amut :=
  with_cells a (store (cells a) (x + y * width a) value).

Definition set (a : array2d) (x y : Z) (value : A) : amut :=
  if (x <? 0) || (x >=? width a) then (a, Some IndexOutOfRange) else
  if (y <? 0) || (y >=? height a) then (a, Some IndexOutOfRange) else
  set_unchecked a x y value.

Definition clone (a : array2d) : array2d :=
  let slice := repeat zero (length (cells a)) in
  Arr (width a) (height a) (copy_into slice (0%nat, length slice) (cells a)).

Definition row_span (a : array2d) (x1 x2 y : Z) : result window :=
  if (x1 <? 0) || (x1 >=? width a) then Panic IndexOutOfRange else
  if (y <? 0) || (y >=? height a) then Panic IndexOutOfRange else
  if (x2 <? 0) || (x2 >=? width a) then Panic IndexOutOfRange else
  slice_win (cells a) (x1 + y * width a) (1 + x2 + y * width a).

Definition row (a : array2d) (y : Z) : result window :=
  if (y <? 0) || (y >=? height a) then Panic IndexOutOfRange else
  slice_win (cells a) (y * width a) (width a + y * width a).

(* for y := y1 + 1; y <= y2; y++ { copy(a.slice[x1+y*a.width:1+x2+y*a.width], firstRow) } *)
Fixpoint fill_rows (fuel : nat) (a_width : Z) (c : list A) (x1 x2 y y2 : Z) (firstRow : window) : mut :=
  if y <=? y2 then
    match fuel with
    | O => (c, Some OtherPanic) (* out of fuel; excluded by the theorems *)
    | S f =>
        match slice_win c (x1 + y * a_width) (1 + x2 + y * a_width) with
        | Panic k => (c, Some k)
        | Ok dst => fill_rows f a_width (copy_into c dst (win_read c firstRow)) x1 x2 (y + 1) y2 firstRow
        end
    end
  else (c, None).

Definition fill (a : array2d) (x1 y1 x2 y2 : Z) (value : A) : amut :=
  if (x1 <? 0) || (x1 >=? width a) then (a, Some IndexOutOfRange) else
  if (y1 <? 0) || (y1 >=? height a) then (a, Some IndexOutOfRange) else
  if (x2 <? 0) || (x2 >=? width a) then (a, Some IndexOutOfRange) else
  if (y2 <? 0) || (y2 >=? height a) then (a, Some IndexOutOfRange) else
  let '(x1, x2) := if x2 <? x1 then (x2, x1) else (x1, x2) in
  let '(y1, y2) := if y2 <? y1 then (y2, y1) else (y1, y2) in
  match slice_win (cells a) (x1 + y1 * width a) (1 + x2 + y1 * width a) with
  | Panic k => (a, Some k)
  | Ok firstRow =>
      with_cells a
        (and_then (slices_fill (cells a) firstRow value) (fun c =>
         fill_rows (Z.to_nat (y2 - y1)) (width a) c x1 x2 (y1 + 1) y2 firstRow))
  end.

(* for y, row := range jagged { if y >= height { break }; copy(arr.Row(y), row) } *)
Fixpoint from_jagged_loop (arr : array2d) (y : Z) (jagged : list (list A)) : result array2d :=
  match jagged with
  | [] => Ok arr
  | r :: rest =>
      if y >=? height arr then Ok arr else
      do w <- row arr y;
      from_jagged_loop (Arr (width arr) (height arr) (copy_into (cells arr) w r)) (y + 1) rest
  end.

Definition new2d_from_jagged (w h : Z) (jagged : list (list A)) : result array2d :=
  do arr <- new2d w h;
  from_jagged_loop arr 0 jagged.

Fixpoint mapM {X Y : Type} (f : X -> result Y) (l : list X) : result (list Y) :=
  match l with
  | [] => Ok []
  | x :: l' => do y <- f x; do ys <- mapM f l'; Ok (y :: ys)
  end.

(* String(): the values it prints, row by row:
   for y := 0; y < a.height; y++ { for x := 0; x < a.width; x++ { a.getUnchecked(x, y) } } *)
Definition string_rows (a : array2d) : result (list (list A)) :=
  mapM (fun y => mapM (fun x => get_unchecked a (Z.of_nat x) (Z.of_nat y)) (seq 0 (Z.to_nat (width a))))
       (seq 0 (Z.to_nat (height a))).

End Array2D.

Arguments array2d A : clear implicits.

(* ---- reference notions used by the statements of C08 ---- *)

(* The shape invariant every constructor establishes and every method keeps. *)
Definition wf {A} (a : array2d A) : Prop :=
  0 <= width a /\ 0 <= height a /\ length (cells a) = Z.to_nat (width a * height a).

Definition in_bounds {A} (a : array2d A) (x y : Z) : Prop :=
  0 <= x < width a /\ 0 <= y < height a.

(* is (x,y) inside the inclusive rectangle spanned by the two corners, whichever way round *)
Definition in_rect (x1 y1 x2 y2 x y : Z) : bool :=
  (Z.min x1 x2 <=? x) && (x <=? Z.max x1 x2) && (Z.min y1 y2 <=? y) && (y <=? Z.max y1 y2).

(* A whole sequence of Set calls (x, y, v), stopping at the first panic; and the
   last value such a sequence stores at (x, y), if any. *)
Fixpoint set_all {A} (a : array2d A) (ops : list (Z * Z * A)) : amut :=
  match ops with
  | [] => (a, None)
  | (x, y, v) :: rest =>
      match set a x y v with
      | (a', None) => set_all a' rest
      | (a', Some k) => (a', Some k)
      end
  end.

Fixpoint last_stored {A} (ops : list (Z * Z * A)) (x y : Z) : option A :=
  match ops with
  | [] => None
  | (x', y', v) :: rest =>
      match last_stored rest x y with
      | Some u => Some u
      | None => if (x' =? x) && (y' =? y) then Some v else None
      end
  end.

(* ---- the property as a refinement: programs of mutating calls ---- *)

(* the calls through which a program can change an array *)
Inductive call (A : Type) :=
| KSet (x y : Z) (v : A)                 (* a.Set(x, y, v) *)
| KFill (x1 y1 x2 y2 : Z) (v : A)        (* a.Fill(x1, y1, x2, y2, v) *)
| KRowWrite (y i : Z) (v : A)            (* a.Row(y)[i] = v *)
| KSpanWrite (x1 x2 y i : Z) (v : A).    (* a.RowSpan(x1, x2, y)[i] = v *)
Arguments KSet {A}. Arguments KFill {A}. Arguments KRowWrite {A}. Arguments KSpanWrite {A}.

Definition run_call {A} (a : array2d A) (k : call A) : amut :=
  match k with
  | KSet x y v => set a x y v
  | KFill x1 y1 x2 y2 v => fill a x1 y1 x2 y2 v
  | KRowWrite y i v =>
      match row a y with
      | Ok win => with_cells a (win_store (cells a) win i v)
      | Panic p => (a, Some p)
      end
  | KSpanWrite x1 x2 y i v =>
      match row_span a x1 x2 y with
      | Ok win => with_cells a (win_store (cells a) win i v)
      | Panic p => (a, Some p)
      end
  end.

(* a program recovers from a panicking call and goes on (as the harness does);
   result: the array at the end and, per call, whether it panicked *)
Fixpoint run_calls {A} (a : array2d A) (ks : list (call A)) : array2d A * list bool :=
  match ks with
  | [] => (a, [])
  | k :: rest =>
      let '(a', p) := run_call a k in
      let '(a'', ps) := run_calls a' rest in
      (a'', (match p with Some _ => true | None => false end) :: ps)
  end.

(* The cell model of the property: width x height independent cells, a function from coordinates to values. *)
Definition grid (A : Type) := Z -> Z -> A.

Definition inb (w h x y : Z) : bool := (0 <=? x) && (x <? w) && (0 <=? y) && (y <? h).

Definition upd {A} (g : grid A) (x y : Z) (v : A) : grid A :=
  fun x' y' => if (x' =? x) && (y' =? y) then v else g x' y'.

Definition ref_call {A} (w h : Z) (g : grid A) (k : call A) : grid A * bool :=
  match k with
  | KSet x y v => if inb w h x y then (upd g x y v, false) else (g, true)
  | KFill x1 y1 x2 y2 v =>
      if inb w h x1 y1 && inb w h x2 y2
      then (fun x y => if in_rect x1 y1 x2 y2 x y then v else g x y, false)
      else (g, true)
  | KRowWrite y i v => if inb w h i y then (upd g i y v, false) else (g, true)
  | KSpanWrite x1 x2 y i v =>
      if inb w h x1 y && inb w h x2 y && (0 <=? i) && (i <=? x2 - x1)
      then (upd g (x1 + i) y v, false)
      else (g, true)
  end.

Fixpoint ref_calls {A} (w h : Z) (g : grid A) (ks : list (call A)) : grid A * list bool :=
  match ks with
  | [] => (g, [])
  | k :: rest =>
      let '(g', p) := ref_call w h g k in
      let '(g'', ps) := ref_calls w h g' rest in
      (g'', p :: ps)
  end.

(* array [a] holds exactly the cells of [g] *)
Definition agrees {A} (a : array2d A) (g : grid A) : Prop :=
  forall x y, in_bounds a x y -> get a x y = Ok (g x y).
