(* Correspondence check for C08.  A case is: how the harness built an Array2D[int]
   on the real package, the sequence of calls it then made on that one array,
   and what it observed after each call.  [check_case] re-runs the model on
   the same calls and compares every observation.  Definitions only.

   Observations of the array's contents ("grid") are what the harness read
   with Get(x,y) for every cell, row by row; after the first one they are
   delta-coded against the previous observation: a list of (position, value)
   for the positions whose value differs ([] = nothing changed). *)
From Typ Require Export Lib.Base Arrays.Array2D.

Local Open Scope Z_scope.

Inductive ctor :=
| CZero                                 (* var a Array2D[int]: the zero value (w = h = 0, nil slice) *)
| CNew                                  (* New2D(w, h) *)
| CFilled (v : Z)                       (* New2DFilled(w, h, v) *)
| CJagged (rows : list (list Z)).       (* New2DFromJagged(w, h, rows) *)

(* what the harness does with a window it got from Row/RowSpan *)
Inductive wop :=
| WWrite (i v : Z)                      (* win[i] = v, 0 <= i < len(win) *)
| WSet (x y v : Z).                     (* a.Set(x, y, v), in bounds, while holding the window *)

Inductive op :=
| OGet (x y : Z)
| OSet (x y v : Z)
| ORow (y : Z) (ws : list wop)
| ORowSpan (x1 x2 y : Z) (ws : list wop)
| OFill (x1 y1 x2 y2 v : Z)
| OClone
| OString
| ODims.

Definition delta := list (Z * Z).

Inductive obs :=
| BGet (r : result Z)
| BMut (p : option panic_kind) (d : delta)                     (* Set, Fill: panic?; grid afterwards *)
| BWin (r : result (list Z)) (after : list Z) (d : delta)      (* Row, RowSpan: window read at once; re-read after [ws]; grid afterwards *)
| BClone (w h : Z) (g : list Z)                                (* Width, Height and grid of the clone *)
| BString (rows : list (list Z))                               (* String() parsed *)
| BDims (w h : Z).

Record case := Case {
  c_w : Z;
  c_h : Z;
  c_ctor : ctor;
  c_grid0 : result (list Z);            (* grid right after construction *)
  c_steps : list (op * obs)
}.

(* every cell through the model's Get, row by row *)
Definition grid_of (a : array2d Z) : result (list Z) :=
  do rows <- mapM (fun y => mapM (fun x => get a (Z.of_nat x) (Z.of_nat y)) (seq 0 (Z.to_nat (width a))))
                  (seq 0 (Z.to_nat (height a)));
  Ok (concat rows).

Fixpoint apply_delta (g : list Z) (d : delta) : option (list Z) :=
  match d with
  | [] => Some g
  | (i, v) :: d' =>
      if i <? 0 then None else
      match set_nth (Z.to_nat i) v g with
      | Ok g' => apply_delta g' d'
      | Panic _ => None
      end
  end.

(* The property says "panics", not which panic: panic kinds are NOT compared
   (the harness derives the kind from the panic's type and message text, which
   the property does not fix).  Panicked / did not panic, and every value, are. *)
Definition res_eqb {X} (eqb : X -> X -> bool) (x y : result X) : bool :=
  match x, y with
  | Ok a, Ok b => eqb a b
  | Panic _, Panic _ => true
  | _, _ => false
  end.

Definition grid_matches (a : array2d Z) (og : list Z) : bool :=
  result_eqb (list_eqb Z.eqb) (grid_of a) (Ok og).

Definition opt_panic_eqb (p q : option panic_kind) : bool :=
  match p, q with Some _, Some _ | None, None => true | _, _ => false end.

(* the writes made while holding window [w]; any panic is reported *)
Fixpoint run_wops (a : array2d Z) (w : window) (ws : list wop) : amut :=
  match ws with
  | [] => (a, None)
  | WWrite i v :: ws' =>
      match with_cells a (win_store (cells a) w i v) with
      | (a', None) => run_wops a' w ws'
      | r => r
      end
  | WSet x y v :: ws' =>
      match set a x y v with
      | (a', None) => run_wops a' w ws'
      | r => r
      end
  end.

Definition run_window (a : array2d Z) (rw : result window) (ws : list wop)
           (r : result (list Z)) (after : list Z) : option (array2d Z) :=
  match rw, r with
  | Panic _, Panic _ => Some a
  | Ok w, Ok seen =>
      if list_eqb Z.eqb (win_read (cells a) w) seen then
        match run_wops a w ws with
        | (a', None) => if list_eqb Z.eqb (win_read (cells a') w) after then Some a' else None
        | (_, Some _) => None
        end
      else None
  | _, _ => None
  end.

(* one call: the model's array afterwards, or None if an observation differs *)
Definition step (a : array2d Z) (o : op) (b : obs) : option (array2d Z * delta) :=
  match o, b with
  | OGet x y, BGet r => if res_eqb Z.eqb (get a x y) r then Some (a, []) else None
  | OSet x y v, BMut p d =>
      let '(a', p') := set a x y v in if opt_panic_eqb p' p then Some (a', d) else None
  | OFill x1 y1 x2 y2 v, BMut p d =>
      let '(a', p') := fill a x1 y1 x2 y2 v in if opt_panic_eqb p' p then Some (a', d) else None
  | ORow y ws, BWin r after d =>
      match run_window a (row a y) ws r after with Some a' => Some (a', d) | None => None end
  | ORowSpan x1 x2 y ws, BWin r after d =>
      match run_window a (row_span a x1 x2 y) ws r after with Some a' => Some (a', d) | None => None end
  | OClone, BClone w h g =>
      let c := clone 0 a in
      if (width c =? w) && (height c =? h) && grid_matches c g then Some (a, []) else None
  | OString, BString rows =>
      if result_eqb (list_eqb (list_eqb Z.eqb)) (string_rows a) (Ok rows) then Some (a, []) else None
  | ODims, BDims w h => if (width a =? w) && (height a =? h) then Some (a, []) else None
  | _, _ => None
  end.

Fixpoint run_steps (a : array2d Z) (og : list Z) (steps : list (op * obs)) : bool :=
  match steps with
  | [] => true
  | (o, b) :: rest =>
      match step a o b with
      | None => false
      | Some (a', d) =>
          match apply_delta og d with
          | None => false
          | Some og' => grid_matches a' og' && run_steps a' og' rest
          end
      end
  end.

Definition construct (c : case) : result (array2d Z) :=
  match c_ctor c with
  | CZero => Ok (Arr 0 0 [])
  | CNew => new2d 0 (c_w c) (c_h c)
  | CFilled v => new2d_filled 0 (c_w c) (c_h c) v
  | CJagged rows => new2d_from_jagged 0 (c_w c) (c_h c) rows
  end.

Definition check_case_strict (c : case) : bool :=
  match construct c, c_grid0 c with
  | Panic _, Panic _ => match c_steps c with [] => true | _ => false end
  | Ok a, Ok g0 => (width a =? c_w c) && (height a =? c_h c) && grid_matches a g0 && run_steps a g0 (c_steps c)
  | _, _ => false
  end.

(* A negative width or height is outside the property (w, h >= 0).  Such cases stay in the
   stream and are evaluated on the model (new2d's make panic, the all-calls-panic array), but
   they never fail the check; the harness records as a stat whether the code still behaves
   as transcribed there. *)
Definition outside_property (c : case) : bool := (c_w c <? 0) || (c_h c <? 0).

Definition check_case (c : case) : bool :=
  let verdict := check_case_strict c in
  if outside_property c then true else verdict.
