(* Bridge from the marker-form linearizability of Sync/AtomicPool.v
   ([Linearizable]: linearization marks [EvLin] can be inserted into the
   history such that [lin_check] accepts) to the shared definition of
   Lib/Lin.v ([Lin.linearizable], possibilities form of Herlihy & Wing, with
   its sanity theorem [seq_linearizable_iff]): every history accepted in
   marker form is linearizable in the sense of Lib/Lin.v. Invocations map to
   [HInv], responses to [HRes], marks to the rule [poss_lin]. With it, the
   AtomicValue part of C18 is stated with the same definition as C04/C05. *)
From Typ Require Import Lib.Base Lib.Lin Sync.AtomicPool Sync.AtomicPoolProofs.

Section AtomicLin.
  Variable V : Type.
  Variable zero : V.
  Variable eqb : V -> V -> bool.
  Hypothesis eqb_spec : forall x y, eqb x y = true <-> x = y.

  (* the ideal register as a sequential specification, and its initial state (nothing stored) *)
  Definition register_spec : option V -> op V -> option V * res V := spec_step zero eqb.
  Definition zero_state : option V := None.

  (* invocation and response events in the vocabulary of Lib/Lin.v; marks carry no event *)
  Definition events_of (h : list (aevent V)) : list (@hevent (op V) (res V)) :=
    flat_map (fun e => match e with
                       | EvInv t o => [HInv t o]
                       | EvLin _ => []
                       | EvRes t r => [HRes t r]
                       end) h.

  Lemma events_of_app a b : events_of (a ++ b) = events_of a ++ events_of b.
  Proof. apply flat_map_app. Qed.

  Lemma events_of_erase hm : events_of (erase hm) = events_of hm.
  Proof.
    induction hm as [|e hm IH]; simpl; auto. destruct e; simpl; rewrite IH; reflexivity.
  Qed.

  Lemma res_eqb_eq (a b : res V) : res_eqb eqb a b = true -> a = b.
  Proof.
    destruct a as [x| |x], b as [y| |y]; simpl; intro H; try discriminate; auto.
    - apply eqb_spec in H. congruence.
    - apply Bool.eqb_prop in H. congruence.
  Qed.

  (* the per-thread status of [lin_check] against the pending map of [poss] *)
  Definition rel (s : status V) (p : option (op V * option (res V))) : Prop :=
    match s with
    | SIdle => p = None
    | SPending o => p = Some (o, None)
    | SDone r => exists o, p = Some (o, Some r)
    end.

  Lemma rel_update (f : tid -> status V) (P : @pend (op V) (res V)) t s x :
    (forall t', rel (f t') (P t')) -> rel s x ->
    forall t', rel (set_st f t s t') (upd P t x t').
  Proof.
    intros H Hs t'. unfold set_st, upd. destruct (Nat.eq_dec t' t) as [->|N].
    - rewrite Nat.eqb_refl. exact Hs.
    - apply Nat.eqb_neq in N. rewrite N. apply H.
  Qed.

  Lemma lin_check_poss hm : forall st, lin_check zero eqb hm = Some st ->
    exists P, poss register_spec zero_state (rev (events_of hm)) (l_spec st) P /\
              forall t, rel (l_st st t) (P t).
  Proof.
    induction hm as [|e hm IH] using rev_ind; intros st H.
    - injection H as <-. exists no_pend. split; [constructor|]. intro t. reflexivity.
    - rewrite lin_check_snoc in H. destruct (lin_check zero eqb hm) as [st0|]; [|discriminate].
      destruct (IH st0 eq_refl) as (P & Hp & Hrel). clear IH.
      rewrite events_of_app, rev_app_distr. pose proof (Hrel) as Hrel0.
      destruct e as [t o|t|t r]; simpl in H |- *.
      + (* invocation *)
        specialize (Hrel t). destruct (l_st st0 t) eqn:Hs; try discriminate. injection H as <-. simpl in *.
        exists (upd P t (Some (o, None))). split; [apply poss_inv; assumption|].
        apply rel_update; [exact Hrel0|reflexivity].
      + (* mark *)
        specialize (Hrel t). destruct (l_st st0 t) as [|o|] eqn:Hs; try discriminate. simpl in Hrel.
        destruct (spec_step zero eqb (l_spec st0) o) as [s' r] eqn:Hspec. injection H as <-. simpl.
        pose proof (poss_lin register_spec zero_state _ _ _ t o Hp Hrel) as Hl.
        unfold register_spec in Hl at 2 3. rewrite Hspec in Hl. simpl in Hl.
        eexists. split; [exact Hl|]. apply rel_update; [exact Hrel0|]. simpl. eauto.
      + (* response *)
        specialize (Hrel t). destruct (l_st st0 t) as [| |r'] eqn:Hs; try discriminate.
        destruct (res_eqb eqb r r') eqn:Hr; [|discriminate]. apply res_eqb_eq in Hr. subst r'.
        injection H as <-. simpl in *. destruct Hrel as (o & Ho).
        exists (upd P t None). split; [eapply poss_res; eauto|].
        apply rel_update; [exact Hrel0|reflexivity].
  Qed.

  (* marker form implies the shared definition *)
  Theorem marker_form_classical (h : list (aevent V)) :
    Linearizable zero eqb h -> Lin.linearizable register_spec zero_state (events_of h).
  Proof.
    intros (hm & <- & Hc). destruct (lin_check zero eqb hm) as [st|] eqn:E; [|congruence].
    destruct (lin_check_poss hm st E) as (P & Hp & _).
    exists (l_spec st), P. rewrite events_of_erase. exact Hp.
  Qed.

  Theorem register_linearizable_hw progs s :
    Lin.linearizable register_spec zero_state (events_of (ahistory (arun zero eqb (ainit progs) s))).
  Proof. apply marker_form_classical. apply register_linearizable. exact eqb_spec. Qed.
End AtomicLin.
