(* Correspondence check for C17. The harness runs scenarios on the real
   sync2.Once1/Once2/Once3 (several goroutines, each making one or more Do
   calls with its own function) and records which invocation ran and what every
   call returned. The blocking happens inside the Go runtime, so the harness
   does not own the schedule; the check is outcome-set inclusion:
   [check_case] builds, from the observed winner, a schedule of the model
   machine (the winner runs to completion, then every other thread), runs the
   MODEL [Once.step] along it and requires that the model's outcome is exactly
   the observed one (who ran, with which call; every returned tuple; how many
   calls returned before the invocation completed). An observation the model
   cannot produce under that schedule is reported as a mismatch. For small
   scenarios the check additionally explores EVERY schedule of the machine
   ([all_outcomes], with fuel) and requires the observation to be among the
   outcomes found. The observation is also replayed on the transcription of
   sync.Once itself (Sync/OnceImpl.v). A function that panics or calls runtime.Goexit is the
   model's aborting function: its caller produces no result. Definitions only. *)
From Typ Require Export Lib.Base Sync.Once Sync.OnceImpl.

Record case := Case {
  c_arity : Z;                              (* 1, 2 or 3 *)
  c_progs : list (list (Z * list Z * bool)); (* per goroutine: its Do calls as (user steps, result tuple, the function panics / calls Goexit instead of returning) *)
  c_ran : list (Z * Z);                     (* observed: (goroutine, call index) of every function that was invoked *)
  c_rets : list (list (list Z));            (* observed: per goroutine, the tuples its calls returned *)
  c_early : Z                               (* observed: calls that had returned while the invoked function was still running *)
}.

Definition zfun (p : Z * list Z * bool) : ufun Z := UFun (Z.to_nat (fst (fst p))) (snd (fst p)) (snd p).

Definition budget (arity : nat) (p : list (ufun Z)) : nat :=
  fold_left (fun acc f => acc + f_steps f + 2 * arity + 5) p 0.

(* the winner first, then everybody (entries of finished threads are skipped) *)
Definition witness_schedule (arity : nat) (progs : list (list (ufun Z))) (w : nat) : list tid :=
  repeat w (budget arity (nth w progs [])) ++
  flat_map (fun t => repeat t (budget arity (nth t progs []))) (seq 0 (length progs)).

Definition count_inv (t : tid) (tr : list (event Z)) : nat :=
  length (filter (fun e => match e with EInv t' _ => t' =? t | _ => false end) tr).

(* (thread, index of the call) of every EStart; the trace is newest first *)
Fixpoint ran_of (tr : list (event Z)) : list (Z * Z) :=
  match tr with
  | [] => []
  | EStart t _ :: older => ran_of older ++ [(Z.of_nat t, Z.of_nat (count_inv t older) - 1)%Z]
  | _ :: older => ran_of older
  end.

Definition count_ret (tr : list (event Z)) : nat :=
  length (filter (fun e => match e with ERet _ _ => true | _ => false end) tr).

(* responses older than the end (return, panic or Goexit) of the invoked function (all of them if it never ended) *)
Fixpoint early_of (tr : list (event Z)) : nat :=
  match tr with
  | [] => 0
  | EFin _ _ :: older | EAbort _ :: older => count_ret older
  | ERet _ _ :: older => if existsb (fun e => match e with EFin _ _ | EAbort _ => true | _ => false end) older
                         then early_of older else S (early_of older)
  | _ :: older => early_of older
  end.

Definition outcome := (list (Z * Z) * list (list (list Z)) * Z)%type.

Definition outcome_of (c : config Z) : outcome :=
  (ran_of (c_trace c), map (@th_rets Z) (c_threads c), Z.of_nat (early_of (c_trace c))).

Definition all_finished (c : config Z) : bool :=
  forallb (fun th => match th_pc th, th_prog th with PIdle, [] => true | PDead, _ => true | _, _ => false end) (c_threads c).

Definition tuple_eqb := list_eqb Z.eqb.
Definition outcome_eqb (a b : outcome) : bool :=
  list_eqb (prod_eqb Z.eqb Z.eqb) (fst (fst a)) (fst (fst b)) &&
  list_eqb (list_eqb tuple_eqb) (snd (fst a)) (snd (fst b)) &&
  Z.eqb (snd a) (snd b).

(* ---- exhaustive exploration of small scenarios ---- *)

(* Depth-first over every enabled thread at every configuration; returns the
   outcomes of the finished configurations, or None when the fuel ran out. *)
Fixpoint explore (arity : nat) (fuel : nat) (c : config Z) : option (list outcome) :=
  match fuel with
  | O => None
  | S fuel' =>
    if all_finished c then Some [outcome_of c] else
    fold_left (fun acc t =>
      match acc, step 0%Z arity c t with
      | None, _ => None
      | Some l, None => Some l
      | Some l, Some c' => match explore arity fuel' c' with None => None | Some l' => Some (l' ++ l) end
      end) (seq 0 (length (c_threads c))) (Some [])
  end.

Definition small (arity : nat) (progs : list (list (ufun Z))) : bool :=
  (length progs <=? 2) && (fold_left (fun acc p => acc + budget arity p) progs 0 <=? 21).

Definition run_case (c : case) : outcome * bool :=
  let arity := Z.to_nat (c_arity c) in
  let progs := map (map zfun) (c_progs c) in
  let w := match c_ran c with (t, _) :: _ => Z.to_nat t | [] => 0 end in
  let fin := run 0%Z arity (init 0%Z arity progs) (witness_schedule arity progs w) in
  (outcome_of fin, all_finished fin).

(* The same observation replayed on the TRANSCRIPTION of sync.Once over mutex + atomic flag
   (Sync/OnceImpl.v), under the corresponding schedule; observables read through [abs]. *)
Definition cbudget (arity : nat) (p : list (ufun Z)) : nat :=
  fold_left (fun acc f => acc + f_steps f + 2 * arity + 10) p 0.

Definition cwitness_schedule (arity : nat) (progs : list (list (ufun Z))) (w : nat) : list tid :=
  repeat w (cbudget arity (nth w progs [])) ++
  flat_map (fun t => repeat t (cbudget arity (nth t progs []))) (seq 0 (length progs)).

(* finished, and the mutex has been released *)
Definition call_finished (c : cconfig Z) : bool :=
  all_finished (abs c) && match cc_mutex c with None => true | Some _ => false end &&
  forallb (fun th => match ct_pc th with CUnlockA => false | _ => true end) (cc_threads c).

Definition run_case_impl (c : case) : outcome * bool :=
  let arity := Z.to_nat (c_arity c) in
  let progs := map (map zfun) (c_progs c) in
  let w := match c_ran c with (t, _) :: _ => Z.to_nat t | [] => 0 end in
  let fin := crun 0%Z arity (cinit 0%Z arity progs) (cwitness_schedule arity progs w) in
  (outcome_of (abs fin), call_finished fin).

(* every schedule of the transcription, for small scenarios (this is where a goroutine blocked on
   the mutex and the slow path that finds done = 1 under the mutex are exercised) *)
Fixpoint cexplore (arity : nat) (fuel : nat) (c : cconfig Z) : option (list outcome) :=
  match fuel with
  | O => None
  | S fuel' =>
    if call_finished c then Some [outcome_of (abs c)] else
    fold_left (fun acc t =>
      match acc, cstep 0%Z arity c t with
      | None, _ => None
      | Some l, None => Some l
      | Some l, Some c' => match cexplore arity fuel' c' with None => None | Some l' => Some (l' ++ l) end
      end) (seq 0 (length (cc_threads c))) (Some [])
  end.

Definition csmall (arity : nat) (progs : list (list (ufun Z))) : bool :=
  (length progs <=? 2) && (fold_left (fun acc p => acc + budget arity p) progs 0 <=? 16).

Definition check_case (c : case) : bool :=
  let arity := Z.to_nat (c_arity c) in
  let progs := map (map zfun) (c_progs c) in
  let obs : outcome := (c_ran c, c_rets c, c_early c) in
  let '(o, fin) := run_case c in
  let '(o2, fin2) := run_case_impl c in
  fin && outcome_eqb o obs && fin2 && outcome_eqb o2 obs &&
  (if small arity progs then
     match explore arity 64 (init 0%Z arity progs) with
     | Some outs => existsb (outcome_eqb obs) outs
     | None => false
     end
   else true) &&
  (if csmall arity progs then
     match cexplore arity 96 (cinit 0%Z arity progs) with
     | Some outs => existsb (outcome_eqb obs) outs
     | None => false
     end
   else true).
