(* PROOFS: the abstract Once machine of Sync/Once.v simulates the transcription
   of sync.Once over Mutex + atomic flag (Sync/OnceImpl.v). Every step of the
   transcription is either invisible (the abstraction of the configuration
   does not change, no event is logged) or one step of the abstract machine;
   hence every run of the transcription is, through [abs], a run of the
   abstract machine with the same trace, fields and results, and the theorems
   of Sync/OnceProofs.v hold of the transcription. Also: the transcription
   does not deadlock (the mutex is always released). *)
From Typ Require Import Lib.Base Sync.Once Sync.OnceProofs Sync.OnceImpl.

Section OnceImplProofs.
  Variable V : Type.
  Variable zero : V.
  Variable arity : nat.

  Notation cstep := (@cstep V zero arity).
  Notation crun := (@crun V zero arity).
  Notation cinit := (@cinit V zero arity).
  Notation step := (@step V zero arity).
  Notation run := (@run V zero arity).
  Notation init := (@init V zero arity).

  Lemma nth_error_cset_same (ths : list (cthread V)) t th th' :
    nth_error ths t = Some th -> nth_error (set_cthread ths t th') t = Some th'.
  Proof. revert t; induction ths as [|x r IH]; intros [|t] H; simpl in *; try discriminate; auto. Qed.

  Lemma nth_error_cset_other (ths : list (cthread V)) t t' th' :
    t' <> t -> nth_error (set_cthread ths t th') t' = nth_error ths t'.
  Proof.
    revert t t'; induction ths as [|x r IH]; intros [|t] [|t'] H; simpl; auto; try congruence.
  Qed.

  Lemma map_cset (ths : list (cthread V)) t th' :
    map abs_thread (set_cthread ths t th') = set_thread (map abs_thread ths) t (abs_thread th').
  Proof. revert t; induction ths as [|x r IH]; intros [|t]; simpl; auto. f_equal. apply IH. Qed.

  Lemma set_thread_id (ths : list (thread V)) t th : nth_error ths t = Some th -> set_thread ths t th = ths.
  Proof.
    revert t; induction ths as [|x r IH]; intros [|t] H; simpl in *; try discriminate.
    - injection H as ->. reflexivity.
    - f_equal. apply IH. exact H.
  Qed.

  Lemma nth_error_map_abs (ths : list (cthread V)) t th :
    nth_error ths t = Some th -> nth_error (map abs_thread ths) t = Some (abs_thread th).
  Proof. intro H. rewrite nth_error_map, H. reflexivity. Qed.

  (* ---- invariant of the transcription: the mutex and who holds it ---- *)

  Definition pc_fact (p : cpc V) : Prop :=
    match p with
    | CStoreA f => f_aborts f = true
    | CStore _ i => (i <? arity) = false
    | _ => True
    end.

  Record CInv (c : cconfig V) : Prop := {
    ci_holder : forall t th, nth_error (cc_threads c) t = Some th -> holding (ct_pc th) = true -> cc_mutex c = Some t;
    ci_held : forall w, cc_mutex c = Some w -> exists th, nth_error (cc_threads c) w = Some th /\ holding (ct_pc th) = true;
    ci_pc : forall t th, nth_error (cc_threads c) t = Some th -> pc_fact (ct_pc th)
  }.

  Lemma cinit_inv progs : CInv (cinit progs).
  Proof.
    constructor; simpl.
    - intros t th H. apply nth_error_In in H. apply in_map_iff in H as (p & <- & _). discriminate.
    - discriminate.
    - intros t th H. apply nth_error_In in H. apply in_map_iff in H as (p & <- & _). exact I.
  Qed.

  (* thread t moves from th to th'; the mutex stays as it is, is taken by t, or is released by t *)
  Lemma cinv_update c t th th' d' m' R' tr' :
    CInv c -> nth_error (cc_threads c) t = Some th ->
    ((m' = cc_mutex c /\ holding (ct_pc th') = holding (ct_pc th)) \/
     (cc_mutex c = None /\ m' = Some t /\ holding (ct_pc th') = true) \/
     (m' = None /\ holding (ct_pc th) = true /\ holding (ct_pc th') = false)) ->
    pc_fact (ct_pc th') ->
    CInv (CConfig d' m' R' (set_cthread (cc_threads c) t th') tr').
  Proof.
    intros [HJ HK HA] Hth Hm Hf. constructor; simpl.
    - intros t0 th0 H0 Hh. destruct (Nat.eq_dec t0 t) as [->|N].
      + rewrite (nth_error_cset_same _ _ _ _ Hth) in H0. injection H0 as <-.
        destruct Hm as [(-> & E)|[(_ & -> & _)|(_ & _ & E)]]; [|reflexivity|congruence].
        apply (HJ _ _ Hth). congruence.
      + rewrite nth_error_cset_other in H0 by exact N. pose proof (HJ _ _ H0 Hh) as Hm0.
        destruct Hm as [(-> & _)|[(E & _ & _)|(_ & E & _)]]; [exact Hm0|congruence|].
        pose proof (HJ _ _ Hth E). congruence.
    - intros w Hw. destruct Hm as [(-> & E)|[(_ & -> & E)|(-> & _)]]; [| |discriminate].
      + destruct (HK _ Hw) as (thw & Hn & Hh). destruct (Nat.eq_dec w t) as [->|N].
        * exists th'. split; [eapply nth_error_cset_same; eauto|]. rewrite Hth in Hn. injection Hn as <-. congruence.
        * exists thw. rewrite nth_error_cset_other by exact N. auto.
      + injection Hw as <-. exists th'. split; [eapply nth_error_cset_same; eauto|exact E].
    - intros t0 th0 H0. destruct (Nat.eq_dec t0 t) as [->|N].
      + rewrite (nth_error_cset_same _ _ _ _ Hth) in H0. injection H0 as <-. exact Hf.
      + rewrite nth_error_cset_other in H0 by exact N. eauto.
  Qed.

  Lemma cstep_inv c t c' : CInv c -> cstep c t = Some c' -> CInv c'.
  Proof.
    intros HI Hs. unfold OnceImpl.cstep in Hs.
    destruct (nth_error (cc_threads c) t) as [th|] eqn:Hth; [|discriminate].
    pose proof (ci_pc _ HI _ _ Hth) as Hf.
    destruct th as [prog p rets]; simpl in *.
    destruct p as [|f|f|f| |f [|k]|res i|res i| |f| |acc|].
    - destruct prog as [|f rest]; [discriminate|]. injection Hs as <-.
      eapply cinv_update; eauto; simpl; auto.
    - destruct (cc_done c); injection Hs as <-; eapply cinv_update; eauto; simpl; auto.
    - destruct (cc_mutex c) eqn:Hm; [discriminate|]. injection Hs as <-.
      eapply cinv_update; eauto; simpl; auto.
    - destruct (cc_done c); injection Hs as <-; eapply cinv_update; eauto; simpl; auto.
    - injection Hs as <-. eapply cinv_update; eauto; simpl; auto.
    - destruct (f_aborts f) eqn:Hab; injection Hs as <-; eapply cinv_update; eauto; simpl; auto.
    - injection Hs as <-. eapply cinv_update; eauto; simpl; auto.
    - destruct (i <? arity) eqn:Hlt; injection Hs as <-; eapply cinv_update; eauto; simpl; auto.
    - injection Hs as <-. eapply cinv_update; eauto; simpl; auto.
    - injection Hs as <-. eapply cinv_update; eauto; simpl; auto.
    - injection Hs as <-. eapply cinv_update; eauto; simpl; auto.
    - injection Hs as <-. eapply cinv_update; eauto; simpl; auto.
    - destruct (length acc <? arity); injection Hs as <-; eapply cinv_update; eauto; simpl; auto.
    - discriminate.
  Qed.

  Lemma crun_inv s : forall c, CInv c -> CInv (crun c s).
  Proof.
    induction s as [|t s IH]; intros c H; simpl; auto.
    apply IH. destruct (cstep c t) as [c'|] eqn:E; auto. eapply cstep_inv; eauto.
  Qed.

  (* ---- the abstract Once state under a step of thread t ---- *)

  Local Arguments once_of : simpl never.

  Lemma once_of_done m (ths : list (cthread V)) : once_of true m ths = ODone.
  Proof. reflexivity. Qed.
  Lemma once_of_free (ths : list (cthread V)) : once_of false None ths = NotStarted.
  Proof. reflexivity. Qed.

  Lemma once_of_set_other d (w : tid) (ths : list (cthread V)) (t : tid) th' :
    w <> t -> once_of d (Some w) (set_cthread ths t th') = once_of d (Some w) ths.
  Proof. intro N. unfold once_of. rewrite nth_error_cset_other by exact N. reflexivity. Qed.

  Lemma once_of_set_self (ths : list (cthread V)) (t : tid) th th' :
    nth_error ths t = Some th ->
    once_of false (Some t) (set_cthread ths t th') = if in_run (ct_pc th') then Running t else NotStarted.
  Proof. intro H. unfold once_of. rewrite (nth_error_cset_same _ _ _ _ H). reflexivity. Qed.

  Lemma once_of_self (ths : list (cthread V)) (t : tid) th :
    nth_error ths t = Some th ->
    once_of false (Some t) ths = if in_run (ct_pc th) then Running t else NotStarted.
  Proof. intro H. unfold once_of. rewrite H. reflexivity. Qed.

  (* a step of t that keeps done, the mutex and whether t is inside the closure *)
  Lemma once_of_keep d (m : option tid) (ths : list (cthread V)) (t : tid) th th' :
    nth_error ths t = Some th -> in_run (ct_pc th') = in_run (ct_pc th) ->
    once_of d m (set_cthread ths t th') = once_of d m ths.
  Proof.
    intros H E. destruct d; [reflexivity|]. destruct m as [w|]; [|reflexivity].
    destruct (Nat.eq_dec w t) as [->|N].
    - rewrite (once_of_set_self _ _ _ _ H). rewrite E. symmetry. apply once_of_self. exact H.
    - apply once_of_set_other. exact N.
  Qed.

  (* ---- the simulation ---- *)

  Lemma abs_stutter d m R (ths : list (cthread V)) tr t th th' :
    nth_error ths t = Some th -> abs_thread th' = abs_thread th ->
    Config (once_of d m ths) R (map abs_thread (set_cthread ths t th')) tr =
    Config (once_of d m ths) R (map abs_thread ths) tr.
  Proof.
    intros H E. rewrite map_cset, E, set_thread_id; [reflexivity|]. apply nth_error_map_abs. exact H.
  Qed.

  Theorem cstep_simulated c t c' :
    CInv c -> cstep c t = Some c' -> abs c' = abs c \/ step (abs c) t = Some (abs c').
  Proof.
    intros HI Hs. unfold OnceImpl.cstep in Hs.
    destruct (nth_error (cc_threads c) t) as [th|] eqn:Hth; [|discriminate].
    pose proof (ci_pc _ HI _ _ Hth) as Hf.
    pose proof (nth_error_map_abs _ _ _ Hth) as Hath.
    destruct c as [d m R ths tr]. destruct th as [prog p rets]. simpl in *.
    unfold abs; simpl. unfold Once.step; simpl. rewrite Hath; simpl.
    destruct p as [|f|f|f| |f [|k]|res i|res i| |f| |acc|]; simpl in *.
    - (* invocation *)
      destruct prog as [|f rest]; [discriminate|]. injection Hs as <-. simpl. right.
      rewrite map_cset. erewrite once_of_keep by (eauto; reflexivity). reflexivity.
    - (* fast path: o.done.Load() *)
      destruct d; injection Hs as <-; simpl.
      + right. rewrite map_cset. reflexivity.
      + left. erewrite once_of_keep by (eauto; reflexivity). apply abs_stutter with (th := CThread prog (CFast f) rets); auto.
    - (* o.m.Lock() *)
      destruct m as [w|]; [discriminate|]. injection Hs as <-. simpl. left.
      assert (E : once_of d (Some t) (set_cthread ths t (CThread prog (CCheck f) rets)) = once_of d None ths).
      { destruct d; [reflexivity|]. rewrite (once_of_set_self _ _ _ _ Hth). reflexivity. }
      rewrite E. apply abs_stutter with (th := CThread prog (CLock f) rets); auto.
    - (* doSlow: o.done.Load() under the mutex *)
      assert (Hm : m = Some t) by (apply (ci_holder _ HI _ _ Hth); reflexivity). subst m.
      destruct d; injection Hs as <-; simpl.
      + right. rewrite map_cset. reflexivity.
      + right. rewrite (once_of_self _ _ _ Hth). simpl. rewrite map_cset, (once_of_set_self _ _ _ _ Hth). reflexivity.
    - (* deferred Unlock after finding done = 1 *)
      injection Hs as <-. simpl. left.
      assert (Hm : m = Some t) by (apply (ci_holder _ HI _ _ Hth); reflexivity). subst m.
      assert (E : once_of d None (set_cthread ths t (CThread prog (CRead []) rets)) = once_of d (Some t) ths).
      { destruct d; [reflexivity|]. rewrite (once_of_self _ _ _ Hth). reflexivity. }
      rewrite E. apply abs_stutter with (th := CThread prog CUnlock2 rets); auto.
    - (* the user function ends *)
      destruct (f_aborts f) eqn:Hab; injection Hs as <-; simpl.
      + left. erewrite once_of_keep by (eauto; reflexivity).
        apply abs_stutter with (th := CThread prog (CRun f 0) rets); auto.
      + right. rewrite map_cset. erewrite once_of_keep by (eauto; reflexivity). reflexivity.
    - (* one user step *)
      injection Hs as <-. simpl. right.
      rewrite map_cset. erewrite once_of_keep by (eauto; reflexivity). reflexivity.
    - (* field write, or the closure returns *)
      destruct (i <? arity) eqn:Hlt; injection Hs as <-; simpl.
      + right. rewrite map_cset. erewrite once_of_keep by (eauto; reflexivity). reflexivity.
      + left. erewrite once_of_keep by (eauto; reflexivity).
        apply abs_stutter with (th := CThread prog (CWrite res i) rets); auto.
    - (* deferred o.done.Store(1) after the closure returned *)
      injection Hs as <-. simpl. right. simpl in Hf. rewrite Hf. rewrite map_cset. reflexivity.
    - (* deferred Unlock: once.Do returns *)
      injection Hs as <-. simpl. left.
      assert (Hm : m = Some t) by (apply (ci_holder _ HI _ _ Hth); reflexivity). subst m.
      assert (E : once_of d None (set_cthread ths t (CThread prog (CRead []) rets)) = once_of d (Some t) ths).
      { destruct d; [reflexivity|]. rewrite (once_of_self _ _ _ Hth). reflexivity. }
      rewrite E. apply abs_stutter with (th := CThread prog CUnlockN rets); auto.
    - (* deferred o.done.Store(1) while the closure panics / exits *)
      injection Hs as <-. simpl. right. simpl in Hf. rewrite Hf. rewrite map_cset. reflexivity.
    - (* deferred Unlock on the way out *)
      injection Hs as <-. simpl. left.
      assert (Hm : m = Some t) by (apply (ci_holder _ HI _ _ Hth); reflexivity). subst m.
      assert (E : once_of d None (set_cthread ths t (CThread prog CDead rets)) = once_of d (Some t) ths).
      { destruct d; [reflexivity|]. rewrite (once_of_self _ _ _ Hth). reflexivity. }
      rewrite E. apply abs_stutter with (th := CThread prog CUnlockA rets); auto.
    - (* field reads, return *)
      destruct (length acc <? arity) eqn:Hlt; injection Hs as <-; simpl; right;
        rewrite map_cset; erewrite once_of_keep by (eauto; reflexivity); reflexivity.
    - discriminate.
  Qed.

  Lemma abs_cinit progs : abs (cinit progs) = init progs.
  Proof.
    unfold abs, OnceImpl.cinit, Once.init; simpl. rewrite map_map. reflexivity.
  Qed.

  Lemma run_snoc s t : forall c : config V,
    run c (s ++ [t]) = (match step (run c s) t with Some c' => c' | None => run c s end).
  Proof. induction s as [|x s IH]; intro c; simpl; auto. Qed.

  (* REFINEMENT: every run of the transcription is, seen through [abs], a run
     of the abstract machine (under the schedule that keeps the visible steps) *)
  Theorem once_refines progs s :
    exists s', abs (crun (cinit progs) s) = run (init progs) s'.
  Proof.
    assert (G : forall s c sa, CInv c -> abs c = run (init progs) sa ->
                exists s', abs (crun c s) = run (init progs) s').
    { induction s0 as [|t s0 IH]; intros c sa HI Ha; simpl; [eauto|].
      destruct (cstep c t) as [c'|] eqn:E; [|eauto].
      pose proof (cstep_inv _ _ _ HI E) as HI'.
      destruct (cstep_simulated _ _ _ HI E) as [Hst|Hst].
      - apply (IH c' sa HI'). congruence.
      - apply (IH c' (sa ++ [t]) HI'). rewrite run_snoc, <- Ha, Hst. reflexivity. }
    apply (G s (cinit progs) []); [apply cinit_inv|apply abs_cinit].
  Qed.

  (* what [abs] keeps: the trace, the fields, and every thread's program and results *)
  Lemma abs_observables (c : cconfig V) :
    c_trace (abs c) = cc_trace c /\ c_R (abs c) = cc_R c /\
    map (@th_rets V) (c_threads (abs c)) = map (@ct_rets V) (cc_threads c) /\
    map (@th_prog V) (c_threads (abs c)) = map (@ct_prog V) (cc_threads c).
  Proof. unfold abs; simpl. rewrite !map_map. auto. Qed.

  (* ---- the theorems about the abstract machine, for the transcription ---- *)

  Theorem impl_exactly_once progs s :
    let tr := cc_trace (crun (cinit progs) s) in
    length (starts tr) <= 1 /\ length (fins tr) <= length (starts tr) /\
    ((exists t r, In (ERet t r) tr) ->
       exists w f, starts tr = [(w, f)] /\ fins tr = (if f_aborts f then [] else [(w, f_res f)])).
  Proof.
    destruct (once_refines progs s) as (s' & E). pose proof (exactly_once V zero arity progs s') as H.
    rewrite <- E in H. exact H.
  Qed.

  Theorem impl_same_results progs s t r :
    let c := crun (cinit progs) s in
    In (ERet t r) (cc_trace c) ->
    exists w f, starts (cc_trace c) = [(w, f)] /\ r = outcome_tuple zero arity f /\ cc_R c = outcome_tuple zero arity f.
  Proof.
    intros c Hin. destruct (once_refines progs s) as (s' & E). fold c in E.
    pose proof (reach_inv V zero arity progs s') as HI. rewrite <- E in HI.
    assert (Hin' : In (ERet t r) (c_trace (abs c))) by exact Hin.
    pose proof (inv_ret_done V zero arity _ _ _ HI Hin') as Ho.
    destruct (inv_done V zero arity _ HI Ho) as (w & f & S1 & _ & HR & Hr & _).
    exists w, f. split; [exact S1|]. split; [exact (Hr _ _ Hin')|exact HR].
  Qed.

  (* no Do returns before done = 1 was stored (EDone / EAbort are the stores),
     which is after the closure ended; nothing of the closure after a return *)
  Theorem impl_returns_after_store progs s later t r earlier :
    cc_trace (crun (cinit progs) s) = later ++ ERet t r :: earlier ->
    (exists w f, In (EStart w f) earlier /\
       ((f_aborts f = false /\ In (EFin w (f_res f)) earlier /\ In (EDone w) earlier) \/
        (f_aborts f = true /\ In (EAbort w) earlier))) /\
    (forall e, In e later -> ~ is_work e).
  Proof.
    destruct (once_refines progs s) as (s' & E). intro H.
    apply (returns_after_completion V zero arity progs s' later t r earlier). rewrite <- E. exact H.
  Qed.

  Theorem impl_abort_consumes progs s w :
    let c := crun (cinit progs) s in
    In (EAbort w) (cc_trace c) ->
    cc_done c = true /\ cc_R c = repeat zero arity /\
    (exists f, starts (cc_trace c) = [(w, f)] /\ f_aborts f = true) /\ fins (cc_trace c) = [] /\
    (forall e, In e (cc_trace c) -> ~ is_write e) /\
    (forall t r, In (ERet t r) (cc_trace c) -> r = repeat zero arity).
  Proof.
    intros c Hin. destruct (once_refines progs s) as (s' & E). fold c in E.
    pose proof (abort_consumes V zero arity progs s' w) as H. simpl in H. rewrite <- E in H.
    destruct (H Hin) as (H1 & H2 & H3 & H4 & H5 & H6 & _).
    repeat split; auto. simpl in H1. unfold once_of in H1. destruct (cc_done c); auto.
    destruct (cc_mutex c) as [m|]; [destruct (nth_error (cc_threads c) m) as [th|]; [destruct (in_run (ct_pc th))|]|]; discriminate.
  Qed.

  (* ---- the transcription does not deadlock: the mutex is always released ---- *)

  Lemma cthreads_done_dec (ths : list (cthread V)) :
    (forall t th, nth_error ths t = Some th -> ct_pc th = CDead \/ (ct_pc th = CIdle /\ ct_prog th = [])) \/
    exists t th, nth_error ths t = Some th /\ ~ (ct_pc th = CDead \/ (ct_pc th = CIdle /\ ct_prog th = [])).
  Proof.
    induction ths as [|x r [IH|(t & th & Hn & Hx)]].
    - left; intros [|t] th H; discriminate.
    - destruct x as [p q rs].
      assert (Dx : (q = CDead \/ (q = CIdle /\ p = [])) \/ ~ (q = CDead \/ (q = CIdle /\ p = []))).
      { destruct q; try (right; intros [A|(A & B)]; discriminate); [|left; left; reflexivity].
        destruct p; [left; right; auto|right; intros [A|(A & B)]; discriminate]. }
      destruct Dx as [Dx|Dx].
      + left. intros [|t] th H; simpl in H; [injection H as <-; exact Dx|eauto].
      + right. exists 0. eexists. split; [reflexivity|exact Dx].
    - right; exists (S t), th; auto.
  Qed.

  Lemma enabled_unless_lock c t th :
    nth_error (cc_threads c) t = Some th ->
    ~ (ct_pc th = CDead \/ (ct_pc th = CIdle /\ ct_prog th = [])) ->
    (forall f, ct_pc th = CLock f -> cc_mutex c = None) ->
    exists c', cstep c t = Some c'.
  Proof.
    intros Hn Hx Hl. unfold OnceImpl.cstep. rewrite Hn.
    destruct (ct_pc th) as [|f|f|f| |f [|k]|res i|res i| |f| |acc|] eqn:Hpc; try (eexists; reflexivity).
    - destruct (ct_prog th) eqn:Hp; [exfalso; apply Hx; auto|eexists; reflexivity].
    - destruct (cc_done c); eexists; reflexivity.
    - rewrite (Hl f eq_refl). eexists; reflexivity.
    - destruct (cc_done c); eexists; reflexivity.
    - destruct (f_aborts f); eexists; reflexivity.
    - destruct (i <? arity); eexists; reflexivity.
    - destruct (length acc <? arity); eexists; reflexivity.
    - exfalso. apply Hx. auto.
  Qed.

  Theorem impl_no_deadlock progs s :
    let c := crun (cinit progs) s in
    cfinished c \/ exists t c', cstep c t = Some c'.
  Proof.
    intro c. pose proof (crun_inv s _ (cinit_inv progs)) as HI. fold c in HI.
    destruct (cthreads_done_dec (cc_threads c)) as [F|(t & th & Hn & Hx)]; [left; exact F|right].
    destruct (cc_mutex c) as [w|] eqn:Hm.
    - (* the holder can always move *)
      destruct (ci_held _ HI _ Hm) as (thw & Hw & Hh). exists w.
      apply (enabled_unless_lock c w thw Hw).
      + intros [A|(A & _)]; rewrite A in Hh; discriminate.
      + intros f A. rewrite A in Hh. discriminate.
    - exists t. apply (enabled_unless_lock c t th Hn Hx). auto.
  Qed.

  Lemma cfinished_abs (c : cconfig V) : cfinished c -> finished (abs c).
  Proof.
    intros H t th Hn. unfold abs in Hn; simpl in Hn. rewrite nth_error_map in Hn.
    destruct (nth_error (cc_threads c) t) as [cth|] eqn:E; [|discriminate]. injection Hn as <-.
    destruct (H _ _ E) as [A|(A & B)]; unfold abs_thread; simpl; rewrite A; simpl; auto.
  Qed.

  (* finished runs of the transcription: if anybody called Do, exactly one function was started,
     and it completed exactly once unless it aborted *)
  Theorem impl_finished_exactly_one progs s :
    let c := crun (cinit progs) s in
    cfinished c -> (exists t f, In (EInv t f) (cc_trace c)) ->
    length (starts (cc_trace c)) = 1 /\
    exists w f, starts (cc_trace c) = [(w, f)] /\ fins (cc_trace c) = (if f_aborts f then [] else [(w, f_res f)]).
  Proof.
    intros c Hfin Hinv. destruct (once_refines progs s) as (s' & E). fold c in E.
    pose proof (finished_exactly_one V zero arity progs s') as H. simpl in H. rewrite <- E in H.
    apply H; [apply cfinished_abs; exact Hfin|exact Hinv].
  Qed.

  (* ---- lock discipline of the plain field accesses, for the transcription ---- *)

  Lemma cnext_access_abs (c : cconfig V) t a :
    cnext_access arity c t = Some a -> next_access arity (abs c) t = Some a.
  Proof.
    unfold OnceImpl.cnext_access, Once.next_access, abs; simpl. rewrite nth_error_map.
    destruct (nth_error (cc_threads c) t) as [th|]; [|discriminate]. simpl.
    destruct (ct_pc th); simpl; auto; discriminate.
  Qed.

  (* a field is written only by the thread that holds the mutex while done = 0;
     it is read only in configurations in which done = 1 has been stored *)
  Theorem impl_access_discipline progs s t a :
    let c := crun (cinit progs) s in
    cnext_access arity c t = Some a ->
    match a with
    | AWrite i => cc_done c = false /\ cc_mutex c = Some t /\ i < arity
    | ARead i => cc_done c = true /\ i < arity
    end.
  Proof.
    intros c Ha. destruct (once_refines progs s) as (s' & E). fold c in E.
    pose proof (access_discipline V zero arity progs s' t a) as H. simpl in H. rewrite <- E in H.
    specialize (H (cnext_access_abs _ _ _ Ha)). unfold abs in H; simpl in H. unfold once_of in H.
    destruct a as [i|i]; destruct H as (Ho & Hi).
    - destruct (cc_done c); [discriminate|]. destruct (cc_mutex c) as [w|]; [|discriminate].
      destruct (nth_error (cc_threads c) w) as [th|]; [|discriminate].
      destruct (in_run (ct_pc th)); [|discriminate]. injection Ho as ->. auto.
    - destruct (cc_done c); [auto|]. destruct (cc_mutex c) as [w|]; [|discriminate].
      destruct (nth_error (cc_threads c) w) as [th|]; [|discriminate].
      destruct (in_run (ct_pc th)); discriminate.
  Qed.

  Theorem impl_no_plain_race progs s t1 t2 a1 a2 :
    let c := crun (cinit progs) s in
    t1 <> t2 -> cnext_access arity c t1 = Some a1 -> cnext_access arity c t2 = Some a2 ->
    exists i j, a1 = ARead i /\ a2 = ARead j.
  Proof.
    intros c N H1 H2.
    pose proof (impl_access_discipline progs s t1 a1 H1) as D1.
    pose proof (impl_access_discipline progs s t2 a2 H2) as D2. fold c in D1, D2.
    destruct a1 as [i|i], a2 as [j|j]; try (destruct D1 as (A1 & B1 & _), D2 as (A2 & B2 & _); congruence);
      try (destruct D1 as (A1 & _), D2 as (A2 & _); congruence).
    exists i, j. auto.
  Qed.
End OnceImplProofs.
