(* Correspondence check for C18. The harness runs small concurrent programs on
   the real sync2.AtomicValue[int] and sync2.Pool[*item] (the Go runtime owns
   the schedule) and records, per goroutine and in program order, the calls it
   made, what each returned and the ranks on a global clock at which the call
   was invoked and at which it returned (AtomicValue and Pool alike). The check is
   outcome-set inclusion: [check_case] searches the schedules of the MODEL
   machine for one along which the model returns exactly the observed results
   AND whose real-time order contains the observed one (a call may start in
   the model run only after every call that had RETURNED before it was INVOKED
   has returned in the model run): the observed history must be LINEARIZABLE
   in the model, not only sequentially consistent. No such schedule =
   mismatch. The search runs the model's own [astep] / [pstep_thread].

   AtomicValue, two granularities:
   - step level ([ssearch], histories of weight <= 10 where a CompareAndSwap
     weighs 2 and any other call 1): a scheduling decision lets one goroutine
     perform ONE atomic step on atomic.Value (fused with its invocation step
     before and its return step after, which touch nothing shared), with
     either value of the [coincide] flag at the pointer comparison of
     atomic.Value.CompareAndSwap. Steps of different calls interleave, so the
     failing pointer comparison, the Load after it and the retry of the
     wrapper's loop are executed by the check.
   - call level ([asearch], larger histories): a scheduled call runs to its
     return without interruption; no outcome is lost because every call takes
     effect at one step (C18_register_linearizable).
   Probe cases ([CaseAtomic true]): the harness asserts that the program has
   ONE possible outcome under the property (CompareAndSwap(x,x) while another
   goroutine stores the equal value x). For these EVERY step-level schedule
   of the model that respects the observed real-time order (every
   interleaving, both values of [coincide], every retry) must end with
   exactly the observed results.

   Two things the property leaves open are accepted although the model (= the
   present code) never does them ([open_cas], [open_get]): CompareAndSwap
   answering true and storing new BEFORE the first Store (the model answers
   false, as atomic.Value does), and, with New == nil, Get returning an item
   that was Put and not handed out since (the model returns the zero value).
   Definitions only. *)
From Typ Require Export Lib.Base Sync.AtomicPool.

(* Pool operations as the harness writes them (all numbers Z). An item is
   (allocating goroutine, index of the allocation in that goroutine). *)
Inductive zpop :=
| ZGet (obs : option (Z * Z))      (* Get and what it returned: None = the zero value *)
| ZPutHeld (k : Z)
| ZPutFresh
| ZPutZero.

(* one recorded Pool call: (call with observed result, (invocation rank, response rank)) *)
Definition pcall := (zpop * (Z * Z))%type.

(* one recorded AtomicValue call: ((call, observed result), (invocation rank, response rank)) *)
Definition acall := (op Z * res Z * (Z * Z))%type.
Definition c_op (x : acall) : op Z := fst (fst x).
Definition c_res (x : acall) : res Z := snd (fst x).
Definition c_inv (x : acall) : Z := fst (snd x).
Definition c_ret (x : acall) : Z := snd (snd x).

Inductive case :=
| CaseAtomic (single_outcome : bool) (threads : list (list acall))   (* per goroutine, in program order *)
| CasePool (new : bool) (threads : list (list pcall)).

(* ---------------- AtomicValue ---------------- *)

Definition zres_eqb := @res_eqb Z Z.eqb.

Fixpoint set_nth_list {A} (l : list (list A)) (t : nat) (x : list A) : list (list A) :=
  match l, t with
  | [], _ => []
  | _ :: r, O => x :: r
  | y :: r, S t' => y :: set_nth_list r t' x
  end.

Fixpoint exists_lazy {A} (f : A -> bool) (l : list A) : bool :=
  match l with [] => false | a :: l' => if f a then true else exists_lazy f l' end.

Definition all_done {A} (obs : list (list A)) : bool :=
  forallb (fun l => match l with [] => true | _ => false end) obs.

Definition pc_of (c : aconfig Z) (t : tid) : apc Z :=
  match nth_error (a_threads c) t with Some th => a_pc th | None => AIdle end.

(* [obs] = per goroutine the calls that have not yet returned in the model run.
   Goroutine t may invoke a call of invocation rank [inv] only if the first
   such call of every other goroutine has a response rank above [inv]. *)
Definition rt_ok (t : tid) (inv : Z) (obs : list (list acall)) : bool :=
  forallb (fun t' => if t' =? t then true else
                     match nth t' obs [] with [] => true | x :: _ => Z.ltb inv (c_ret x) end)
          (seq 0 (length obs)).

(* left open by the property: CompareAndSwap before the first Store answering true and storing new *)
Definition open_cas (c : aconfig Z) (t : tid) (new : Z) : option (aconfig Z) :=
  match nth_error (a_threads c) t with
  | Some th => Some (AConfig (prim_install new (a_reg c))
                             (set_athread (a_threads c) t (AThread (a_prog th) (ARet (RBool true)) (a_rets th)))
                             (EvLin t :: a_trace c))
  | None => None
  end.

Inductive adv :=
| ADisabled                                            (* t has nothing to do, or real time forbids the invocation *)
| AMismatch                                            (* the call returned something else than observed *)
| ANext (c : aconfig Z) (obs : list (list acall)).

(* One scheduling decision: goroutine t performs one atomic step on the
   register with flag [co]; before it, the invocation step if no call of t is
   in progress; after it, the return step if the call is complete (then the
   result is compared with the observed one and the call leaves [obs]). *)
Definition advance (c : aconfig Z) (obs : list (list acall)) (t : tid) (co : bool) : adv :=
  match nth t obs [] with
  | [] => ADisabled
  | x :: rest =>
    let c1 := match pc_of c t with
              | AIdle => if rt_ok t (c_inv x) obs then astep 0%Z Z.eqb c t false else None
              | _ => Some c
              end in
    match c1 with
    | None => ADisabled
    | Some c1 =>
      let c2 := match pc_of c1 t, r_cur (a_reg c1), c_res x with
                | ACall (OCas _ new), None, RBool true => open_cas c1 t new
                | _, _, _ => astep 0%Z Z.eqb c1 t co
                end in
      match c2 with
      | None => ADisabled
      | Some c2 =>
        match pc_of c2 t with
        | ARet r => if zres_eqb r (c_res x)
                    then match astep 0%Z Z.eqb c2 t false with
                         | Some c3 => ANext c3 (set_nth_list obs t rest)
                         | None => ADisabled
                         end
                    else AMismatch
        | _ => ANext c2 obs
        end
      end
    end
  end.

(* call level: goroutine t alone performs its next call, from invocation to return *)
Fixpoint acall_run (fuel : nat) (c : aconfig Z) (obs : list (list acall)) (t : tid) : adv :=
  match fuel with
  | O => ADisabled
  | S fuel' =>
    match advance c obs t false with
    | ANext c' obs' => match pc_of c' t with AIdle => ANext c' obs' | _ => acall_run fuel' c' obs' t end
    | r => r
    end
  end.

Fixpoint asearch (fuel : nat) (c : aconfig Z) (obs : list (list acall)) : bool :=
  match fuel with
  | O => false
  | S fuel' =>
    if all_done obs then true else
    exists_lazy (fun t => match acall_run 8 c obs t with
                          | ANext c' obs' => asearch fuel' c' obs'
                          | _ => false
                          end) (seq 0 (length obs))
  end.

(* step level: the decisions available in a configuration *)
Definition choices (c : aconfig Z) (n : nat) : list (tid * bool) :=
  flat_map (fun t => match pc_of c t with ACas2 _ _ _ => [(t, false); (t, true)] | _ => [(t, false)] end) (seq 0 n).

Definition is_next (r : adv) : bool := match r with ANext _ _ => true | _ => false end.

Fixpoint ssearch (all : bool) (fuel : nat) (c : aconfig Z) (obs : list (list acall)) : bool :=
  match fuel with
  | O => false
  | S fuel' =>
    if all_done obs then true else
    let rs := map (fun d => advance c obs (fst d) (snd d)) (choices c (length obs)) in
    if all
    then existsb is_next rs &&
         forallb (fun r => match r with
                           | ADisabled => true
                           | AMismatch => false
                           | ANext c' obs' => ssearch all fuel' c' obs'
                           end) rs
    else exists_lazy (fun r => match r with ANext c' obs' => ssearch all fuel' c' obs' | _ => false end) rs
  end.

Definition weight (ths : list (list acall)) : nat :=
  list_sum (map (fun x => match c_op x with OCas _ _ => 2 | _ => 1 end) (concat ths)).

Definition check_atomic (single : bool) (ths : list (list acall)) : bool :=
  let n := S (length (concat ths)) in
  let c := ainit (map (map c_op) ths) in
  if single then ssearch true (4 * n * n) c ths
  else if weight ths <=? 10 then ssearch false (4 * n * n) c ths
  else asearch n c ths.

(* ---------------- Pool ---------------- *)

Definition zval (o : option (Z * Z)) : val :=
  match o with None => Zero | Some (a, b) => Tok (Z.to_nat a) (Z.to_nat b) end.

Definition zpop_op (o : zpop) : pop :=
  match o with
  | ZGet _ => PGet
  | ZPutHeld k => PPutHeld (Z.to_nat k)
  | ZPutFresh => PPutFresh
  | ZPutZero => PPutZero
  end.

Fixpoint index_of (v : val) (l : list val) : option nat :=
  match l with
  | [] => None
  | x :: r => if val_eqb x v then Some 0 else option_map S (index_of v r)
  end.

Fixpoint pfinish (fuel : nat) (c : pconfig) (t : tid) (ch : pchoice) : option pconfig :=
  match fuel with
  | O => None
  | S fuel' =>
    match pstep_thread c t ch with
    | None => None
    | Some c' =>
      match nth_error (p_threads c') t with
      | Some th => match p_pc th with GIdle => Some c' | _ => pfinish fuel' c' t ch end
      | None => None
      end
    end
  end.

Definition last_got (c : pconfig) (t : tid) : option val :=
  match nth_error (p_threads c) t with
  | Some th => match rev (p_got th) with r :: _ => Some r | [] => None end
  | None => None
  end.

(* left open by the property: with New == nil, Get handing out an item that is in the pool *)
Definition open_get (c : pconfig) (t : tid) (i : nat) (v : val) : option pconfig :=
  match nth_error (p_threads c) t with
  | Some th =>
    match p_pc th, p_prog th with
    | GIdle, PGet :: rest =>
        Some (PConfig (p_new c) (p_poolnew c) (remove_nth i (p_bag c))
                      (set_pthread (p_threads c) t (PThread rest GIdle (p_held th ++ [v]) (p_fresh th) (p_got th ++ [v])))
                      (PERetGet t v SrcBag :: PETake t v :: PEInvGet t :: p_trace c))
    | _, _ => None
    end
  | None => None
  end.

(* real-time order, as for AtomicValue: goroutine t may start a call invoked at rank [inv] only when the
   first call of every other goroutine that has not yet run in the model has a response rank above [inv] *)
Definition prt_ok (t : tid) (inv : Z) (obs : list (list pcall)) : bool :=
  forallb (fun t' => if t' =? t then true else
                     match nth t' obs [] with [] => true | x :: _ => Z.ltb inv (snd (snd x)) end)
          (seq 0 (length obs)).

(* call level (a Pool call has one step with an effect on the shared state) *)
Fixpoint psearch (fuel : nat) (c : pconfig) (obs : list (list pcall)) : bool :=
  match fuel with
  | O => false
  | S fuel' =>
    if all_done obs then true else
    exists_lazy (fun t =>
      match nth t obs [] with
      | [] => false
      | (o, (inv, _)) :: rest =>
        if negb (prt_ok t inv obs) then false else
        match o with
        | ZGet o =>
          if negb (p_new c) && negb (val_eqb (zval o) Zero) then
            match index_of (zval o) (p_bag c) with
            | Some i => match open_get c t i (zval o) with
                        | Some c' => psearch fuel' c' (set_nth_list obs t rest)
                        | None => false
                        end
            | None => false
            end
          else
          (* the pool hands out the observed item if the bag has it, else it misses *)
          let ch := match index_of (zval o) (p_bag c) with Some i => Take i | None => Miss end in
          match pfinish 6 c t ch with
          | Some c' => match last_got c' t with
                       | Some v => if val_eqb v (zval o) then psearch fuel' c' (set_nth_list obs t rest) else false
                       | None => false
                       end
          | None => false
          end
        | _ =>
          match pfinish 6 c t Miss with
          | Some c' => psearch fuel' c' (set_nth_list obs t rest)
          | None => false
          end
        end
      end) (seq 0 (length obs))
  end.

Definition check_pool (new : bool) (ths : list (list pcall)) : bool :=
  psearch (S (length (concat ths))) (pinit new (map (map (fun x => zpop_op (fst x))) ths)) ths.

Definition check_case (c : case) : bool :=
  match c with
  | CaseAtomic single ths => check_atomic single ths
  | CasePool new ths => check_pool new ths
  end.
