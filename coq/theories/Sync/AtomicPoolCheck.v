(* Correspondence check for C18. The harness runs small concurrent programs on
   the real sync2.AtomicValue[int] and sync2.Pool[*item] (the Go runtime owns
   the schedule) and records, per goroutine and in program order, the calls it
   made and what each returned. The check is outcome-set inclusion:
   [check_case] searches the schedules of the MODEL machine (depth first over
   which thread performs its next call; within the search a call runs to its
   return without interruption, which does not lose outcomes because every
   call takes effect at one step) for one along which the model returns
   exactly the observed results. No such schedule = mismatch. The search runs
   the model's own [astep] / [pstep_thread]. Definitions only. *)
From Typ Require Export Lib.Base Sync.AtomicPool.

(* Pool operations as the harness writes them (all numbers Z). An item is
   (allocating goroutine, index of the allocation in that goroutine). *)
Inductive zpop :=
| ZGet (obs : option (Z * Z))      (* Get and what it returned: None = the zero value *)
| ZPutHeld (k : Z)
| ZPutFresh
| ZPutZero.

Inductive case :=
| CaseAtomic (threads : list (list (op Z * res Z)))   (* per goroutine: call, observed result *)
| CasePool (new : bool) (threads : list (list zpop)).

(* ---------------- AtomicValue ---------------- *)

Definition zres_eqb := @res_eqb Z Z.eqb.

(* thread t alone performs its next call, from invocation to return *)
Fixpoint afinish (fuel : nat) (c : aconfig Z) (t : tid) : option (aconfig Z) :=
  match fuel with
  | O => None
  | S fuel' =>
    match astep 0%Z Z.eqb c t false with
    | None => None
    | Some c' =>
      match nth_error (a_threads c') t with
      | Some th => match a_pc th with AIdle => Some c' | _ => afinish fuel' c' t end
      | None => None
      end
    end
  end.

Definition last_ret (c : aconfig Z) (t : tid) : option (res Z) :=
  match nth_error (a_threads c) t with
  | Some th => match rev (a_rets th) with r :: _ => Some r | [] => None end
  | None => None
  end.

Fixpoint set_nth_list {A} (l : list (list A)) (t : nat) (x : list A) : list (list A) :=
  match l, t with
  | [], _ => []
  | _ :: r, O => x :: r
  | y :: r, S t' => y :: set_nth_list r t' x
  end.

Fixpoint asearch (fuel : nat) (c : aconfig Z) (obs : list (list (res Z))) : bool :=
  match fuel with
  | O => false
  | S fuel' =>
    if forallb (fun l => match l with [] => true | _ => false end) obs then true else
    existsb (fun t =>
      match nth t obs [] with
      | [] => false
      | r :: rest =>
        match afinish 8 c t with
        | Some c' => match last_ret c' t with
                     | Some r' => zres_eqb r r' && asearch fuel' c' (set_nth_list obs t rest)
                     | None => false
                     end
        | None => false
        end
      end) (seq 0 (length obs))
  end.

Definition check_atomic (ths : list (list (op Z * res Z))) : bool :=
  asearch (S (length (concat ths))) (ainit (map (map fst) ths)) (map (map snd) ths).

(* ---------------- Pool ---------------- *)

Definition zval (o : option (Z * Z)) : val :=
  match o with None => Zero | Some (a, b) => Tok (Z.to_nat a) (Z.to_nat b) end.

Definition zpop_op (o : zpop) : pop :=
  match o with
  | ZGet _ => PGet
  | ZPutHeld k => PPutHeld (Z.to_nat k)
  | ZPutFresh => PPutFresh
  | ZPutZero => PPutZero
  end.

Fixpoint index_of (v : val) (l : list val) : option nat :=
  match l with
  | [] => None
  | x :: r => if val_eqb x v then Some 0 else option_map S (index_of v r)
  end.

Fixpoint pfinish (fuel : nat) (c : pconfig) (t : tid) (ch : pchoice) : option pconfig :=
  match fuel with
  | O => None
  | S fuel' =>
    match pstep_thread c t ch with
    | None => None
    | Some c' =>
      match nth_error (p_threads c') t with
      | Some th => match p_pc th with GIdle => Some c' | _ => pfinish fuel' c' t ch end
      | None => None
      end
    end
  end.

Definition last_got (c : pconfig) (t : tid) : option val :=
  match nth_error (p_threads c) t with
  | Some th => match rev (p_got th) with r :: _ => Some r | [] => None end
  | None => None
  end.

Fixpoint psearch (fuel : nat) (c : pconfig) (obs : list (list zpop)) : bool :=
  match fuel with
  | O => false
  | S fuel' =>
    if forallb (fun l => match l with [] => true | _ => false end) obs then true else
    existsb (fun t =>
      match nth t obs [] with
      | [] => false
      | ZGet o :: rest =>
        (* the pool hands out the observed item if the bag has it, else it misses *)
        let ch := match index_of (zval o) (p_bag c) with Some i => Take i | None => Miss end in
        match pfinish 6 c t ch with
        | Some c' => match last_got c' t with
                     | Some v => val_eqb v (zval o) && psearch fuel' c' (set_nth_list obs t rest)
                     | None => false
                     end
        | None => false
        end
      | _ :: rest =>
        match pfinish 6 c t Miss with
        | Some c' => psearch fuel' c' (set_nth_list obs t rest)
        | None => false
        end
      end) (seq 0 (length obs))
  end.

Definition check_pool (new : bool) (ths : list (list zpop)) : bool :=
  psearch (S (length (concat ths))) (pinit new (map (map zpop_op) ths)) ths.

Definition check_case (c : case) : bool :=
  match c with
  | CaseAtomic ths => check_atomic ths
  | CasePool new ths => check_pool new ths
  end.
