(* MODELS of sync2/atomicvalue.go and sync2/pool.go on top of abstract machines
   for the runtime primitives sync/atomic.Value and sync.Pool. Definitions only.

   ======================= AtomicValue =======================
   Go source (sync2/atomicvalue.go, as it is now):

     func (v *AtomicValue[T]) Load() (val T) {
         x := v.atom.Load()
         if x == nil { return typ.Zero[T]() }
         return x.(T)
     }
     func (v *AtomicValue[T]) Store(val T) { v.atom.Store(val) }
     func (v *AtomicValue[T]) Swap(new T) (old T) {
         x := v.atom.Swap(new)
         if x == nil { return typ.Zero[T]() }
         return x.(T)
     }
     func (v *AtomicValue[T]) CompareAndSwap(old, new T) (swapped bool) {
         for {
             if v.atom.CompareAndSwap(old, new) { return true }
             if x := v.atom.Load(); x == nil || x != any(old) { return false }
         }
     }

   TRUSTED abstract machine for sync/atomic.Value (as the stdlib implements
   it, not an idealisation). The Value holds nil or a pointer to an immutable
   box containing the stored value; a box has an identity ([b_ver], standing
   for its address). Load, Store, Swap are one atomic step each; Store and
   Swap install a NEW box. Value.CompareAndSwap(old, new) is TWO atomic steps:
     s1  read the current box; nil -> return false (old is never nil here);
         its value differs from old -> return false; otherwise remember the box
     s2  pointer-CAS: if the current box is still the remembered one, install
         a new box holding new and return true; otherwise return false -- EVEN
         IF the current box holds a value equal to old (a concurrent Store of
         an equal value replaced the box): the "spurious failure" that the
         loop in AtomicValue.CompareAndSwap exists to absorb.
   Go boxes some values in static storage (integers 0..255), so two boxes of
   equal values may have the same address: s2 takes a scheduler-chosen flag
   [coincide] which, when the current box holds a value equal to old, lets the
   pointer comparison succeed although the box was replaced. T is a comparable
   non-interface type ([eqb] is Go's ==), so Store(nil) panics, type
   mismatches and uncomparable values cannot occur.

   Atomic steps of the wrapper calls by thread t (program counter [apc]):
     AIdle          -> ACall o                     invocation                EvInv
     ACall OLoad    -> ARet (x or zero)            atom.Load                 EvLin
     ACall OStore v -> ARet unit                   atom.Store                EvLin
     ACall OSwap v  -> ARet (old or zero)          atom.Swap                 EvLin
     ACall OCas o n -> ACas2 o n ver | ACasLoad    s1 of atom.CompareAndSwap
     ACas2 o n ver  -> ARet true                   s2 succeeded              EvLin
                    -> ACasLoad o n                s2 failed
     ACasLoad o n   -> ARet false                  atom.Load saw nil or a value <> o   EvLin
                    -> ACall (OCas o n)            atom.Load saw o: retry
     ARet r         -> AIdle                       return r                  EvRes
   [EvLin t] marks the step at which the call takes effect; that these marks
   form a legal history of the ideal register is the theorem (AtomicPoolProofs).

   ======================= Pool =======================
   Go source (sync2/pool.go, as it is now):

     type Pool[T any] struct { pool sync.Pool; New func() T }
     func (p *Pool[T]) Get() T {
         if p.New == nil { var x T; return x }
         x := p.pool.Get()
         if x == nil { return p.New() }
         return x.(T)
     }
     func (p *Pool[T]) Put(x T) { p.pool.Put(x) }

   TRUSTED abstract machine for sync.Pool: a bag of items. Put adds the item
   (one atomic step). Get (one atomic step) removes and returns ANY bagged
   item, or returns nil -- also when the bag is not empty (per-P caches), which
   one is the scheduler's choice; the runtime may drop any bagged item at any
   time ([SGc]). The inner sync.Pool's own New field is never set by the code
   above, so its Get returns nil on a miss.
   Items are tokens [Tok owner k] = the k-th item allocated by thread [owner]
   (by a PutFresh of a newly allocated item, or by the New hook running inside
   that thread's Get), or the zero value of T. The user's New hook, when set,
   allocates a new item on every call.
   Shared state and data races: the step function [pstep_thread_acc] returns,
   with the next configuration, the accesses the step makes to the shared
   state (plain read / write of the field New or of the inner pool's own New
   field, or a call into sync.Pool, which the runtime synchronises: trusted);
   [pstep_thread] is its first component. *)
From Typ Require Export Lib.Base.

Definition tid := nat.

(* ------------------------------------------------------------------ *)
(*  AtomicValue                                                          *)
(* ------------------------------------------------------------------ *)
Section AtomicModel.
  Variable V : Type.
  Variable zero : V.
  Variable eqb : V -> V -> bool.

  Record box := Box { b_val : V; b_ver : nat }.
  Record areg := AReg { r_cur : option box; r_next : nat }.

  (* the primitive operations of atomic.Value *)
  Definition prim_install (v : V) (r : areg) : areg := AReg (Some (Box v (r_next r))) (S (r_next r)).
  Definition prim_load (r : areg) : option V := option_map b_val (r_cur r).
  Definition prim_store (v : V) (r : areg) : areg := prim_install v r.
  Definition prim_swap (v : V) (r : areg) : option V * areg := (prim_load r, prim_install v r).
  (* s1: None = return false; Some ver = go on to s2 with the remembered box *)
  Definition prim_cas1 (old : V) (r : areg) : option nat :=
    match r_cur r with
    | None => None
    | Some b => if eqb (b_val b) old then Some (b_ver b) else None
    end.
  Definition prim_cas2 (ver : nat) (old new : V) (coincide : bool) (r : areg) : bool * areg :=
    match r_cur r with
    | None => (false, r)
    | Some b => if (b_ver b =? ver) || (coincide && eqb (b_val b) old) then (true, prim_install new r) else (false, r)
    end.

  Inductive op := OLoad | OStore (v : V) | OSwap (v : V) | OCas (old new : V).
  Inductive res := RVal (v : V) | RUnit | RBool (b : bool).

  Inductive apc :=
  | AIdle
  | ACall (o : op)
  | ACas2 (old new : V) (ver : nat)
  | ACasLoad (old new : V)
  | ARet (r : res).

  Inductive aevent :=
  | EvInv (t : tid) (o : op)
  | EvLin (t : tid)
  | EvRes (t : tid) (r : res).

  Record athread := AThread { a_prog : list op; a_pc : apc; a_rets : list res }.
  Record aconfig := AConfig { a_reg : areg; a_threads : list athread; a_trace : list aevent (* newest first *) }.

  Fixpoint set_athread (ths : list athread) (t : tid) (th : athread) : list athread :=
    match ths, t with
    | [], _ => []
    | _ :: r, O => th :: r
    | x :: r, S t' => x :: set_athread r t' th
    end.

  Definition or_zero (x : option V) : V := match x with None => zero | Some v => v end.

  Definition astep (c : aconfig) (t : tid) (coincide : bool) : option aconfig :=
    match nth_error (a_threads c) t with
    | None => None
    | Some th =>
      let put reg p evs := Some (AConfig reg (set_athread (a_threads c) t (AThread (a_prog th) p (a_rets th))) (evs ++ a_trace c)) in
      match a_pc th with
      | AIdle =>
          match a_prog th with
          | [] => None
          | o :: rest => Some (AConfig (a_reg c) (set_athread (a_threads c) t (AThread rest (ACall o) (a_rets th)))
                                       (EvInv t o :: a_trace c))
          end
      | ACall OLoad => put (a_reg c) (ARet (RVal (or_zero (prim_load (a_reg c))))) [EvLin t]
      | ACall (OStore v) => put (prim_store v (a_reg c)) (ARet RUnit) [EvLin t]
      | ACall (OSwap v) => let '(x, reg) := prim_swap v (a_reg c) in put reg (ARet (RVal (or_zero x))) [EvLin t]
      | ACall (OCas old new) =>
          match prim_cas1 old (a_reg c) with
          | Some ver => put (a_reg c) (ACas2 old new ver) []
          | None => put (a_reg c) (ACasLoad old new) []
          end
      | ACas2 old new ver =>
          let '(ok, reg) := prim_cas2 ver old new coincide (a_reg c) in
          if ok then put reg (ARet (RBool true)) [EvLin t] else put reg (ACasLoad old new) []
      | ACasLoad old new =>
          match prim_load (a_reg c) with
          | None => put (a_reg c) (ARet (RBool false)) [EvLin t]
          | Some x => if eqb x old then put (a_reg c) (ACall (OCas old new)) []
                      else put (a_reg c) (ARet (RBool false)) [EvLin t]
          end
      | ARet r => Some (AConfig (a_reg c) (set_athread (a_threads c) t (AThread (a_prog th) AIdle (a_rets th ++ [r])))
                                (EvRes t r :: a_trace c))
      end
    end.

  Fixpoint arun (c : aconfig) (s : list (tid * bool)) : aconfig :=
    match s with
    | [] => c
    | (t, ch) :: s' => arun (match astep c t ch with Some c' => c' | None => c end) s'
    end.

  Definition ainit (progs : list (list op)) : aconfig :=
    AConfig (AReg None 0) (map (fun p => AThread p AIdle []) progs) [].

  (* ---- the specification: one ideal atomic register ---- *)
  Definition spec_step (s : option V) (o : op) : option V * res :=
    match o with
    | OLoad => (s, RVal (or_zero s))
    | OStore v => (Some v, RUnit)
    | OSwap v => (Some v, RVal (or_zero s))
    | OCas old new =>
        match s with
        | None => (None, RBool false)
        | Some c => if eqb c old then (Some new, RBool true) else (Some c, RBool false)
        end
    end.

  (* ---- linearizability in marker form ----
     A history is the chronological list of invocation and response events.
     It is linearizable iff linearization marks [EvLin t] can be inserted such
     that [lin_check] accepts: every mark lies between the invocation and the
     response of a call of t (at most one per call), the marks in order form a
     legal sequential run of the specification, and every response carries
     the result the specification gave at the call's mark. *)
  Inductive status := SIdle | SPending (o : op) | SDone (r : res).
  Record lstate := LState { l_spec : option V; l_st : tid -> status }.

  Definition set_st (f : tid -> status) (t : tid) (s : status) : tid -> status :=
    fun t' => if t' =? t then s else f t'.

  Definition res_eqb (a b : res) : bool :=
    match a, b with
    | RVal x, RVal y => eqb x y
    | RUnit, RUnit => true
    | RBool x, RBool y => Bool.eqb x y
    | _, _ => false
    end.

  Definition lin_ev (st : lstate) (e : aevent) : option lstate :=
    match e with
    | EvInv t o => match l_st st t with SIdle => Some (LState (l_spec st) (set_st (l_st st) t (SPending o))) | _ => None end
    | EvLin t => match l_st st t with
                 | SPending o => let '(s', r) := spec_step (l_spec st) o in Some (LState s' (set_st (l_st st) t (SDone r)))
                 | _ => None
                 end
    | EvRes t r => match l_st st t with
                   | SDone r' => if res_eqb r r' then Some (LState (l_spec st) (set_st (l_st st) t SIdle)) else None
                   | _ => None
                   end
    end.

  Definition lin_check (hm : list aevent) : option lstate :=
    fold_left (fun acc e => match acc with Some st => lin_ev st e | None => None end) hm
              (Some (LState None (fun _ => SIdle))).

  Definition erase (hm : list aevent) : list aevent :=
    filter (fun e => match e with EvLin _ => false | _ => true end) hm.

  Definition Linearizable (h : list aevent) : Prop :=
    exists hm, erase hm = h /\ lin_check hm <> None.

  (* the history of a configuration: invocations and responses, oldest first *)
  Definition ahistory (c : aconfig) : list aevent := erase (rev (a_trace c)).
End AtomicModel.

Arguments Box {V}.
Arguments b_val {V}.
Arguments b_ver {V}.
Arguments AReg {V}.
Arguments r_cur {V}.
Arguments r_next {V}.
Arguments prim_install {V}.
Arguments prim_load {V}.
Arguments prim_store {V}.
Arguments prim_swap {V}.
Arguments prim_cas1 {V}.
Arguments prim_cas2 {V}.
Arguments OLoad {V}.
Arguments OStore {V}.
Arguments OSwap {V}.
Arguments OCas {V}.
Arguments RVal {V}.
Arguments RUnit {V}.
Arguments RBool {V}.
Arguments AIdle {V}.
Arguments ACall {V}.
Arguments ACas2 {V}.
Arguments ACasLoad {V}.
Arguments ARet {V}.
Arguments EvInv {V}.
Arguments EvLin {V}.
Arguments EvRes {V}.
Arguments AThread {V}.
Arguments a_prog {V}.
Arguments a_pc {V}.
Arguments a_rets {V}.
Arguments AConfig {V}.
Arguments a_reg {V}.
Arguments a_threads {V}.
Arguments a_trace {V}.
Arguments set_athread {V}.
Arguments or_zero {V}.
Arguments astep {V}.
Arguments arun {V}.
Arguments ainit {V}.
Arguments spec_step {V}.
Arguments SIdle {V}.
Arguments SPending {V}.
Arguments SDone {V}.
Arguments LState {V}.
Arguments l_spec {V}.
Arguments l_st {V}.
Arguments set_st {V}.
Arguments res_eqb {V}.
Arguments lin_ev {V}.
Arguments lin_check {V}.
Arguments erase {V}.
Arguments Linearizable {V}.
Arguments ahistory {V}.

(* ------------------------------------------------------------------ *)
(*  Pool                                                                 *)
(* ------------------------------------------------------------------ *)

Inductive val := Zero | Tok (owner : tid) (k : nat).

Definition val_eqb (a b : val) : bool :=
  match a, b with
  | Zero, Zero => true
  | Tok o k, Tok o' k' => (o =? o') && (k =? k')
  | _, _ => false
  end.

Definition is_tok (v : val) : Prop := match v with Tok _ _ => True | Zero => False end.

(* what a thread's program asks for *)
Inductive pop :=
| PGet                 (* x := p.Get(); keep x *)
| PPutHeld (k : nat)   (* p.Put(the k-th item the thread holds), giving it up; skipped if it holds fewer *)
| PPutFresh            (* p.Put(a newly allocated item) *)
| PPutZero.            (* p.Put(zero value) *)

Inductive source := SrcBag | SrcNew | SrcZeroNoNew.

Inductive ppc :=
| GIdle
| GCheckNew                       (* Get invoked; next: read p.New *)
| GPool                           (* next: x := p.pool.Get() *)
| GNew                            (* x == nil; next: p.New() *)
| GRet (v : val) (src : source)   (* next: return v *)
| PutCall (v : val).              (* Put(v) invoked; next: p.pool.Put(v) *)

Inductive pevent :=
| PEInvGet (t : tid)
| PETake (t : tid) (v : val)      (* p.pool.Get() removed v from the bag *)
| PEMiss (t : tid)                (* p.pool.Get() returned nil *)
| PENew (t : tid) (v : val)       (* p.New() returned the new item v *)
| PERetGet (t : tid) (v : val) (src : source)
| PEInvPut (t : tid) (v : val)
| PEPut (t : tid) (v : val)       (* p.pool.Put(v) added v to the bag *)
| PEDrop (v : val).               (* the runtime dropped v from the bag *)

Record pthread := PThread {
  p_prog : list pop;
  p_pc : ppc;
  p_held : list val;      (* what Get returned to this thread and it has not Put back, oldest first *)
  p_fresh : nat;          (* number of items this thread has allocated *)
  p_got : list val        (* results of its Get calls, oldest first *)
}.

Record pconfig := PConfig {
  p_new : bool;           (* the field New: true = a hook allocating a new item; false = nil. Never written. *)
  p_poolnew : bool;       (* the inner sync.Pool's own field New: true = set to a hook wrapping p.New (what the code
                             before the repair installed on every Get); false = nil, as the zero value of Pool has it.
                             Read by sync.Pool.Get on a miss. Never written. *)
  p_bag : list val;       (* sync.Pool *)
  p_threads : list pthread;
  p_trace : list pevent   (* ghost, newest first *)
}.

Inductive pchoice := Take (i : nat) | Miss.
Inductive sitem := SThr (t : tid) (ch : pchoice) | SGc (i : nat).

Fixpoint remove_nth {A} (i : nat) (l : list A) : list A :=
  match l, i with
  | [], _ => []
  | _ :: r, O => r
  | x :: r, S i' => x :: remove_nth i' r
  end.

Fixpoint set_pthread (ths : list pthread) (t : tid) (th : pthread) : list pthread :=
  match ths, t with
  | [], _ => []
  | _ :: r, O => th :: r
  | x :: r, S t' => x :: set_pthread r t' th
  end.

(* The shared state of a Pool is the plain field [New] ([p_new]), the inner
   sync.Pool ([p_bag]) and, inside the latter, its own plain field New
   ([p_poolnew], never set). Every step REPORTS, next to the new configuration, the accesses it
   makes to that shared state (ghost output, produced by the same branch that
   performs the effect): a plain (unsynchronised) read or write of a field, or
   a call into sync.Pool, which is synchronised inside the runtime (trusted).
   Everything else a step touches (program, pc, held items, counters) is local
   to the stepping goroutine; the trace is ghost (written, never read).
   AtomicPoolProofs.v proves that the report is faithful (a step that does not
   report an access to a location neither depends on it nor changes it; a
   step neither changes nor depends on the locals of another goroutine) and
   that no step of any run reports a plain write. *)
Inductive pfield := FNew | FPoolNew.          (* Pool.New and the inner sync.Pool.New *)
Inductive paccess :=
| PlainRead (f : pfield)
| PlainWrite (f : pfield)
| PoolInternal.                               (* a call of p.pool.Get / p.pool.Put *)

Definition pstep_thread_acc (c : pconfig) (t : tid) (ch : pchoice) : option (pconfig * list paccess) :=
  match nth_error (p_threads c) t with
  | None => None
  | Some th =>
    let put bag th' e accs := Some (PConfig (p_new c) (p_poolnew c) bag (set_pthread (p_threads c) t th') (e :: p_trace c), accs) in
    match p_pc th with
    | GIdle =>
        (* invocation: arguments and receiver only, no shared access *)
        match p_prog th with
        | [] => None
        | PGet :: rest => put (p_bag c) (PThread rest GCheckNew (p_held th) (p_fresh th) (p_got th)) (PEInvGet t) []
        | PPutHeld k :: rest =>
            match nth_error (p_held th) k with
            | Some v => put (p_bag c) (PThread rest (PutCall v) (remove_nth k (p_held th)) (p_fresh th) (p_got th)) (PEInvPut t v) []
            | None => Some (PConfig (p_new c) (p_poolnew c) (p_bag c) (set_pthread (p_threads c) t
                              (PThread rest GIdle (p_held th) (p_fresh th) (p_got th))) (p_trace c), [])
            end
        | PPutFresh :: rest =>
            let v := Tok t (p_fresh th) in
            put (p_bag c) (PThread rest (PutCall v) (p_held th) (S (p_fresh th)) (p_got th)) (PEInvPut t v) []
        | PPutZero :: rest => put (p_bag c) (PThread rest (PutCall Zero) (p_held th) (p_fresh th) (p_got th)) (PEInvPut t Zero) []
        end
    | GCheckNew =>
        (* if p.New == nil { var x T; return x }        plain read of New *)
        if p_new c then Some (PConfig (p_new c) (p_poolnew c) (p_bag c) (set_pthread (p_threads c) t
                               (PThread (p_prog th) GPool (p_held th) (p_fresh th) (p_got th))) (p_trace c), [PlainRead FNew])
        else Some (PConfig (p_new c) (p_poolnew c) (p_bag c) (set_pthread (p_threads c) t
                               (PThread (p_prog th) (GRet Zero SrcZeroNoNew) (p_held th) (p_fresh th) (p_got th))) (p_trace c), [PlainRead FNew])
    | GPool =>
        (* x := p.pool.Get()       sync.Pool.Get; on a miss it reads its own (nil) New field *)
        match ch with
        | Take i =>
            match nth_error (p_bag c) i with
            | Some v => put (remove_nth i (p_bag c)) (PThread (p_prog th) (GRet v SrcBag) (p_held th) (p_fresh th) (p_got th)) (PETake t v) [PoolInternal]
            | None => None
            end
        | Miss =>
            (* sync.Pool.Get found nothing: "if x == nil && p.New != nil { x = p.New() }" on ITS OWN field New *)
            if p_poolnew c
            then let v := Tok t (p_fresh th) in
                 put (p_bag c) (PThread (p_prog th) (GRet v SrcNew) (p_held th) (S (p_fresh th)) (p_got th)) (PENew t v)
                     [PoolInternal; PlainRead FPoolNew]
            else put (p_bag c) (PThread (p_prog th) GNew (p_held th) (p_fresh th) (p_got th)) (PEMiss t)
                     [PoolInternal; PlainRead FPoolNew]
        end
    | GNew =>
        (* return p.New()          plain read of New, then the call of the hook *)
        let v := Tok t (p_fresh th) in
        put (p_bag c) (PThread (p_prog th) (GRet v SrcNew) (p_held th) (S (p_fresh th)) (p_got th)) (PENew t v) [PlainRead FNew]
    | GRet v src =>
        put (p_bag c) (PThread (p_prog th) GIdle (p_held th ++ [v]) (p_fresh th) (p_got th ++ [v])) (PERetGet t v src) []
    | PutCall v =>
        (* p.pool.Put(x) *)
        put (v :: p_bag c) (PThread (p_prog th) GIdle (p_held th) (p_fresh th) (p_got th)) (PEPut t v) [PoolInternal]
    end
  end.

Definition pstep_thread (c : pconfig) (t : tid) (ch : pchoice) : option pconfig :=
  match pstep_thread_acc c t ch with Some (c', _) => Some c' | None => None end.

Definition pstep (c : pconfig) (a : sitem) : option pconfig :=
  match a with
  | SThr t ch => pstep_thread c t ch
  | SGc i =>
      match nth_error (p_bag c) i with
      | Some v => Some (PConfig (p_new c) (p_poolnew c) (remove_nth i (p_bag c)) (p_threads c) (PEDrop v :: p_trace c))
      | None => None
      end
  end.

Fixpoint prun (c : pconfig) (s : list sitem) : pconfig :=
  match s with
  | [] => c
  | a :: s' => prun (match pstep c a with Some c' => c' | None => c end) s'
  end.

Definition pinit (new : bool) (progs : list (list pop)) : pconfig :=
  PConfig new false [] (map (fun p => PThread p GIdle [] 0 []) progs) [].

(* every place a value can be: the bag, a thread's hands, a call in flight *)
Definition inflight (p : ppc) : list val :=
  match p with GRet v _ => [v] | PutCall v => [v] | _ => [] end.
Definition thread_vals (th : pthread) : list val := p_held th ++ inflight (p_pc th).
Definition all_vals (c : pconfig) : list val := p_bag c ++ flat_map thread_vals (p_threads c).

(* the accesses of a whole run, oldest first, each with the goroutine that made it
   (the runtime's drop step [SGc] happens inside sync.Pool) *)
Fixpoint pool_accesses (c : pconfig) (s : list sitem) : list (tid * paccess) :=
  match s with
  | [] => []
  | SThr t ch :: s' =>
      match pstep_thread_acc c t ch with
      | Some (c', accs) => map (pair t) accs ++ pool_accesses c' s'
      | None => pool_accesses c s'
      end
  | SGc i :: s' => pool_accesses (match pstep c (SGc i) with Some c' => c' | None => c end) s'
  end.

(* two accesses conflict when they touch the same plain field and one of them writes it *)
Definition conflicting (a1 a2 : paccess) : Prop :=
  exists f, (a1 = PlainWrite f /\ (a2 = PlainRead f \/ a2 = PlainWrite f)) \/
            (a2 = PlainWrite f /\ a1 = PlainRead f).

(* the same configuration with another value of a shared location *)
Definition with_new (b : bool) (c : pconfig) : pconfig := PConfig b (p_poolnew c) (p_bag c) (p_threads c) (p_trace c).
Definition with_poolnew (b : bool) (c : pconfig) : pconfig := PConfig (p_new c) b (p_bag c) (p_threads c) (p_trace c).
(* ... and with another state of another goroutine t' *)
Definition with_thread (t' : tid) (th : pthread) (c : pconfig) : pconfig :=
  PConfig (p_new c) (p_poolnew c) (p_bag c) (set_pthread (p_threads c) t' th) (p_trace c).
Definition with_bag (bag : list val) (c : pconfig) : pconfig := PConfig (p_new c) (p_poolnew c) bag (p_threads c) (p_trace c).

(* counting events about a value *)
Definition pcount (f : pevent -> bool) (tr : list pevent) : nat := length (filter f tr).
Definition is_put (v : val) (e : pevent) : bool := match e with PEPut _ v' => val_eqb v' v | _ => false end.
Definition is_take (v : val) (e : pevent) : bool := match e with PETake _ v' => val_eqb v' v | _ => false end.
Definition is_drop (v : val) (e : pevent) : bool := match e with PEDrop v' => val_eqb v' v | _ => false end.
Definition ev_val (e : pevent) : option val :=
  match e with
  | PETake _ v | PENew _ v | PERetGet _ v _ | PEInvPut _ v | PEPut _ v | PEDrop v => Some v
  | _ => None
  end.
