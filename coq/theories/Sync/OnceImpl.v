(* MODEL of sync2/once.go with sync.Once ITSELF transcribed (Go 1.23
   src/sync/once.go), over trusted sync.Mutex and sync/atomic only.
   Definitions only. Sync/Once.v is the same wrapper over an ABSTRACT Once
   machine (NotStarted | Running t | ODone); Sync/OnceImplProofs.v proves that
   that abstract machine simulates this transcription, so the C17 theorems
   rest on the mutex and the atomic flag, not on a contract of sync.Once.

     type Once struct { done atomic.Uint32; m Mutex }

     func (o *Once) Do(f func()) {
         if o.done.Load() == 0 {          // fast path
             o.doSlow(f)
         }
     }
     func (o *Once) doSlow(f func()) {
         o.m.Lock()
         defer o.m.Unlock()
         if o.done.Load() == 0 {
             defer o.done.Store(1)
             f()
         }
     }

     func (o *Once2[R1, R2]) Do(f func() (R1, R2)) (R1, R2) {
         o.once.Do(func() { o.R1, o.R2 = f() })
         return o.R1, o.R2
     }

   TRUSTED: sync.Mutex ([cc_mutex]: Lock is enabled only while the mutex is
   free and makes the caller its holder; Unlock frees it) and atomic.Uint32
   ([cc_done]: Load and Store are single atomic steps). Deferred calls run
   when the function returns AND when it panics or calls runtime.Goexit, in
   reverse order: after the closure `func() { o.R1, o.R2 = f() }` ended in
   either way, first `o.done.Store(1)`, then `o.m.Unlock()`.

   One step per atomic load/store, per mutex operation, per user step, per
   plain field access. Program counter of thread t inside one OnceN.Do(f):
     CIdle        -> CFast f                 the call is invoked                       EInv
     CFast f      -> CRead []                o.done.Load() = 1: return from once.Do    EPass
                  -> CLock f                 o.done.Load() = 0: doSlow
     CLock f      -> CCheck f                o.m.Lock()      (only while the mutex is free)
     CCheck f     -> CRun f n                o.done.Load() = 0: defer done.Store; run the closure   EStart
                  -> CUnlock2                o.done.Load() = 1                         EPass
     CUnlock2     -> CRead []                deferred o.m.Unlock()
     CRun f (S k) -> CRun f k                one step of the user function             EUser
     CRun f 0     -> CWrite res 0            f returns res                             EFin
                  -> CStoreA f               f panics / calls Goexit: the deferred calls start
     CWrite res i -> CWrite res (i+1)        o.R(i+1) = res[i]                (i < arity)   EWrite
     CWrite res a -> CStore res a            the closure returns
     CStore res a -> CUnlockN                deferred o.done.Store(1)                  EDone
     CUnlockN     -> CRead []                deferred o.m.Unlock(); once.Do returns
     CStoreA f    -> CUnlockA                deferred o.done.Store(1)                  EAbort
     CUnlockA     -> CDead                   deferred o.m.Unlock(); the panic / Goexit goes on
     CRead acc    -> CRead (acc ++ [R(i)])   read o.R(i+1)                    (i < arity)   ERead
     CRead acc    -> CIdle                   OnceN.Do returns acc                      ERet
   The events are those of Sync/Once.v, logged at the steps that correspond
   to a step of the abstract machine; the other steps log nothing. *)
From Typ Require Export Lib.Base Sync.Once.

Section OnceImpl.
  Variable V : Type.
  Variable zero : V.
  Variable arity : nat.

  Inductive cpc :=
  | CIdle
  | CFast (f : ufun V)
  | CLock (f : ufun V)
  | CCheck (f : ufun V)
  | CUnlock2
  | CRun (f : ufun V) (k : nat)
  | CWrite (res : list V) (i : nat)
  | CStore (res : list V) (i : nat)
  | CUnlockN
  | CStoreA (f : ufun V)
  | CUnlockA
  | CRead (acc : list V)
  | CDead.

  Record cthread := CThread {
    ct_prog : list (ufun V);
    ct_pc : cpc;
    ct_rets : list (list V)
  }.

  Record cconfig := CConfig {
    cc_done : bool;               (* o.once.done <> 0 *)
    cc_mutex : option tid;        (* holder of o.once.m *)
    cc_R : list V;                (* the fields R1..R(arity) *)
    cc_threads : list cthread;
    cc_trace : list (event V)     (* ghost, newest first *)
  }.

  Fixpoint set_cthread (ths : list cthread) (t : tid) (th : cthread) : list cthread :=
    match ths, t with
    | [], _ => []
    | _ :: r, O => th :: r
    | x :: r, S t' => x :: set_cthread r t' th
    end.

  Definition cstep (c : cconfig) (t : tid) : option cconfig :=
    match nth_error (cc_threads c) t with
    | None => None
    | Some th =>
      let ths' p := set_cthread (cc_threads c) t (CThread (ct_prog th) p (ct_rets th)) in
      (* a step that only moves the program counter (and perhaps logs an event) *)
      let go p evs := Some (CConfig (cc_done c) (cc_mutex c) (cc_R c) (ths' p) (evs ++ cc_trace c)) in
      match ct_pc th with
      | CIdle =>
          match ct_prog th with
          | [] => None
          | f :: rest => Some (CConfig (cc_done c) (cc_mutex c) (cc_R c)
                                 (set_cthread (cc_threads c) t (CThread rest (CFast f) (ct_rets th)))
                                 (EInv t f :: cc_trace c))
          end
      | CFast f => if cc_done c then go (CRead []) [EPass t] else go (CLock f) []
      | CLock f =>
          match cc_mutex c with
          | None => Some (CConfig (cc_done c) (Some t) (cc_R c) (ths' (CCheck f)) (cc_trace c))
          | Some _ => None
          end
      | CCheck f => if cc_done c then go CUnlock2 [EPass t] else go (CRun f (f_steps f)) [EStart t f]
      | CUnlock2 => Some (CConfig (cc_done c) None (cc_R c) (ths' (CRead [])) (cc_trace c))
      | CRun f (S k) => go (CRun f k) [EUser t k]
      | CRun f O => if f_aborts f then go (CStoreA f) [] else go (CWrite (f_res f) 0) [EFin t (f_res f)]
      | CWrite res i =>
          if i <? arity then
            let v := nth i res zero in
            Some (CConfig (cc_done c) (cc_mutex c) (upd i v (cc_R c)) (ths' (CWrite res (S i))) (EWrite t i v :: cc_trace c))
          else go (CStore res i) []
      | CStore res i => Some (CConfig true (cc_mutex c) (cc_R c) (ths' CUnlockN) (EDone t :: cc_trace c))
      | CUnlockN => Some (CConfig (cc_done c) None (cc_R c) (ths' (CRead [])) (cc_trace c))
      | CStoreA f => Some (CConfig true (cc_mutex c) (cc_R c) (ths' CUnlockA) (EAbort t :: cc_trace c))
      | CUnlockA => Some (CConfig (cc_done c) None (cc_R c) (ths' CDead) (cc_trace c))
      | CRead acc =>
          if length acc <? arity then
            let v := nth (length acc) (cc_R c) zero in
            go (CRead (acc ++ [v])) [ERead t (length acc) v]
          else Some (CConfig (cc_done c) (cc_mutex c) (cc_R c)
                       (set_cthread (cc_threads c) t (CThread (ct_prog th) CIdle (ct_rets th ++ [acc])))
                       (ERet t acc :: cc_trace c))
      | CDead => None
      end
    end.

  Fixpoint crun (c : cconfig) (s : list tid) : cconfig :=
    match s with
    | [] => c
    | t :: s' => crun (match cstep c t with Some c' => c' | None => c end) s'
    end.

  Definition cinit (progs : list (list (ufun V))) : cconfig :=
    CConfig false None (repeat zero arity) (map (fun p => CThread p CIdle []) progs) [].

  (* ---- the abstraction to the machine of Sync/Once.v ---- *)

  (* between the decision to run the closure and the store of done *)
  Definition in_run (p : cpc) : bool :=
    match p with CRun _ _ | CWrite _ _ | CStore _ _ | CStoreA _ => true | _ => false end.

  (* program counters at which the thread holds the mutex *)
  Definition holding (p : cpc) : bool :=
    match p with
    | CCheck _ | CUnlock2 | CRun _ _ | CWrite _ _ | CStore _ _ | CUnlockN | CStoreA _ | CUnlockA => true
    | _ => false
    end.

  Definition abs_pc (p : cpc) : pc V :=
    match p with
    | CIdle => PIdle
    | CFast f | CLock f | CCheck f => PEnter f
    | CRun f k => PRun f k
    | CStoreA f => PRun f 0
    | CWrite res i | CStore res i => PWrite res i
    | CUnlockN | CUnlock2 => PRead []
    | CRead acc => PRead acc
    | CUnlockA | CDead => PDead
    end.

  Definition abs_thread (th : cthread) : thread V := Thread (ct_prog th) (abs_pc (ct_pc th)) (ct_rets th).

  Definition once_of (done : bool) (m : option tid) (ths : list cthread) : ostate :=
    if done then ODone else
    match m with
    | Some w => match nth_error ths w with
                | Some th => if in_run (ct_pc th) then Running w else NotStarted
                | None => NotStarted
                end
    | None => NotStarted
    end.

  Definition abs (c : cconfig) : config V :=
    Config (once_of (cc_done c) (cc_mutex c) (cc_threads c)) (cc_R c) (map abs_thread (cc_threads c)) (cc_trace c).

  (* The plain (non-atomic) memory access thread t's next step performs. *)
  Definition cnext_access (c : cconfig) (t : tid) : option access :=
    match nth_error (cc_threads c) t with
    | None => None
    | Some th =>
      match ct_pc th with
      | CWrite _ i => if i <? arity then Some (AWrite i) else None
      | CRead acc => if length acc <? arity then Some (ARead (length acc)) else None
      | _ => None
      end
    end.

  Definition cfinished (c : cconfig) : Prop :=
    forall t th, nth_error (cc_threads c) t = Some th -> ct_pc th = CDead \/ (ct_pc th = CIdle /\ ct_prog th = []).
End OnceImpl.

Arguments CIdle {V}.
Arguments CFast {V}.
Arguments CLock {V}.
Arguments CCheck {V}.
Arguments CUnlock2 {V}.
Arguments CRun {V}.
Arguments CWrite {V}.
Arguments CStore {V}.
Arguments CUnlockN {V}.
Arguments CStoreA {V}.
Arguments CUnlockA {V}.
Arguments CRead {V}.
Arguments CDead {V}.
Arguments CThread {V}.
Arguments ct_prog {V}.
Arguments ct_pc {V}.
Arguments ct_rets {V}.
Arguments CConfig {V}.
Arguments cc_done {V}.
Arguments cc_mutex {V}.
Arguments cc_R {V}.
Arguments cc_threads {V}.
Arguments cc_trace {V}.
Arguments set_cthread {V}.
Arguments cstep {V}.
Arguments crun {V}.
Arguments cinit {V}.
Arguments in_run {V}.
Arguments holding {V}.
Arguments abs_pc {V}.
Arguments abs_thread {V}.
Arguments once_of {V}.
Arguments abs {V}.
Arguments cfinished {V}.
Arguments cnext_access {V}.
