(* PROOFS about the models of sync2/atomicvalue.go and sync2/pool.go
   (Sync/AtomicPool.v): one invariant of all reachable configurations per
   model, and the C18 statements derived from them. *)
From Typ Require Import Lib.Base Sync.AtomicPool.

(* ================================================================== *)
(*  AtomicValue                                                          *)
(* ================================================================== *)
Section AtomicProofs.
  Variable V : Type.
  Variable zero : V.
  Variable eqb : V -> V -> bool.
  Hypothesis eqb_spec : forall x y, eqb x y = true <-> x = y.

  Notation astep := (@astep V zero eqb).
  Notation arun := (@arun V zero eqb).
  Notation spec_step := (@spec_step V zero eqb).
  Notation lin_ev := (@lin_ev V zero eqb).
  Notation lin_check := (@lin_check V zero eqb).
  Notation Linearizable := (@Linearizable V zero eqb).

  Lemma eqb_refl x : eqb x x = true.
  Proof. apply eqb_spec. reflexivity. Qed.

  Lemma res_eqb_refl (r : res V) : res_eqb eqb r r = true.
  Proof. destruct r as [v| |b]; simpl; auto using eqb_refl. destruct b; reflexivity. Qed.

  (* the specification is the register of the property text *)
  Lemma spec_register (s : option V) :
    spec_step s OLoad = (s, RVal (or_zero zero s)) /\
    (forall v, spec_step s (OStore v) = (Some v, RUnit)) /\
    (forall v, spec_step s (OSwap v) = (Some v, RVal (or_zero zero s))) /\
    (forall c old new, s = Some c ->
       (c = old -> spec_step s (OCas old new) = (Some new, RBool true)) /\
       (c <> old -> spec_step s (OCas old new) = (s, RBool false))).
  Proof.
    repeat split; intros; subst; simpl.
    - rewrite eqb_refl. reflexivity.
    - destruct (eqb c old) eqn:E; auto. apply eqb_spec in E. contradiction.
  Qed.

  Lemma nth_error_aset_same (ths : list (athread V)) t th th' :
    nth_error ths t = Some th -> nth_error (set_athread ths t th') t = Some th'.
  Proof. revert t; induction ths as [|x r IH]; intros [|t] H; simpl in *; try discriminate; auto. Qed.

  Lemma nth_error_aset_other (ths : list (athread V)) t t' th' :
    t' <> t -> nth_error (set_athread ths t th') t' = nth_error ths t'.
  Proof.
    revert t t'; induction ths as [|x r IH]; intros [|t] [|t'] H; simpl; auto; try congruence.
  Qed.

  Lemma lin_check_snoc hm e :
    lin_check (hm ++ [e]) = match lin_check hm with Some st => lin_ev st e | None => None end.
  Proof. unfold AtomicPool.lin_check. rewrite fold_left_app. reflexivity. Qed.

  (* ---- the invariant ---- *)

  Definition status_of (o : option (athread V)) : status V :=
    match o with
    | None => SIdle
    | Some th =>
      match a_pc th with
      | AIdle => SIdle
      | ACall o => SPending o
      | ACas2 old new _ | ACasLoad old new => SPending (OCas old new)
      | ARet r => SDone r
      end
    end.

  Definition thread_ok (reg : areg V) (th : athread V) : Prop :=
    match a_pc th with
    | ACas2 old new ver =>
        ver < r_next reg /\ forall b, r_cur reg = Some b -> b_ver b = ver -> eqb (b_val b) old = true
    | _ => True
    end.

  Record AInv (c : aconfig V) : Prop := {
    ai_reg : forall b, r_cur (a_reg c) = Some b -> b_ver b < r_next (a_reg c);
    ai_threads : forall t th, nth_error (a_threads c) t = Some th -> thread_ok (a_reg c) th;
    ai_lin : exists st, lin_check (rev (a_trace c)) = Some st /\ l_spec st = prim_load (a_reg c) /\
               forall t, l_st st t = status_of (nth_error (a_threads c) t)
  }.

  Lemma ainit_inv progs : AInv (ainit progs).
  Proof.
    constructor; simpl.
    - discriminate.
    - intros t th H. apply nth_error_In in H. apply in_map_iff in H as (p & <- & _). exact I.
    - eexists. split; [reflexivity|]. split; [reflexivity|]. intro t. simpl.
      destruct (nth_error (map (fun p => AThread p AIdle []) progs) t) as [th|] eqn:E; auto.
      apply nth_error_In in E. apply in_map_iff in E as (p & <- & _). reflexivity.
  Qed.

  (* an installation makes every remembered box stale *)
  Lemma thread_ok_install reg v th : (forall b, r_cur reg = Some b -> b_ver b < r_next reg) ->
    thread_ok reg th -> thread_ok (prim_install v reg) th.
  Proof.
    unfold thread_ok. intros Hreg H. destruct (a_pc th); auto. destruct H as (Hlt & _). simpl. split; [lia|].
    intros b [= <-]. simpl. lia.
  Qed.

  Lemma threads_after (ths : list (athread V)) t th th' (P : athread V -> Prop) :
    nth_error ths t = Some th -> (forall t0 th0, nth_error ths t0 = Some th0 -> P th0) -> P th' ->
    forall t0 th0, nth_error (set_athread ths t th') t0 = Some th0 -> P th0.
  Proof.
    intros H HA H' t0 th0 H0. destruct (Nat.eq_dec t0 t) as [->|N].
    - rewrite (nth_error_aset_same _ _ _ _ H) in H0. injection H0 as <-. exact H'.
    - rewrite nth_error_aset_other in H0 by exact N. eauto.
  Qed.

  (* the status table after thread t changed *)
  Lemma status_after (ths : list (athread V)) t th th' (f : tid -> status V) s :
    nth_error ths t = Some th -> (forall t0, f t0 = status_of (nth_error ths t0)) ->
    s = status_of (Some th') ->
    forall t0, set_st f t s t0 = status_of (nth_error (set_athread ths t th') t0).
  Proof.
    intros H Hf Hs t0. unfold set_st. destruct (t0 =? t) eqn:E.
    - apply Nat.eqb_eq in E. subst t0. rewrite (nth_error_aset_same _ _ _ _ H). exact Hs.
    - apply Nat.eqb_neq in E. rewrite nth_error_aset_other by exact E. apply Hf.
  Qed.

  Lemma status_keep (ths : list (athread V)) t th th' (f : tid -> status V) :
    nth_error ths t = Some th -> (forall t0, f t0 = status_of (nth_error ths t0)) ->
    status_of (Some th') = status_of (Some th) ->
    forall t0, f t0 = status_of (nth_error (set_athread ths t th') t0).
  Proof.
    intros H Hf Hs t0. destruct (Nat.eq_dec t0 t) as [->|N].
    - rewrite (nth_error_aset_same _ _ _ _ H), Hs, <- H. apply Hf.
    - rewrite nth_error_aset_other by exact N. apply Hf.
  Qed.

  Lemma astep_inv c t ch c' : AInv c -> astep c t ch = Some c' -> AInv c'.
  Proof.
    intros [Hreg HT (st & Hchk & Hspec & Hst)] Hs. unfold AtomicPool.astep in Hs.
    destruct (nth_error (a_threads c) t) as [th|] eqn:Hth; [|discriminate].
    pose proof (HT _ _ Hth) as Hok. pose proof (Hst t) as Hstt. rewrite Hth in Hstt.
    destruct c as [reg ths tr]; simpl in *.
    destruct th as [prog p rets]; simpl in *. unfold thread_ok in Hok; simpl in Hok.
    destruct p as [|o|old new ver|old new|r]; simpl in Hstt.
    - (* invocation *)
      destruct prog as [|o rest]; [discriminate|]. injection Hs as <-.
      constructor; simpl; [first [exact Hreg|intros ? Hb_; apply Hreg; congruence]| |].
      + eapply threads_after; eauto; try exact I.
      + rewrite lin_check_snoc, Hchk. simpl. rewrite Hstt. eexists. split; [reflexivity|]. split; [exact Hspec|].
        simpl. eapply status_after; eauto.
    - destruct o as [|v|v|old new].
      + (* Load *)
        injection Hs as <-. constructor; simpl; [first [exact Hreg|intros ? Hb_; apply Hreg; congruence]| |].
        * eapply threads_after; eauto; try exact I.
        * rewrite lin_check_snoc, Hchk. simpl. rewrite Hstt. eexists. split; [reflexivity|]. simpl. split; [exact Hspec|].
          eapply status_after; eauto. simpl. rewrite Hspec. reflexivity.
      + (* Store *)
        injection Hs as <-. constructor; simpl.
        * intros b [= <-]. simpl. lia.
        * eapply threads_after; eauto; try exact I. intros t0 th0 H0. apply thread_ok_install; [first [exact Hreg|intros ? Hb_; apply Hreg; congruence]|eauto].
        * rewrite lin_check_snoc, Hchk. simpl. rewrite Hstt. eexists. split; [reflexivity|]. simpl. split; [reflexivity|].
          eapply status_after; eauto.
      + (* Swap *)
        injection Hs as <-. constructor; simpl.
        * intros b [= <-]. simpl. lia.
        * eapply threads_after; eauto; try exact I. intros t0 th0 H0. apply thread_ok_install; [first [exact Hreg|intros ? Hb_; apply Hreg; congruence]|eauto].
        * rewrite lin_check_snoc, Hchk. simpl. rewrite Hstt. eexists. split; [reflexivity|]. simpl. split; [reflexivity|].
          eapply status_after; eauto. simpl. rewrite Hspec. reflexivity.
      + (* CompareAndSwap, s1 *)
        unfold prim_cas1 in Hs. destruct (r_cur reg) as [b|] eqn:Hcur.
        * destruct (eqb (b_val b) old) eqn:Heq; injection Hs as <-; (constructor; simpl; [first [exact Hreg|intros ? Hb_; apply Hreg; congruence]| |]).
          -- eapply threads_after; eauto. unfold thread_ok; simpl. split; [apply Hreg; first [exact Hcur|reflexivity]|].
             intros b' Hb' _. rewrite Hcur in Hb'. injection Hb' as <-. exact Heq.
          -- exists st. split; [exact Hchk|]. split; [exact Hspec|]. eapply status_keep; eauto.
          -- eapply threads_after; eauto; try exact I.
          -- exists st. split; [exact Hchk|]. split; [exact Hspec|]. eapply status_keep; eauto.
        * injection Hs as <-; (constructor; simpl; [first [exact Hreg|intros ? Hb_; apply Hreg; congruence]| |]).
          -- eapply threads_after; eauto; try exact I.
          -- exists st. split; [exact Hchk|]. split; [exact Hspec|]. eapply status_keep; eauto.
    - (* CompareAndSwap, s2 *)
      destruct Hok as (Hver & Hsame). unfold prim_cas2 in Hs. destruct (r_cur reg) as [b|] eqn:Hcur.
      + destruct ((b_ver b =? ver) || (ch && eqb (b_val b) old)) eqn:Hc; injection Hs as <-.
        * (* success: the current value equals old *)
          assert (Heq : eqb (b_val b) old = true).
          { apply orb_true_iff in Hc as [Hc|Hc].
            - apply Nat.eqb_eq in Hc. apply Hsame; auto.
            - apply andb_true_iff in Hc as (_ & Hc). exact Hc. }
          constructor; simpl.
          -- intros b' [= <-]. simpl. lia.
          -- eapply threads_after; eauto; try exact I. intros t0 th0 H0. apply thread_ok_install; [first [exact Hreg|intros ? Hb_; apply Hreg; congruence]|eauto].
          -- rewrite lin_check_snoc, Hchk. simpl. rewrite Hstt. simpl. rewrite Hspec. unfold prim_load. rewrite Hcur. simpl.
             rewrite Heq. eexists. split; [reflexivity|]. simpl. split; [reflexivity|].
             eapply status_after; eauto.
        * (* failure of the pointer CAS: no effect, go on to the Load *)
          constructor; simpl; [first [exact Hreg|intros ? Hb_; apply Hreg; congruence]| |].
          -- eapply threads_after; eauto; try exact I.
          -- exists st. split; [exact Hchk|]. split; [exact Hspec|]. eapply status_keep; eauto.
      + injection Hs as <-. constructor; simpl; [first [exact Hreg|intros ? Hb_; apply Hreg; congruence]| |].
        * eapply threads_after; eauto; try exact I.
        * exists st. split; [exact Hchk|]. split; [exact Hspec|]. eapply status_keep; eauto.
    - (* the Load after a failed atom.CompareAndSwap *)
      unfold prim_load in Hs, Hspec. destruct (r_cur reg) as [b|] eqn:Hcur; simpl in Hs, Hspec.
      + destruct (eqb (b_val b) old) eqn:Heq; injection Hs as <-; (constructor; simpl; [first [exact Hreg|intros ? Hb_; apply Hreg; congruence]| |]).
        * eapply threads_after; eauto; try exact I.
        * exists st. split; [exact Hchk|]. split; [rewrite Hspec; unfold prim_load; rewrite Hcur; reflexivity|].
          eapply status_keep; eauto.
        * eapply threads_after; eauto; try exact I.
        * rewrite lin_check_snoc, Hchk. simpl. rewrite Hstt. simpl. rewrite Hspec. rewrite Heq.
          eexists. split; [reflexivity|]. simpl. split; [unfold prim_load; rewrite Hcur; reflexivity|].
          eapply status_after; eauto.
      + injection Hs as <-; (constructor; simpl; [first [exact Hreg|intros ? Hb_; apply Hreg; congruence]| |]).
        * eapply threads_after; eauto; try exact I.
        * rewrite lin_check_snoc, Hchk. simpl. rewrite Hstt. simpl. rewrite Hspec.
          eexists. split; [reflexivity|]. simpl. split; [unfold prim_load; rewrite Hcur; reflexivity|].
          eapply status_after; eauto.
    - (* return *)
      injection Hs as <-. constructor; simpl; [first [exact Hreg|intros ? Hb_; apply Hreg; congruence]| |].
      + eapply threads_after; eauto; try exact I.
      + rewrite lin_check_snoc, Hchk. simpl. rewrite Hstt. rewrite res_eqb_refl.
        eexists. split; [reflexivity|]. simpl. split; [exact Hspec|].
        eapply status_after; eauto.
  Qed.

  Lemma arun_inv s : forall c, AInv c -> AInv (arun c s).
  Proof.
    induction s as [|[t ch] s IH]; intros c H; simpl; auto.
    apply IH. destruct (astep c t ch) as [c'|] eqn:E; auto. eapply astep_inv; eauto.
  Qed.

  (* C18, register part: every history of the wrappers is linearizable to the ideal register *)
  Theorem register_linearizable progs s : Linearizable (ahistory (arun (ainit progs) s)).
  Proof.
    destruct (arun_inv s _ (ainit_inv progs)) as [_ _ (st & Hchk & _)].
    exists (rev (a_trace (arun (ainit progs) s))). split; [reflexivity|]. rewrite Hchk. discriminate.
  Qed.

  (* the abstract register read off the marks is the value held by atomic.Value *)
  Theorem register_state progs s :
    exists st, lin_check (rev (a_trace (arun (ainit progs) s))) = Some st /\
               l_spec st = prim_load (a_reg (arun (ainit progs) s)).
  Proof.
    destruct (arun_inv s _ (ainit_inv progs)) as [_ _ (st & Hchk & Hspec & _)]. eauto.
  Qed.

  (* ---- what the threads were handed is what the history says ---- *)

  Definition tres (t : tid) (tr : list (aevent V)) : list (res V) :=
    flat_map (fun e => match e with EvRes t' r => if t' =? t then [r] else [] | _ => [] end) tr.

  Definition no_res (evs : list (aevent V)) : Prop := forall t r, ~ In (EvRes t r) evs.

  Lemma tres_no_res evs tr t : no_res evs -> tres t (evs ++ tr) = tres t tr.
  Proof.
    intro H. unfold tres. rewrite flat_map_app.
    replace (flat_map _ evs) with (@nil (res V)); [reflexivity|].
    symmetry. induction evs as [|e evs IH]; simpl; auto.
    rewrite IH by (intros t0 r Hin; apply (H t0 r); right; exact Hin).
    destruct e as [t0 o|t0|t0 r]; simpl; auto. exfalso. apply (H t0 r). left. reflexivity.
  Qed.

  (* the shape of a step: thread t gets a new state; either no response is
     logged and its results are unchanged, or exactly its response r is logged
     and r is appended to its results *)
  Lemma astep_shape c t ch c' : astep c t ch = Some c' ->
    exists th th' evs, nth_error (a_threads c) t = Some th /\
      a_threads c' = set_athread (a_threads c) t th' /\ a_trace c' = evs ++ a_trace c /\
      ((a_rets th' = a_rets th /\ no_res evs) \/ exists r, a_rets th' = a_rets th ++ [r] /\ evs = [EvRes t r]).
  Proof.
    unfold AtomicPool.astep. destruct (nth_error (a_threads c) t) as [th|] eqn:Hth; [|discriminate].
    assert (N0 : no_res []) by (intros ? ? []).
    assert (N1 : forall t0, no_res [EvLin t0]) by (intros ? ? ? [E|[]]; discriminate).
    assert (N2 : forall t0 o, no_res [EvInv t0 o]) by (intros ? ? ? ? [E|[]]; discriminate).
    assert (fin : forall th' evs,
              a_rets th' = a_rets th -> no_res evs ->
              exists th0 th'0 evs0, Some th = Some th0 /\
                set_athread (a_threads c) t th' = set_athread (a_threads c) t th'0 /\ evs ++ a_trace c = evs0 ++ a_trace c /\
                ((a_rets th'0 = a_rets th0 /\ no_res evs0) \/ exists r, a_rets th'0 = a_rets th0 ++ [r] /\ evs0 = [EvRes t r])).
    { intros th' evs H1 H2. exists th, th', evs. repeat split; auto. }
    destruct (a_pc th) as [|o|old new ver|old new|r].
    - destruct (a_prog th) as [|o rest]; [discriminate|]. intros [= <-]. simpl.
      apply (fin _ [EvInv t o]); auto.
    - destruct o as [|v|v|old new].
      + intros [= <-]. simpl. apply (fin _ [EvLin t]); auto.
      + intros [= <-]. simpl. apply (fin _ [EvLin t]); auto.
      + intros [= <-]. simpl. apply (fin _ [EvLin t]); auto.
      + destruct (prim_cas1 eqb old (a_reg c)); intros [= <-]; simpl; apply (fin _ []); auto.
    - destruct (prim_cas2 eqb ver old new ch (a_reg c)) as [[|] reg]; intros [= <-]; simpl;
        [apply (fin _ [EvLin t])|apply (fin _ [])]; auto.
    - destruct (prim_load (a_reg c)) as [x|]; [destruct (eqb x old)|]; intros [= <-]; simpl;
        [apply (fin _ [])|apply (fin _ [EvLin t])|apply (fin _ [EvLin t])]; auto.
    - intros [= <-]. simpl. exists th, (AThread (a_prog th) AIdle (a_rets th ++ [r])), [EvRes t r].
      repeat split; auto. right. exists r. auto.
  Qed.

  Definition rets_ok (c : aconfig V) : Prop :=
    forall t th, nth_error (a_threads c) t = Some th -> a_rets th = rev (tres t (a_trace c)).

  Lemma astep_rets c t ch c' : rets_ok c -> astep c t ch = Some c' -> rets_ok c'.
  Proof.
    intros H Hs. destruct (astep_shape _ _ _ _ Hs) as (th & th' & evs & Hth & E1 & E2 & Hr).
    unfold rets_ok. rewrite E1, E2. intros t0 th0 H0. destruct (Nat.eq_dec t0 t) as [->|N].
    - rewrite (nth_error_aset_same _ _ _ _ Hth) in H0. injection H0 as <-.
      destruct Hr as [(-> & Hn)|(r & -> & ->)].
      + rewrite tres_no_res by exact Hn. apply H; auto.
      + simpl. rewrite Nat.eqb_refl. simpl. rewrite (H _ _ Hth). reflexivity.
    - rewrite nth_error_aset_other in H0 by exact N.
      destruct Hr as [(_ & Hn)|(r & _ & ->)].
      + rewrite tres_no_res by exact Hn. apply H; auto.
      + simpl. apply Nat.eqb_neq in N. rewrite Nat.eqb_sym, N. simpl. apply H; auto.
  Qed.

  (* the results a goroutine received are exactly its responses in the history, in order *)
  Theorem rets_are_history progs s t th :
    nth_error (a_threads (arun (ainit progs) s)) t = Some th ->
    a_rets th = rev (tres t (a_trace (arun (ainit progs) s))).
  Proof.
    assert (G : forall s c, rets_ok c -> rets_ok (arun c s)).
    { induction s0 as [|[t0 ch] s0 IH]; intros c H; simpl; auto.
      apply IH. destruct (astep c t0 ch) as [c'|] eqn:E; auto. eapply astep_rets; eauto. }
    apply G. intros t0 th0 H0. apply nth_error_In in H0. apply in_map_iff in H0 as (p & <- & _). reflexivity.
  Qed.

  (* ---- the retry loop is obstruction-free: a call running alone returns ---- *)

  Definition tpc (c : aconfig V) (t : tid) : option (apc V) := option_map (@a_pc V) (nth_error (a_threads c) t).
  Definition solo (c : aconfig V) (t : tid) (n : nat) : aconfig V := arun c (repeat (t, false) n).

  Lemma solo_S c t n c' : astep c t false = Some c' -> solo c t (S n) = solo c' t n.
  Proof. intro H. unfold solo. simpl. rewrite H. reflexivity. Qed.

  (* one step of thread t, seen from t: the next pc and register *)
  Lemma astep_local c t p :
    tpc c t = Some p -> p <> AIdle ->
    exists c', astep c t false = Some c' /\
      match p with
      | AIdle => False
      | ACall OLoad => a_reg c' = a_reg c /\ exists r, tpc c' t = Some (ARet r)
      | ACall (OStore v) | ACall (OSwap v) => exists r, tpc c' t = Some (ARet r)
      | ACall (OCas old new) =>
          a_reg c' = a_reg c /\
          tpc c' t = Some (match prim_cas1 eqb old (a_reg c) with Some ver => ACas2 old new ver | None => ACasLoad old new end)
      | ACas2 old new ver =>
          a_reg c' = snd (prim_cas2 eqb ver old new false (a_reg c)) /\
          tpc c' t = Some (if fst (prim_cas2 eqb ver old new false (a_reg c)) then ARet (RBool true) else ACasLoad old new)
      | ACasLoad old new =>
          a_reg c' = a_reg c /\
          tpc c' t = Some (match prim_load (a_reg c) with
                           | None => ARet (RBool false)
                           | Some x => if eqb x old then ACall (OCas old new) else ARet (RBool false)
                           end)
      | ARet r => tpc c' t = Some AIdle
      end.
  Proof.
    unfold tpc, AtomicPool.astep. destruct (nth_error (a_threads c) t) as [th|] eqn:Hth; [|discriminate].
    simpl. intros [= <-] Hn.
    assert (R : forall reg th' tr, option_map (@a_pc V) (nth_error (a_threads (AConfig reg (set_athread (a_threads c) t th') tr)) t) = Some (a_pc th')).
    { intros. simpl. rewrite (nth_error_aset_same _ _ _ _ Hth). reflexivity. }
    destruct (a_pc th) as [|o|old new ver|old new|r]; [congruence| | | |].
    - destruct o as [|v|v|old new].
      + eexists. split; [reflexivity|]. split; [reflexivity|]. eexists. (simpl; rewrite (nth_error_aset_same _ _ _ _ Hth); reflexivity).
      + eexists. split; [reflexivity|]. eexists. (simpl; rewrite (nth_error_aset_same _ _ _ _ Hth); reflexivity).
      + eexists. split; [reflexivity|]. eexists. (simpl; rewrite (nth_error_aset_same _ _ _ _ Hth); reflexivity).
      + destruct (prim_cas1 eqb old (a_reg c)); eexists; (split; [reflexivity|]); (split; [reflexivity|]); (simpl; rewrite (nth_error_aset_same _ _ _ _ Hth); reflexivity).
    - destruct (prim_cas2 eqb ver old new false (a_reg c)) as [[|] reg]; eexists; (split; [reflexivity|]); (split; [reflexivity|]); (simpl; rewrite (nth_error_aset_same _ _ _ _ Hth); reflexivity).
    - destruct (prim_load (a_reg c)) as [x|]; [destruct (eqb x old)|]; eexists; (split; [reflexivity|]); (split; [reflexivity|]); (simpl; rewrite (nth_error_aset_same _ _ _ _ Hth); reflexivity).
    - eexists. split; [reflexivity|]. (simpl; rewrite (nth_error_aset_same _ _ _ _ Hth); reflexivity).
  Qed.

  Lemma solo_ret c t r : tpc c t = Some (ARet r) -> tpc (solo c t 1) t = Some AIdle.
  Proof.
    intro H. destruct (astep_local c t _ H) as (c' & Hs & Hp); [discriminate|].
    rewrite (solo_S _ _ _ _ Hs). exact Hp.
  Qed.

  (* Any call in progress returns within 6 steps of its thread if no other
     thread moves meanwhile (for CompareAndSwap: whatever the primitive did to
     it before, at most one more failing pointer-CAS, one Load, one retry). *)
  Theorem call_returns_when_alone c t p :
    tpc c t = Some p -> p <> AIdle -> exists n, n <= 6 /\ tpc (solo c t n) t = Some AIdle.
  Proof.
    intros Hp Hn.
    (* from ARet: 1 step *)
    assert (A1 : forall c r, tpc c t = Some (ARet r) -> exists n, n <= 1 /\ tpc (solo c t n) t = Some AIdle).
    { intros c0 r H. exists 1. split; [lia|]. eapply solo_ret; eauto. }
    (* from ACas2 with the current box remembered: 2 steps *)
    assert (A2 : forall c old new b, tpc c t = Some (ACas2 old new (b_ver b)) -> r_cur (a_reg c) = Some b ->
                 exists n, n <= 2 /\ tpc (solo c t n) t = Some AIdle).
    { intros c0 old new b H Hc. destruct (astep_local c0 t _ H) as (c1 & Hs & _ & Hp1); [discriminate|].
      unfold prim_cas2 in Hp1. rewrite Hc, Nat.eqb_refl in Hp1. simpl in Hp1.
      destruct (A1 _ _ Hp1) as (n & Hle & Hn1). exists (S n). split; [lia|]. rewrite (solo_S _ _ _ _ Hs). exact Hn1. }
    (* from the start of an attempt: 3 steps *)
    assert (A3 : forall c old new, tpc c t = Some (ACall (OCas old new)) ->
                 (forall b, r_cur (a_reg c) = Some b -> eqb (b_val b) old = true) -> r_cur (a_reg c) <> None ->
                 exists n, n <= 3 /\ tpc (solo c t n) t = Some AIdle).
    { intros c0 old new H Heq Hne. destruct (astep_local c0 t _ H) as (c1 & Hs & Hreg & Hp1); [discriminate|].
      unfold prim_cas1 in Hp1. destruct (r_cur (a_reg c0)) as [b|] eqn:Hc; [|congruence].
      rewrite (Heq b eq_refl) in Hp1. rewrite <- Hreg in Hc.
      destruct (A2 _ _ _ _ Hp1 Hc) as (n & Hle & Hn1). exists (S n). split; [lia|]. rewrite (solo_S _ _ _ _ Hs). exact Hn1. }
    (* from the Load after a failed attempt: 5 steps *)
    assert (A4 : forall c old new, tpc c t = Some (ACasLoad old new) -> exists n, n <= 5 /\ tpc (solo c t n) t = Some AIdle).
    { intros c0 old new H. destruct (astep_local c0 t _ H) as (c1 & Hs & Hreg & Hp1); [discriminate|].
      unfold prim_load in Hp1. destruct (r_cur (a_reg c0)) as [b|] eqn:Hc; simpl in Hp1.
      - destruct (eqb (b_val b) old) eqn:Heq.
        + destruct (A3 _ _ _ Hp1) as (n & Hle & Hn1).
          * rewrite Hreg, Hc. intros b' [= <-]. exact Heq.
          * rewrite Hreg, Hc. discriminate.
          * exists (S n). split; [lia|]. rewrite (solo_S _ _ _ _ Hs). exact Hn1.
        + destruct (A1 _ _ Hp1) as (n & Hle & Hn1). exists (S n). split; [lia|]. rewrite (solo_S _ _ _ _ Hs). exact Hn1.
      - destruct (A1 _ _ Hp1) as (n & Hle & Hn1). exists (S n). split; [lia|]. rewrite (solo_S _ _ _ _ Hs). exact Hn1. }
    destruct p as [|o|old new ver|old new|r]; [congruence| | | |].
    - destruct (astep_local c t _ Hp Hn) as (c1 & Hs & Hrest). destruct o as [|v|v|old new].
      + destruct Hrest as (_ & r & Hp1). destruct (A1 _ _ Hp1) as (n & Hle & Hn1).
        exists (S n). split; [lia|]. rewrite (solo_S _ _ _ _ Hs). exact Hn1.
      + destruct Hrest as (r & Hp1). destruct (A1 _ _ Hp1) as (n & Hle & Hn1).
        exists (S n). split; [lia|]. rewrite (solo_S _ _ _ _ Hs). exact Hn1.
      + destruct Hrest as (r & Hp1). destruct (A1 _ _ Hp1) as (n & Hle & Hn1).
        exists (S n). split; [lia|]. rewrite (solo_S _ _ _ _ Hs). exact Hn1.
      + destruct Hrest as (Hreg & Hp1). unfold prim_cas1 in Hp1.
        destruct (r_cur (a_reg c)) as [b|] eqn:Hc.
        * destruct (eqb (b_val b) old) eqn:Heq.
          -- rewrite <- Hreg in Hc. destruct (A2 _ _ _ _ Hp1 Hc) as (n & Hle & Hn1).
             exists (S n). split; [lia|]. rewrite (solo_S _ _ _ _ Hs). exact Hn1.
          -- destruct (A4 _ _ _ Hp1) as (n & Hle & Hn1). exists (S n). split; [lia|]. rewrite (solo_S _ _ _ _ Hs). exact Hn1.
        * destruct (A4 _ _ _ Hp1) as (n & Hle & Hn1). exists (S n). split; [lia|]. rewrite (solo_S _ _ _ _ Hs). exact Hn1.
    - destruct (astep_local c t _ Hp Hn) as (c1 & Hs & _ & Hp1).
      destruct (fst (prim_cas2 eqb ver old new false (a_reg c))).
      + destruct (A1 _ _ Hp1) as (n & Hle & Hn1). exists (S n). split; [lia|]. rewrite (solo_S _ _ _ _ Hs). exact Hn1.
      + destruct (A4 _ _ _ Hp1) as (n & Hle & Hn1). exists (S n). split; [lia|]. rewrite (solo_S _ _ _ _ Hs). exact Hn1.
    - destruct (A4 _ _ _ Hp) as (n & Hle & Hn1). exists n. split; [lia|exact Hn1].
    - destruct (A1 _ _ Hp) as (n & Hle & Hn1). exists n. split; [lia|exact Hn1].
  Qed.
End AtomicProofs.

(* ================================================================== *)
(*  Pool                                                                 *)
(* ================================================================== *)

Definition val_eq_dec (a b : val) : {a = b} + {a <> b}.
Proof. decide equality; apply Nat.eq_dec. Defined.
Arguments val_eq_dec : simpl never.

Lemma val_eqb_eq a b : val_eqb a b = true <-> a = b.
Proof.
  destruct a as [|o k], b as [|o' k']; simpl; split; intro H; try discriminate; auto.
  - apply andb_true_iff in H as (H1 & H2). apply Nat.eqb_eq in H1, H2. congruence.
  - injection H as -> ->. rewrite !Nat.eqb_refl. reflexivity.
Qed.

Lemma val_eqb_refl a : val_eqb a a = true.
Proof. apply val_eqb_eq. reflexivity. Qed.

Lemma val_eqb_neq a b : a <> b -> val_eqb a b = false.
Proof. intro N. destruct (val_eqb a b) eqn:E; auto. apply val_eqb_eq in E. contradiction. Qed.

Notation cnt := (count_occ val_eq_dec).

Lemma nth_error_pset_same ths t th th' :
  nth_error ths t = Some th -> nth_error (set_pthread ths t th') t = Some th'.
Proof. revert t; induction ths as [|x r IH]; intros [|t] H; simpl in *; try discriminate; auto. Qed.

Lemma nth_error_pset_other ths t t' th' :
  t' <> t -> nth_error (set_pthread ths t th') t' = nth_error ths t'.
Proof.
  revert t t'; induction ths as [|x r IH]; intros [|t] [|t'] H; simpl; auto; try congruence.
Qed.

Lemma cnt_pset ths t th th' v :
  nth_error ths t = Some th ->
  cnt (flat_map thread_vals (set_pthread ths t th')) v + cnt (thread_vals th) v =
  cnt (flat_map thread_vals ths) v + cnt (thread_vals th') v.
Proof.
  revert t; induction ths as [|x r IH]; intros [|t] H; simpl in *; try discriminate.
  - injection H as ->. rewrite !count_occ_app. lia.
  - rewrite !count_occ_app. specialize (IH _ H). lia.
Qed.

Lemma cnt_remove_nth (l : list val) i x v :
  nth_error l i = Some x -> cnt (remove_nth i l) v + (if val_eq_dec x v then 1 else 0) = cnt l v.
Proof.
  revert i; induction l as [|y l IH]; intros [|i] H; simpl in *; try discriminate.
  - injection H as ->. destruct (val_eq_dec x v); lia.
  - specialize (IH _ H). destruct (val_eq_dec y v); lia.
Qed.

Lemma cnt_pos_In (l : list val) v : cnt l v > 0 <-> In v l.
Proof. symmetry. apply count_occ_In. Qed.

(* events about a value *)
Lemma pcount_cons f e tr : pcount f (e :: tr) = (if f e then 1 else 0) + pcount f tr.
Proof. unfold pcount. simpl. destruct (f e); reflexivity. Qed.

(* ---- what is proved about every event, relative to the events before it ---- *)
Definition bounded (ths : list pthread) (v : val) : Prop :=
  match v with Zero => True | Tok o k => exists th, nth_error ths o = Some th /\ k < p_fresh th end.

Definition ev_ok (new : bool) (e : pevent) (before : list pevent) : Prop :=
  match e with
  | PETake _ v =>
      (* the item was Put and not handed out (or dropped) since *)
      new = true /\ pcount (is_take v) before + pcount (is_drop v) before < pcount (is_put v) before
  | PENew t v =>
      (* a result of New, never seen before *)
      new = true /\ (exists k, v = Tok t k) /\ forall e', In e' before -> ev_val e' <> Some v
  | PERetGet t v src =>
      match src with
      | SrcBag => In (PETake t v) before
      | SrcNew => In (PENew t v) before
      | SrcZeroNoNew => new = false /\ v = Zero
      end
  | _ => True
  end.

Fixpoint trace_ok (new : bool) (tr : list pevent) : Prop :=
  match tr with
  | [] => True
  | e :: before => ev_ok new e before /\ trace_ok new before
  end.

Lemma trace_ok_split new later e before : trace_ok new (later ++ e :: before) -> ev_ok new e before.
Proof. induction later as [|x later IH]; simpl; intros (H1 & H2); auto. Qed.

Definition pc_ok (new : bool) (t : tid) (tr : list pevent) (p : ppc) : Prop :=
  match p with
  | GPool | GNew => new = true
  | GRet v SrcBag => In (PETake t v) tr
  | GRet v SrcNew => In (PENew t v) tr
  | GRet v SrcZeroNoNew => new = false /\ v = Zero
  | _ => True
  end.

Record PInv (c : pconfig) : Prop := {
  pi_uniq : forall v, is_tok v -> cnt (all_vals c) v <= 1;
  pi_bound : forall v, In v (all_vals c) -> bounded (p_threads c) v;
  pi_tbound : forall e v, In e (p_trace c) -> ev_val e = Some v -> bounded (p_threads c) v;
  pi_bag : forall v, cnt (p_bag c) v + pcount (is_take v) (p_trace c) + pcount (is_drop v) (p_trace c)
                     = pcount (is_put v) (p_trace c);
  pi_pc : forall t th, nth_error (p_threads c) t = Some th -> pc_ok (p_new c) t (p_trace c) (p_pc th);
  pi_trace : trace_ok (p_new c) (p_trace c)
}.

Lemma pinit_inv new progs : PInv (pinit new progs).
Proof.
  assert (E : forall progs, flat_map thread_vals (map (fun p => PThread p GIdle [] 0 []) progs) = []).
  { induction progs0 as [|p r IH]; simpl; auto. }
  constructor; unfold all_vals; simpl; rewrite ?E; simpl; auto.
  - intros v Hin. destruct Hin.
  - intros e v Hin. destruct Hin.
  - intros t th H. apply nth_error_In in H. apply in_map_iff in H as (p & <- & _). exact I.
Qed.

Lemma bounded_pset ths t th th' v :
  nth_error ths t = Some th -> p_fresh th <= p_fresh th' -> bounded ths v -> bounded (set_pthread ths t th') v.
Proof.
  intros H Hle. destruct v as [|o k]; simpl; auto. intros (th0 & H0 & Hk).
  destruct (Nat.eq_dec o t) as [->|N].
  - exists th'. split; [eapply nth_error_pset_same; eauto|]. rewrite H in H0. injection H0 as <-. lia.
  - exists th0. rewrite nth_error_pset_other by exact N. auto.
Qed.

Lemma In_flat_pset ths t th th' v :
  nth_error ths t = Some th -> In v (flat_map thread_vals (set_pthread ths t th')) ->
  In v (thread_vals th') \/ In v (flat_map thread_vals ths).
Proof.
  intros H Hin. apply cnt_pos_In in Hin. pose proof (cnt_pset ths t th th' v H) as E.
  destruct (Nat.eq_dec (cnt (thread_vals th') v) 0) as [Z|NZ].
  - right. apply cnt_pos_In. lia.
  - left. apply cnt_pos_In. lia.
Qed.

Lemma In_remove_nth {A} (l : list A) i x : In x (remove_nth i l) -> In x l.
Proof.
  revert i; induction l as [|y l IH]; intros [|i] H; simpl in *; auto. destruct H as [->|H]; eauto.
Qed.

(* the pc facts of the other threads survive a longer trace *)
Lemma pc_ok_mono new t tr e p : pc_ok new t tr p -> pc_ok new t (e :: tr) p.
Proof. destruct p as [| | | |v [| |]|v]; simpl; auto. Qed.

Lemma pcs_after new ths t th th' tr tr' :
  nth_error ths t = Some th ->
  (forall t0 th0, nth_error ths t0 = Some th0 -> pc_ok new t0 tr (p_pc th0)) ->
  (forall t0 p, pc_ok new t0 tr p -> pc_ok new t0 tr' p) ->
  pc_ok new t tr' (p_pc th') ->
  forall t0 th0, nth_error (set_pthread ths t th') t0 = Some th0 -> pc_ok new t0 tr' (p_pc th0).
Proof.
  intros H HA Hm H' t0 th0 H0. destruct (Nat.eq_dec t0 t) as [->|N].
  - rewrite (nth_error_pset_same _ _ _ _ H) in H0. injection H0 as <-. exact H'.
  - rewrite nth_error_pset_other in H0 by exact N. eauto.
Qed.

Lemma pc_ok_mono_app new t tr evs p : pc_ok new t tr p -> pc_ok new t (evs ++ tr) p.
Proof. induction evs as [|e evs IH]; simpl; auto. intro H. apply pc_ok_mono. auto. Qed.

(* One thread step, generically: thread t goes from th to th', the bag from
   [p_bag c] to bag', the events evs are logged. The obligations are local to
   the bag and the moving thread. *)
Lemma inv_update c t th th' bag' evs :
  PInv c -> nth_error (p_threads c) t = Some th -> p_fresh th <= p_fresh th' ->
  let ths' := set_pthread (p_threads c) t th' in
  let tr' := evs ++ p_trace c in
  (forall v, is_tok v ->
     cnt bag' v + cnt (thread_vals th') v <= cnt (p_bag c) v + cnt (thread_vals th) v \/
     (cnt (all_vals c) v = 0 /\ cnt bag' v + cnt (thread_vals th') v <= cnt (p_bag c) v + cnt (thread_vals th) v + 1)) ->
  (forall v, In v bag' \/ In v (thread_vals th') -> In v (p_bag c) \/ In v (thread_vals th) \/ bounded ths' v) ->
  (forall e v, In e evs -> ev_val e = Some v -> bounded ths' v) ->
  (forall v, cnt bag' v + pcount (is_take v) tr' + pcount (is_drop v) tr' = pcount (is_put v) tr') ->
  pc_ok (p_new c) t tr' (p_pc th') ->
  trace_ok (p_new c) tr' ->
  PInv (PConfig (p_new c) (p_poolnew c) bag' ths' tr').
Proof.
  intros [HU HB HTB HG HPC HTR] Hth Hle ths' tr' LU LB LT LG LPC LTR.
  assert (Hthin : forall v, In v (thread_vals th) -> In v (all_vals c)).
  { intros v Hin. unfold all_vals. apply in_app_iff. right. apply in_flat_map. exists th. split; auto.
    eapply nth_error_In; eauto. }
  constructor; simpl; auto.
  - intros v Hv. unfold all_vals in *; simpl. rewrite count_occ_app.
    pose proof (cnt_pset (p_threads c) t th th' v Hth) as E. fold ths' in E.
    specialize (HU v Hv). rewrite count_occ_app in HU.
    destruct (LU v Hv) as [L|(Z & L)].
    + lia.
    + rewrite count_occ_app in Z. lia.
  - intros v Hin. unfold all_vals in Hin; simpl in Hin. apply in_app_iff in Hin as [Hin|Hin].
    + destruct (LB v (or_introl Hin)) as [H|[H|H]]; auto.
      * eapply bounded_pset; eauto. apply HB. unfold all_vals. apply in_app_iff. auto.
      * eapply bounded_pset; eauto.
    + destruct (In_flat_pset _ _ _ _ _ Hth Hin) as [H|H].
      * destruct (LB v (or_intror H)) as [H1|[H1|H1]]; auto.
        -- eapply bounded_pset; eauto. apply HB. unfold all_vals. apply in_app_iff. auto.
        -- eapply bounded_pset; eauto.
      * eapply bounded_pset; eauto. apply HB. unfold all_vals. apply in_app_iff. auto.
  - intros e v Hin Hv. apply in_app_iff in Hin as [Hin|Hin]; [eapply LT; eauto|].
    eapply bounded_pset; eauto.
  - eapply pcs_after; eauto. intros t0 p. apply pc_ok_mono_app.
Qed.

Ltac counts :=
  unfold thread_vals; simpl; rewrite ?count_occ_app; simpl;
  repeat match goal with |- context [val_eq_dec ?a ?b] => destruct (val_eq_dec a b); subst end;
  try lia; try congruence.

Lemma dec_eqb x v : (if val_eqb x v then 1 else 0) = (if val_eq_dec x v then 1 else 0).
Proof. destruct (val_eq_dec x v) as [->|N]; [rewrite val_eqb_refl|rewrite val_eqb_neq by exact N]; reflexivity. Qed.

Lemma fresh_unseen c t th :
  PInv c -> nth_error (p_threads c) t = Some th ->
  cnt (all_vals c) (Tok t (p_fresh th)) = 0 /\
  forall e, In e (p_trace c) -> ev_val e <> Some (Tok t (p_fresh th)).
Proof.
  intros HI Hth. split.
  - apply count_occ_not_In. intro Hin. apply (pi_bound _ HI) in Hin. simpl in Hin.
    destruct Hin as (th0 & H0 & Hk). rewrite Hth in H0. injection H0 as <-. lia.
  - intros e Hin Hv. pose proof (pi_tbound _ HI _ _ Hin Hv) as Hb. simpl in Hb.
    destruct Hb as (th0 & H0 & Hk). rewrite Hth in H0. injection H0 as <-. lia.
Qed.

Lemma pstep_thread_inv c t ch c' : PInv c -> pstep_thread c t ch = Some c' -> PInv c'.
Proof.
  intros HI Hs0. unfold pstep_thread in Hs0.
  destruct (pstep_thread_acc c t ch) as [[c0 accs]|] eqn:Hs; [|discriminate]. injection Hs0 as ->.
  unfold pstep_thread_acc in Hs.
  destruct (nth_error (p_threads c) t) as [th|] eqn:Hth; [|discriminate].
  pose proof (pi_pc _ HI _ _ Hth) as Hpc.
  pose proof (fresh_unseen _ _ _ HI Hth) as (Hfresh1 & Hfresh2).
  assert (Hthin : forall v, In v (thread_vals th) -> In v (all_vals c)).
  { intros v Hin. unfold all_vals. apply in_app_iff. right. apply in_flat_map. exists th. split; auto.
    eapply nth_error_In; eauto. }
  assert (Hbagin : forall v, In v (p_bag c) -> In v (all_vals c)).
  { intros v Hin. unfold all_vals. apply in_app_iff. auto. }
  assert (Hself : forall th', p_fresh th < p_fresh th' -> bounded (set_pthread (p_threads c) t th') (Tok t (p_fresh th))).
  { intros th' Hlt. simpl. exists th'. split; [eapply nth_error_pset_same; eauto|exact Hlt]. }
  destruct th as [prog p held fresh got]; simpl in *.
  destruct p as [| | | |v src|v].
  - (* GIdle: the next operation of the program *)
    destruct prog as [|[|k| |] rest]; [discriminate| | | |].
    + (* Get invoked *)
      injection Hs as <- <-.
      apply (inv_update c t _ (PThread rest GCheckNew held fresh got) (p_bag c) [PEInvGet t] HI Hth); [simpl; lia|..]; simpl.
      * intros v _. left. counts.
      * intros v [H|H]; auto.
      * intros e v [<-|[]]. discriminate.
      * intro v. rewrite !pcount_cons. simpl. apply (pi_bag _ HI).
      * exact I.
      * split; [exact I|apply (pi_trace _ HI)].
    + (* Put of a held item *)
      destruct (nth_error held k) as [x|] eqn:Hk; injection Hs as <- <-.
      * pose proof (nth_error_In _ _ Hk) as Hxin.
        apply (inv_update c t _ (PThread rest (PutCall x) (remove_nth k held) fresh got) (p_bag c) [PEInvPut t x] HI Hth); [simpl; lia|..]; simpl.
        -- intros v _. left. pose proof (cnt_remove_nth held k x v Hk). counts.
        -- intros v [H|H]; auto. right. left. unfold thread_vals in *; simpl in *. rewrite app_nil_r.
           apply in_app_iff in H as [H|[<-|[]]]; auto. eapply In_remove_nth; eauto.
        -- intros e v [<-|[]] [= <-]. eapply bounded_pset; eauto. apply (pi_bound _ HI). apply Hthin.
           unfold thread_vals; simpl. rewrite app_nil_r. exact Hxin.
        -- intro v. rewrite !pcount_cons. simpl. apply (pi_bag _ HI).
        -- exact I.
        -- split; [exact I|apply (pi_trace _ HI)].
      * apply (inv_update c t _ (PThread rest GIdle held fresh got) (p_bag c) [] HI Hth); [simpl; lia|..]; simpl.
        -- intros v _. left. counts.
        -- intros v [H|H]; auto.
        -- intros e v [].
        -- apply (pi_bag _ HI).
        -- exact I.
        -- apply (pi_trace _ HI).
    + (* Put of a newly allocated item *)
      injection Hs as <- <-.
      apply (inv_update c t _ (PThread rest (PutCall (Tok t fresh)) held (S fresh) got) (p_bag c) [PEInvPut t (Tok t fresh)] HI Hth); [simpl; lia|..]; simpl.
      * intros v _. destruct (val_eq_dec (Tok t fresh) v) as [<-|N].
        -- right. split; [exact Hfresh1|]. counts.
        -- left. counts.
      * intros v [H|H]; auto. unfold thread_vals in *; simpl in *. rewrite app_nil_r.
        apply in_app_iff in H as [H|[<-|[]]]; auto. right. right. apply (Hself (PThread rest (PutCall (Tok t fresh)) held (S fresh) got)). simpl. lia.
      * intros e v [<-|[]] [= <-]. apply (Hself (PThread rest (PutCall (Tok t fresh)) held (S fresh) got)). simpl. lia.
      * intro v. rewrite !pcount_cons. simpl. apply (pi_bag _ HI).
      * exact I.
      * split; [exact I|apply (pi_trace _ HI)].
    + (* Put of the zero value *)
      injection Hs as <- <-.
      apply (inv_update c t _ (PThread rest (PutCall Zero) held fresh got) (p_bag c) [PEInvPut t Zero] HI Hth); [simpl; lia|..]; simpl.
      * intros v Hv. left. destruct v; [contradiction|]. counts.
      * intros v [H|H]; auto. unfold thread_vals in *; simpl in *. rewrite app_nil_r.
        apply in_app_iff in H as [H|[<-|[]]]; auto; right; right; exact I.
      * intros e v [<-|[]] [= <-]. exact I.
      * intro v. rewrite !pcount_cons. simpl. apply (pi_bag _ HI).
      * exact I.
      * split; [exact I|apply (pi_trace _ HI)].
  - (* GCheckNew: if p.New == nil *)
    destruct (p_new c) eqn:Hnew; injection Hs as <- <-; rewrite <- Hnew.
    + apply (inv_update c t _ (PThread prog GPool held fresh got) (p_bag c) [] HI Hth); [simpl; lia|..]; simpl.
      * intros v _. left. counts.
      * intros v [H|H]; auto.
      * intros e v [].
      * apply (pi_bag _ HI).
      * exact Hnew.
      * apply (pi_trace _ HI).
    + apply (inv_update c t _ (PThread prog (GRet Zero SrcZeroNoNew) held fresh got) (p_bag c) [] HI Hth); [simpl; lia|..]; simpl.
      * intros v Hv. left. destruct v; [contradiction|]. counts.
      * intros v [H|H]; auto. unfold thread_vals in *; simpl in *. rewrite app_nil_r.
        apply in_app_iff in H as [H|[<-|[]]]; auto; right; right; exact I.
      * intros e v [].
      * apply (pi_bag _ HI).
      * split; [exact Hnew|reflexivity].
      * apply (pi_trace _ HI).
  - (* GPool: x := p.pool.Get() *)
    simpl in Hpc. destruct ch as [i|].
    + destruct (nth_error (p_bag c) i) as [x|] eqn:Hi; [|discriminate]. injection Hs as <- <-.
      pose proof (nth_error_In _ _ Hi) as Hxin.
      apply (inv_update c t _ (PThread prog (GRet x SrcBag) held fresh got) (remove_nth i (p_bag c)) [PETake t x] HI Hth); [simpl; lia|..]; simpl.
      * intros v _. left. pose proof (cnt_remove_nth (p_bag c) i x v Hi). counts.
      * intros v [H|H]; [left; eapply In_remove_nth; eauto|]. unfold thread_vals in *; simpl in *. rewrite app_nil_r.
        apply in_app_iff in H as [H|[<-|[]]]; auto.
      * intros e v [<-|[]] [= <-]. eapply bounded_pset; eauto. apply (pi_bound _ HI). auto.
      * intro v. rewrite !pcount_cons. simpl. rewrite dec_eqb.
        pose proof (cnt_remove_nth (p_bag c) i x v Hi). pose proof (pi_bag _ HI v). lia.
      * left. reflexivity.
      * split; [|apply (pi_trace _ HI)]. split; [exact Hpc|].
        pose proof (pi_bag _ HI x). assert (cnt (p_bag c) x > 0) by (apply cnt_pos_In; exact Hxin). lia.
    + destruct (p_poolnew c) eqn:Hpn; injection Hs as <- <-; rewrite <- Hpn.
      * (* the inner pool's own New hook (never set by the present code) makes the item *)
        apply (inv_update c t _ (PThread prog (GRet (Tok t fresh) SrcNew) held (S fresh) got) (p_bag c) [PENew t (Tok t fresh)] HI Hth); [simpl; lia|..]; simpl.
        -- intros v _. destruct (val_eq_dec (Tok t fresh) v) as [<-|N].
           ++ right. split; [exact Hfresh1|]. counts.
           ++ left. counts.
        -- intros v [H|H]; auto. unfold thread_vals in *; simpl in *. rewrite app_nil_r.
           apply in_app_iff in H as [H|[<-|[]]]; auto. right. right.
           apply (Hself (PThread prog (GRet (Tok t fresh) SrcNew) held (S fresh) got)). simpl. lia.
        -- intros e v [<-|[]] [= <-]. apply (Hself (PThread prog (GRet (Tok t fresh) SrcNew) held (S fresh) got)). simpl. lia.
        -- intro v. rewrite !pcount_cons. simpl. apply (pi_bag _ HI).
        -- left. reflexivity.
        -- split; [|apply (pi_trace _ HI)]. split; [exact Hpc|]. split; [eauto|exact Hfresh2].
      * apply (inv_update c t _ (PThread prog GNew held fresh got) (p_bag c) [PEMiss t] HI Hth); [simpl; lia|..]; simpl.
        -- intros v _. left. counts.
        -- intros v [H|H]; auto.
        -- intros e v [<-|[]]. discriminate.
        -- intro v. rewrite !pcount_cons. simpl. apply (pi_bag _ HI).
        -- exact Hpc.
        -- split; [exact I|apply (pi_trace _ HI)].
  - (* GNew: p.New() *)
    simpl in Hpc. injection Hs as <- <-.
    apply (inv_update c t _ (PThread prog (GRet (Tok t fresh) SrcNew) held (S fresh) got) (p_bag c) [PENew t (Tok t fresh)] HI Hth); [simpl; lia|..]; simpl.
    + intros v _. destruct (val_eq_dec (Tok t fresh) v) as [<-|N].
      * right. split; [exact Hfresh1|]. counts.
      * left. counts.
    + intros v [H|H]; auto. unfold thread_vals in *; simpl in *. rewrite app_nil_r.
      apply in_app_iff in H as [H|[<-|[]]]; auto. right. right.
      apply (Hself (PThread prog (GRet (Tok t fresh) SrcNew) held (S fresh) got)). simpl. lia.
    + intros e v [<-|[]] [= <-]. apply (Hself (PThread prog (GRet (Tok t fresh) SrcNew) held (S fresh) got)). simpl. lia.
    + intro v. rewrite !pcount_cons. simpl. apply (pi_bag _ HI).
    + left. reflexivity.
    + split; [|apply (pi_trace _ HI)]. split; [exact Hpc|]. split; [eauto|exact Hfresh2].
  - (* GRet: return *)
    simpl in Hpc. injection Hs as <- <-.
    apply (inv_update c t _ (PThread prog GIdle (held ++ [v]) fresh (got ++ [v])) (p_bag c) [PERetGet t v src] HI Hth); [simpl; lia|..]; simpl.
    + intros v0 _. left. counts.
    + intros v0 [H|H]; auto. right. left. unfold thread_vals in *; simpl in *. rewrite app_nil_r in H. exact H.
    + intros e v0 [<-|[]] [= <-]. eapply bounded_pset; eauto. apply (pi_bound _ HI). apply Hthin.
      unfold thread_vals; simpl. apply in_app_iff. right. left. reflexivity.
    + intro v0. rewrite !pcount_cons. simpl. apply (pi_bag _ HI).
    + exact I.
    + split; [|apply (pi_trace _ HI)]. destruct src; exact Hpc.
  - (* PutCall: p.pool.Put(x) *)
    injection Hs as <- <-.
    apply (inv_update c t _ (PThread prog GIdle held fresh got) (v :: p_bag c) [PEPut t v] HI Hth); [simpl; lia|..]; simpl.
    + intros v0 _. left. counts.
    + intros v0 [[<-|H]|H]; auto.
      * right. left. unfold thread_vals; simpl. apply in_app_iff. right. left. reflexivity.
      * right. left. unfold thread_vals in *; simpl in *. rewrite app_nil_r in H. apply in_app_iff. auto.
    + intros e v0 [<-|[]] [= <-]. eapply bounded_pset; eauto. apply (pi_bound _ HI). apply Hthin.
      unfold thread_vals; simpl. apply in_app_iff. right. left. reflexivity.
    + intro v0. rewrite !pcount_cons. simpl. rewrite dec_eqb. pose proof (pi_bag _ HI v0).
      destruct (val_eq_dec v v0); lia.
    + exact I.
    + split; [exact I|apply (pi_trace _ HI)].
Qed.

Lemma pgc_inv c i x : PInv c -> nth_error (p_bag c) i = Some x ->
  PInv (PConfig (p_new c) (p_poolnew c) (remove_nth i (p_bag c)) (p_threads c) (PEDrop x :: p_trace c)).
Proof.
  intros HI Hi. pose proof (nth_error_In _ _ Hi) as Hxin.
  constructor; simpl.
  - intros v Hv. pose proof (pi_uniq _ HI v Hv) as H. unfold all_vals in *; simpl. rewrite count_occ_app in *.
    pose proof (cnt_remove_nth (p_bag c) i x v Hi). lia.
  - intros v Hin. apply (pi_bound _ HI). unfold all_vals in *; simpl in *.
    apply in_app_iff in Hin as [Hin|Hin]; apply in_app_iff; [left; eapply In_remove_nth; eauto|auto].
  - intros e v [<-|Hin] Hv.
    + injection Hv as <-. apply (pi_bound _ HI). unfold all_vals. apply in_app_iff. auto.
    + eapply (pi_tbound _ HI); eauto.
  - intro v. rewrite !pcount_cons. simpl. rewrite dec_eqb.
    pose proof (cnt_remove_nth (p_bag c) i x v Hi). pose proof (pi_bag _ HI v). lia.
  - intros t th H. apply pc_ok_mono. apply (pi_pc _ HI); auto.
  - split; [exact I|apply (pi_trace _ HI)].
Qed.

Lemma pstep_inv c a c' : PInv c -> pstep c a = Some c' -> PInv c'.
Proof.
  intros HI Hs. destruct a as [t ch|i]; simpl in Hs.
  - eapply pstep_thread_inv; eauto.
  - destruct (nth_error (p_bag c) i) as [x|] eqn:Hi; [|discriminate]. injection Hs as <-. apply pgc_inv; auto.
Qed.

Lemma prun_inv s : forall c, PInv c -> PInv (prun c s).
Proof.
  induction s as [|a s IH]; intros c H; simpl; auto.
  apply IH. destruct (pstep c a) as [c'|] eqn:E; auto. eapply pstep_inv; eauto.
Qed.

(* ---- the accesses reported by a step are faithful, and none is a plain write ---- *)

Lemma set_pthread_comm ths t t' x y :
  t <> t' -> set_pthread (set_pthread ths t' x) t y = set_pthread (set_pthread ths t y) t' x.
Proof.
  revert t t'; induction ths as [|h r IH]; intros [|t] [|t'] N; simpl; auto; try congruence.
  f_equal. apply IH. congruence.
Qed.

Ltac acc_fin OT2 CM :=
  simpl; repeat split; auto;
  try (let t' := fresh "t'" in let x := fresh "x" in let N := fresh "N" in
       intros t' x N; rewrite (OT2 t' x N); simpl; rewrite ?(CM t' x _ N); try reflexivity;
       match goal with Hk : nth_error _ _ = _ |- _ => rewrite Hk; simpl; rewrite ?(CM t' x _ N); reflexivity end);
  try (let H := fresh "H" in intro H; exfalso; apply H; simpl; tauto).

(* One step of goroutine t, read off the step function itself:
   - every reported access is a plain READ of New / of the inner pool's New, or a call into sync.Pool;
   - the fields New and (inner pool) New are unchanged; the bag is unchanged unless a call into sync.Pool is
     reported;
   - no other goroutine's local state changes, and the step does not depend on it (it does the same whatever
     the locals of another goroutine are);
   - a step that reports no read of New does not depend on New (it does the same with any other value of
     the field), likewise for the inner pool's New, and a step that reports no call into sync.Pool does not
     depend on the bag. *)
Lemma pstep_thread_acc_sound c t ch c' accs :
  pstep_thread_acc c t ch = Some (c', accs) ->
  (forall a, In a accs -> a = PlainRead FNew \/ a = PlainRead FPoolNew \/ a = PoolInternal) /\
  p_new c' = p_new c /\
  p_poolnew c' = p_poolnew c /\
  (~ In PoolInternal accs -> p_bag c' = p_bag c) /\
  (forall t', t' <> t -> nth_error (p_threads c') t' = nth_error (p_threads c) t') /\
  (forall t' th, t' <> t -> pstep_thread_acc (with_thread t' th c) t ch = Some (with_thread t' th c', accs)) /\
  (~ In (PlainRead FNew) accs -> forall b, pstep_thread_acc (with_new b c) t ch = Some (with_new b c', accs)) /\
  (~ In (PlainRead FPoolNew) accs -> forall b, pstep_thread_acc (with_poolnew b c) t ch = Some (with_poolnew b c', accs)) /\
  (~ In PoolInternal accs -> forall bag, pstep_thread_acc (with_bag bag c) t ch = Some (with_bag bag c', accs)).
Proof.
  unfold pstep_thread_acc, with_new, with_poolnew, with_bag, with_thread. simpl.
  destruct (nth_error (p_threads c) t) as [th|] eqn:Hth; [|discriminate].
  assert (OT : forall th' t', t' <> t -> nth_error (set_pthread (p_threads c) t th') t' = nth_error (p_threads c) t').
  { intros th' t' N. apply nth_error_pset_other. exact N. }
  assert (OT2 : forall t' x, t' <> t -> nth_error (set_pthread (p_threads c) t' x) t = Some th).
  { intros t' x N. rewrite nth_error_pset_other by congruence. exact Hth. }
  assert (CM : forall t' x y, t' <> t -> set_pthread (set_pthread (p_threads c) t' x) t y = set_pthread (set_pthread (p_threads c) t y) t' x).
  { intros t' x y N. apply set_pthread_comm. congruence. }
  assert (A0 : forall a : paccess, In a [] -> a = PlainRead FNew \/ a = PlainRead FPoolNew \/ a = PoolInternal) by (intros a []).
  assert (A1 : forall a, In a [PlainRead FNew] -> a = PlainRead FNew \/ a = PlainRead FPoolNew \/ a = PoolInternal)
    by (intros a [<-|[]]; auto).
  assert (A2 : forall a, In a [PoolInternal] -> a = PlainRead FNew \/ a = PlainRead FPoolNew \/ a = PoolInternal)
    by (intros a [<-|[]]; auto).
  assert (A3 : forall a, In a [PoolInternal; PlainRead FPoolNew] -> a = PlainRead FNew \/ a = PlainRead FPoolNew \/ a = PoolInternal)
    by (intros a [<-|[<-|[]]]; auto).
  destruct th as [prog p held fresh got]; simpl.
  destruct p as [| | | |v src|v].
  - destruct prog as [|[|k| |] rest]; [discriminate| | | |].
    + intros [= <- <-]. acc_fin OT2 CM.
    + destruct (nth_error held k) as [x|] eqn:Hk; intros [= <- <-]; acc_fin OT2 CM.
    + intros [= <- <-]. acc_fin OT2 CM.
    + intros [= <- <-]. acc_fin OT2 CM.
  - destruct (p_new c); intros [= <- <-]; acc_fin OT2 CM.
  - destruct ch as [i|].
    + destruct (nth_error (p_bag c) i) as [x|]; [|discriminate]. intros [= <- <-]. acc_fin OT2 CM.
    + destruct (p_poolnew c); intros [= <- <-]; acc_fin OT2 CM.
  - intros [= <- <-]. acc_fin OT2 CM.
  - intros [= <- <-]. acc_fin OT2 CM.
  - intros [= <- <-]. acc_fin OT2 CM.
Qed.

(* the same in the form stated as C18_pool_step_accesses: what is NOT reported does not happen *)
Theorem pool_step_accesses_faithful c t ch c' accs :
  pstep_thread_acc c t ch = Some (c', accs) ->
  pstep_thread c t ch = Some c' /\
  (~ In (PlainWrite FNew) accs -> p_new c' = p_new c) /\
  (~ In (PlainWrite FPoolNew) accs -> p_poolnew c' = p_poolnew c) /\
  (~ In PoolInternal accs -> p_bag c' = p_bag c) /\
  (forall t', t' <> t -> nth_error (p_threads c') t' = nth_error (p_threads c) t') /\
  (forall t' th, t' <> t -> pstep_thread_acc (with_thread t' th c) t ch = Some (with_thread t' th c', accs)) /\
  (~ In (PlainRead FNew) accs -> ~ In (PlainWrite FNew) accs ->
     forall b, pstep_thread_acc (with_new b c) t ch = Some (with_new b c', accs)) /\
  (~ In (PlainRead FPoolNew) accs -> ~ In (PlainWrite FPoolNew) accs ->
     forall b, pstep_thread_acc (with_poolnew b c) t ch = Some (with_poolnew b c', accs)) /\
  (~ In PoolInternal accs -> forall bag, pstep_thread_acc (with_bag bag c) t ch = Some (with_bag bag c', accs)).
Proof.
  intro E. destruct (pstep_thread_acc_sound _ _ _ _ _ E) as (_ & H1 & H2 & H3 & H4 & H5 & H6 & H7 & H8).
  split; [unfold pstep_thread; rewrite E; reflexivity|]. repeat split; auto.
Qed.

Lemma pstep_new c a c' : pstep c a = Some c' -> p_new c' = p_new c.
Proof.
  destruct a as [t ch|i]; simpl.
  - unfold pstep_thread. destruct (pstep_thread_acc c t ch) as [[c0 accs]|] eqn:E; [|discriminate].
    intros [= <-]. apply (pstep_thread_acc_sound _ _ _ _ _ E).
  - destruct (nth_error (p_bag c) i); [|discriminate]. intros [= <-]; reflexivity.
Qed.

(* The field New is never written: it has its initial value in every reachable configuration. *)
Theorem pool_new_constant new progs s : p_new (prun (pinit new progs) s) = new.
Proof.
  assert (G : forall s c, p_new (prun c s) = p_new c).
  { induction s0 as [|a s0 IH]; intro c; simpl; auto.
    destruct (pstep c a) as [c'|] eqn:E; rewrite IH; auto. eapply pstep_new; eauto. }
  rewrite G. reflexivity.
Qed.

Lemma pstep_poolnew c a c' : pstep c a = Some c' -> p_poolnew c' = p_poolnew c.
Proof.
  destruct a as [t ch|i]; simpl.
  - unfold pstep_thread. destruct (pstep_thread_acc c t ch) as [[c0 accs]|] eqn:E; [|discriminate].
    intros [= <-]. apply (pstep_thread_acc_sound _ _ _ _ _ E).
  - destruct (nth_error (p_bag c) i); [|discriminate]. intros [= <-]; reflexivity.
Qed.

(* The inner pool's own New field is never written either: it stays nil, as in the zero value of Pool. *)
Theorem pool_poolnew_constant new progs s : p_poolnew (prun (pinit new progs) s) = false.
Proof.
  assert (G : forall s c, p_poolnew (prun c s) = p_poolnew c).
  { induction s0 as [|a s0 IH]; intro c; simpl; auto.
    destruct (pstep c a) as [c'|] eqn:E; rewrite IH; auto. eapply pstep_poolnew; eauto. }
  rewrite G. reflexivity.
Qed.

(* Every access made in any run (from any configuration) is a plain read or a call into sync.Pool. *)
Lemma pool_accesses_kinds s : forall c t a, In (t, a) (pool_accesses c s) ->
  a = PlainRead FNew \/ a = PlainRead FPoolNew \/ a = PoolInternal.
Proof.
  induction s as [|[t0 ch|i] s IH]; intros c t a Hin; simpl in Hin.
  - destruct Hin.
  - destruct (pstep_thread_acc c t0 ch) as [[c' accs]|] eqn:E; [|eauto].
    apply in_app_iff in Hin as [Hin|Hin]; [|eauto].
    apply in_map_iff in Hin as (a0 & [= <- <-] & Hin).
    apply (pstep_thread_acc_sound _ _ _ _ _ E). exact Hin.
  - eauto.
Qed.

(* No step of Get or Put, in any run, writes a shared plain field; hence no two accesses conflict:
   Get and Put are free of data races given that sync.Pool synchronises its own calls. *)
Theorem pool_no_plain_write new progs s :
  p_new (prun (pinit new progs) s) = new /\
  p_poolnew (prun (pinit new progs) s) = false /\
  (forall t a, In (t, a) (pool_accesses (pinit new progs) s) ->
     a = PlainRead FNew \/ a = PlainRead FPoolNew \/ a = PoolInternal) /\
  (forall t1 a1 t2 a2, In (t1, a1) (pool_accesses (pinit new progs) s) ->
     In (t2, a2) (pool_accesses (pinit new progs) s) -> ~ conflicting a1 a2).
Proof.
  split; [apply pool_new_constant|]. split; [apply pool_poolnew_constant|]. split; [intros t a; apply pool_accesses_kinds|].
  intros t1 a1 t2 a2 H1 H2 (f & [(E & _)|(E & _)]).
  - apply pool_accesses_kinds in H1. subst a1. destruct H1 as [H|[H|H]]; discriminate.
  - apply pool_accesses_kinds in H2. subst a2. destruct H2 as [H|[H|H]]; discriminate.
Qed.

(* ---- ownership ---- *)

Lemma cnt_flat_one (ths : list pthread) t th v :
  nth_error ths t = Some th -> cnt (thread_vals th) v <= cnt (flat_map thread_vals ths) v.
Proof.
  revert t; induction ths as [|x r IH]; intros [|t] H; simpl in *; try discriminate; rewrite count_occ_app.
  - injection H as ->. lia.
  - specialize (IH _ H). lia.
Qed.

Lemma cnt_flat_two (ths : list pthread) t1 t2 th1 th2 v :
  t1 < t2 -> nth_error ths t1 = Some th1 -> nth_error ths t2 = Some th2 ->
  cnt (thread_vals th1) v + cnt (thread_vals th2) v <= cnt (flat_map thread_vals ths) v.
Proof.
  revert t1 t2; induction ths as [|x r IH]; intros [|t1] [|t2] L H1 H2; simpl in *; try discriminate; try lia;
    rewrite count_occ_app.
  - injection H1 as ->. pose proof (cnt_flat_one r t2 th2 v H2). lia.
  - assert (t1 < t2) as L' by lia. specialize (IH _ _ L' H1 H2). lia.
Qed.

(* every token is in at most one place, and there at most once *)
Theorem pool_ownership new progs s v :
  let c := prun (pinit new progs) s in
  is_tok v ->
  cnt (all_vals c) v <= 1 /\
  (forall t th, nth_error (p_threads c) t = Some th -> In v (thread_vals th) -> ~ In v (p_bag c)) /\
  (forall t1 t2 th1 th2, t1 <> t2 -> nth_error (p_threads c) t1 = Some th1 -> nth_error (p_threads c) t2 = Some th2 ->
     In v (thread_vals th1) -> ~ In v (thread_vals th2)).
Proof.
  intros c Hv. pose proof (prun_inv s _ (pinit_inv new progs)) as HI. fold c in HI.
  pose proof (pi_uniq _ HI v Hv) as HU. split; [exact HU|]. unfold all_vals in HU. rewrite count_occ_app in HU. split.
  - intros t th Hn Hin Hbag. apply cnt_pos_In in Hin, Hbag. pose proof (cnt_flat_one _ _ _ v Hn). lia.
  - intros t1 t2 th1 th2 N H1 H2 I1 I2. apply cnt_pos_In in I1, I2.
    destruct (Nat.lt_ge_cases t1 t2) as [L|L].
    + pose proof (cnt_flat_two _ _ _ _ _ v L H1 H2). lia.
    + assert (t2 < t1) as L' by lia. pose proof (cnt_flat_two _ _ _ _ _ v L' H2 H1). lia.
Qed.

(* where the result of every Get comes from (trace newest first: [before] is the past of the event) *)
Theorem pool_get_source new progs s later e before :
  p_trace (prun (pinit new progs) s) = later ++ e :: before -> ev_ok new e before.
Proof.
  intro E. pose proof (prun_inv s _ (pinit_inv new progs)) as HI.
  pose proof (pi_trace _ HI) as HT. rewrite pool_new_constant, E in HT. eapply trace_ok_split; eauto.
Qed.

(* the same, spelled out for the responses of Get *)
Theorem pool_get_returns new progs s later t v src before :
  p_trace (prun (pinit new progs) s) = later ++ PERetGet t v src :: before ->
  match src with
  | SrcZeroNoNew => new = false /\ v = Zero
  | SrcNew => new = true /\ (exists k, v = Tok t k) /\
              exists mid older, before = mid ++ PENew t v :: older /\ forall e, In e older -> ev_val e <> Some v
  | SrcBag => new = true /\
              exists mid older, before = mid ++ PETake t v :: older /\
                pcount (is_take v) older + pcount (is_drop v) older < pcount (is_put v) older
  end.
Proof.
  intro E. pose proof (pool_get_source _ _ _ _ _ _ E) as H. simpl in H. destruct src.
  - apply in_split in H as (mid & older & ->).
    assert (E' : p_trace (prun (pinit new progs) s) = (later ++ PERetGet t v SrcBag :: mid) ++ PETake t v :: older).
    { rewrite E, <- app_assoc. reflexivity. }
    apply pool_get_source in E'. simpl in E'. destruct E' as (Hn & Hc). split; [exact Hn|]. eauto.
  - apply in_split in H as (mid & older & ->).
    assert (E' : p_trace (prun (pinit new progs) s) = (later ++ PERetGet t v SrcNew :: mid) ++ PENew t v :: older).
    { rewrite E, <- app_assoc. reflexivity. }
    apply pool_get_source in E'. simpl in E'. destruct E' as (Hn & Hk & Hf). split; [exact Hn|]. split; [exact Hk|]. eauto.
  - exact H.
Qed.

(* ---- what the threads were handed is what the trace says ---- *)

Definition tgot (t : tid) (tr : list pevent) : list val :=
  flat_map (fun e => match e with PERetGet t' v _ => if t' =? t then [v] else [] | _ => [] end) tr.

Definition no_ret (evs : list pevent) : Prop := forall t v src, ~ In (PERetGet t v src) evs.

Lemma tgot_no_ret evs tr t : no_ret evs -> tgot t (evs ++ tr) = tgot t tr.
Proof.
  intro H. unfold tgot. rewrite flat_map_app.
  replace (flat_map _ evs) with (@nil val); [reflexivity|].
  symmetry. induction evs as [|e evs IH]; simpl; auto.
  rewrite IH by (intros t0 v src Hin; apply (H t0 v src); right; exact Hin).
  destruct e; simpl; auto. exfalso. eapply H. left. reflexivity.
Qed.

Lemma pstep_thread_shape c t ch c' : pstep_thread c t ch = Some c' ->
  exists th th' evs, nth_error (p_threads c) t = Some th /\
    p_threads c' = set_pthread (p_threads c) t th' /\ p_trace c' = evs ++ p_trace c /\
    ((p_got th' = p_got th /\ no_ret evs) \/ exists v src, p_got th' = p_got th ++ [v] /\ evs = [PERetGet t v src]).
Proof.
  unfold pstep_thread. destruct (pstep_thread_acc c t ch) as [[c0 accs]|] eqn:Hs; [|discriminate].
  intros [= <-]. revert Hs. unfold pstep_thread_acc.
  destruct (nth_error (p_threads c) t) as [th|] eqn:Hth; [|discriminate].
  assert (fin : forall th' evs,
            p_got th' = p_got th -> no_ret evs ->
            exists th0 th'0 evs0, Some th = Some th0 /\
              set_pthread (p_threads c) t th' = set_pthread (p_threads c) t th'0 /\ evs ++ p_trace c = evs0 ++ p_trace c /\
              ((p_got th'0 = p_got th0 /\ no_ret evs0) \/ exists v src, p_got th'0 = p_got th0 ++ [v] /\ evs0 = [PERetGet t v src])).
  { intros th' evs H1 H2. exists th, th', evs. repeat split; auto. }
  assert (N0 : no_ret []) by (intros ? ? ? []).
  assert (N1 : forall e, (forall t v src, e <> PERetGet t v src) -> no_ret [e]).
  { intros e He t0 v src [E|[]]. eapply He; eauto. }
  destruct (p_pc th) as [| | | |v src|v].
  - destruct (p_prog th) as [|[|k| |] rest]; [discriminate| | | |].
    + intros [= <- <-]. simpl. apply (fin _ [PEInvGet t]); auto. apply N1. discriminate.
    + destruct (nth_error (p_held th) k) as [x|]; intros [= <- <-]; simpl.
      * apply (fin _ [PEInvPut t x]); auto. apply N1. discriminate.
      * apply (fin _ []); auto.
    + intros [= <- <-]. simpl. apply (fin _ [PEInvPut t (Tok t (p_fresh th))]); auto. apply N1. discriminate.
    + intros [= <- <-]. simpl. apply (fin _ [PEInvPut t Zero]); auto. apply N1. discriminate.
  - destruct (p_new c); intros [= <- <-]; simpl; apply (fin _ []); auto.
  - destruct ch as [i|].
    + destruct (nth_error (p_bag c) i) as [x|]; [|discriminate]. intros [= <- <-]. simpl.
      apply (fin _ [PETake t x]); auto. apply N1. discriminate.
    + destruct (p_poolnew c); intros [= <- <-]; simpl.
      * apply (fin _ [PENew t (Tok t (p_fresh th))]); auto. apply N1. discriminate.
      * apply (fin _ [PEMiss t]); auto. apply N1. discriminate.
  - intros [= <- <-]. simpl. apply (fin _ [PENew t (Tok t (p_fresh th))]); auto. apply N1. discriminate.
  - intros [= <- <-]. simpl. eexists th, _, [PERetGet t v src]. repeat split; auto. right. exists v, src. auto.
  - intros [= <- <-]. simpl. apply (fin _ [PEPut t v]); auto. apply N1. discriminate.
Qed.

Definition got_ok (c : pconfig) : Prop :=
  forall t th, nth_error (p_threads c) t = Some th -> p_got th = rev (tgot t (p_trace c)).

Lemma pstep_got c a c' : got_ok c -> pstep c a = Some c' -> got_ok c'.
Proof.
  intros H Hs. destruct a as [t ch|i]; simpl in Hs.
  - destruct (pstep_thread_shape _ _ _ _ Hs) as (th & th' & evs & Hth & E1 & E2 & Hr).
    unfold got_ok. rewrite E1, E2. intros t0 th0 H0. destruct (Nat.eq_dec t0 t) as [->|N].
    + rewrite (nth_error_pset_same _ _ _ _ Hth) in H0. injection H0 as <-.
      destruct Hr as [(-> & Hn)|(v & src & -> & ->)].
      * rewrite tgot_no_ret by exact Hn. apply H; auto.
      * simpl. rewrite Nat.eqb_refl. simpl. rewrite (H _ _ Hth). reflexivity.
    + rewrite nth_error_pset_other in H0 by exact N.
      destruct Hr as [(_ & Hn)|(v & src & _ & ->)].
      * rewrite tgot_no_ret by exact Hn. apply H; auto.
      * simpl. apply Nat.eqb_neq in N. rewrite Nat.eqb_sym, N. simpl. apply H; auto.
  - destruct (nth_error (p_bag c) i) as [x|]; [|discriminate]. injection Hs as <-.
    intros t th H0. simpl in *. apply H; auto.
Qed.

(* the values a goroutine's Get calls returned are exactly its Get responses in the trace, in order *)
Theorem pool_got_are_returns new progs s t th :
  nth_error (p_threads (prun (pinit new progs) s)) t = Some th ->
  p_got th = rev (tgot t (p_trace (prun (pinit new progs) s))).
Proof.
  assert (G : forall s c, got_ok c -> got_ok (prun c s)).
  { induction s0 as [|a s0 IH]; intros c H; simpl; auto.
    apply IH. destruct (pstep c a) as [c'|] eqn:E; auto. eapply pstep_got; eauto. }
  apply G. intros t0 th0 H0. apply nth_error_In in H0. apply in_map_iff in H0 as (p & <- & _). reflexivity.
Qed.
