(* PROOFS about the models of sync2/atomicvalue.go and sync2/pool.go. *)
From Typ Require Import Lib.Base Sync.AtomicPool.

Section AtomicProofs.
  Variable V : Type.
  Variable zero : V.
  Variable eqb : V -> V -> bool.
  Hypothesis eqb_spec : forall x y, eqb x y = true <-> x = y.

  (* the specification is the register of the property text *)
  Lemma spec_register (s : option V) :
    spec_step zero eqb s OLoad = (s, RVal (or_zero zero s)) /\
    (forall v, spec_step zero eqb s (OStore v) = (Some v, RUnit)) /\
    (forall v, spec_step zero eqb s (OSwap v) = (Some v, RVal (or_zero zero s))) /\
    (forall c old new, s = Some c ->
       (c = old -> spec_step zero eqb s (OCas old new) = (Some new, RBool true)) /\
       (c <> old -> spec_step zero eqb s (OCas old new) = (s, RBool false))).
  Proof.
    repeat split; intros; subst; simpl.
    - destruct (eqb old old) eqn:E; auto. assert (eqb old old = true) by (apply eqb_spec; auto). congruence.
    - destruct (eqb c old) eqn:E; auto. apply eqb_spec in E. contradiction.
  Qed.
End AtomicProofs.
