(* PROOFS about the model of sync2/once.go (Sync/Once.v): one invariant of all
   reachable configurations, and the C17 statements derived from it. *)
From Typ Require Import Lib.Base Sync.Once.

Section OnceProofs.
  Variable V : Type.
  Variable zero : V.
  Variable arity : nat.

  Notation step := (@step V zero arity).
  Notation run := (@run V zero arity).
  Notation init := (@init V zero arity).
  Notation tuple := (@tuple V zero arity).
  Notation next_access := (@next_access V arity).

  (* ---- lists used as arrays ---- *)

  Lemma upd_length i (v : V) l : length (upd i v l) = length l.
  Proof. revert i; induction l as [|x l IH]; intros [|i]; simpl; auto. Qed.

  Lemma nth_upd_same i (v : V) l d : i < length l -> nth i (upd i v l) d = v.
  Proof. revert i; induction l as [|x l IH]; intros [|i] H; simpl in *; try lia; auto. apply IH; lia. Qed.

  Lemma nth_upd_other i j (v : V) l d : j <> i -> nth j (upd i v l) d = nth j l d.
  Proof.
    revert i j; induction l as [|x l IH]; intros [|i] [|j] H; simpl; auto; try congruence.
  Qed.

  Lemma nth_error_set_same (ths : list (thread V)) t th th' :
    nth_error ths t = Some th -> nth_error (set_thread ths t th') t = Some th'.
  Proof. revert t; induction ths as [|x r IH]; intros [|t] H; simpl in *; try discriminate; auto. Qed.

  Lemma nth_error_set_other (ths : list (thread V)) t t' th' :
    t' <> t -> nth_error (set_thread ths t th') t' = nth_error ths t'.
  Proof.
    revert t t'; induction ths as [|x r IH]; intros [|t] [|t'] H; simpl; auto; try congruence.
  Qed.

  Lemma nth_error_set_inv (ths : list (thread V)) t th th' t0 th0 :
    nth_error ths t = Some th -> nth_error (set_thread ths t th') t0 = Some th0 ->
    (t0 = t /\ th0 = th') \/ (t0 <> t /\ nth_error ths t0 = Some th0).
  Proof.
    intros H H0. destruct (Nat.eq_dec t0 t) as [->|N].
    - left. rewrite (nth_error_set_same _ _ _ _ H) in H0. split; congruence.
    - right. rewrite nth_error_set_other in H0 by exact N. auto.
  Qed.

  Lemma firstn_snoc_nth (l : list V) n : n < length l -> firstn n l ++ [nth n l zero] = firstn (S n) l.
  Proof.
    revert n; induction l as [|x l IH]; intros [|n] H; simpl in *; try lia; auto.
    f_equal. apply IH. lia.
  Qed.

  Lemma tuple_length res : length (tuple res) = arity.
  Proof. unfold Once.tuple. rewrite map_length, seq_length. reflexivity. Qed.

  Lemma tuple_nth res j : j < arity -> nth j (tuple res) zero = nth j res zero.
  Proof.
    intro H. unfold Once.tuple.
    rewrite (nth_indep _ zero (nth 0 res zero)) by (rewrite map_length, seq_length; exact H).
    rewrite (map_nth (fun i => nth i res zero) (seq 0 arity) 0 j).
    rewrite seq_nth by exact H. reflexivity.
  Qed.

  Lemma tuple_exact res : length res = arity -> tuple res = res.
  Proof.
    intro H. apply (nth_ext _ _ zero zero).
    - rewrite tuple_length. auto.
    - intros n Hn. rewrite tuple_length in Hn. apply tuple_nth. exact Hn.
  Qed.

  Lemma eq_tuple R res : length R = arity -> (forall j, j < arity -> nth j R zero = nth j res zero) -> R = tuple res.
  Proof.
    intros HL H. apply (nth_ext _ _ zero zero).
    - rewrite tuple_length. exact HL.
    - intros n Hn. rewrite HL in Hn. rewrite tuple_nth by exact Hn. apply H. exact Hn.
  Qed.

  (* ---- traces ---- *)

  Definition is_inv (e : event V) : Prop := match e with EInv _ _ => True | _ => False end.
  Definition pre_ev (e : event V) : Prop :=
    match e with EInv _ _ | EStart _ _ | EUser _ _ | EFin _ _ | EWrite _ _ _ => True | _ => False end.
  Definition post_ev (e : event V) : Prop :=
    match e with EInv _ _ | EPass _ | ERead _ _ _ | ERet _ _ => True | _ => False end.

  Lemma starts_app (a b : list (event V)) : starts (a ++ b) = starts a ++ starts b.
  Proof. unfold starts. apply flat_map_app. Qed.
  Lemma fins_app (a b : list (event V)) : fins (a ++ b) = fins a ++ fins b.
  Proof. unfold fins. apply flat_map_app. Qed.

  Lemma inv_only tr : Forall is_inv tr -> starts tr = [] /\ fins tr = [] /\ Forall pre_ev tr.
  Proof.
    induction 1 as [|e tr He _ IH]; [repeat split; constructor|].
    destruct IH as (S & F & P). destruct e; try contradiction. simpl.
    split; [exact S|]. split; [exact F|]. constructor; [exact I | exact P].
  Qed.

  Lemma post_only tr : Forall post_ev tr -> starts tr = [] /\ fins tr = [] /\ forall e, In e tr -> ~ is_work e.
  Proof.
    induction 1 as [|e tr He _ IH]; [repeat split; auto; intros e []|].
    destruct IH as (S & F & P). destruct e; try contradiction; simpl; repeat split; auto;
      intros e' [<-|H']; simpl; auto.
  Qed.

  Lemma app_cons_split (A : Type) (l1 l2 l3 l4 : list A) (a b : A) :
    l1 ++ a :: l2 = l3 ++ b :: l4 ->
    (l1 = l3 /\ a = b /\ l2 = l4) \/
    (exists m, l3 = l1 ++ a :: m /\ l2 = m ++ b :: l4) \/
    (exists m, l1 = l3 ++ b :: m /\ l4 = m ++ a :: l2).
  Proof.
    revert l3; induction l1 as [|x l1 IH]; intros [|y l3] E; simpl in E.
    - injection E as E1 E2. subst. left. auto.
    - injection E as E1 E2. subst. right. left. exists l3. auto.
    - injection E as E1 E2. subst. right. right. exists l1. auto.
    - injection E as E1 E2. subst y. destruct (IH _ E2) as [(H1 & H2 & H3)|[(m & H1 & H2)|(m & H1 & H2)]]; subst.
      + left. auto.
      + right. left. exists m. auto.
      + right. right. exists m. auto.
  Qed.

  (* ---- the invariant ---- *)

  Notation zeros := (repeat zero arity).
  Notation outcome_tuple := (@outcome_tuple V zero arity).
  Definition nw (e : event V) : Prop := ~ is_write e.

  Definition thread_ok (o : ostate) (R : list V) (t : tid) (th : thread V) : Prop :=
    match th_pc th with
    | PIdle | PEnter _ => True
    | PRun _ _ => o = Running t
    | PWrite res i => o = Running t /\ i <= arity /\ forall j, j < i -> nth j R zero = nth j res zero
    | PRead acc => o = ODone /\ acc = firstn (length acc) R
    | PDead => o = ODone
    end /\ (o <> ODone -> th_rets th = []) /\ Forall (fun r => r = R) (th_rets th).

  (* what the pc of the thread that owns the Once says about the trace *)
  Definition run_pc (w : tid) (f : ufun V) (R : list V) (tr : list (event V)) (p : pc V) : Prop :=
    match p with
    | PRun f' _ => f' = f /\ fins tr = [] /\ R = zeros /\ Forall nw tr
    | PWrite res _ => res = f_res f /\ fins tr = [(w, res)] /\ f_aborts f = false
    | _ => False
    end.

  Definition trace_ok (o : ostate) (R : list V) (ths : list (thread V)) (tr : list (event V)) : Prop :=
    match o with
    | NotStarted => Forall is_inv tr /\ R = zeros /\
        (* whoever has invoked Do is still at the entry of once.Do *)
        forall t f, In (EInv t f) tr -> exists th f', nth_error ths t = Some th /\ th_pc th = PEnter f'
    | Running w =>
        Forall pre_ev tr /\ exists f th, starts tr = [(w, f)] /\ nth_error ths w = Some th /\ run_pc w f R tr (th_pc th)
    | ODone =>
        exists post pre w f e, tr = post ++ e :: pre /\ Forall post_ev post /\ Forall pre_ev pre /\
          starts pre = [(w, f)] /\ R = outcome_tuple f /\ (forall t r, In (ERet t r) post -> r = R) /\
          ((e = EDone w /\ f_aborts f = false /\ fins pre = [(w, f_res f)]) \/
           (e = EAbort w /\ f_aborts f = true /\ fins pre = [] /\ Forall nw pre /\
            exists th, nth_error ths w = Some th /\ th_pc th = PDead))
    end.

  Record Inv (c : config V) : Prop := {
    inv_len : length (c_R c) = arity;
    inv_threads : forall t th, nth_error (c_threads c) t = Some th -> thread_ok (c_once c) (c_R c) t th;
    inv_trace : trace_ok (c_once c) (c_R c) (c_threads c) (c_trace c)
  }.

  Definition passive (th : thread V) : Prop :=
    match th_pc th with PIdle | PEnter _ => True | _ => False end /\ th_rets th = [].

  Lemma thread_ok_passive o R t th : thread_ok o R t th -> o <> ODone -> o <> Running t -> passive th.
  Proof.
    unfold thread_ok, passive. intros (Hpc & Hr & _) H1 H2. split; [|auto].
    destruct (th_pc th); auto; try (destruct Hpc; congruence); congruence.
  Qed.

  Lemma passive_ok o R t th : passive th -> thread_ok o R t th.
  Proof.
    unfold thread_ok, passive. intros (Hpc & ->). repeat split; auto.
    destruct (th_pc th); auto; contradiction.
  Qed.

  Lemma init_inv progs : Inv (init progs).
  Proof.
    constructor; simpl.
    - apply repeat_length.
    - intros t th H. apply nth_error_In in H. apply in_map_iff in H as (p & <- & _).
      apply passive_ok. split; simpl; auto.
    - split; [constructor|]. split; [reflexivity|]. intros t f [].
  Qed.

  (* A step that keeps the once state and the fields: only thread t changes. *)
  Lemma threads_set o R (ths : list (thread V)) t th th' :
    nth_error ths t = Some th ->
    (forall t0 th0, nth_error ths t0 = Some th0 -> thread_ok o R t0 th0) ->
    thread_ok o R t th' ->
    forall t0 th0, nth_error (set_thread ths t th') t0 = Some th0 -> thread_ok o R t0 th0.
  Proof.
    intros H HA H' t0 th0 H0.
    destruct (nth_error_set_inv _ _ _ _ _ _ H H0) as [(-> & ->)|(N & H1)]; auto.
  Qed.

  (* A step that changes the once state or the fields while the old state is
     not ODone: every other thread is passive, hence unaffected. *)
  Lemma threads_set_change o R o' R' (ths : list (thread V)) t th th' :
    nth_error ths t = Some th ->
    (forall t0 th0, nth_error ths t0 = Some th0 -> thread_ok o R t0 th0) ->
    o <> ODone -> (forall t0, t0 <> t -> o <> Running t0) ->
    thread_ok o' R' t th' ->
    forall t0 th0, nth_error (set_thread ths t th') t0 = Some th0 -> thread_ok o' R' t0 th0.
  Proof.
    intros H HA N1 N2 H' t0 th0 H0.
    destruct (nth_error_set_inv _ _ _ _ _ _ H H0) as [(-> & ->)|(N & H1)]; auto.
    apply passive_ok. eapply thread_ok_passive; eauto.
  Qed.

  (* in state ODone: one more event of a thread that is not dead *)
  Lemma trace_done_cons R (ths : list (thread V)) t th th' tr e :
    nth_error ths t = Some th -> th_pc th <> PDead ->
    post_ev e -> (forall t0 r, e = ERet t0 r -> r = R) ->
    trace_ok ODone R ths tr -> trace_ok ODone R (set_thread ths t th') (e :: tr).
  Proof.
    intros Hth Hnd He Hr (post & pre & w & f0 & e0 & -> & Hpost & Hpre & Hst & HR & Hret & Hcase).
    exists (e :: post), pre, w, f0, e0.
    split; [reflexivity|]. split; [constructor; [exact He|exact Hpost]|].
    split; [exact Hpre|]. split; [exact Hst|]. split; [exact HR|].
    split; [intros t0 r [E|Hin]; [eapply Hr; eauto|eauto]|].
    destruct Hcase as [H|(H1 & H2 & H3 & H4 & thw & Hw & Hd)]; [left; exact H|right].
    split; [exact H1|]. split; [exact H2|]. split; [exact H3|]. split; [exact H4|].
    exists thw. split; [|exact Hd]. rewrite nth_error_set_other; [exact Hw|].
    intros ->. rewrite Hth in Hw. injection Hw as <-. contradiction.
  Qed.

  Lemma run_pc_quiet w f R tr e p :
    (match e with EInv _ _ | EUser _ _ => True | _ => False end) -> run_pc w f R tr p -> run_pc w f R (e :: tr) p.
  Proof.
    intros He H. destruct p; simpl in *; auto.
    - destruct H as (H1 & H2 & H3 & H4). destruct e; try contradiction; simpl; repeat split; auto;
        constructor; auto; intros [].
    - destruct e; try contradiction; simpl; exact H.
  Qed.

  Lemma step_inv c t c' : Inv c -> step c t = Some c' -> Inv c'.
  Proof.
    intros [HL HT HTr] Hs. unfold Once.step in Hs.
    destruct (nth_error (c_threads c) t) as [th|] eqn:Hth; [|discriminate].
    pose proof (HT _ _ Hth) as Hok.
    destruct c as [o R ths tr]; simpl in *.
    destruct th as [prog p rets]; simpl in *.
    unfold thread_ok in Hok; simpl in Hok. destruct Hok as (Hpc & Hrets & Hall).
    destruct p as [|f|f k|res i|acc|].
    - (* PIdle: invoke *)
      destruct prog as [|f rest]; [discriminate|]. injection Hs as <-.
      constructor; simpl; [exact HL| |].
      + eapply threads_set; eauto. unfold thread_ok; simpl. auto.
      + destruct o as [|w|]; simpl in *.
        * destruct HTr as (HTr & HR & Hent). split; [constructor; [exact I|exact HTr]|]. split; [exact HR|].
          intros t0 f1 [E|Hin].
          -- injection E as <- <-. eexists _, f. split; [eapply nth_error_set_same; eauto|reflexivity].
          -- destruct (Hent _ _ Hin) as (th1 & f' & Hn1 & Hp1). destruct (Nat.eq_dec t0 t) as [->|N].
             ++ rewrite Hth in Hn1. injection Hn1 as <-. discriminate Hp1.
             ++ exists th1, f'. rewrite nth_error_set_other by exact N. auto.
        * destruct HTr as (Hpre & f0 & thw & Hst & Hw & Hpcw). split; [constructor; [exact I|exact Hpre]|].
          exists f0, thw. split; [exact Hst|].
          assert (t <> w) as N.
          { intros ->. rewrite Hth in Hw. injection Hw as <-. simpl in Hpcw. exact Hpcw. }
          split; [rewrite nth_error_set_other by congruence; exact Hw|].
          apply run_pc_quiet; [exact I|exact Hpcw].
        * eapply (trace_done_cons R ths t _ _ tr _ Hth); [simpl; discriminate|exact I|intros ? ? E; discriminate E|exact HTr].
    - (* PEnter: once.Do *)
      destruct o as [|w|]; simpl in *; [|discriminate|]; injection Hs as <-.
      + (* NotStarted -> Running t *)
        destruct HTr as (HTr & HR & _).
        constructor; simpl; [exact HL| |].
        * eapply threads_set_change; eauto; try congruence.
          unfold thread_ok; simpl. repeat split; auto. intros _. apply Hrets. congruence.
        * destruct (inv_only _ HTr) as (S0 & F0 & P0). split; [constructor; [exact I|exact P0]|].
          eexists f, _. rewrite S0. split; [reflexivity|]. split; [eapply nth_error_set_same; eauto|].
          simpl. split; [reflexivity|]. split; [exact F0|]. split; [exact HR|].
          constructor; [intros []|]. clear -HTr. induction HTr as [|e l He _ IH]; constructor; auto.
          destruct e; try contradiction. intros [].
      + (* ODone -> PRead [] *)
        constructor; simpl; [exact HL| |].
        * eapply threads_set; eauto. unfold thread_ok; simpl. auto.
        * eapply (trace_done_cons R ths t _ _ tr _ Hth); [simpl; discriminate|exact I|intros ? ? E; discriminate E|exact HTr].
    - (* PRun *)
      subst o. simpl in HTr. destruct HTr as (Hpre & f0 & thw & Hst & Hw & Hpcw).
      rewrite Hth in Hw. injection Hw as <-. simpl in Hpcw. destruct Hpcw as (-> & Hfin & HR & Hnw).
      destruct k as [|k].
      + destruct (f_aborts f0) eqn:Hab; injection Hs as <-.
        * (* f panics or calls Goexit: the Once is consumed, nothing was written *)
          constructor; simpl; [exact HL| |].
          -- eapply threads_set_change; eauto; try congruence.
             unfold thread_ok; simpl. repeat split; auto; try (rewrite Hrets by congruence; constructor).
          -- exists [], tr, t, f0, (EAbort t). split; [reflexivity|]. split; [constructor|]. split; [exact Hpre|].
             split; [exact Hst|]. split; [unfold Once.outcome_tuple; rewrite Hab; exact HR|].
             split; [intros ? ? []|]. right. split; [reflexivity|]. split; [exact Hab|]. split; [exact Hfin|].
             split; [exact Hnw|]. eexists. split; [eapply nth_error_set_same; eauto|reflexivity].
        * (* f returns *)
          constructor; simpl; [exact HL| |].
          -- eapply threads_set; eauto. unfold thread_ok; simpl. repeat split; auto; lia.
          -- split; [constructor; [exact I|exact Hpre]|].
             eexists f0, _. split; [exact Hst|]. split; [eapply nth_error_set_same; eauto|].
             simpl. rewrite Hfin. auto.
      + (* one user step *)
        injection Hs as <-.
        constructor; simpl; [exact HL| |].
        * eapply threads_set; eauto. unfold thread_ok; simpl. auto.
        * split; [constructor; [exact I|exact Hpre]|].
          eexists f0, _. split; [exact Hst|]. split; [eapply nth_error_set_same; eauto|].
          apply (run_pc_quiet t f0 R tr (EUser t k) (PRun f0 k)); [exact I|]. simpl. auto.
    - (* PWrite *)
      destruct Hpc as (-> & Hi & Hw). simpl in HTr. destruct HTr as (Hpre & f0 & thw & Hst & Hw' & Hpcw).
      rewrite Hth in Hw'. injection Hw' as <-. simpl in Hpcw. destruct Hpcw as (-> & Hfin & Hab).
      destruct (i <? arity) eqn:Hlt; injection Hs as <-.
      + (* write field i *)
        apply Nat.ltb_lt in Hlt.
        constructor; simpl.
        * rewrite upd_length. exact HL.
        * eapply threads_set_change; eauto; try congruence.
          unfold thread_ok; simpl. repeat split; auto; try lia.
          -- intros j Hj. destruct (Nat.eq_dec j i) as [->|N].
             ++ apply nth_upd_same. lia.
             ++ rewrite nth_upd_other by exact N. apply Hw. lia.
          -- rewrite Hrets by congruence. constructor.
        * split; [constructor; [exact I|exact Hpre]|].
          eexists f0, _. split; [exact Hst|]. split; [eapply nth_error_set_same; eauto|].
          simpl. auto.
      + (* once.Do returns: ODone *)
        apply Nat.ltb_ge in Hlt. assert (i = arity) as -> by lia.
        assert (HRt : R = tuple (f_res f0)) by (apply eq_tuple; auto).
        constructor; simpl; [exact HL| |].
        * eapply threads_set_change; eauto; try congruence.
          unfold thread_ok; simpl. repeat split; auto; try (rewrite Hrets by congruence; constructor).
        * exists [], tr, t, f0, (EDone t). split; [reflexivity|]. split; [constructor|]. split; [exact Hpre|].
          split; [exact Hst|]. split; [unfold Once.outcome_tuple; rewrite Hab; exact HRt|].
          split; [intros ? ? []|]. left. auto.
    - (* PRead *)
      destruct Hpc as (-> & Hacc). simpl in HTr.
      destruct (length acc <? arity) eqn:Hlt; injection Hs as <-.
      + (* read one field *)
        apply Nat.ltb_lt in Hlt.
        constructor; simpl; [exact HL| |].
        * eapply threads_set; eauto. unfold thread_ok; simpl. repeat split; auto.
          rewrite app_length. simpl. rewrite Nat.add_1_r. rewrite <- firstn_snoc_nth by lia.
          rewrite <- Hacc. reflexivity.
        * eapply (trace_done_cons R ths t _ _ tr _ Hth); [simpl; discriminate|exact I|intros ? ? E; discriminate E|exact HTr].
      + (* return *)
        apply Nat.ltb_ge in Hlt.
        assert (Hacc' : acc = R).
        { assert (length acc <= length R).
          { rewrite Hacc at 1. rewrite firstn_length. lia. }
          rewrite Hacc. apply firstn_all2. lia. }
        constructor; simpl; [exact HL| |].
        * eapply threads_set; eauto. unfold thread_ok; simpl. repeat split; auto.
          -- congruence.
          -- apply Forall_app. split; [exact Hall|]. constructor; [exact Hacc'|constructor].
        * eapply (trace_done_cons R ths t _ _ tr _ Hth); [simpl; discriminate|exact I| |exact HTr].
          intros t0 r E. injection E as _ <-. exact Hacc'.
    - discriminate.
  Qed.

  Lemma run_inv s : forall c, Inv c -> Inv (run c s).
  Proof.
    induction s as [|t s IH]; intros c H; simpl; auto.
    apply IH. destruct (step c t) as [c'|] eqn:E; auto. eapply step_inv; eauto.
  Qed.

  Lemma reach_inv progs s : Inv (run (init progs) s).
  Proof. apply run_inv, init_inv. Qed.

  (* ---- consequences of the invariant ---- *)

  Lemma fins_single (e : event V) : fins [e] = match e with EFin t r => [(t, r)] | _ => @nil (tid * list V) end.
  Proof. destruct e; reflexivity. Qed.

  (* the shape of the trace once the Once is done *)
  Lemma inv_done c : Inv c -> c_once c = ODone ->
    exists w f, starts (c_trace c) = [(w, f)] /\
      fins (c_trace c) = (if f_aborts f then [] else [(w, f_res f)]) /\
      c_R c = outcome_tuple f /\ (forall t r, In (ERet t r) (c_trace c) -> r = outcome_tuple f) /\
      (if f_aborts f then In (EAbort w) (c_trace c) /\ (forall e, In e (c_trace c) -> ~ is_write e) /\
                          (exists th, nth_error (c_threads c) w = Some th /\ th_pc th = PDead)
       else In (EDone w) (c_trace c)).
  Proof.
    intros [_ _ HTr] Ho. rewrite Ho in HTr. simpl in HTr.
    destruct HTr as (post & pre & w & f & e & -> & Hpost & Hpre & Hst & HR & Hret & Hcase).
    destruct (post_only _ Hpost) as (S0 & F0 & Hpw).
    assert (Hrets : forall t r, In (ERet t r) (post ++ e :: pre) -> r = outcome_tuple f).
    { intros t r Hin. apply in_app_iff in Hin as [Hin|[E|Hin]].
      - rewrite <- HR. eauto.
      - destruct Hcase as [(-> & _)|(-> & _)]; discriminate.
      - rewrite Forall_forall in Hpre. destruct (Hpre _ Hin). }
    exists w, f. rewrite starts_app, fins_app. simpl.
    destruct Hcase as [(-> & Hab & Hfin)|(-> & Hab & Hfin & Hnw & Hdead)]; rewrite Hab; simpl;
      rewrite S0, F0, Hst, Hfin; simpl.
    - repeat split; auto. apply in_app_iff. right. left. reflexivity.
    - split; [reflexivity|]. split; [reflexivity|]. split; [exact HR|]. split; [exact Hrets|].
      split; [apply in_app_iff; right; left; reflexivity|]. split; [|exact Hdead].
      intros e Hin. apply in_app_iff in Hin as [Hin|[<-|Hin]].
      + intro Hw. apply (Hpw _ Hin). destruct e; try contradiction. exact I.
      + intros [].
      + rewrite Forall_forall in Hnw. apply Hnw. exact Hin.
  Qed.

  Lemma inv_starts_le1 c : Inv c -> length (starts (c_trace c)) <= 1.
  Proof.
    intros HI. destruct (c_once c) eqn:Ho.
    - destruct HI as [_ _ HTr]. rewrite Ho in HTr. destruct HTr as (HTr & _).
      destruct (inv_only _ HTr) as (-> & _). simpl. lia.
    - destruct HI as [_ _ HTr]. rewrite Ho in HTr. destruct HTr as (_ & f & th & -> & _). simpl. lia.
    - destruct (inv_done _ HI Ho) as (w & f & -> & _). simpl. lia.
  Qed.

  Lemma inv_ret_done c t r : Inv c -> In (ERet t r) (c_trace c) -> c_once c = ODone.
  Proof.
    intros [_ _ HTr] Hin. destruct (c_once c); simpl in HTr; auto; exfalso.
    - destruct HTr as (HTr & _). rewrite Forall_forall in HTr. apply (HTr _ Hin).
    - destruct HTr as (HP & _). rewrite Forall_forall in HP. apply (HP _ Hin).
  Qed.

  (* exactly once: at most one start; completions only of the started function, none if it aborted *)
  Theorem exactly_once progs s :
    let tr := c_trace (run (init progs) s) in
    length (starts tr) <= 1 /\ length (fins tr) <= length (starts tr) /\
    ((exists t r, In (ERet t r) tr) ->
       exists w f, starts tr = [(w, f)] /\ fins tr = (if f_aborts f then [] else [(w, f_res f)])).
  Proof.
    intro tr. pose proof (reach_inv progs s) as HI. fold tr. split; [apply inv_starts_le1; exact HI|]. split.
    - destruct (c_once (run (init progs) s)) eqn:Ho.
      + destruct HI as [_ _ HTr]. rewrite Ho in HTr. destruct HTr as (HTr & _). fold tr in HTr.
        destruct (inv_only _ HTr) as (-> & -> & _). simpl. lia.
      + destruct HI as [_ _ HTr]. rewrite Ho in HTr. fold tr in HTr.
        destruct HTr as (_ & f & th & -> & _ & Hpc). destruct (th_pc th); try contradiction.
        * destruct Hpc as (_ & -> & _). simpl. lia.
        * destruct Hpc as (_ & -> & _). simpl. lia.
      + destruct (inv_done _ HI Ho) as (w & f & H1 & H2 & _). fold tr in H1, H2. rewrite H1, H2.
        destruct (f_aborts f); simpl; lia.
    - intros (t & r & Hin). destruct (inv_done _ HI (inv_ret_done _ _ _ HI Hin)) as (w & f & H1 & H2 & _).
      exists w, f. auto.
  Qed.

  (* every started function is one of the functions passed by a caller *)
  Lemma run_starts_invoked s : forall c,
    (forall t f, In (t, f) (starts (c_trace c)) -> In (EInv t f) (c_trace c)) ->
    (forall t th f, nth_error (c_threads c) t = Some th -> th_pc th = PEnter f -> In (EInv t f) (c_trace c)) ->
    forall t f, In (t, f) (starts (c_trace (run c s))) -> In (EInv t f) (c_trace (run c s)).
  Proof.
    induction s as [|t0 s IH]; intros c H1 H2; simpl; auto.
    destruct (step c t0) as [c'|] eqn:E; [|apply IH; auto].
    apply IH; clear IH.
    - unfold Once.step in E. destruct (nth_error (c_threads c) t0) as [th|] eqn:Hth; [|discriminate].
      intros t f.
      destruct (th_pc th) as [|f0|f0 [|k]|res i|acc|] eqn:Hpc.
      + destruct (th_prog th); [discriminate|]. injection E as <-. simpl. intro H. right. auto.
      + destruct (c_once c); [|discriminate|]; injection E as <-; simpl.
        * intros [E|H]; [injection E as <- <-; right; eapply H2; eauto|right; auto].
        * intro H. right. auto.
      + destruct (f_aborts f0); injection E as <-; simpl; intro H; right; auto.
      + injection E as <-. simpl. intro H. right. auto.
      + destruct (i <? arity); injection E as <-; simpl; intro H; right; auto.
      + destruct (length acc <? arity); injection E as <-; simpl; intro H; right; auto.
      + discriminate.
    - unfold Once.step in E. destruct (nth_error (c_threads c) t0) as [th|] eqn:Hth; [|discriminate].
      assert (Hgen : forall o R th' e, (forall f, th_pc th' = PEnter f -> e = EInv t0 f \/ th_pc th = PEnter f) ->
                forall t th1 f, nth_error (set_thread (c_threads c) t0 th') t = Some th1 -> th_pc th1 = PEnter f ->
                In (EInv t f) (c_trace (Config o R (set_thread (c_threads c) t0 th') (e :: c_trace c)))).
      { intros o R th' e He t th1 f Hn Hp. simpl.
        destruct (nth_error_set_inv _ _ _ _ _ _ Hth Hn) as [(-> & ->)|(N & Hn')].
        - destruct (He _ Hp) as [->|Hp']; [left; reflexivity|right; eapply H2; eauto].
        - right. eapply H2; eauto. }
      destruct (th_pc th) as [|f0|f0 [|k]|res i|acc|] eqn:Hpc.
      + destruct (th_prog th); [discriminate|]. injection E as <-. apply Hgen. simpl. intros f [= ->]. auto.
      + destruct (c_once c); [|discriminate|]; injection E as <-; apply Hgen; simpl; intros f; discriminate.
      + destruct (f_aborts f0); injection E as <-; apply Hgen; simpl; discriminate.
      + injection E as <-. apply Hgen. simpl. discriminate.
      + destruct (i <? arity); injection E as <-; apply Hgen; simpl; discriminate.
      + destruct (length acc <? arity); injection E as <-; apply Hgen; simpl; discriminate.
      + discriminate.
  Qed.

  Theorem started_was_passed progs s t f :
    In (t, f) (starts (c_trace (run (init progs) s))) -> In (EInv t f) (c_trace (run (init progs) s)).
  Proof.
    apply run_starts_invoked.
    - simpl. intros ? ? [].
    - simpl. intros t0 th f0 Hn Hp. apply nth_error_In in Hn. apply in_map_iff in Hn as (p & <- & _). discriminate.
  Qed.

  Lemma outcome_normal f : f_aborts f = false -> outcome_tuple f = tuple (f_res f).
  Proof. unfold Once.outcome_tuple. intros ->. reflexivity. Qed.
  Lemma outcome_abort f : f_aborts f = true -> outcome_tuple f = zeros.
  Proof. unfold Once.outcome_tuple. intros ->. reflexivity. Qed.

  (* same results *)
  Theorem same_results progs s t r :
    let c := run (init progs) s in
    In (ERet t r) (c_trace c) ->
    exists w f, starts (c_trace c) = [(w, f)] /\ fins (c_trace c) = (if f_aborts f then [] else [(w, f_res f)]) /\
      r = outcome_tuple f /\
      (f_aborts f = false -> r = tuple (f_res f) /\ (length (f_res f) = arity -> r = f_res f)) /\
      (f_aborts f = true -> r = zeros).
  Proof.
    intros c Hin. pose proof (reach_inv progs s) as HI. fold c in HI.
    destruct (inv_done _ HI (inv_ret_done _ _ _ HI Hin)) as (w & f & H1 & H2 & _ & H4 & _).
    exists w, f. split; [exact H1|]. split; [exact H2|]. split; [eapply H4; eauto|]. split.
    - intro Hab. rewrite (H4 _ _ Hin), (outcome_normal _ Hab). split; [reflexivity|]. apply tuple_exact.
    - intro Hab. rewrite (H4 _ _ Hin). apply outcome_abort. exact Hab.
  Qed.

  (* the tuples recorded per thread agree with the events, and with the fields *)
  Theorem rets_are_results progs s t th r :
    let c := run (init progs) s in
    nth_error (c_threads c) t = Some th -> In r (th_rets th) ->
    c_once c = ODone /\ r = c_R c /\ exists w f, starts (c_trace c) = [(w, f)] /\ r = outcome_tuple f.
  Proof.
    intros c Hn Hr. pose proof (reach_inv progs s) as HI. fold c in HI.
    destruct (inv_threads _ HI _ _ Hn) as (_ & H1 & H2).
    assert (Ho : c_once c = ODone).
    { destruct (c_once c) eqn:E; auto; rewrite H1 in Hr by congruence; destruct Hr. }
    rewrite Forall_forall in H2. pose proof (H2 _ Hr) as ->.
    destruct (inv_done _ HI Ho) as (w & f & S1 & _ & HR & _).
    repeat split; auto. exists w, f. auto.
  Qed.

  (* returns only after completion (or abort): in the (newest first) trace,
     everything the invocation did lies before any response, nothing of it after *)
  Theorem returns_after_completion progs s later t r earlier :
    c_trace (run (init progs) s) = later ++ ERet t r :: earlier ->
    (exists w f, In (EStart w f) earlier /\
       ((f_aborts f = false /\ In (EFin w (f_res f)) earlier /\ In (EDone w) earlier) \/
        (f_aborts f = true /\ In (EAbort w) earlier))) /\
    (forall e, In e later -> ~ is_work e).
  Proof.
    intro E. pose proof (reach_inv progs s) as HI.
    assert (Hin : In (ERet t r) (c_trace (run (init progs) s))) by (rewrite E; apply in_app_iff; right; left; auto).
    pose proof (inv_ret_done _ _ _ HI Hin) as Ho.
    destruct HI as [_ _ HTr]. rewrite Ho in HTr. simpl in HTr.
    destruct HTr as (post & pre & w & f & e & E' & Hpost & Hpre & Hst & _ & _ & Hcase).
    rewrite E in E'. apply app_cons_split in E' as [(_ & D & _)|[(m & -> & ->)|(m & -> & ->)]].
    - destruct Hcase as [(-> & _)|(-> & _)]; discriminate.
    - split.
      + assert (In (w, f) (starts pre)) as H1 by (rewrite Hst; left; auto).
        unfold starts in H1. apply in_flat_map in H1 as (e1 & I1 & M1).
        assert (In (EStart w f) pre) as HS.
        { destruct e1; try destruct M1 as [M1|[]]; try contradiction. injection M1 as -> ->. exact I1. }
        exists w, f. split; [apply in_app_iff; right; right; exact HS|].
        destruct Hcase as [(-> & Hab & Hfin)|(-> & Hab & _)].
        * left. split; [exact Hab|].
          assert (In (w, f_res f) (fins pre)) as H2 by (rewrite Hfin; left; auto).
          unfold fins in H2. apply in_flat_map in H2 as (e2 & I2 & M2).
          split; apply in_app_iff; right; [right|left; reflexivity].
          destruct e2; try destruct M2 as [M2|[]]; try contradiction. injection M2 as -> ->. exact I2.
        * right. split; [exact Hab|]. apply in_app_iff. right. left. reflexivity.
      + apply Forall_app in Hpost as (Hl & _). apply (post_only _ Hl).
    - exfalso. rewrite Forall_forall in Hpre.
      apply (Hpre (ERet t r)). apply in_app_iff. right. left. reflexivity.
  Qed.

  (* a function that panics or calls Goexit consumes the Once all the same:
     nothing was ever written to the fields, they hold the zero values, every
     response carries the zero values, no other function was or will be
     started, and the aborting caller itself is gone *)
  Theorem abort_consumes progs s w :
    let c := run (init progs) s in
    In (EAbort w) (c_trace c) ->
    c_once c = ODone /\ c_R c = zeros /\
    (exists f, starts (c_trace c) = [(w, f)] /\ f_aborts f = true) /\ fins (c_trace c) = [] /\
    (forall e, In e (c_trace c) -> ~ is_write e) /\
    (forall t r, In (ERet t r) (c_trace c) -> r = zeros) /\
    (exists th, nth_error (c_threads c) w = Some th /\ th_pc th = PDead).
  Proof.
    intros c Hin. pose proof (reach_inv progs s) as HI. fold c in HI.
    assert (Ho : c_once c = ODone).
    { destruct HI as [_ _ HTr]. destruct (c_once c); simpl in HTr; auto; exfalso.
      - destruct HTr as (HTr & _). rewrite Forall_forall in HTr. apply (HTr _ Hin).
      - destruct HTr as (HP & _). rewrite Forall_forall in HP. apply (HP _ Hin). }
    destruct (inv_done _ HI Ho) as (w' & f & H1 & H2 & H3 & H4 & H5).
    destruct (f_aborts f) eqn:Hab.
    - destruct H5 as (Hina & Hnw & Hdead).
      assert (w' = w) as ->.
      { (* only one abort event: the one of the thread that started *)
        destruct HI as [_ _ HTr]. rewrite Ho in HTr. simpl in HTr.
        destruct HTr as (post & pre & w0 & f0 & e & E & Hpost & Hpre & Hst & _ & _ & Hcase).
        rewrite E in H1, Hin. destruct (post_only _ Hpost) as (S0 & _ & Hpw).
        change (e :: pre) with ([e] ++ pre) in H1. rewrite !starts_app, S0, Hst in H1.
        apply in_app_iff in Hin as [Hin|[Hin|Hin]].
        - exfalso. apply (Hpw _ Hin). exact I.
        - destruct Hcase as [(-> & _)|(-> & _)]; [discriminate|]. injection Hin as ->.
          simpl in H1. injection H1 as -> _. reflexivity.
        - rewrite Forall_forall in Hpre. destruct (Hpre _ Hin). }
      split; [exact Ho|]. split; [rewrite H3; apply outcome_abort; exact Hab|].
      split; [exists f; auto|]. split; [exact H2|]. split; [exact Hnw|].
      split; [intros t r Hr; rewrite (H4 _ _ Hr); apply outcome_abort; exact Hab|exact Hdead].
    - exfalso. destruct HI as [_ _ HTr]. rewrite Ho in HTr. simpl in HTr.
      destruct HTr as (post & pre & w0 & f0 & e & E & Hpost & Hpre & Hst & _ & _ & Hcase).
      rewrite E in H1, Hin. destruct (post_only _ Hpost) as (S0 & _ & Hpw).
      change (e :: pre) with ([e] ++ pre) in H1. rewrite !starts_app, S0, Hst in H1.
      apply in_app_iff in Hin as [Hin|[Hin|Hin]].
      + apply (Hpw _ Hin). exact I.
      + destruct Hcase as [(-> & _)|(-> & Hab0 & _)]; [discriminate|].
        simpl in H1. injection H1 as E1 E2. subst. congruence.
      + rewrite Forall_forall in Hpre. destruct (Hpre _ Hin).
  Qed.

  (* lock discipline: plain writes only while the writer owns Running, plain
     reads only after ODone; hence never two conflicting accesses enabled *)
  Theorem access_discipline progs s t a :
    let c := run (init progs) s in
    next_access c t = Some a ->
    match a with AWrite i => c_once c = Running t /\ i < arity | ARead i => c_once c = ODone /\ i < arity end.
  Proof.
    intros c Ha. pose proof (reach_inv progs s) as HI. fold c in HI.
    unfold Once.next_access in Ha. destruct (nth_error (c_threads c) t) as [th|] eqn:Hn; [|discriminate].
    destruct (inv_threads _ HI _ _ Hn) as (Hpc & _).
    destruct (th_pc th) as [|f|f k|res i|acc|]; try discriminate.
    - destruct (i <? arity) eqn:L; [|discriminate]. injection Ha as <-. apply Nat.ltb_lt in L. destruct Hpc as (-> & _). auto.
    - destruct (length acc <? arity) eqn:L; [|discriminate]. injection Ha as <-. apply Nat.ltb_lt in L. destruct Hpc as (-> & _). auto.
  Qed.

  Theorem no_plain_race progs s t1 t2 a1 a2 :
    let c := run (init progs) s in
    t1 <> t2 -> next_access c t1 = Some a1 -> next_access c t2 = Some a2 ->
    exists i j, a1 = ARead i /\ a2 = ARead j.
  Proof.
    intros c N H1 H2.
    pose proof (access_discipline progs s t1 a1 H1) as D1.
    pose proof (access_discipline progs s t2 a2 H2) as D2. fold c in D1, D2.
    destruct a1 as [i|i], a2 as [j|j]; destruct D1 as (O1 & _), D2 as (O2 & _); try congruence.
    exists i, j. auto.
  Qed.

  Lemma threads_done_dec (ths : list (thread V)) :
    (forall t th, nth_error ths t = Some th -> th_pc th = PDead \/ (th_pc th = PIdle /\ th_prog th = [])) \/
    exists t th, nth_error ths t = Some th /\ ~ (th_pc th = PDead \/ (th_pc th = PIdle /\ th_prog th = [])).
  Proof.
    induction ths as [|x r [IH|(t & th & Hn & Hx)]].
    - left; intros [|t] th H; discriminate.
    - destruct x as [p q rs].
      assert (Dx : (q = PDead \/ (q = PIdle /\ p = [])) \/ ~ (q = PDead \/ (q = PIdle /\ p = []))).
      { destruct q; try (right; intros [A|(A & B)]; discriminate); [|left; left; reflexivity].
        destruct p; [left; right; auto|right; intros [A|(A & B)]; discriminate]. }
      destruct Dx as [Dx|Dx].
      + left. intros [|t] th H; simpl in H; [injection H as <-; exact Dx|eauto].
      + right. exists 0. eexists. split; [reflexivity|exact Dx].
    - right; exists (S t), th; auto.
  Qed.

  (* progress: the machine never deadlocks before every call has returned
     (or its goroutine is gone); in particular callers waiting while the
     function aborts are released *)
  Theorem no_deadlock progs s :
    let c := run (init progs) s in
    finished c \/ exists t c', step c t = Some c'.
  Proof.
    intros c. pose proof (reach_inv progs s) as HI. fold c in HI.
    destruct (c_once c) as [|w|] eqn:Ho.
    2:{ (* Running w: w itself can move *)
      right. exists w. destruct HI as [_ _ HTr]. rewrite Ho in HTr. simpl in HTr.
      destruct HTr as (_ & f & th & _ & Hn & Hpc). unfold Once.step. rewrite Hn.
      destruct (th_pc th) as [|f0|f0 [|k]|res i|acc|]; try contradiction; try (eexists; reflexivity).
      - destruct (f_aborts f0); eexists; reflexivity.
      - destruct (i <? arity); eexists; reflexivity. }
    all: destruct (threads_done_dec (c_threads c)) as [F|(t & th & Hn & Hx)]; [left; exact F|right].
    all: exists t; unfold Once.step; rewrite Hn, Ho.
    all: destruct (th_pc th) as [|f0|f0 [|k]|res i|acc|] eqn:Hpc; try (eexists; reflexivity).
    all: try (destruct (th_prog th) eqn:Hp; [exfalso; apply Hx; auto|eexists; reflexivity]).
    all: try (destruct (f_aborts f0); eexists; reflexivity).
    all: try (destruct (i <? arity); eexists; reflexivity).
    all: try (destruct (length acc <? arity); eexists; reflexivity).
    all: try (exfalso; apply Hx; auto).
  Qed.

  (* finished runs: if anybody called Do at all, exactly one function was started, and it completed
     exactly once unless it aborted *)
  Theorem finished_exactly_one progs s :
    let c := run (init progs) s in
    finished c -> (exists t f, In (EInv t f) (c_trace c)) ->
    length (starts (c_trace c)) = 1 /\
    exists w f, starts (c_trace c) = [(w, f)] /\ fins (c_trace c) = (if f_aborts f then [] else [(w, f_res f)]).
  Proof.
    intros c Hfin (t0 & f0 & Hinv). pose proof (reach_inv progs s) as HI. fold c in HI.
    destruct (c_once c) eqn:Ho.
    - exfalso. destruct HI as [_ _ HTr]. rewrite Ho in HTr. destruct HTr as (_ & _ & Hent).
      destruct (Hent _ _ Hinv) as (th & f' & Hn & Hp).
      destruct (Hfin _ _ Hn) as [A|(A & _)]; congruence.
    - exfalso. destruct HI as [_ _ HTr]. rewrite Ho in HTr. destruct HTr as (_ & f & th & _ & Hn & Hpc).
      destruct (Hfin _ _ Hn) as [A|(A & _)]; rewrite A in Hpc; exact Hpc.
    - destruct (inv_done _ HI Ho) as (w & f & H1 & H2 & _). rewrite H1. split; [reflexivity|]. exists w, f. auto.
  Qed.

  (* ---- termination: every step decreases a measure, so every run can be completed ---- *)

  Definition pc_cost (p : pc V) : nat :=
    match p with
    | PIdle => 0
    | PEnter f => f_steps f + 2 * arity + 5
    | PRun _ k => k + 2 * arity + 4
    | PWrite _ i => (arity - i) + arity + 3
    | PRead acc => (arity - length acc) + 1
    | PDead => 0
    end.

  Definition thread_cost (th : thread V) : nat :=
    match th_pc th with
    | PDead => 0
    | p => pc_cost p + fold_right (fun f acc => f_steps f + 2 * arity + 6 + acc) 0 (th_prog th)
    end.

  Definition cost (c : config V) : nat := fold_right (fun th acc => thread_cost th + acc) 0 (c_threads c).

  Lemma cost_set (ths : list (thread V)) t th th' :
    nth_error ths t = Some th -> thread_cost th' < thread_cost th ->
    fold_right (fun th acc => thread_cost th + acc) 0 (set_thread ths t th') <
    fold_right (fun th acc => thread_cost th + acc) 0 ths.
  Proof.
    revert t; induction ths as [|x r IH]; intros [|t] H L; simpl in *; try discriminate.
    - injection H as ->. lia.
    - specialize (IH _ H L). lia.
  Qed.

  Theorem step_decreases c t c' : step c t = Some c' -> cost c' < cost c.
  Proof.
    unfold Once.step. destruct (nth_error (c_threads c) t) as [th|] eqn:Hth; [|discriminate].
    destruct th as [prog p rets]; simpl.
    destruct p as [|f|f [|k]|res i|acc|].
    - destruct prog as [|f rest]; [discriminate|]. intros [= <-]. unfold cost; simpl.
      eapply cost_set; eauto; unfold thread_cost; simpl; lia.
    - destruct (c_once c); [|discriminate|]; intros [= <-]; unfold cost; simpl;
        eapply cost_set; eauto; unfold thread_cost; simpl; lia.
    - destruct (f_aborts f); intros [= <-]; unfold cost; simpl;
        eapply cost_set; eauto; unfold thread_cost; simpl; lia.
    - intros [= <-]. unfold cost; simpl. eapply cost_set; eauto; unfold thread_cost; simpl; lia.
    - destruct (i <? arity) eqn:L; intros [= <-]; unfold cost; simpl;
        eapply cost_set; eauto; unfold thread_cost; simpl; [apply Nat.ltb_lt in L|]; lia.
    - destruct (length acc <? arity) eqn:L; intros [= <-]; unfold cost; simpl;
        eapply cost_set; eauto; unfold thread_cost; simpl.
      + apply Nat.ltb_lt in L. rewrite app_length. simpl. lia.
      + lia.
    - discriminate.
  Qed.

  Lemma run_app s1 s2 : forall c : config V, run c (s1 ++ s2) = run (run c s1) s2.
  Proof. induction s1 as [|t s1 IH]; intro c; simpl; auto. Qed.

  (* every run can be extended to a finished one (in at most [cost] further steps) *)
  Theorem can_finish progs s : exists s2, finished (run (init progs) (s ++ s2)).
  Proof.
    remember (cost (run (init progs) s)) as n eqn:En. revert s En.
    induction n as [n IH] using lt_wf_ind. intros s En.
    destruct (no_deadlock progs s) as [F|(t & c' & Hs)].
    - exists []. rewrite app_nil_r. exact F.
    - pose proof (step_decreases _ _ _ Hs) as Hlt.
      assert (E : run (init progs) (s ++ [t]) = c').
      { rewrite run_app. simpl. rewrite Hs. reflexivity. }
      destruct (IH (cost c') ltac:(lia) (s ++ [t]) ltac:(rewrite E; reflexivity)) as (s2 & F).
      exists (t :: s2). rewrite <- app_assoc in F. exact F.
  Qed.
End OnceProofs.
