(* MODEL of sync2/once.go (Once1, Once2, Once3) on top of an abstract machine
   for sync.Once. Definitions only.

   Go source (arity 2 shown; Once1/Once3 are the same with one/three fields):

     func (o *Once2[R1, R2]) Do(f func() (R1, R2)) (R1, R2) {
         o.once.Do(func() {
             o.R1, o.R2 = f()        // plain writes of the shared fields
         })
         return o.R1, o.R2           // plain reads of the shared fields
     }

   TRUSTED abstract machine for sync.Once (its documented contract):
     state  NotStarted | Running t | ODone
     once.Do(g) by thread t:   ODone       -> return at once
                               NotStarted  -> Running t; run g; then ODone; return
                               Running t'  -> t is disabled until the state is ODone
   The user function f is an arbitrary finite sequence of [f_steps] opaque
   steps (its own effects; they appear in the trace as [EUser]) ending in a
   result tuple [f_res] -- or, when [f_aborts] is set, ending WITHOUT
   returning: the function panics (the panic propagates to the caller of Do)
   or calls runtime.Goexit. For sync.Once both are the same: its deferred
   `o.done.Store(1)` and `o.m.Unlock()` still run, so the Once is consumed
   although `o.R = f()` never assigned anything. The goroutine that made the
   call is then gone as far as this Once is concerned ([PDead]: it makes no
   further calls; a caller that recovers the panic and goes on is the same as
   another thread arriving later). Every caller may pass a different function.
   f does not call Do on the same object (assumption of the check).

   Atomic steps of one call of Do by thread t (program counter [pc]):
     PIdle        -> PEnter f       the call is invoked                       EInv
     PEnter f     -> PRun f n       once.Do found NotStarted; now Running t   EStart
                  -> PRead []       once.Do found ODone                       EPass
                  -> (disabled)     once.Do found Running t'
     PRun f (S k) -> PRun f k       one step of the user function             EUser
     PRun f 0     -> PWrite res 0   f returns res                             EFin
                  -> PDead          f panics / Goexits: the Once becomes ODone,
                                    nothing is written, this caller never returns  EAbort
     PWrite res i -> PWrite res i+1 plain write o.R(i+1) = res[i]   (i < arity) EWrite
     PWrite res a -> PRead []       once.Do returns: state becomes ODone      EDone
     PRead acc    -> PRead acc++[R(i)]  plain read of o.R(i+1)      (i < arity) ERead
     PRead acc    -> PIdle          Do returns acc              (|acc| = arity) ERet
   The write and read steps do NOT consult the once state: that they only
   happen in Running t / ODone is a theorem (OnceProofs.v), not built in. *)
From Typ Require Export Lib.Base.

Definition tid := nat.

Section OnceModel.
  Variable V : Type.
  Variable zero : V.          (* the zero value of the result types *)
  Variable arity : nat.       (* 1 for Once1, 2 for Once2, 3 for Once3 *)

  Record ufun := UFun { f_steps : nat; f_res : list V; f_aborts : bool }.

  Inductive ostate := NotStarted | Running (t : tid) | ODone.

  Inductive pc :=
  | PIdle
  | PEnter (f : ufun)
  | PRun (f : ufun) (k : nat)
  | PWrite (res : list V) (i : nat)
  | PRead (acc : list V)
  | PDead.

  Inductive event :=
  | EInv (t : tid) (f : ufun)
  | EStart (t : tid) (f : ufun)
  | EUser (t : tid) (k : nat)
  | EFin (t : tid) (res : list V)
  | EWrite (t : tid) (i : nat) (v : V)
  | EDone (t : tid)
  | EAbort (t : tid)
  | EPass (t : tid)
  | ERead (t : tid) (i : nat) (v : V)
  | ERet (t : tid) (r : list V).

  Record thread := Thread {
    th_prog : list ufun;          (* the functions of the Do calls still to make *)
    th_pc : pc;
    th_rets : list (list V)       (* tuples returned by the finished calls, oldest first *)
  }.

  Record config := Config {
    c_once : ostate;
    c_R : list V;                 (* the fields R1..R(arity) *)
    c_threads : list thread;      (* thread t is the t-th element *)
    c_trace : list event          (* ghost: newest event first *)
  }.

  (* l[i] = v on a list used as a fixed-size array of fields *)
  Fixpoint upd (i : nat) (v : V) (l : list V) : list V :=
    match l, i with
    | [], _ => []
    | _ :: l', O => v :: l'
    | x :: l', S i' => x :: upd i' v l'
    end.

  Fixpoint set_thread (ths : list thread) (t : tid) (th : thread) : list thread :=
    match ths, t with
    | [], _ => []
    | _ :: r, O => th :: r
    | x :: r, S t' => x :: set_thread r t' th
    end.

  Definition step (c : config) (t : tid) : option config :=
    match nth_error (c_threads c) t with
    | None => None
    | Some th =>
      let put o R th' e := Some (Config o R (set_thread (c_threads c) t th') (e :: c_trace c)) in
      match th_pc th with
      | PIdle =>
          match th_prog th with
          | [] => None
          | f :: rest => put (c_once c) (c_R c) (Thread rest (PEnter f) (th_rets th)) (EInv t f)
          end
      | PEnter f =>
          match c_once c with
          | NotStarted => put (Running t) (c_R c) (Thread (th_prog th) (PRun f (f_steps f)) (th_rets th)) (EStart t f)
          | Running _ => None
          | ODone => put ODone (c_R c) (Thread (th_prog th) (PRead []) (th_rets th)) (EPass t)
          end
      | PRun f (S k) => put (c_once c) (c_R c) (Thread (th_prog th) (PRun f k) (th_rets th)) (EUser t k)
      | PRun f O =>
          if f_aborts f then put ODone (c_R c) (Thread (th_prog th) PDead (th_rets th)) (EAbort t)
          else put (c_once c) (c_R c) (Thread (th_prog th) (PWrite (f_res f) 0) (th_rets th)) (EFin t (f_res f))
      | PWrite res i =>
          if i <? arity then
            let v := nth i res zero in
            put (c_once c) (upd i v (c_R c)) (Thread (th_prog th) (PWrite res (S i)) (th_rets th)) (EWrite t i v)
          else put ODone (c_R c) (Thread (th_prog th) (PRead []) (th_rets th)) (EDone t)
      | PRead acc =>
          if length acc <? arity then
            let v := nth (length acc) (c_R c) zero in
            put (c_once c) (c_R c) (Thread (th_prog th) (PRead (acc ++ [v])) (th_rets th)) (ERead t (length acc) v)
          else put (c_once c) (c_R c) (Thread (th_prog th) PIdle (th_rets th ++ [acc])) (ERet t acc)
      | PDead => None
      end
    end.

  (* A schedule names the thread that moves next; entries naming a disabled
     (blocked, finished or non-existent) thread are skipped. *)
  Fixpoint run (c : config) (s : list tid) : config :=
    match s with
    | [] => c
    | t :: s' => run (match step c t with Some c' => c' | None => c end) s'
    end.

  (* One thread per program; a program is the list of functions its
     successive Do calls pass. *)
  Definition init (progs : list (list ufun)) : config :=
    Config NotStarted (repeat zero arity) (map (fun p => Thread p PIdle []) progs) [].

  (* The plain (non-atomic) memory access thread t's next step performs. *)
  Inductive access := AWrite (field : nat) | ARead (field : nat).
  Definition next_access (c : config) (t : tid) : option access :=
    match nth_error (c_threads c) t with
    | None => None
    | Some th =>
      match th_pc th with
      | PWrite _ i => if i <? arity then Some (AWrite i) else None
      | PRead acc => if length acc <? arity then Some (ARead (length acc)) else None
      | _ => None
      end
    end.

  (* Projections of the trace used by the theorems. *)
  Definition starts (tr : list event) : list (tid * ufun) :=
    flat_map (fun e => match e with EStart t f => [(t, f)] | _ => [] end) tr.
  Definition fins (tr : list event) : list (tid * list V) :=
    flat_map (fun e => match e with EFin t r => [(t, r)] | _ => [] end) tr.

  (* The first [arity] components of a result, padded with zero: what the
     field writes store. Equal to the result itself when it has [arity]
     components, which Go's type checker guarantees. *)
  Definition tuple (res : list V) : list V := map (fun i => nth i res zero) (seq 0 arity).

  (* Events of the invocation of f and of the bookkeeping of the winner. *)
  Definition is_work (e : event) : Prop :=
    match e with EStart _ _ | EUser _ _ | EFin _ _ | EWrite _ _ _ | EDone _ | EAbort _ => True | _ => False end.
  Definition is_write (e : event) : Prop := match e with EWrite _ _ _ => True | _ => False end.

  (* what every Do call returns once function f was the one invoked *)
  Definition outcome_tuple (f : ufun) : list V := if f_aborts f then repeat zero arity else tuple (f_res f).

  Definition finished (c : config) : Prop :=
    forall t th, nth_error (c_threads c) t = Some th -> th_pc th = PDead \/ (th_pc th = PIdle /\ th_prog th = []).
End OnceModel.

Arguments UFun {V}.
Arguments f_steps {V}.
Arguments f_res {V}.
Arguments f_aborts {V}.
Arguments PIdle {V}.
Arguments PEnter {V}.
Arguments PRun {V}.
Arguments PWrite {V}.
Arguments PRead {V}.
Arguments PDead {V}.
Arguments EInv {V}.
Arguments EStart {V}.
Arguments EUser {V}.
Arguments EFin {V}.
Arguments EWrite {V}.
Arguments EDone {V}.
Arguments EAbort {V}.
Arguments EPass {V}.
Arguments ERead {V}.
Arguments ERet {V}.
Arguments Thread {V}.
Arguments th_prog {V}.
Arguments th_pc {V}.
Arguments th_rets {V}.
Arguments Config {V}.
Arguments c_once {V}.
Arguments c_R {V}.
Arguments c_threads {V}.
Arguments c_trace {V}.
Arguments upd {V}.
Arguments set_thread {V}.
Arguments step {V}.
Arguments run {V}.
Arguments init {V}.
Arguments next_access {V}.
Arguments starts {V}.
Arguments fins {V}.
Arguments tuple {V}.
Arguments is_work {V}.
Arguments is_write {V}.
Arguments outcome_tuple {V}.
Arguments finished {V}.
