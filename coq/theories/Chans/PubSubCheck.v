(* Correspondence check for C10. The harness runs a scenario on the real
   chans.PubSub: a few goroutines with fixed programs (a main goroutine that
   subscribes / publishes / unsubscribes, one receiver per channel), released
   in PHASES by harness-owned gates (phase j: the listed threads, and every
   sender goroutine started so far, run until nothing moves any more). The
   blocking happens inside the Go runtime, so inside a phase the schedule is
   not ours; the check is outcome-set inclusion, done in two ways:
   * [run_case] drives the MODEL [PubSubModel.step] phase by phase along a
     schedule built from the observation (a sender may hand over only the
     value that the observed receive order of its channel expects next, takes
     the timer branch when its value was never received, and otherwise
     waits), and the model's outcome (every call's result for every thread, the
     multiset of OnPubTimeout calls, panic) must be exactly the observed one;
     calls the harness saw returned by the end of a phase must have returned
     in the model by then (one-sided).
   * for tiny scenarios ([c_explore]) EVERY schedule of the machine that
     respects the phases is explored (with fuel) and the observation must be
     among the final outcomes.
   Definitions only. *)
From Typ Require Export Lib.Base Chans.PubSubModel.

(* calls with Z fields (shards are written in Z_scope); a channel -1 is nil *)
Inductive zcall :=
| ZPubOne (w : wkind) (o ev : Z)
| ZPubSlice (w : wkind) (o : Z) (evs : list Z)
| ZWithOnly (o sub : Z)
| ZSub (o : Z)
| ZSubBuf (o size : Z)
| ZUnsub (o sub : Z)
| ZUnsubAll (o : Z)
| ZRecv (c : Z)
| ZRange (c : Z).

Definition zsub (s : Z) : option cid := if (s <? 0)%Z then None else Some (Z.to_nat s).

Definition of_zcall (z : zcall) : call :=
  match z with
  | ZPubOne w o ev => CPubOne w (Z.to_nat o) ev
  | ZPubSlice w o evs => CPubSlice w (Z.to_nat o) evs
  | ZWithOnly o s => CWithOnly (Z.to_nat o) (zsub s)
  | ZSub o => CSub (Z.to_nat o)
  | ZSubBuf o n => CSubBuf (Z.to_nat o) n
  | ZUnsub o s => CUnsub (Z.to_nat o) (zsub s)
  | ZUnsubAll o => CUnsubAll (Z.to_nat o)
  | ZRecv c => CRecv (Z.to_nat c)
  | ZRange c => CRange (Z.to_nat c)
  end.

Record case := Case {
  c_timeout : Z;                       (* PubTimeoutAfter (only its sign matters to the model) *)
  c_cbset : bool;                      (* OnPubTimeout != nil *)
  c_defbuf : Z;
  c_progs : list (list zcall);         (* thread programs *)
  c_phases : list (list Z);            (* per phase: the program threads released so far *)
  c_exp : list (list Z);               (* observed, per channel in creation order: the values received from it, in order *)
  c_obs_rets : list (list (list Z));   (* observed, per thread: the encoded result of every call that returned *)
  c_obs_timeouts : list Z;             (* observed: events passed to OnPubTimeout, sorted *)
  c_obs_panic : Z;                     (* observed: 0 = no panic; the process died with 1 = "send on closed channel",
                                          2 = "close of closed channel", 3 = any other panic *)
  c_obs_returned : list (Z * Z * Z);   (* observed: (phase, thread, n): n calls had returned when the phase ended *)
  c_explore : bool                     (* tiny scenario: also explore every schedule *)
}.

(* ---- outcome ---- *)

Definition enc_ret (r : ret) : list Z :=
  match r with
  | RUnit => [0%Z]
  | RChan c => [1%Z; Z.of_nat c]
  | RView o => [2%Z; Z.of_nat o]
  | RNil => [3%Z]
  | RErr ErrAlreadyUnsubscribed => [4%Z]
  | RErr ErrSubscriptionNotInitalized => [5%Z]
  | RRecv v ok => [6%Z; v; if ok then 1%Z else 0%Z]
  | RRange vs => 7%Z :: vs
  end.

Fixpoint insert_z (x : Z) (l : list Z) : list Z :=
  match l with
  | [] => [x]
  | y :: l' => if (x <=? y)%Z then x :: l else y :: insert_z x l'
  end.
Definition sort_z (l : list Z) : list Z := fold_right insert_z [] l.

Definition callbacks (tr : list event) : list Z :=
  flat_map (fun e => match e with ECallback _ p => [p_ev p] | _ => [] end) tr.

Definition panic_code (p : option ppanic) : Z :=
  match p with
  | None => 0%Z
  | Some PSendOnClosed => 1%Z
  | Some PCloseOfClosed => 2%Z
  | Some _ => 3%Z
  end.

Definition outcome := (list (list (list Z)) * list Z * Z)%type.

Definition outcome_of (nprogs : nat) (c : config) : outcome :=
  (map (fun th => map enc_ret (th_rets th)) (firstn nprogs (c_threads c)),
   sort_z (callbacks (c_trace c)),
   panic_code (c_panic c)).

Definition zll_eqb := list_eqb (list_eqb Z.eqb).

(* a panicking process has no results to compare *)
Definition outcome_eqb (a b : outcome) : bool :=
  let '(ra, ta, pa) := a in
  let '(rb, tb, pb) := b in
  Z.eqb pa pb && (negb (pa =? 0)%Z || (list_eqb zll_eqb ra rb && list_eqb Z.eqb ta tb)).

(* ---- guided run ---- *)

Definition handed (ci : cid) (tr : list event) : nat :=
  length (filter (fun e => match e with EHandoff _ p => p_sub p =? ci | _ => false end) tr).

(* the pair a thread is about to send, the timeout in force, and whether the sender is a
   Sync publisher (which resolves its pairs strictly in order) *)
Definition at_send (c : config) (th : thread) : option (pair * Z * bool) :=
  match th_pc th with
  | PGoSend _ p timeout _ _ => Some (p, timeout, false)
  | PLoop k o (p :: _) =>
      match snd (k_var k), nth_error (c_objs c) o with
      | Sync, Some ob => Some (p, o_timeout ob, true)
      | _, _ => None
      end
  | _ => None
  end.

Definition find_receiver (c : config) (allowed : list tid) (ci : cid) : option tid :=
  find (fun r => match nth_error (c_threads c) r with
                 | Some thr => ocid_eqb (recv_target thr) ci
                 | None => false
                 end) allowed.

(* the choice a sender makes under the observation [exp]; None = it waits.
   A sender whose value is not the next one its channel expects waits for the
   other senders if its value is expected later, and takes the timer branch
   otherwise; an in-order (Sync) sender cannot wait for anybody: with a positive
   timeout it takes the timer branch at once (its value was received, if at
   all, from a later pair with the same value). *)
Definition guide (c : config) (allowed : list tid) (exp : list (list Z)) (p : pair) (timeout : Z) (ordered : bool)
  : option choice :=
  let ci := p_sub p in
  match nth_error (c_chans c) ci with
  | None => None
  | Some chn =>
    if ch_closed chn then Some Plain else
    let rest := skipn (handed ci (c_trace c)) (nth ci exp []) in
    match rest with
    | v :: _ =>
        if (v =? p_ev p)%Z then
          if ch_cap chn =? 0 then
            match find_receiver c allowed ci with Some r => Some (With r) | None => None end
          else Some Plain
        else if (0 <? timeout)%Z && (ordered || negb (existsb (Z.eqb (p_ev p)) rest)) then Some Timer else None
    | [] => if (0 <? timeout)%Z then Some Timer else None
    end
  end.

Definition guided_step (c : config) (allowed : list tid) (exp : list (list Z)) (t : tid) : option config :=
  match nth_error (c_threads c) t with
  | None => None
  | Some th =>
    match at_send c th with
    | Some (p, timeout, ordered) =>
        match guide c allowed exp p timeout ordered with
        | Some ch => step c t ch
        | None => None
        end
    | None => step c t Plain
    end
  end.

Fixpoint first_step (c : config) (allowed : list tid) (exp : list (list Z)) (cands : list tid) : option config :=
  match cands with
  | [] => None
  | t :: rest =>
      match guided_step c allowed exp t with
      | Some c' => Some c'
      | None => first_step c allowed exp rest
      end
  end.

(* run the released program threads and all goroutines until nothing moves *)
Fixpoint drive (fuel : nat) (nprogs : nat) (allowed : list tid) (exp : list (list Z)) (c : config) : config * bool :=
  match fuel with
  | O => (c, false)
  | S f =>
    let cands := allowed ++ seq nprogs (length (c_threads c) - nprogs) in
    match first_step c allowed exp cands with
    | None => (c, true)
    | Some c' => drive f nprogs allowed exp c'
    end
  end.

(* configurations at the end of every phase, and whether the fuel sufficed *)
Fixpoint run_phases (fuel nprogs : nat) (phases : list (list tid)) (exp : list (list Z)) (c : config)
  : list config * bool :=
  match phases with
  | [] => ([], true)
  | ph :: rest =>
      let '(c1, ok1) := drive fuel nprogs ph exp c in
      let '(cs, ok2) := run_phases fuel nprogs rest exp c1 in
      (c1 :: cs, ok1 && ok2)
  end.

Definition init_of (cs : case) : config :=
  init (c_timeout cs) (c_cbset cs) (c_defbuf cs) (map (map of_zcall) (c_progs cs)).

Definition run_case (cs : case) : list config * bool :=
  run_phases 400 (length (c_progs cs)) (map (map Z.to_nat) (c_phases cs)) (c_exp cs) (init_of cs).

Definition returned_ok (confs : list config) (e : Z * Z * Z) : bool :=
  let '(ph, t, n) := e in
  match nth_error confs (Z.to_nat ph) with
  | None => false
  | Some c =>
    match c_panic c, nth_error (c_threads c) (Z.to_nat t) with
    | Some _, _ => true
    | None, Some th => Z.to_nat n <=? length (th_rets th)
    | None, None => false
    end
  end.

(* ---- exhaustive exploration of tiny scenarios ---- *)

(* Every schedule that respects the phases: inside a phase every enabled step
   of a released thread or of a sender goroutine, with every choice (buffer,
   timer, every released receiver as rendezvous partner), is followed; when
   nothing is enabled the next phase begins. *)
Definition choices_of (c : config) (allowed : list tid) (th : thread) : list choice :=
  match at_send c th with
  | Some _ => Plain :: Timer :: map With allowed
  | None => [Plain]
  end.

Definition successors (nprogs : nat) (allowed : list tid) (c : config) : list config :=
  flat_map (fun t =>
    match nth_error (c_threads c) t with
    | None => []
    | Some th => flat_map (fun ch => match step c t ch with Some c' => [c'] | None => [] end) (choices_of c allowed th)
    end) (allowed ++ seq nprogs (length (c_threads c) - nprogs)).

(* Some true: a final configuration with outcome [obs] is reachable;
   Some false: none is; None: out of fuel. *)
Fixpoint explore (fuel nprogs : nat) (obs : outcome) (allowed : list tid) (rest : list (list tid)) (c : config)
  : option bool :=
  match fuel with
  | O => None
  | S f =>
    match successors nprogs allowed c with
    | [] =>
        match rest with
        | [] => Some (outcome_eqb (outcome_of nprogs c) obs)
        | ph :: rest' => explore f nprogs obs ph rest' c
        end
    | succs =>
        fold_left (fun acc c' =>
          match acc with
          | Some true => Some true
          | None => None
          | Some false => explore f nprogs obs allowed rest c'
          end) succs (Some false)
    end
  end.

Definition check_case (cs : case) : bool :=
  let nprogs := length (c_progs cs) in
  let obs : outcome := (c_obs_rets cs, c_obs_timeouts cs, c_obs_panic cs) in
  let '(confs, fuel_ok) := run_case cs in
  fuel_ok &&
  outcome_eqb (outcome_of nprogs (last confs (init_of cs))) obs &&
  forallb (returned_ok confs) (c_obs_returned cs) &&
  (if c_explore cs then
     match explore 200 nprogs obs [] (map (map Z.to_nat) (c_phases cs)) (init_of cs) with
     | Some true => true
     | _ => false
     end
   else true).
