(* Correspondence check for C19.  A case is a scenario the harness staged around
   one call of a real chans helper: the channel before the call, the schedule
   of environment actions and helper steps the scenario forces, and what was
   observed afterwards (result, channel contents, what the partner goroutine
   received).  [check_case] runs the model machine on the same scenario.  Where
   a select may find both branches ready the property allows either outcome:
   such cases have c_exact = false and the observation must equal the model's
   outcome for one of the two choices; in exact cases it must equal both.
   The schedule (c_sched) of a case is ASSERTED by the harness from the way it
   staged the scenario, not observed: exact scenarios are those whose outcome is
   the same for every timing, so any consistent schedule will do.  What the
   harness does observe on the way (a partner goroutine parked on the channel,
   read off runtime.Stack; len(ch)) is recorded as SExpect actions, which the
   model run must agree with.
   Definitions only. *)
From Typ Require Export Lib.Base Lib.Chan Chans.Helpers.

Inductive fn := FSendTimeout | FSendContext | FRecvTimeout | FRecvContext | FRecvQueued | FRecvQueuedFull.

(* scenario actions *)
Inductive sact :=
| SHelp (n : Z)   (* the helper gets the chance to take up to n steps *)
| SSend (v : Z)   (* a partner goroutine sends v *)
| SRecv           (* a partner goroutine receives *)
| SClose          (* a partner closes the channel *)
| SDone           (* the timer fires / the context is cancelled *)
| SExpect (nbuf nsend nrecv : Z). (* the harness OBSERVED at this point: nbuf values buffered (len(ch)), nsend partner
                                     goroutines parked in a send, nrecv parked in a receive (read off runtime.Stack) *)

Inductive ores :=
| OBool (b : bool) | ORecv (v : Z) (ok : bool) | OList (l : list Z) | OFull (n : Z) (buf : list Z)
| OPanic (k : panic_kind) | OBlocked.

Record case := Case {
  c_fn : fn;
  c_cap : Z;             (* channel before the call *)
  c_fill : list Z;
  c_closed : bool;
  c_done : bool;         (* context already cancelled at the call *)
  c_value : Z;           (* value to send (send helpers) *)
  c_arg : Z;             (* timeout in ns (timed helpers) / maxValues (RecvQueued) *)
  c_slice : list Z;      (* buf argument of RecvQueuedFull *)
  c_sched : list sact;
  c_exact : bool;
  c_res : ores;          (* observed *)
  c_left : list Z;       (* channel contents after the call (drained by the harness) *)
  c_closed_after : bool;
  c_env_rcvd : list Z    (* values the partner goroutines received, in order *)
}.

Definition entry (c : case) : pc Z :=
  match c_fn c with
  | FSendTimeout => SendTimeout (c_value c) (c_arg c)
  | FSendContext => SendContext (c_value c)
  | FRecvTimeout => RecvTimeout (c_arg c)
  | FRecvContext => RecvContext
  | FRecvQueued => RecvQueued (c_arg c)
  | FRecvQueuedFull => RecvQueuedFull (c_slice c)
  end.

Definition interp (choice : bool) (a : sact) : list (action Z) :=
  match a with
  | SHelp n => repeat (AHelp choice) (Z.to_nat n)
  | SSend v => [AEnv (ESend v)]
  | SRecv => [AEnv ERecv]
  | SClose => [AEnv EClose]
  | SDone => [AEnv EDone]
  | SExpect _ _ _ => []
  end.

Definition expect_ok (w : world Z) (a : sact) : bool :=
  match a with
  | SExpect nb ns nr =>
      (Z.of_nat (length (buf (ch w))) =? nb)%Z && (Z.of_nat (length (sendq (ch w))) =? ns)%Z &&
      (Z.of_nat (recvq (ch w)) =? nr)%Z
  | _ => true
  end.

(* run the scenario action by action; the flag says whether every observation made on the way agreed *)
Fixpoint run_sched (choice : bool) (sched : list sact) (st : world Z * pc Z) (ok : bool) : world Z * pc Z * bool :=
  match sched with
  | [] => (st, ok)
  | a :: rest =>
      let st' := run 0%Z (interp choice a) st in
      run_sched choice rest st' (ok && expect_ok (fst st') a)
  end.

Definition world0 (c : case) : world Z :=
  World (Chan (c_fill c) (Z.to_nat (c_cap c)) (c_closed c) [] 0) (c_done c) [].

Definition ores_of (p : pc Z) : ores :=
  match p with
  | PRet (RBool b) => OBool b
  | PRet (RRecv v ok) => ORecv v ok
  | PRet (RList l) => OList l
  | PRet (RFull n b) => OFull (Z.of_nat n) b
  | PPanic k => OPanic k
  | _ => OBlocked
  end.

Definition ores_eqb (a b : ores) : bool :=
  match a, b with
  | OBool x, OBool y => Bool.eqb x y
  | ORecv v ok, ORecv v' ok' => Z.eqb v v' && Bool.eqb ok ok'
  | OList l, OList l' => list_eqb Z.eqb l l'
  | OFull n l, OFull n' l' => Z.eqb n n' && list_eqb Z.eqb l l'
  | OPanic k, OPanic k' => panic_kind_eqb k k'
  | OBlocked, OBlocked => true
  | _, _ => false
  end.

(* The model's outcome of the scenario when every two-way select takes [choice]. *)
Definition run_case (choice : bool) (c : case) : world Z * pc Z * bool :=
  run_sched choice (c_sched c) (world0 c, entry c) true.

(* Every partner goroutine has completed (the harness joins them all), so none
   may be left parked in the model either. *)
Definition agrees (c : case) (r : world Z * pc Z * bool) : bool :=
  let st := fst r in
  let w := fst st in
  snd r &&
  ores_eqb (ores_of (snd st)) (c_res c)
  && list_eqb Z.eqb (buf (ch w)) (c_left c)
  && Bool.eqb (closed (ch w)) (c_closed_after c)
  && list_eqb Z.eqb (rcvd_by Env (log w)) (c_env_rcvd c)
  && (length (sendq (ch w)) =? 0) && (recvq (ch w) =? 0).

Definition check_case (c : case) : bool :=
  if c_exact c then agrees c (run_case true c) && agrees c (run_case false c)
  else agrees c (run_case true c) || agrees c (run_case false c).
