(* MODEL of chans/pubsub.go (PubSub) as a small-step machine. Definitions only.

   Trusted abstract machines (stand for the Go runtime, not part of go-typ/typ):
   * channel  { buf; cap; closed }: a buffered send is enabled when |buf| < cap;
     on an unbuffered channel a send and a receive fire together as ONE
     rendezvous step (the sender's step names the waiting receiver); a send on
     a closed channel and a close of a closed channel panic (the whole process
     dies: [c_panic]); a receive on a closed and drained channel returns
     (zero,false); a receive takes the head of the buffer otherwise.
   * select { case ch <- v; case <-timer.C }: entered only with a positive
     timeout; the timer branch is an always enabled alternative (real time is
     abstracted to nondeterminism); the schedule's [choice] picks.
   * sync.RWMutex: [o_rd] the readers holding it, [o_wr] the writer holding
     it, [o_ww] the writer that has announced itself and waits for the
     readers to leave (who holds it is ghost information). RLock is enabled
     when there is no writer and no announced writer (Go: "a blocked Lock call
     excludes new readers"); Lock acquires at once when the lock is free,
     announces itself (-> PLockWait) when only readers hold it and nobody else
     is announced, and is disabled otherwise; the announced writer acquires
     when the last reader has left.
   * sync.WaitGroup: a counter; Wait is enabled at 0; Done at 0 panics.
   * go f(): appends a thread.

   Atomic steps: one per lock operation, channel operation (send/select,
   receive, close), wg.Add/Done/Wait, go statement, OnPubTimeout call; the
   thread-private code up to the next such action belongs to the step. A call
   is invoked by the step that performs its first action.

   Go source (abridged), with the program counters of this file:

     func (o) Pub(ev)            RLock [PIdle->PLoop]; for subs { go o.send(..) } [PLoop, one step each];
                                 RUnlock, return [PLoop []]
     func (o) PubSlice(evs)      same, pairs in order  for ev { for sub { go .. } }
     func (o) PubWait(ev)        var wg; RLock [->PAdd]; wg.Add(len(o.subs)) [PAdd->PLoop];
                                 for subs { go o.sendWaitGroup(..,&wg) }; RUnlock [->PWait]; wg.Wait() [PWait]
     func (o) PubSliceWait(evs)  same with wg.Add(len(o.subs)*len(evs))
     func (o) PubSync(ev)        RLock; for subs { o.send(..) } [PLoop: one send/select step, then
                                 PSyncCb when it timed out and OnPubTimeout != nil]; RUnlock
     func (o) PubSliceSync(evs)  same, pairs in order
     func (o) send(ev,sub,timeout,onTimeout)      if !SendTimeout(sub,ev,timeout) && onTimeout != nil { onTimeout(ev) }
     func (o) sendWaitGroup(..,wg)                o.send(..) [PGoSend, PGoCb]; wg.Done() [PGoDone]
     func SendTimeout(ch,value,timeout)           if timeout <= 0 { ch <- value; return true }
                                                  select { case ch <- value: true; case <-timer.C: false }
     func (o) WithOnly(sub)      RLock, build clone (loop over o.subs) [->PWithOnlyU]; RUnlock, return clone
     func (o) Sub()/SubBuf(n)    Lock, make(chan,n), append [->PSubU]; Unlock, return sub
     func (o) Unsub(sub)         sub == nil: return ErrSubscriptionNotInitalized [one step];
                                 Lock, idx := subIndex(sub) [->PUnsubClose idx | PUnsubU ErrAlreadyUnsubscribed];
                                 close(o.subs[idx]), splice [PUnsubClose->PUnsubU nil]; (deferred) Unlock, return
     func (o) UnsubAll()         Lock [->PUnsubAllLoop subs]; close(ch) for each [one step each];
                                 o.subs = nil, Unlock, return nil [PUnsubAllLoop []]
   Environment calls: CRecv c  (v, ok := <-c)   and  CRange c  (for v := range c {..}).

   Ghost log ([c_trace], newest first; it influences no step): ERLock (a publish
   call took the read lock: its PubSub, events and o.subs then), EHandoff,
   ETimeout (with "OnPubTimeout set"), ECallback, EDone (send() returned),
   EPubRet, ERecv, ESub, ELock / EUnlock (write lock taken / released by the
   n-th call of a thread, with o.subs then and the returned value), EClose,
   EViewLock / EViewRet (WithOnly's read lock taken / released), EPanic. *)
From Typ Require Export Lib.Base.

Definition tid := nat.
Definition cid := nat.
Definition oid := nat.

Inductive wkind := Async | Wait | Sync.
(* (is the slice variant, kind): Pub = (false,Async), PubSliceWait = (true,Wait), ... *)
Definition variant := (bool * wkind)%type.

(* A publish call: made by thread [k_tid] as its [k_n]-th call (from 0). *)
Record callid := CallId { k_tid : tid; k_n : nat; k_var : variant }.

(* One hand-off obligation of a publish call: (index of the event in the
   slice, event, subscriber channel). *)
Definition pair := (nat * Z * cid)%type.
Definition p_idx (p : pair) : nat := fst (fst p).
Definition p_ev (p : pair) : Z := snd (fst p).
Definition p_sub (p : pair) : cid := snd p.

Record chan := Chan { ch_buf : list Z; ch_cap : nat; ch_closed : bool }.

Record psobj := PsObj {
  o_subs : list cid;
  o_rd : list tid;            (* RWMutex: readers holding the lock *)
  o_wr : option tid;          (* RWMutex: writer holding the lock *)
  o_ww : option tid;          (* RWMutex: writer announced, waiting for the readers to leave *)
  o_timeout : Z;              (* PubTimeoutAfter *)
  o_cb : bool;                (* OnPubTimeout != nil *)
  o_defbuf : Z                (* DefaultBuffer *)
}.

Inductive err := ErrAlreadyUnsubscribed | ErrSubscriptionNotInitalized.

Inductive call :=
| CPubOne (w : wkind) (o : oid) (ev : Z)            (* Pub / PubWait / PubSync *)
| CPubSlice (w : wkind) (o : oid) (evs : list Z)    (* PubSlice / PubSliceWait / PubSliceSync *)
| CWithOnly (o : oid) (sub : option cid)            (* None = nil channel *)
| CSub (o : oid)
| CSubBuf (o : oid) (size : Z)
| CUnsub (o : oid) (sub : option cid)
| CUnsubAll (o : oid)
| CRecv (c : cid)
| CRange (c : cid).

(* the calls that take the write lock (a waiting Lock() remembers its call) *)
Inductive lcall :=
| LSub (o : oid)
| LSubBuf (o : oid) (size : Z)
| LUnsub (o : oid) (sub : cid)
| LUnsubAll (o : oid).
Definition call_of (l : lcall) : call :=
  match l with
  | LSub o => CSub o
  | LSubBuf o size => CSubBuf o size
  | LUnsub o sub => CUnsub o (Some sub)
  | LUnsubAll o => CUnsubAll o
  end.

Inductive ret :=
| RUnit
| RChan (c : cid)
| RView (o : oid)
| RNil                          (* nil error *)
| RErr (e : err)
| RRecv (v : Z) (ok : bool)
| RRange (vs : list Z).         (* the values a range loop saw before the channel was closed *)

Inductive pc :=
| PIdle
| PLockWait (l : lcall)         (* Lock() announced for this call; prog already advanced *)
| PAdd (k : callid) (o : oid) (n : nat) (ps : list pair)
| PLoop (k : callid) (o : oid) (ps : list pair)
| PSyncCb (k : callid) (o : oid) (p : pair) (ps : list pair)
| PWait (k : callid)
| PGoSend (k : callid) (p : pair) (timeout : Z) (cb : bool) (wg : bool)
| PGoCb (k : callid) (p : pair) (wg : bool)
| PGoDone (k : callid) (p : pair)
| PExit
| PWithOnlyU (o : oid) (clone : psobj)
| PSubU (o : oid) (c : cid)
| PUnsubClose (o : oid) (idx : nat)
| PUnsubU (o : oid) (r : ret)
| PUnsubAllLoop (o : oid) (rest : list cid)
| PRange (c : cid) (acc : list Z).

(* why the process died *)
Inductive ppanic :=
| PSendOnClosed      (* send on closed channel *)
| PCloseOfClosed     (* close of closed channel *)
| PCloseOfNil        (* close of nil channel (not reachable) *)
| PNegWaitGroup      (* sync: negative WaitGroup counter *)
| PMakeChan          (* makechan: size out of range *)
| PIndex.            (* index out of range (not reachable) *)

Inductive event :=
| ERLock (k : callid) (o : oid) (evs : list Z) (subs : list cid)   (* publish call k took the read lock and saw subs *)
| EHandoff (k : callid) (p : pair)      (* the event was put into the channel / handed to a receiver *)
| ETimeout (k : callid) (p : pair) (cb : bool)   (* the timer branch of the select was taken; cb: OnPubTimeout will be called *)
| ECallback (k : callid) (p : pair)     (* OnPubTimeout(ev) was called *)
| EDone (k : callid) (p : pair)         (* send(..) returned for this pair *)
| EPubRet (k : callid)                  (* the publish call returned *)
| ERecv (t : tid) (c : cid) (v : Z)     (* thread t received v from c *)
| ESub (o : oid) (c : cid)
| EClose (t : tid) (o : oid) (c : cid)  (* Unsub/UnsubAll on o closed c *)
| ELock (t : tid) (n : nat) (o : oid) (cl : call) (subs : list cid)   (* t took the write lock of o for its n-th call cl; subs = o.subs then *)
| EUnlock (t : tid) (n : nat) (o : oid) (r : ret) (subs : list cid)   (* t released it and its n-th call returns r; subs = o.subs then *)
| EViewLock (t : tid) (n : nat) (o : oid) (sub : option cid) (subs : list cid)   (* WithOnly(sub), n-th call of t, took the read lock of o *)
| EViewRet (t : tid) (n : nat) (o : oid) (v : oid) (vsubs subs : list cid)       (* WithOnly released it and returns view v listing vsubs; subs = o.subs then *)
| EPanic (t : tid) (k : ppanic).

Record thread := Thread {
  th_prog : list call;        (* calls still to make *)
  th_pc : pc;
  th_rets : list ret          (* results of the finished calls, oldest first *)
}.

Record config := Config {
  c_objs : list psobj;        (* object 0 is the root PubSub; WithOnly appends views *)
  c_chans : list chan;        (* channel heap; make(chan) appends *)
  c_wg : tid -> nat -> nat;   (* the WaitGroup local to the k_n-th call of thread k_tid *)
  c_threads : list thread;    (* thread t is the t-th element; go appends *)
  c_trace : list event;       (* ghost log, newest first *)
  c_panic : option ppanic
}.

Inductive choice := Plain | Timer | With (r : tid).

(* ---- small helpers ---- *)

Fixpoint upd {A} (i : nat) (x : A) (l : list A) : list A :=
  match l, i with
  | [], _ => []
  | _ :: l', O => x :: l'
  | y :: l', S i' => y :: upd i' x l'
  end.

Fixpoint remove_one (t : tid) (l : list tid) : list tid :=
  match l with
  | [] => []
  | x :: l' => if x =? t then l' else x :: remove_one t l'
  end.

Definition ocid_eqb (a : option cid) (b : cid) : bool :=
  match a with Some x => x =? b | None => false end.

Definition wg_key_eqb (t n t' n' : nat) : bool := (t =? t') && (n =? n').
Definition wg_set (f : tid -> nat -> nat) (t n v : nat) : tid -> nat -> nat :=
  fun t' n' => if wg_key_eqb t n t' n' then v else f t' n'.

Definition pairs_one (ev : Z) (subs : list cid) : list pair := map (fun s => (0, ev, s)) subs.
Fixpoint pairs_slice (i : nat) (evs : list Z) (subs : list cid) : list pair :=
  match evs with
  | [] => []
  | ev :: evs' => map (fun s => (i, ev, s)) subs ++ pairs_slice (S i) evs' subs
  end.

(* WithOnly's loop: for _, s := range o.subs { if s == sub { clone.subs = append(clone.subs, s) } } *)
Definition withonly_loop (sub : option cid) (subs : list cid) : list cid :=
  fold_left (fun acc s => if ocid_eqb sub s then acc ++ [s] else acc) subs [].

(* subIndex: for i, ch := range o.subs { if ch == sub { return i } }; return -1 *)
Fixpoint sub_index_from (i : Z) (subs : list cid) (sub : cid) : Z :=
  match subs with
  | [] => (-1)%Z
  | ch :: rest => if ch =? sub then i else sub_index_from (i + 1)%Z rest sub
  end.
Definition sub_index (subs : list cid) (sub : cid) : Z := sub_index_from 0%Z subs sub.

(* ---- record updates ---- *)

Definition set_rd (ob : psobj) (rd : list tid) : psobj :=
  PsObj (o_subs ob) rd (o_wr ob) (o_ww ob) (o_timeout ob) (o_cb ob) (o_defbuf ob).
(* the write lock changes hands: any announcement is consumed *)
Definition set_wr (ob : psobj) (wr : option tid) : psobj :=
  PsObj (o_subs ob) (o_rd ob) wr None (o_timeout ob) (o_cb ob) (o_defbuf ob).
Definition set_ww (ob : psobj) (ww : option tid) : psobj :=
  PsObj (o_subs ob) (o_rd ob) (o_wr ob) ww (o_timeout ob) (o_cb ob) (o_defbuf ob).
Definition set_subs (ob : psobj) (subs : list cid) : psobj :=
  PsObj subs (o_rd ob) (o_wr ob) (o_ww ob) (o_timeout ob) (o_cb ob) (o_defbuf ob).

Definition set_objs (c : config) (objs : list psobj) : config :=
  Config objs (c_chans c) (c_wg c) (c_threads c) (c_trace c) (c_panic c).
Definition set_chans (c : config) (chans : list chan) : config :=
  Config (c_objs c) chans (c_wg c) (c_threads c) (c_trace c) (c_panic c).
Definition set_wg (c : config) (wg : tid -> nat -> nat) : config :=
  Config (c_objs c) (c_chans c) wg (c_threads c) (c_trace c) (c_panic c).
Definition set_threads (c : config) (ths : list thread) : config :=
  Config (c_objs c) (c_chans c) (c_wg c) ths (c_trace c) (c_panic c).
Definition log (c : config) (es : list event) : config :=
  Config (c_objs c) (c_chans c) (c_wg c) (c_threads c) (es ++ c_trace c) (c_panic c).
Definition set_thread (c : config) (t : tid) (th : thread) : config :=
  set_threads c (upd t th (c_threads c)).
Definition set_obj (c : config) (o : oid) (ob : psobj) : config :=
  set_objs c (upd o ob (c_objs c)).
Definition spawn (c : config) (th : thread) : config :=
  set_threads c (c_threads c ++ [th]).
Definition do_panic (c : config) (t : tid) (k : ppanic) : config :=
  Config (c_objs c) (c_chans c) (c_wg c) (c_threads c) (EPanic t k :: c_trace c) (Some k).

Definition with_pc (th : thread) (p : pc) : thread := Thread (th_prog th) p (th_rets th).
Definition returns (th : thread) (r : ret) : thread := Thread (th_prog th) PIdle (th_rets th ++ [r]).

(* Lock() by t can acquire now *)
Definition lock_free (t : tid) (ob : psobj) : bool :=
  match o_rd ob, o_wr ob, o_ww ob with
  | [], None, None => true
  | [], None, Some t' => t' =? t
  | _, _, _ => false
  end.
(* Lock() can announce itself: only readers hold the lock, nobody is announced *)
Definition can_announce (ob : psobj) : bool :=
  match o_rd ob, o_wr ob, o_ww ob with
  | _ :: _, None, None => true
  | _, _, _ => false
  end.
Definition rlock_free (ob : psobj) : bool :=
  match o_wr ob, o_ww ob with None, None => true | _, _ => false end.

(* ---- receiving ---- *)

(* the channel a thread is ready to receive from *)
Definition recv_target (th : thread) : option cid :=
  match th_pc th with
  | PRange c _ => Some c
  | PIdle => match th_prog th with
             | CRecv c :: _ => Some c
             | CRange c :: _ => Some c
             | _ => None
             end
  | _ => None
  end.

(* the receiver after it got v *)
Definition deliver (th : thread) (v : Z) : thread :=
  match th_pc th with
  | PRange c acc => with_pc th (PRange c (acc ++ [v]))
  | PIdle => match th_prog th with
             | CRecv c :: rest => Thread rest PIdle (th_rets th ++ [RRecv v true])
             | CRange c :: rest => Thread rest (PRange c [v]) (th_rets th)
             | _ => th
             end
  | _ => th
  end.

(* the receiver after it found the channel closed and drained *)
Definition deliver_closed (th : thread) : thread :=
  match th_pc th with
  | PRange c acc => returns th (RRange acc)
  | PIdle => match th_prog th with
             | CRecv c :: rest => Thread rest PIdle (th_rets th ++ [RRecv 0%Z false])
             | CRange c :: rest => Thread rest PIdle (th_rets th ++ [RRange []])
             | _ => th
             end
  | _ => th
  end.

(* a receive by thread t (own step): from the buffer, or the closed channel *)
Definition step_recv (c : config) (t : tid) (th : thread) (ci : cid) : option config :=
  match nth_error (c_chans c) ci with
  | None => None
  | Some chn =>
    match ch_buf chn with
    | v :: rest =>
        Some (log (set_thread (set_chans c (upd ci (Chan rest (ch_cap chn) (ch_closed chn)) (c_chans c)))
                              t (deliver th v)) [ERecv t ci v])
    | [] => if ch_closed chn then Some (set_thread c t (deliver_closed th)) else None
    end
  end.

(* ---- sending: ch <- v  or  select { case ch <- v; case <-timer.C } ---- *)

Inductive send_res :=
| SBlocked
| SPanic
| SSentBuf (chans' : list chan)
| SSentTo (r : tid) (thr : thread)
| STimedOut.

Definition try_send (c : config) (ch : choice) (sub : cid) (ev : Z) (timeout : Z) : send_res :=
  match nth_error (c_chans c) sub with
  | None => SBlocked
  | Some chn =>
    match ch with
    | Timer => if (0 <? timeout)%Z then STimedOut else SBlocked
    | Plain =>
        if ch_closed chn then SPanic
        else if length (ch_buf chn) <? ch_cap chn
             then SSentBuf (upd sub (Chan (ch_buf chn ++ [ev]) (ch_cap chn) false) (c_chans c))
             else SBlocked
    | With r =>
        if ch_closed chn then SPanic
        else if ch_cap chn =? 0 then
          match nth_error (c_threads c) r with
          | Some thr => if ocid_eqb (recv_target thr) sub then SSentTo r thr else SBlocked
          | None => SBlocked
          end
        else SBlocked
    end
  end.

Definition after_send (wg : bool) (k : callid) (p : pair) : pc := if wg then PGoDone k p else PExit.

(* o.send(ev, sub, timeout, onTimeout) up to and including the channel
   operation, by thread t for pair p of call k: SendTimeout's send or select.
   [pc_sent] is where the thread continues when send() has returned,
   [pc_cb] where it continues to call onTimeout. *)
Definition step_send (c : config) (t : tid) (th : thread) (ch : choice) (k : callid) (p : pair)
           (timeout : Z) (cb : bool) (pc_sent pc_cb : pc) : option config :=
  match try_send c ch (p_sub p) (p_ev p) timeout with
  | SBlocked => None
  | SPanic => Some (do_panic c t PSendOnClosed)
  | SSentBuf chans' =>
      Some (log (set_thread (set_chans c chans') t (with_pc th pc_sent)) [EDone k p; EHandoff k p])
  | SSentTo r thr =>
      Some (log (set_thread (set_thread c r (deliver thr (p_ev p))) t (with_pc th pc_sent))
                [EDone k p; ERecv r (p_sub p) (p_ev p); EHandoff k p])
  | STimedOut =>
      if cb
      then Some (log (set_thread c t (with_pc th pc_cb)) [ETimeout k p true])
      else Some (log (set_thread c t (with_pc th pc_sent)) [EDone k p; ETimeout k p false])
  end.

(* ---- the step function ---- *)

Definition is_slice_call (cl : call) : bool := match cl with CPubSlice _ _ _ => true | _ => false end.

(* first step of a publish call: RLock and the evaluation of the loop bounds *)
Definition step_pub_start (c : config) (t : tid) (th : thread) (rest : list call)
           (sl : bool) (w : wkind) (o : oid) (evs : list Z) : option config :=
  match nth_error (c_objs c) o with
  | None => None
  | Some ob =>
    if rlock_free ob then
      let k := CallId t (length (th_rets th)) (sl, w) in
      let subs := o_subs ob in
      let ps := if sl then pairs_slice 0 evs subs else pairs_one (hd 0%Z evs) subs in
      let n := if sl then length subs * length evs else length subs in
      let pc' := match w with Wait => PAdd k o n ps | _ => PLoop k o ps end in
      Some (log (set_thread (set_obj c o (set_rd ob (t :: o_rd ob))) t (Thread rest pc' (th_rets th)))
                [ERLock k o evs subs])
    else None
  end.

(* Lock() finds readers: announce and wait (only from PIdle: an announced caller is not announced twice) *)
Definition announce (c : config) (t : tid) (th : thread) (rest : list call) (l : lcall) (o : oid) (ob : psobj) : option config :=
  match th_pc th with
  | PIdle => if can_announce ob
             then Some (set_thread (set_obj c o (set_ww ob (Some t))) t (Thread rest (PLockWait l) (th_rets th)))
             else None
  | _ => None
  end.

Definition step_sub_start (c : config) (t : tid) (th : thread) (rest : list call) (l : lcall) (o : oid) (size : Z) : option config :=
  match nth_error (c_objs c) o with
  | None => None
  | Some ob =>
    if lock_free t ob then
      if (size <? 0)%Z then Some (do_panic c t PMakeChan)        (* makechan: size out of range *)
      else
        let ci := length (c_chans c) in
        Some (log (set_thread (set_obj (set_chans c (c_chans c ++ [Chan [] (Z.to_nat size) false]))
                                       o (set_subs (set_wr ob (Some t)) (o_subs ob ++ [ci])))
                              t (Thread rest (PSubU o ci) (th_rets th)))
                  [ESub o ci; ELock t (length (th_rets th)) o (call_of l) (o_subs ob)])
    else announce c t th rest l o ob
  end.

Definition step_call (c : config) (t : tid) (th : thread) (cl : call) (rest : list call) : option config :=
  match cl with
  | CPubOne w o ev => step_pub_start c t th rest false w o [ev]
  | CPubSlice w o evs => step_pub_start c t th rest true w o evs
  | CWithOnly o sub =>
      match nth_error (c_objs c) o with
      | None => None
      | Some ob =>
        if rlock_free ob then
          let clone := PsObj (withonly_loop sub (o_subs ob)) [] None None (o_timeout ob) (o_cb ob) 0%Z in
          Some (log (set_thread (set_obj c o (set_rd ob (t :: o_rd ob))) t (Thread rest (PWithOnlyU o clone) (th_rets th)))
                    [EViewLock t (length (th_rets th)) o sub (o_subs ob)])
        else None
      end
  | CSub o =>
      match nth_error (c_objs c) o with
      | None => None
      | Some ob => step_sub_start c t th rest (LSub o) o (o_defbuf ob)
      end
  | CSubBuf o size => step_sub_start c t th rest (LSubBuf o size) o size
  | CUnsub o None =>
      Some (set_thread c t (Thread rest PIdle (th_rets th ++ [RErr ErrSubscriptionNotInitalized])))
  | CUnsub o (Some sub) =>
      match nth_error (c_objs c) o with
      | None => None
      | Some ob =>
        if lock_free t ob then
          let idx := sub_index (o_subs ob) sub in
          let pc' := if (idx =? -1)%Z then PUnsubU o (RErr ErrAlreadyUnsubscribed) else PUnsubClose o (Z.to_nat idx) in
          Some (log (set_thread (set_obj c o (set_wr ob (Some t))) t (Thread rest pc' (th_rets th)))
                    [ELock t (length (th_rets th)) o (CUnsub o (Some sub)) (o_subs ob)])
        else announce c t th rest (LUnsub o sub) o ob
      end
  | CUnsubAll o =>
      match nth_error (c_objs c) o with
      | None => None
      | Some ob =>
        if lock_free t ob then
          Some (log (set_thread (set_obj c o (set_wr ob (Some t))) t (Thread rest (PUnsubAllLoop o (o_subs ob)) (th_rets th)))
                    [ELock t (length (th_rets th)) o (CUnsubAll o) (o_subs ob)])
        else announce c t th rest (LUnsubAll o) o ob
      end
  | CRecv ci => step_recv c t th ci
  | CRange ci => step_recv c t th ci
  end.

(* close(ch) by thread t working on object o *)
Definition close_chan (c : config) (t : tid) (o : oid) (ci : cid) : option config :=
  match nth_error (c_chans c) ci with
  | None => Some (do_panic c t PCloseOfNil)                     (* close of nil channel: not reachable *)
  | Some chn =>
    if ch_closed chn then Some (do_panic c t PCloseOfClosed)     (* close of closed channel *)
    else Some (log (set_chans c (upd ci (Chan (ch_buf chn) (ch_cap chn) true) (c_chans c))) [EClose t o ci])
  end.

(* one step of thread t, whose state is th *)
Definition step_thread (c : config) (t : tid) (th : thread) (ch : choice) : option config :=
    match th_pc th with
    | PIdle =>
        match th_prog th with
        | [] => None
        | cl :: rest => step_call c t th cl rest
        end
    | PLockWait l => step_call c t th (call_of l) (th_prog th)
    | PAdd k o n ps =>
        Some (set_thread (set_wg c (wg_set (c_wg c) (k_tid k) (k_n k) (c_wg c (k_tid k) (k_n k) + n)))
                         t (with_pc th (PLoop k o ps)))
    | PLoop k o (p :: ps) =>
        match nth_error (c_objs c) o with
        | None => None
        | Some ob =>
          match snd (k_var k) with
          | Sync =>
              step_send c t th ch k p (o_timeout ob) (o_cb ob) (PLoop k o ps) (PSyncCb k o p ps)
          | w =>
              Some (spawn (set_thread c t (with_pc th (PLoop k o ps)))
                          (Thread [] (PGoSend k p (o_timeout ob) (o_cb ob) (match w with Wait => true | _ => false end)) []))
          end
        end
    | PLoop k o [] =>
        match nth_error (c_objs c) o with
        | None => None
        | Some ob =>
          let c1 := set_obj c o (set_rd ob (remove_one t (o_rd ob))) in
          match snd (k_var k) with
          | Wait => Some (set_thread c1 t (with_pc th (PWait k)))
          | _ => Some (log (set_thread c1 t (returns th RUnit)) [EPubRet k])
          end
        end
    | PSyncCb k o p ps =>
        Some (log (set_thread c t (with_pc th (PLoop k o ps))) [EDone k p; ECallback k p])
    | PWait k =>
        if c_wg c (k_tid k) (k_n k) =? 0
        then Some (log (set_thread c t (returns th RUnit)) [EPubRet k])
        else None
    | PGoSend k p timeout cb wg =>
        step_send c t th ch k p timeout cb (after_send wg k p) (PGoCb k p wg)
    | PGoCb k p wg =>
        Some (log (set_thread c t (with_pc th (after_send wg k p))) [EDone k p; ECallback k p])
    | PGoDone k p =>
        match c_wg c (k_tid k) (k_n k) with
        | O => Some (do_panic c t PNegWaitGroup)                 (* sync: negative WaitGroup counter *)
        | S m => Some (set_thread (set_wg c (wg_set (c_wg c) (k_tid k) (k_n k) m)) t (with_pc th PExit))
        end
    | PExit => None
    | PWithOnlyU o clone =>
        match nth_error (c_objs c) o with
        | None => None
        | Some ob =>
          let c1 := set_obj c o (set_rd ob (remove_one t (o_rd ob))) in
          Some (log (set_thread (set_objs c1 (c_objs c1 ++ [clone])) t (returns th (RView (length (c_objs c)))))
                    [EViewRet t (length (th_rets th)) o (length (c_objs c)) (o_subs clone) (o_subs ob)])
        end
    | PSubU o ci =>
        match nth_error (c_objs c) o with
        | None => None
        | Some ob => Some (log (set_thread (set_obj c o (set_wr ob None)) t (returns th (RChan ci)))
                               [EUnlock t (length (th_rets th)) o (RChan ci) (o_subs ob)])
        end
    | PUnsubClose o idx =>
        match nth_error (c_objs c) o with
        | None => None
        | Some ob =>
          match nth_error (o_subs ob) idx with
          | None => Some (do_panic c t PIndex)                   (* not reachable *)
          | Some ci =>
            match close_chan c t o ci with
            | None => None
            | Some c1 =>
              match c_panic c1 with
              | Some _ => Some c1
              | None =>
                Some (set_thread (set_obj c1 o (set_subs ob (firstn idx (o_subs ob) ++ skipn (S idx) (o_subs ob))))
                                 t (with_pc th (PUnsubU o RNil)))
              end
            end
          end
        end
    | PUnsubU o r =>
        match nth_error (c_objs c) o with
        | None => None
        | Some ob => Some (log (set_thread (set_obj c o (set_wr ob None)) t (returns th r)) [EUnlock t (length (th_rets th)) o r (o_subs ob)])
        end
    | PUnsubAllLoop o (ci :: rest) =>
        match close_chan c t o ci with
        | None => None
        | Some c1 =>
          match c_panic c1 with
          | Some _ => Some c1
          | None => Some (set_thread c1 t (with_pc th (PUnsubAllLoop o rest)))
          end
        end
    | PUnsubAllLoop o [] =>
        match nth_error (c_objs c) o with
        | None => None
        | Some ob => Some (log (set_thread (set_obj c o (set_wr (set_subs ob []) None)) t (returns th RNil))
                               [EUnlock t (length (th_rets th)) o RNil []])
        end
    | PRange ci acc => step_recv c t th ci
    end.

(* a panicked process is dead; otherwise thread t (if it exists) moves *)
Definition step (c : config) (t : tid) (ch : choice) : option config :=
  match c_panic c with
  | Some _ => None
  | None =>
    match nth_error (c_threads c) t with
    | None => None
    | Some th => step_thread c t th ch
    end
  end.

(* A schedule is a list of (thread, choice); disabled entries are skipped. *)
Definition sched := list (tid * choice).

Definition step_or_stay (c : config) (tc : tid * choice) : config :=
  match step c (fst tc) (snd tc) with Some c' => c' | None => c end.

Fixpoint run (c : config) (s : sched) : config :=
  match s with
  | [] => c
  | tc :: s' => run (step_or_stay c tc) s'
  end.

(* One root PubSub (object 0) with the given configuration, no subscribers;
   one thread per program. *)
Definition init (timeout : Z) (cb : bool) (defbuf : Z) (progs : list (list call)) : config :=
  Config [PsObj [] [] None None timeout cb defbuf] [] (fun _ _ => 0)
         (map (fun p => Thread p PIdle []) progs) [] None.

Definition Panicked (c : config) : Prop := c_panic c <> None.
