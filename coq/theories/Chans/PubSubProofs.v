(* PROOFS about the PubSub machine of Chans/PubSubModel.v. *)
From Typ Require Import Lib.Base Chans.PubSubModel.

(* ------------------------------------------------------------------ *)
(* Lists                                                                *)
(* ------------------------------------------------------------------ *)

Lemma upd_length {A} i (x : A) l : length (upd i x l) = length l.
Proof. revert i; induction l as [|y l IH]; intros [|i]; simpl; auto. Qed.

Lemma nth_error_upd_eq {A} i (x : A) l : i < length l -> nth_error (upd i x l) i = Some x.
Proof. revert i; induction l as [|y l IH]; intros [|i] H; simpl in *; try lia; auto. apply IH; lia. Qed.

Lemma nth_error_upd_neq {A} i j (x : A) l : i <> j -> nth_error (upd i x l) j = nth_error l j.
Proof.
  revert i j; induction l as [|y l IH]; intros [|i] [|j] H; simpl; auto; try congruence.
Qed.

Lemma nth_error_some_lt {A} (l : list A) i x : nth_error l i = Some x -> i < length l.
Proof. intro H. apply nth_error_Some. congruence. Qed.

Lemma nth_error_upd {A} i j (x y : A) l :
  nth_error (upd i x l) j = Some y ->
  (i = j /\ y = x /\ i < length l) \/ (i <> j /\ nth_error l j = Some y).
Proof.
  intro H. destruct (Nat.eq_dec i j) as [->|N].
  - left. assert (L : j < length l) by (apply nth_error_some_lt in H; rewrite upd_length in H; exact H).
    rewrite nth_error_upd_eq in H by exact L. injection H as <-. auto.
  - right. rewrite nth_error_upd_neq in H by exact N. auto.
Qed.

Lemma nth_error_app_some {A} (l : list A) x i y :
  nth_error (l ++ [x]) i = Some y -> nth_error l i = Some y \/ (i = length l /\ y = x).
Proof.
  intro H. destruct (Nat.lt_ge_cases i (length l)) as [L|G].
  - left. rewrite nth_error_app1 in H; auto.
  - right. rewrite nth_error_app2 in H by exact G.
    destruct (i - length l) as [|d] eqn:E; simpl in H.
    + injection H as <-. split; [lia|reflexivity].
    + destruct d; discriminate.
Qed.

(* ------------------------------------------------------------------ *)
(* Runs and invariants                                                  *)
(* ------------------------------------------------------------------ *)

Lemma run_app c s1 s2 : run c (s1 ++ s2) = run (run c s1) s2.
Proof. revert c; induction s1 as [|tc s1 IH]; intro c; simpl; auto. Qed.

Lemma run_inv (P : config -> Prop) :
  (forall c t ch c', P c -> step c t ch = Some c' -> P c') ->
  forall s c, P c -> P (run c s).
Proof.
  intros Hs s; induction s as [|[t ch] s IH]; intros c Hc; simpl; auto.
  apply IH. unfold step_or_stay; simpl. destruct (step c t ch) as [c'|] eqn:E; eauto.
Qed.

(* destruct the scrutinees of the matches of a hypothesis until it is an equation between [Some]s *)
Ltac break_hyp H :=
  match type of H with
  | context [match ?x with _ => _ end] =>
      match type of x with
      | sumbool _ _ => destruct x
      | _ => let E := fresh "E" in destruct x eqn:E
      end
  | context [if ?x then _ else _] => let E := fresh "E" in destruct x eqn:E
  end.
Ltac step_inv H := repeat (first [discriminate H | break_hyp H]); try (injection H as H); try subst.

(* ------------------------------------------------------------------ *)
(* The known finding, in theorem form                                   *)
(* ------------------------------------------------------------------ *)

(* One unbuffered subscriber that nobody receives from; Pub 5 starts a sender
   goroutine (thread 1) that blocks in the send; Unsub closes the channel; the
   sender's next step is a send on a closed channel. *)
Definition finding_progs : list (list call) := [[CSubBuf 0 0%Z; CPubOne Async 0 5%Z; CUnsub 0 (Some 0)]].
Definition finding_sched : sched :=
  [(0, Plain); (0, Plain);                (* SubBuf: Lock; Unlock *)
   (0, Plain); (0, Plain); (0, Plain);    (* Pub: RLock; go send; RUnlock *)
   (0, Plain); (0, Plain); (0, Plain);    (* Unsub: Lock + subIndex; close + splice; Unlock *)
   (1, Plain)].                           (* the sender goroutine: ch <- 5 *)

Lemma async_unsub_panic_reachable :
  exists progs s, Panicked (run (init 0%Z false 0%Z progs) s) /\
    c_panic (run (init 0%Z false 0%Z progs) s) = Some SendOnClosed /\
    (* the publish call and the Unsub had both returned normally before *)
    (exists th, nth_error (c_threads (run (init 0%Z false 0%Z progs) s)) 0 = Some th /\
                th_rets th = [RChan 0; RUnit; RNil]).
Proof.
  exists finding_progs, finding_sched. split; [|split].
  - unfold Panicked. vm_compute. discriminate.
  - vm_compute. reflexivity.
  - eexists. split; vm_compute; reflexivity.
Qed.

(* ------------------------------------------------------------------ *)
(* subIndex, WithOnly's loop, pair lists                                *)
(* ------------------------------------------------------------------ *)

Lemma sub_index_from_notin i subs s : ~ In s subs -> sub_index_from i subs s = (-1)%Z.
Proof.
  revert i; induction subs as [|x subs IH]; intros i H; simpl; auto.
  destruct (Nat.eqb_spec x s) as [->|N]; [exfalso; apply H; left; reflexivity|].
  apply IH. intro; apply H; right; assumption.
Qed.

Lemma sub_index_from_in i subs s : In s subs ->
  exists n, sub_index_from i subs s = (i + Z.of_nat n)%Z /\ nth_error subs n = Some s /\ ~ In s (firstn n subs).
Proof.
  revert i; induction subs as [|x subs IH]; intros i H; [destruct H|]. simpl.
  destruct (Nat.eqb_spec x s) as [->|N].
  - exists 0. simpl. split; [lia|]. split; auto.
  - destruct H as [H|H]; [congruence|]. destruct (IH (i + 1)%Z H) as (n & E & Hn & Hf).
    exists (S n). simpl. split; [lia|]. split; auto. intros [F|F]; [congruence|auto].
Qed.

Lemma sub_index_spec subs s :
  (~ In s subs /\ sub_index subs s = (-1)%Z) \/
  (exists n, sub_index subs s = Z.of_nat n /\ nth_error subs n = Some s /\ ~ In s (firstn n subs)).
Proof.
  destruct (in_dec Nat.eq_dec s subs) as [H|H].
  - right. destruct (sub_index_from_in 0%Z subs s H) as (n & E & R). exists n. split; auto.
  - left. split; auto. apply sub_index_from_notin; auto.
Qed.

(* removing position n, the first occurrence of s in a duplicate-free list, removes exactly s *)
Lemma splice_is_remove subs n s : nth_error subs n = Some s -> NoDup subs ->
  firstn n subs ++ skipn (S n) subs = remove Nat.eq_dec s subs.
Proof.
  revert n; induction subs as [|x subs IH]; intros [|n] H ND; simpl in *; try discriminate.
  - injection H as ->. destruct (Nat.eq_dec s s) as [_|N]; [|congruence].
    inversion ND; subst. symmetry. apply notin_remove. assumption.
  - inversion ND; subst. destruct (Nat.eq_dec s x) as [->|N].
    + exfalso. apply H2. eapply nth_error_In; eauto.
    + f_equal. apply IH; auto.
Qed.

Lemma withonly_loop_acc sub subs acc :
  fold_left (fun acc s => if ocid_eqb sub s then acc ++ [s] else acc) subs acc =
  acc ++ filter (ocid_eqb sub) subs.
Proof.
  revert acc; induction subs as [|x subs IH]; intro acc; simpl; [rewrite app_nil_r; reflexivity|].
  rewrite IH. destruct (ocid_eqb sub x); simpl; [rewrite <- app_assoc|]; reflexivity.
Qed.

Lemma withonly_loop_filter sub subs : withonly_loop sub subs = filter (ocid_eqb sub) subs.
Proof. unfold withonly_loop. rewrite withonly_loop_acc. reflexivity. Qed.

(* WithOnly keeps the given subscription if it is subscribed, and nothing else *)
Lemma withonly_loop_spec sub subs : NoDup subs ->
  withonly_loop sub subs =
  match sub with
  | Some s => if in_dec Nat.eq_dec s subs then [s] else []
  | None => []
  end.
Proof.
  rewrite withonly_loop_filter. intro ND. destruct sub as [s|]; simpl.
  - induction subs as [|x subs IH]; simpl; auto. inversion ND; subst.
    destruct (Nat.eqb_spec s x) as [->|N].
    + destruct (Nat.eq_dec x x) as [_|]; [|congruence]. f_equal.
      rewrite IH by assumption. destruct (in_dec Nat.eq_dec x subs); [contradiction|reflexivity].
    + rewrite IH by assumption. destruct (Nat.eq_dec x s); [congruence|].
      destruct (in_dec Nat.eq_dec s subs); reflexivity.
  - induction subs; simpl; auto. apply IHsubs. inversion ND; assumption.
Qed.

Lemma withonly_loop_in sub subs x : In x (withonly_loop sub subs) <-> sub = Some x /\ In x subs.
Proof.
  rewrite withonly_loop_filter, filter_In. unfold ocid_eqb. destruct sub as [s|]; split.
  - intros [H E]. apply Nat.eqb_eq in E. subst. auto.
  - intros [E H]. injection E as ->. split; auto. apply Nat.eqb_refl.
  - intros [_ F]; discriminate.
  - intros [F _]; discriminate.
Qed.

Lemma pairs_slice_length i evs subs : length (pairs_slice i evs subs) = length subs * length evs.
Proof.
  revert i; induction evs as [|ev evs IH]; intro i; simpl; [lia|].
  rewrite app_length, map_length, IH. lia.
Qed.

Lemma pairs_one_length ev subs : length (pairs_one ev subs) = length subs.
Proof. apply map_length. Qed.

Lemma pairs_slice_sub i evs subs p : In p (pairs_slice i evs subs) -> In (p_sub p) subs.
Proof.
  revert i; induction evs as [|ev evs IH]; intros i H; simpl in H; [destruct H|].
  apply in_app_or in H as [H|H]; eauto.
  apply in_map_iff in H as (s & <- & Hs). exact Hs.
Qed.

Lemma pairs_one_sub ev subs p : In p (pairs_one ev subs) -> In (p_sub p) subs.
Proof. intro H. apply in_map_iff in H as (s & <- & Hs). exact Hs. Qed.

(* ------------------------------------------------------------------ *)
(* upd algebra                                                          *)
(* ------------------------------------------------------------------ *)

Lemma upd_upd {A} i (x y : A) l : upd i x (upd i y l) = upd i x l.
Proof. revert i; induction l as [|z l IH]; intros [|i]; simpl; auto. f_equal; apply IH. Qed.

Lemma upd_same {A} i (x : A) l : nth_error l i = Some x -> upd i x l = l.
Proof. revert i; induction l as [|z l IH]; intros [|i] H; simpl in *; try discriminate; [congruence|f_equal; auto]. Qed.

(* ------------------------------------------------------------------ *)
(* Unsub / UnsubAll / WithOnly: what one call does (run alone)          *)
(* ------------------------------------------------------------------ *)

Local Arguments skipn : simpl never.
Local Arguments firstn : simpl never.

Lemma lock_free_inv t ob : lock_free t ob = true ->
  o_rd ob = [] /\ o_wr ob = None /\ (o_ww ob = None \/ o_ww ob = Some t).
Proof.
  unfold lock_free. destruct (o_rd ob), (o_wr ob), (o_ww ob) as [t'|]; try discriminate; auto.
  intro H. apply Nat.eqb_eq in H. subst. auto.
Qed.

Ltac norm :=
  unfold set_thread, set_obj, set_chans, set_threads, set_objs, log, set_wg, spawn, do_panic, returns, with_pc;
  cbn [c_objs c_chans c_wg c_threads c_trace c_panic th_prog th_pc th_rets app fst snd].
Ltac unfold_step := unfold step_or_stay; cbn [fst snd]; unfold step; norm.

(* Unsub(nil): one step, returns ErrSubscriptionNotInitalized, nothing else changes. *)
Lemma unsub_nil_step c t th o rest ch :
  c_panic c = None -> nth_error (c_threads c) t = Some th ->
  th_pc th = PIdle -> th_prog th = CUnsub o None :: rest ->
  step c t ch = Some (set_thread c t (Thread rest PIdle (th_rets th ++ [RErr ErrSubscriptionNotInitalized]))).
Proof. intros Hp Ht Hpc Hpr. unfold step. rewrite Hp, Ht, Hpc, Hpr. reflexivity. Qed.

(* Unsub(sub) of a channel that is not subscribed: two steps (Lock + subIndex;
   Unlock), returns ErrAlreadyUnsubscribed; subscriptions, channels, trace and
   every other thread are unchanged (the lock is free again). *)
Lemma unsub_unknown_solo c t th o ob sub rest ch1 ch2 :
  c_panic c = None -> nth_error (c_threads c) t = Some th ->
  th_pc th = PIdle -> th_prog th = CUnsub o (Some sub) :: rest ->
  nth_error (c_objs c) o = Some ob -> lock_free t ob = true ->
  ~ In sub (o_subs ob) ->
  run c [(t, ch1); (t, ch2)] =
  Config (upd o (set_wr ob None) (c_objs c)) (c_chans c) (c_wg c)
         (upd t (Thread rest PIdle (th_rets th ++ [RErr ErrAlreadyUnsubscribed])) (c_threads c))
         (c_trace c) None.
Proof.
  intros Hp Ht Hpc Hpr Ho Hl Hn.
  assert (Lt : t < length (c_threads c)) by (eapply nth_error_some_lt; eauto).
  assert (Lo : o < length (c_objs c)) by (eapply nth_error_some_lt; eauto).
  destruct (sub_index_spec (o_subs ob) sub) as [[_ E]|(n & _ & Hnth & _)];
    [|exfalso; apply Hn; eapply nth_error_In; eauto].
  cbn [run]. unfold_step. rewrite Hp, Ht, Hpc, Hpr. cbn [step_call]. rewrite Ho, Hl, E. cbn [Z.eqb Pos.eqb]. norm.
  unfold_step. rewrite Hp, nth_error_upd_eq by exact Lt. norm.
  rewrite nth_error_upd_eq by exact Lo. norm.
  rewrite !upd_upd. unfold set_wr. cbn. reflexivity.
Qed.

(* Unsub(sub) of a subscribed, open channel: three steps (Lock + subIndex;
   close + splice; Unlock), returns nil; exactly that channel is closed (its
   buffer is kept), exactly it is removed from the subscriptions, one EClose
   is logged, and nothing else changes. *)
Lemma unsub_known_solo c t th o ob sub rest chn ch1 ch2 ch3 :
  c_panic c = None -> nth_error (c_threads c) t = Some th ->
  th_pc th = PIdle -> th_prog th = CUnsub o (Some sub) :: rest ->
  nth_error (c_objs c) o = Some ob -> lock_free t ob = true ->
  In sub (o_subs ob) -> NoDup (o_subs ob) ->
  nth_error (c_chans c) sub = Some chn -> ch_closed chn = false ->
  run c [(t, ch1); (t, ch2); (t, ch3)] =
  Config (upd o (set_wr (set_subs ob (remove Nat.eq_dec sub (o_subs ob))) None) (c_objs c))
         (upd sub (Chan (ch_buf chn) (ch_cap chn) true) (c_chans c)) (c_wg c)
         (upd t (Thread rest PIdle (th_rets th ++ [RNil])) (c_threads c))
         (EClose t o sub :: c_trace c) None.
Proof.
  intros Hp Ht Hpc Hpr Ho Hl Hin ND Hc Hop.
  assert (Lt : t < length (c_threads c)) by (eapply nth_error_some_lt; eauto).
  assert (Lo : o < length (c_objs c)) by (eapply nth_error_some_lt; eauto).
  destruct (sub_index_spec (o_subs ob) sub) as [[F _]|(n & E & Hnth & _)]; [contradiction|].
  assert (En : (Z.of_nat n =? -1)%Z = false) by (apply Z.eqb_neq; lia).
  cbn [run]. unfold_step. rewrite Hp, Ht, Hpc, Hpr. cbn [step_call]. rewrite Ho, Hl, E, En, Nat2Z.id. norm.
  unfold_step. rewrite Hp, nth_error_upd_eq by exact Lt. norm.
  rewrite nth_error_upd_eq by exact Lo. unfold set_wr at 1. cbn [o_subs]. rewrite Hnth.
  unfold close_chan. norm. rewrite Hc, Hop. norm. rewrite Hp.
  unfold_step. rewrite Hp, upd_upd, nth_error_upd_eq by exact Lt. norm.
  rewrite upd_upd, nth_error_upd_eq by exact Lo. norm.
  rewrite !upd_upd. unfold set_wr, set_subs. cbn. rewrite (splice_is_remove _ _ _ Hnth ND). reflexivity.
Qed.

Definition close_one (chs : list chan) (ci : cid) : list chan :=
  match nth_error chs ci with
  | Some chn => upd ci (Chan (ch_buf chn) (ch_cap chn) true) chs
  | None => chs
  end.
Definition close_all (l : list cid) (chs : list chan) : list chan := fold_left close_one l chs.

Definition is_open (chs : list chan) (ci : cid) : Prop :=
  exists chn, nth_error chs ci = Some chn /\ ch_closed chn = false.

Lemma is_open_close_other chs ci cj : ci <> cj -> is_open chs cj -> is_open (close_one chs ci) cj.
Proof.
  intros N (chn & H & O). unfold close_one. destruct (nth_error chs ci); [|exists chn; auto].
  exists chn. rewrite nth_error_upd_neq by exact N. auto.
Qed.

(* the closing loop of UnsubAll *)
Lemma unsuball_loop_solo rest : forall c t th o,
  c_panic c = None -> nth_error (c_threads c) t = Some th ->
  th_pc th = PUnsubAllLoop o rest -> NoDup rest -> (forall ci, In ci rest -> is_open (c_chans c) ci) ->
  run c (repeat (t, Plain) (length rest)) =
  Config (c_objs c) (close_all rest (c_chans c)) (c_wg c)
         (upd t (Thread (th_prog th) (PUnsubAllLoop o []) (th_rets th)) (c_threads c))
         (rev (map (EClose t o) rest) ++ c_trace c) None.
Proof.
  induction rest as [|ci rest IH]; intros c t th o Hp Ht Hpc ND Hop.
  - cbn. destruct c, th; cbn in *; subst. rewrite upd_same; auto.
  - assert (Lt : t < length (c_threads c)) by (eapply nth_error_some_lt; eauto).
    inversion ND as [|? ? Hni ND']; subst.
    destruct (Hop ci (or_introl eq_refl)) as (chn & Hc & Ho).
    cbn [length repeat run]. unfold_step. rewrite Hp, Ht, Hpc. unfold close_chan. norm. rewrite Hc, Ho. norm. rewrite Hp.
    erewrite IH; norm.
    + rewrite upd_upd. cbn [map rev]. rewrite <- app_assoc. cbn [app].
      unfold close_all at 2. cbn [fold_left]. unfold close_one at 2. rewrite Hc. reflexivity.
    + exact Hp.
    + apply nth_error_upd_eq; exact Lt.
    + reflexivity.
    + exact ND'.
    + intros cj Hj. assert (N : ci <> cj) by (intros ->; contradiction).
      generalize (is_open_close_other (c_chans c) ci cj N (Hop cj (or_intror Hj))).
      unfold close_one. rewrite Hc. auto.
Qed.

(* UnsubAll with every subscribed channel open: Lock; one close per channel;
   subs = nil + Unlock. Returns nil; exactly the subscribed channels are
   closed (buffers kept), the subscription list is empty, one EClose per
   channel is logged in order, nothing else changes. *)
Lemma unsuball_solo c t th o ob rest :
  c_panic c = None -> nth_error (c_threads c) t = Some th ->
  th_pc th = PIdle -> th_prog th = CUnsubAll o :: rest ->
  nth_error (c_objs c) o = Some ob -> lock_free t ob = true ->
  NoDup (o_subs ob) -> (forall ci, In ci (o_subs ob) -> is_open (c_chans c) ci) ->
  run c (repeat (t, Plain) (length (o_subs ob) + 2)) =
  Config (upd o (set_wr (set_subs ob []) None) (c_objs c))
         (close_all (o_subs ob) (c_chans c)) (c_wg c)
         (upd t (Thread rest PIdle (th_rets th ++ [RNil])) (c_threads c))
         (rev (map (EClose t o) (o_subs ob)) ++ c_trace c) None.
Proof.
  intros Hp Ht Hpc Hpr Ho Hl ND Hop.
  assert (Lt : t < length (c_threads c)) by (eapply nth_error_some_lt; eauto).
  assert (Lo : o < length (c_objs c)) by (eapply nth_error_some_lt; eauto).
  replace (length (o_subs ob) + 2) with (1 + (length (o_subs ob) + 1)) by lia.
  rewrite <- !repeat_app, !run_app. cbn [repeat run].
  unfold_step. rewrite Hp, Ht, Hpc, Hpr. cbn [step_call]. rewrite Ho, Hl. norm.
  erewrite unsuball_loop_solo; norm.
  - unfold_step. rewrite upd_upd, nth_error_upd_eq by exact Lt. norm.
    rewrite nth_error_upd_eq by exact Lo. norm. rewrite !upd_upd.
    unfold set_wr, set_subs. cbn. reflexivity.
  - exact Hp.
  - apply nth_error_upd_eq; exact Lt.
  - reflexivity.
  - exact ND.
  - exact Hop.
Qed.

(* WithOnly(sub): RLock + loop; RUnlock + return. A new PubSub is appended
   that lists exactly [sub] if it is subscribed (nothing for nil or an unknown
   channel), with the same timeout configuration and no default buffer; the
   parent, the channels and the trace are unchanged. *)
Lemma withonly_solo c t th o ob sub rest ch1 ch2 :
  c_panic c = None -> nth_error (c_threads c) t = Some th ->
  th_pc th = PIdle -> th_prog th = CWithOnly o sub :: rest ->
  nth_error (c_objs c) o = Some ob -> rlock_free ob = true -> NoDup (o_subs ob) ->
  run c [(t, ch1); (t, ch2)] =
  Config (c_objs c ++
            [PsObj (match sub with
                    | Some s => if in_dec Nat.eq_dec s (o_subs ob) then [s] else []
                    | None => []
                    end) [] None None (o_timeout ob) (o_cb ob) 0%Z])
         (c_chans c) (c_wg c)
         (upd t (Thread rest PIdle (th_rets th ++ [RView (length (c_objs c))])) (c_threads c))
         (c_trace c) None.
Proof.
  intros Hp Ht Hpc Hpr Ho Hl ND.
  assert (Lt : t < length (c_threads c)) by (eapply nth_error_some_lt; eauto).
  assert (Lo : o < length (c_objs c)) by (eapply nth_error_some_lt; eauto).
  cbn [run]. unfold_step. rewrite Hp, Ht, Hpc, Hpr. cbn [step_call]. rewrite Ho, Hl. norm.
  unfold_step. rewrite Hp, nth_error_upd_eq by exact Lt. norm.
  rewrite nth_error_upd_eq by exact Lo. norm.
  rewrite !upd_upd, upd_length, withonly_loop_spec by exact ND. unfold set_rd. cbn [o_subs o_rd o_wr o_ww o_timeout o_cb o_defbuf remove_one].
  rewrite Nat.eqb_refl. rewrite (upd_same o) by (destruct ob; exact Ho). reflexivity.
Qed.

