(* PROOFS about the PubSub machine of Chans/PubSubModel.v. *)
From Typ Require Import Lib.Base Chans.PubSubModel.

(* ------------------------------------------------------------------ *)
(* Lists                                                                *)
(* ------------------------------------------------------------------ *)

Lemma upd_length {A} i (x : A) l : length (upd i x l) = length l.
Proof. revert i; induction l as [|y l IH]; intros [|i]; simpl; auto. Qed.

Lemma nth_error_upd_eq {A} i (x : A) l : i < length l -> nth_error (upd i x l) i = Some x.
Proof. revert i; induction l as [|y l IH]; intros [|i] H; simpl in *; try lia; auto. apply IH; lia. Qed.

Lemma nth_error_upd_neq {A} i j (x : A) l : i <> j -> nth_error (upd i x l) j = nth_error l j.
Proof.
  revert i j; induction l as [|y l IH]; intros [|i] [|j] H; simpl; auto; try congruence.
Qed.

Lemma nth_error_some_lt {A} (l : list A) i x : nth_error l i = Some x -> i < length l.
Proof. intro H. apply nth_error_Some. congruence. Qed.

Lemma nth_error_upd {A} i j (x y : A) l :
  nth_error (upd i x l) j = Some y ->
  (i = j /\ y = x /\ i < length l) \/ (i <> j /\ nth_error l j = Some y).
Proof.
  intro H. destruct (Nat.eq_dec i j) as [->|N].
  - left. assert (L : j < length l) by (apply nth_error_some_lt in H; rewrite upd_length in H; exact H).
    rewrite nth_error_upd_eq in H by exact L. injection H as <-. auto.
  - right. rewrite nth_error_upd_neq in H by exact N. auto.
Qed.

Lemma nth_error_app_some {A} (l : list A) x i y :
  nth_error (l ++ [x]) i = Some y -> nth_error l i = Some y \/ (i = length l /\ y = x).
Proof.
  intro H. destruct (Nat.lt_ge_cases i (length l)) as [L|G].
  - left. rewrite nth_error_app1 in H; auto.
  - right. rewrite nth_error_app2 in H by exact G.
    destruct (i - length l) as [|d] eqn:E; simpl in H.
    + injection H as <-. split; [lia|reflexivity].
    + destruct d; discriminate.
Qed.

(* ------------------------------------------------------------------ *)
(* Runs and invariants                                                  *)
(* ------------------------------------------------------------------ *)

Lemma run_app c s1 s2 : run c (s1 ++ s2) = run (run c s1) s2.
Proof. revert c; induction s1 as [|tc s1 IH]; intro c; simpl; auto. Qed.

Lemma run_inv (P : config -> Prop) :
  (forall c t ch c', P c -> step c t ch = Some c' -> P c') ->
  forall s c, P c -> P (run c s).
Proof.
  intros Hs s; induction s as [|[t ch] s IH]; intros c Hc; simpl; auto.
  apply IH. unfold step_or_stay; simpl. destruct (step c t ch) as [c'|] eqn:E; eauto.
Qed.

(* destruct the scrutinees of the matches of a hypothesis until it is an equation between [Some]s *)
Ltac break_hyp H :=
  match type of H with
  | context [match ?x with _ => _ end] =>
      match type of x with
      | sumbool _ _ => destruct x
      | _ => let E := fresh "E" in destruct x eqn:E
      end
  | context [if ?x then _ else _] => let E := fresh "E" in destruct x eqn:E
  end.
Ltac step_inv H := repeat (first [discriminate H | break_hyp H]); try (injection H as H); try subst.

(* ------------------------------------------------------------------ *)
(* The known finding, in theorem form                                   *)
(* ------------------------------------------------------------------ *)

(* One unbuffered subscriber that nobody receives from; Pub 5 starts a sender
   goroutine (thread 1) that blocks in the send; Unsub closes the channel; the
   sender's next step is a send on a closed channel. *)
Definition finding_progs : list (list call) := [[CSubBuf 0 0%Z; CPubOne Async 0 5%Z; CUnsub 0 (Some 0)]].
Definition finding_sched : sched :=
  [(0, Plain); (0, Plain);                (* SubBuf: Lock; Unlock *)
   (0, Plain); (0, Plain); (0, Plain);    (* Pub: RLock; go send; RUnlock *)
   (0, Plain); (0, Plain); (0, Plain);    (* Unsub: Lock + subIndex; close + splice; Unlock *)
   (1, Plain)].                           (* the sender goroutine: ch <- 5 *)

Lemma async_unsub_panic_reachable :
  exists progs s, Panicked (run (init 0%Z false 0%Z progs) s) /\
    c_panic (run (init 0%Z false 0%Z progs) s) = Some PSendOnClosed /\
    (* the publish call and the Unsub had both returned normally before *)
    (exists th, nth_error (c_threads (run (init 0%Z false 0%Z progs) s)) 0 = Some th /\
                th_rets th = [RChan 0; RUnit; RNil]).
Proof.
  exists finding_progs, finding_sched. split; [|split].
  - unfold Panicked. vm_compute. discriminate.
  - vm_compute. reflexivity.
  - eexists. split; vm_compute; reflexivity.
Qed.

(* ------------------------------------------------------------------ *)
(* subIndex, WithOnly's loop, pair lists                                *)
(* ------------------------------------------------------------------ *)

Lemma sub_index_from_notin i subs s : ~ In s subs -> sub_index_from i subs s = (-1)%Z.
Proof.
  revert i; induction subs as [|x subs IH]; intros i H; simpl; auto.
  destruct (Nat.eqb_spec x s) as [->|N]; [exfalso; apply H; left; reflexivity|].
  apply IH. intro; apply H; right; assumption.
Qed.

Lemma sub_index_from_in i subs s : In s subs ->
  exists n, sub_index_from i subs s = (i + Z.of_nat n)%Z /\ nth_error subs n = Some s /\ ~ In s (firstn n subs).
Proof.
  revert i; induction subs as [|x subs IH]; intros i H; [destruct H|]. simpl.
  destruct (Nat.eqb_spec x s) as [->|N].
  - exists 0. simpl. split; [lia|]. split; auto.
  - destruct H as [H|H]; [congruence|]. destruct (IH (i + 1)%Z H) as (n & E & Hn & Hf).
    exists (S n). simpl. split; [lia|]. split; auto. intros [F|F]; [congruence|auto].
Qed.

Lemma sub_index_spec subs s :
  (~ In s subs /\ sub_index subs s = (-1)%Z) \/
  (exists n, sub_index subs s = Z.of_nat n /\ nth_error subs n = Some s /\ ~ In s (firstn n subs)).
Proof.
  destruct (in_dec Nat.eq_dec s subs) as [H|H].
  - right. destruct (sub_index_from_in 0%Z subs s H) as (n & E & R). exists n. split; auto.
  - left. split; auto. apply sub_index_from_notin; auto.
Qed.

(* removing position n, the first occurrence of s in a duplicate-free list, removes exactly s *)
Lemma splice_is_remove subs n s : nth_error subs n = Some s -> NoDup subs ->
  firstn n subs ++ skipn (S n) subs = remove Nat.eq_dec s subs.
Proof.
  revert n; induction subs as [|x subs IH]; intros [|n] H ND; simpl in *; try discriminate.
  - injection H as ->. destruct (Nat.eq_dec s s) as [_|N]; [|congruence].
    inversion ND; subst. symmetry. apply notin_remove. assumption.
  - inversion ND; subst. destruct (Nat.eq_dec s x) as [->|N].
    + exfalso. apply H2. eapply nth_error_In; eauto.
    + f_equal. apply IH; auto.
Qed.

Lemma withonly_loop_acc sub subs acc :
  fold_left (fun acc s => if ocid_eqb sub s then acc ++ [s] else acc) subs acc =
  acc ++ filter (ocid_eqb sub) subs.
Proof.
  revert acc; induction subs as [|x subs IH]; intro acc; simpl; [rewrite app_nil_r; reflexivity|].
  rewrite IH. destruct (ocid_eqb sub x); simpl; [rewrite <- app_assoc|]; reflexivity.
Qed.

Lemma withonly_loop_filter sub subs : withonly_loop sub subs = filter (ocid_eqb sub) subs.
Proof. unfold withonly_loop. rewrite withonly_loop_acc. reflexivity. Qed.

(* WithOnly keeps the given subscription if it is subscribed, and nothing else *)
Lemma withonly_loop_spec sub subs : NoDup subs ->
  withonly_loop sub subs =
  match sub with
  | Some s => if in_dec Nat.eq_dec s subs then [s] else []
  | None => []
  end.
Proof.
  rewrite withonly_loop_filter. intro ND. destruct sub as [s|]; simpl.
  - induction subs as [|x subs IH]; simpl; auto. inversion ND; subst.
    destruct (Nat.eqb_spec s x) as [->|N].
    + destruct (Nat.eq_dec x x) as [_|]; [|congruence]. f_equal.
      rewrite IH by assumption. destruct (in_dec Nat.eq_dec x subs); [contradiction|reflexivity].
    + rewrite IH by assumption. destruct (Nat.eq_dec x s); [congruence|].
      destruct (in_dec Nat.eq_dec s subs); reflexivity.
  - induction subs; simpl; auto. apply IHsubs. inversion ND; assumption.
Qed.

Lemma withonly_loop_in sub subs x : In x (withonly_loop sub subs) <-> sub = Some x /\ In x subs.
Proof.
  rewrite withonly_loop_filter, filter_In. unfold ocid_eqb. destruct sub as [s|]; split.
  - intros [H E]. apply Nat.eqb_eq in E. subst. auto.
  - intros [E H]. injection E as ->. split; auto. apply Nat.eqb_refl.
  - intros [_ F]; discriminate.
  - intros [F _]; discriminate.
Qed.

Lemma pairs_slice_length i evs subs : length (pairs_slice i evs subs) = length subs * length evs.
Proof.
  revert i; induction evs as [|ev evs IH]; intro i; simpl; [lia|].
  rewrite app_length, map_length, IH. lia.
Qed.

Lemma pairs_one_length ev subs : length (pairs_one ev subs) = length subs.
Proof. apply map_length. Qed.

Lemma pairs_slice_sub i evs subs p : In p (pairs_slice i evs subs) -> In (p_sub p) subs.
Proof.
  revert i; induction evs as [|ev evs IH]; intros i H; simpl in H; [destruct H|].
  apply in_app_or in H as [H|H]; eauto.
  apply in_map_iff in H as (s & <- & Hs). exact Hs.
Qed.

Lemma pairs_one_sub ev subs p : In p (pairs_one ev subs) -> In (p_sub p) subs.
Proof. intro H. apply in_map_iff in H as (s & <- & Hs). exact Hs. Qed.

(* ------------------------------------------------------------------ *)
(* upd algebra                                                          *)
(* ------------------------------------------------------------------ *)

Lemma upd_upd {A} i (x y : A) l : upd i x (upd i y l) = upd i x l.
Proof. revert i; induction l as [|z l IH]; intros [|i]; simpl; auto. f_equal; apply IH. Qed.

Lemma upd_same {A} i (x : A) l : nth_error l i = Some x -> upd i x l = l.
Proof. revert i; induction l as [|z l IH]; intros [|i] H; simpl in *; try discriminate; [congruence|f_equal; auto]. Qed.

(* ------------------------------------------------------------------ *)
(* Unsub / UnsubAll / WithOnly: what one call does (run alone)          *)
(* ------------------------------------------------------------------ *)

Local Arguments skipn : simpl never.
Local Arguments firstn : simpl never.

Lemma lock_free_inv t ob : lock_free t ob = true ->
  o_rd ob = [] /\ o_wr ob = None /\ (o_ww ob = None \/ o_ww ob = Some t).
Proof.
  unfold lock_free. destruct (o_rd ob), (o_wr ob), (o_ww ob) as [t'|]; try discriminate; auto.
  intro H. apply Nat.eqb_eq in H. subst. auto.
Qed.

Ltac norm :=
  unfold spawn, do_panic, set_thread, set_obj, set_chans, set_wg, log, set_threads, set_objs, returns, with_pc;
  cbn [c_objs c_chans c_wg c_threads c_trace c_panic th_prog th_pc th_rets app fst snd].

Lemma step_unfold c t ch th :
  c_panic c = None -> nth_error (c_threads c) t = Some th -> step c t ch = step_thread c t th ch.
Proof. intros Hp Ht. unfold step. rewrite Hp, Ht. reflexivity. Qed.

(* execute the next schedule entry, thread state [th], under the facts in the context *)
Lemma run_cons c tc s : run c (tc :: s) = run (step_or_stay c tc) s.
Proof. reflexivity. Qed.

Ltac exec_step th :=
  rewrite ?upd_upd; rewrite run_cons; unfold step_or_stay; cbn [fst snd];
  rewrite (step_unfold _ _ _ th) by (norm; first [assumption | reflexivity | apply nth_error_upd_eq; assumption]);
  unfold step_thread; cbn [th_pc th_prog th_rets].

(* Unsub(nil): one step, returns ErrSubscriptionNotInitalized, nothing else changes. *)
Lemma unsub_nil_step c t th o rest ch :
  c_panic c = None -> nth_error (c_threads c) t = Some th ->
  th_pc th = PIdle -> th_prog th = CUnsub o None :: rest ->
  step c t ch = Some (set_thread c t (Thread rest PIdle (th_rets th ++ [RErr ErrSubscriptionNotInitalized]))).
Proof. intros Hp Ht Hpc Hpr. rewrite (step_unfold _ _ _ th) by assumption. unfold step_thread. rewrite Hpc, Hpr. reflexivity. Qed.

(* Unsub(sub) of a channel that is not subscribed: two steps (Lock + subIndex;
   Unlock), returns ErrAlreadyUnsubscribed; subscriptions, channels, trace and
   every other thread are unchanged (the lock is free again). *)
Lemma unsub_unknown_solo c t th o ob sub rest ch1 ch2 :
  c_panic c = None -> nth_error (c_threads c) t = Some th ->
  th_pc th = PIdle -> th_prog th = CUnsub o (Some sub) :: rest ->
  nth_error (c_objs c) o = Some ob -> lock_free t ob = true ->
  ~ In sub (o_subs ob) ->
  run c [(t, ch1); (t, ch2)] =
  Config (upd o (set_wr ob None) (c_objs c)) (c_chans c) (c_wg c)
         (upd t (Thread rest PIdle (th_rets th ++ [RErr ErrAlreadyUnsubscribed])) (c_threads c))
         (EUnlock t (length (th_rets th)) o (RErr ErrAlreadyUnsubscribed) (o_subs ob) :: ELock t (length (th_rets th)) o (CUnsub o (Some sub)) (o_subs ob) :: c_trace c) None.
Proof.
  intros Hp Ht Hpc Hpr Ho Hl Hn.
  assert (Lt : t < length (c_threads c)) by (eapply nth_error_some_lt; eauto).
  assert (Lo : o < length (c_objs c)) by (eapply nth_error_some_lt; eauto).
  destruct (sub_index_spec (o_subs ob) sub) as [[_ E]|(n & _ & Hnth & _)];
    [|exfalso; apply Hn; eapply nth_error_In; eauto].
  exec_step th. rewrite Hpc, Hpr. cbn [step_call]. rewrite Ho, Hl, E. cbn [Z.eqb Pos.eqb]. norm.
  exec_step (Thread rest (PUnsubU o (RErr ErrAlreadyUnsubscribed)) (th_rets th)). norm.
  rewrite nth_error_upd_eq by exact Lo. norm.
  cbn [run]. rewrite !upd_upd, Hp. unfold set_wr. cbn. reflexivity.
Qed.

(* Unsub(sub) of a subscribed, open channel: three steps (Lock + subIndex;
   close + splice; Unlock), returns nil; exactly that channel is closed (its
   buffer is kept), exactly it is removed from the subscriptions, one EClose
   is logged, and nothing else changes. *)
Lemma unsub_known_solo c t th o ob sub rest chn ch1 ch2 ch3 :
  c_panic c = None -> nth_error (c_threads c) t = Some th ->
  th_pc th = PIdle -> th_prog th = CUnsub o (Some sub) :: rest ->
  nth_error (c_objs c) o = Some ob -> lock_free t ob = true ->
  In sub (o_subs ob) -> NoDup (o_subs ob) ->
  nth_error (c_chans c) sub = Some chn -> ch_closed chn = false ->
  run c [(t, ch1); (t, ch2); (t, ch3)] =
  Config (upd o (set_wr (set_subs ob (remove Nat.eq_dec sub (o_subs ob))) None) (c_objs c))
         (upd sub (Chan (ch_buf chn) (ch_cap chn) true) (c_chans c)) (c_wg c)
         (upd t (Thread rest PIdle (th_rets th ++ [RNil])) (c_threads c))
         (EUnlock t (length (th_rets th)) o RNil (remove Nat.eq_dec sub (o_subs ob)) :: EClose t o sub ::
          ELock t (length (th_rets th)) o (CUnsub o (Some sub)) (o_subs ob) :: c_trace c) None.
Proof.
  intros Hp Ht Hpc Hpr Ho Hl Hin ND Hc Hop.
  assert (Lt : t < length (c_threads c)) by (eapply nth_error_some_lt; eauto).
  assert (Lo : o < length (c_objs c)) by (eapply nth_error_some_lt; eauto).
  destruct (sub_index_spec (o_subs ob) sub) as [[F _]|(n & E & Hnth & _)]; [contradiction|].
  assert (En : (Z.of_nat n =? -1)%Z = false) by (apply Z.eqb_neq; lia).
  exec_step th. rewrite Hpc, Hpr. cbn [step_call]. rewrite Ho, Hl, E, En, Nat2Z.id. norm.
  exec_step (Thread rest (PUnsubClose o n) (th_rets th)). norm.
  rewrite nth_error_upd_eq by exact Lo. unfold set_wr at 1. cbn [o_subs]. rewrite Hnth.
  unfold close_chan. norm. rewrite Hc, Hop. norm. rewrite Hp.
  exec_step (Thread rest (PUnsubU o RNil) (th_rets th)). norm.
  rewrite upd_upd, nth_error_upd_eq by exact Lo. norm.
  cbn [run]. rewrite !upd_upd. unfold set_wr, set_subs. cbn.
  rewrite <- (splice_is_remove _ _ _ Hnth ND). reflexivity.
Qed.

Definition close_one (chs : list chan) (ci : cid) : list chan :=
  match nth_error chs ci with
  | Some chn => upd ci (Chan (ch_buf chn) (ch_cap chn) true) chs
  | None => chs
  end.
Definition close_all (l : list cid) (chs : list chan) : list chan := fold_left close_one l chs.

Definition is_open (chs : list chan) (ci : cid) : Prop :=
  exists chn, nth_error chs ci = Some chn /\ ch_closed chn = false.

Lemma is_open_close_other chs ci cj : ci <> cj -> is_open chs cj -> is_open (close_one chs ci) cj.
Proof.
  intros N (chn & H & O). unfold close_one. destruct (nth_error chs ci); [|exists chn; auto].
  exists chn. rewrite nth_error_upd_neq by exact N. auto.
Qed.

(* the closing loop of UnsubAll *)
Lemma unsuball_loop_solo rest : forall c t th o,
  c_panic c = None -> nth_error (c_threads c) t = Some th ->
  th_pc th = PUnsubAllLoop o rest -> NoDup rest -> (forall ci, In ci rest -> is_open (c_chans c) ci) ->
  run c (repeat (t, Plain) (length rest)) =
  Config (c_objs c) (close_all rest (c_chans c)) (c_wg c)
         (upd t (Thread (th_prog th) (PUnsubAllLoop o []) (th_rets th)) (c_threads c))
         (rev (map (EClose t o) rest) ++ c_trace c) None.
Proof.
  induction rest as [|ci rest IH]; intros c t th o Hp Ht Hpc ND Hop.
  - cbn. destruct c, th; cbn in *; subst. rewrite upd_same; auto.
  - assert (Lt : t < length (c_threads c)) by (eapply nth_error_some_lt; eauto).
    inversion ND as [|? ? Hni ND']; subst.
    destruct (Hop ci (or_introl eq_refl)) as (chn & Hc & Ho).
    cbn [length repeat]. exec_step th. rewrite Hpc. unfold close_chan. norm. rewrite Hc, Ho. norm. rewrite Hp.
    match goal with |- run ?c1 _ = _ =>
      rewrite (IH c1 t (Thread (th_prog th) (PUnsubAllLoop o rest) (th_rets th)) o) end; norm.
    + rewrite upd_upd. cbn [map rev]. rewrite <- app_assoc. cbn [app].
      unfold close_all at 2. cbn [fold_left]. unfold close_one at 2. rewrite Hc. reflexivity.
    + reflexivity.
    + apply nth_error_upd_eq; exact Lt.
    + reflexivity.
    + exact ND'.
    + intros cj Hj. assert (N : ci <> cj) by (intros ->; contradiction).
      generalize (is_open_close_other (c_chans c) ci cj N (Hop cj (or_intror Hj))).
      unfold close_one. rewrite Hc. auto.
Qed.

(* UnsubAll with every subscribed channel open: Lock; one close per channel;
   subs = nil + Unlock. Returns nil; exactly the subscribed channels are
   closed (buffers kept), the subscription list is empty, one EClose per
   channel is logged in order, nothing else changes. *)
Lemma unsuball_solo c t th o ob rest :
  c_panic c = None -> nth_error (c_threads c) t = Some th ->
  th_pc th = PIdle -> th_prog th = CUnsubAll o :: rest ->
  nth_error (c_objs c) o = Some ob -> lock_free t ob = true ->
  NoDup (o_subs ob) -> (forall ci, In ci (o_subs ob) -> is_open (c_chans c) ci) ->
  run c (repeat (t, Plain) (length (o_subs ob) + 2)) =
  Config (upd o (set_wr (set_subs ob []) None) (c_objs c))
         (close_all (o_subs ob) (c_chans c)) (c_wg c)
         (upd t (Thread rest PIdle (th_rets th ++ [RNil])) (c_threads c))
         (EUnlock t (length (th_rets th)) o RNil [] :: rev (map (EClose t o) (o_subs ob)) ++ ELock t (length (th_rets th)) o (CUnsubAll o) (o_subs ob) :: c_trace c) None.
Proof.
  intros Hp Ht Hpc Hpr Ho Hl ND Hop.
  assert (Lt : t < length (c_threads c)) by (eapply nth_error_some_lt; eauto).
  assert (Lo : o < length (c_objs c)) by (eapply nth_error_some_lt; eauto).
  replace (length (o_subs ob) + 2) with (1 + (length (o_subs ob) + 1)) by lia.
  rewrite !repeat_app, !run_app. cbn [repeat].
  replace (run c [(t, Plain)]) with (step_or_stay c (t, Plain)) by reflexivity.
  unfold step_or_stay; cbn [fst snd]; rewrite (step_unfold _ _ _ th) by assumption; unfold step_thread.
  rewrite Hpc, Hpr. cbn [step_call]. rewrite Ho, Hl. norm.
  match goal with |- run (run ?c1 _) _ = _ =>
    rewrite (unsuball_loop_solo (o_subs ob) c1 t (Thread rest (PUnsubAllLoop o (o_subs ob)) (th_rets th)) o) end; norm.
  - exec_step (Thread rest (PUnsubAllLoop o []) (th_rets th)). norm.
    rewrite nth_error_upd_eq by exact Lo. norm. cbn [run]. rewrite !upd_upd.
    unfold set_wr, set_subs. cbn. reflexivity.
  - exact Hp.
  - apply nth_error_upd_eq; exact Lt.
  - reflexivity.
  - exact ND.
  - exact Hop.
Qed.

(* WithOnly(sub): RLock + loop; RUnlock + return. A new PubSub is appended
   that lists exactly [sub] if it is subscribed (nothing for nil or an unknown
   channel), with the same timeout configuration and no default buffer; the
   parent, the channels and the trace are unchanged. *)
Lemma withonly_solo c t th o ob sub rest ch1 ch2 :
  c_panic c = None -> nth_error (c_threads c) t = Some th ->
  th_pc th = PIdle -> th_prog th = CWithOnly o sub :: rest ->
  nth_error (c_objs c) o = Some ob -> rlock_free ob = true -> NoDup (o_subs ob) ->
  run c [(t, ch1); (t, ch2)] =
  Config (c_objs c ++
            [PsObj (match sub with
                    | Some s => if in_dec Nat.eq_dec s (o_subs ob) then [s] else []
                    | None => []
                    end) [] None None (o_timeout ob) (o_cb ob) 0%Z])
         (c_chans c) (c_wg c)
         (upd t (Thread rest PIdle (th_rets th ++ [RView (length (c_objs c))])) (c_threads c))
         (EViewRet t (length (th_rets th)) o (length (c_objs c))
                   (match sub with
                    | Some s => if in_dec Nat.eq_dec s (o_subs ob) then [s] else []
                    | None => []
                    end) (o_subs ob) :: EViewLock t (length (th_rets th)) o sub (o_subs ob) :: c_trace c) None.
Proof.
  intros Hp Ht Hpc Hpr Ho Hl ND.
  assert (Lt : t < length (c_threads c)) by (eapply nth_error_some_lt; eauto).
  assert (Lo : o < length (c_objs c)) by (eapply nth_error_some_lt; eauto).
  exec_step th. rewrite Hpc, Hpr. cbn [step_call]. rewrite Ho, Hl. norm.
  match goal with |- context [PWithOnlyU o ?cl] => exec_step (Thread rest (PWithOnlyU o cl) (th_rets th)) end. norm.
  rewrite nth_error_upd_eq by exact Lo. norm.
  cbn [run]. rewrite !upd_upd, upd_length, withonly_loop_spec by exact ND. unfold set_rd. cbn [o_subs o_rd o_wr o_ww o_timeout o_cb o_defbuf remove_one].
  rewrite Nat.eqb_refl. rewrite (upd_same o) by (destruct ob; exact Ho). rewrite ?Hp. reflexivity.
Qed.


(* ------------------------------------------------------------------ *)
(* The step function as a relation (one constructor per transition)     *)
(* ------------------------------------------------------------------ *)

(* the thread is about to start call [cl] (fresh, or after having waited for the write lock) *)
Definition starts (th : thread) (cl : call) (rest : list call) : Prop :=
  (th_pc th = PIdle /\ th_prog th = cl :: rest) \/
  (exists l, th_pc th = PLockWait l /\ cl = call_of l /\ rest = th_prog th).

Definition pub_ps (sl : bool) (evs : list Z) (subs : list cid) : list pair :=
  if sl then pairs_slice 0 evs subs else pairs_one (hd 0%Z evs) subs.
Definition pub_pc (k : callid) (o : oid) (sl : bool) (w : wkind) (evs : list Z) (subs : list cid) : pc :=
  match w with
  | Wait => PAdd k o (if sl then length subs * length evs else length subs) (pub_ps sl evs subs)
  | _ => PLoop k o (pub_ps sl evs subs)
  end.

Definition lock_target (l : lcall) : oid :=
  match l with LSub o | LSubBuf o _ | LUnsub o _ | LUnsubAll o => o end.

Inductive send_trans (c : config) (t : tid) (th : thread) (k : callid) (p : pair)
          (timeout : Z) (cb : bool) (pc_sent pc_cb : pc) : config -> Prop :=
| S_Panic chn :
    nth_error (c_chans c) (p_sub p) = Some chn -> ch_closed chn = true ->
    send_trans c t th k p timeout cb pc_sent pc_cb (do_panic c t PSendOnClosed)
| S_Buf chn :
    nth_error (c_chans c) (p_sub p) = Some chn -> ch_closed chn = false ->
    length (ch_buf chn) < ch_cap chn ->
    send_trans c t th k p timeout cb pc_sent pc_cb
      (log (set_thread (set_chans c (upd (p_sub p) (Chan (ch_buf chn ++ [p_ev p]) (ch_cap chn) false) (c_chans c)))
                       t (with_pc th pc_sent)) [EDone k p; EHandoff k p])
| S_To chn r thr :
    nth_error (c_chans c) (p_sub p) = Some chn -> ch_closed chn = false -> ch_cap chn = 0 ->
    nth_error (c_threads c) r = Some thr -> recv_target thr = Some (p_sub p) ->
    send_trans c t th k p timeout cb pc_sent pc_cb
      (log (set_thread (set_thread c r (deliver thr (p_ev p))) t (with_pc th pc_sent))
           [EDone k p; ERecv r (p_sub p) (p_ev p); EHandoff k p])
| S_TimeoutCb :
    (0 < timeout)%Z -> cb = true ->
    send_trans c t th k p timeout cb pc_sent pc_cb
      (log (set_thread c t (with_pc th pc_cb)) [ETimeout k p true])
| S_TimeoutNoCb :
    (0 < timeout)%Z -> cb = false ->
    send_trans c t th k p timeout cb pc_sent pc_cb
      (log (set_thread c t (with_pc th pc_sent)) [EDone k p; ETimeout k p false]).

Inductive trans (c : config) (t : tid) (th : thread) : config -> Prop :=
| T_PubStart cl rest sl w o evs ob :
    starts th cl rest ->
    (cl = CPubOne w o (hd 0%Z evs) /\ sl = false /\ length evs = 1 \/ cl = CPubSlice w o evs /\ sl = true) ->
    nth_error (c_objs c) o = Some ob -> rlock_free ob = true ->
    trans c t th
      (log (set_thread (set_obj c o (set_rd ob (t :: o_rd ob))) t
              (Thread rest (pub_pc (CallId t (length (th_rets th)) (sl, w)) o sl w evs (o_subs ob)) (th_rets th)))
           [ERLock (CallId t (length (th_rets th)) (sl, w)) o evs (o_subs ob)])
| T_WithOnlyStart rest o sub ob :
    starts th (CWithOnly o sub) rest ->
    nth_error (c_objs c) o = Some ob -> rlock_free ob = true ->
    trans c t th
      (log (set_thread (set_obj c o (set_rd ob (t :: o_rd ob))) t
              (Thread rest (PWithOnlyU o (PsObj (withonly_loop sub (o_subs ob)) [] None None (o_timeout ob) (o_cb ob) 0%Z))
                      (th_rets th)))
           [EViewLock t (length (th_rets th)) o sub (o_subs ob)])
| T_SubPanic l rest o size ob :
    starts th (call_of l) rest ->
    (l = LSub o /\ size = o_defbuf ob \/ l = LSubBuf o size) ->
    nth_error (c_objs c) o = Some ob -> lock_free t ob = true -> (size < 0)%Z ->
    trans c t th (do_panic c t PMakeChan)
| T_SubStart l rest o size ob :
    starts th (call_of l) rest ->
    (l = LSub o /\ size = o_defbuf ob \/ l = LSubBuf o size) ->
    nth_error (c_objs c) o = Some ob -> lock_free t ob = true -> (0 <= size)%Z ->
    trans c t th
      (log (set_thread (set_obj (set_chans c (c_chans c ++ [Chan [] (Z.to_nat size) false]))
                                o (set_subs (set_wr ob (Some t)) (o_subs ob ++ [length (c_chans c)])))
                       t (Thread rest (PSubU o (length (c_chans c))) (th_rets th)))
           [ESub o (length (c_chans c)); ELock t (length (th_rets th)) o (call_of l) (o_subs ob)])
| T_Announce l rest ob :
    th_pc th = PIdle -> th_prog th = call_of l :: rest ->
    nth_error (c_objs c) (lock_target l) = Some ob -> lock_free t ob = false -> can_announce ob = true ->
    trans c t th
      (set_thread (set_obj c (lock_target l) (set_ww ob (Some t))) t (Thread rest (PLockWait l) (th_rets th)))
| T_UnsubNil rest o :
    starts th (CUnsub o None) rest ->
    trans c t th (set_thread c t (Thread rest PIdle (th_rets th ++ [RErr ErrSubscriptionNotInitalized])))
| T_UnsubStart rest o sub ob :
    starts th (CUnsub o (Some sub)) rest ->
    nth_error (c_objs c) o = Some ob -> lock_free t ob = true ->
    trans c t th
      (log (set_thread (set_obj c o (set_wr ob (Some t))) t
              (Thread rest (if (sub_index (o_subs ob) sub =? -1)%Z then PUnsubU o (RErr ErrAlreadyUnsubscribed)
                            else PUnsubClose o (Z.to_nat (sub_index (o_subs ob) sub))) (th_rets th)))
           [ELock t (length (th_rets th)) o (CUnsub o (Some sub)) (o_subs ob)])
| T_UnsubAllStart rest o ob :
    starts th (CUnsubAll o) rest ->
    nth_error (c_objs c) o = Some ob -> lock_free t ob = true ->
    trans c t th
      (log (set_thread (set_obj c o (set_wr ob (Some t))) t (Thread rest (PUnsubAllLoop o (o_subs ob)) (th_rets th)))
           [ELock t (length (th_rets th)) o (CUnsubAll o) (o_subs ob)])
| T_RecvVal ci chn v buf' :
    recv_target th = Some ci -> nth_error (c_chans c) ci = Some chn -> ch_buf chn = v :: buf' ->
    trans c t th
      (log (set_thread (set_chans c (upd ci (Chan buf' (ch_cap chn) (ch_closed chn)) (c_chans c))) t (deliver th v))
           [ERecv t ci v])
| T_RecvClosed ci chn :
    recv_target th = Some ci -> nth_error (c_chans c) ci = Some chn -> ch_buf chn = [] -> ch_closed chn = true ->
    trans c t th (set_thread c t (deliver_closed th))
| T_Add k o n ps :
    th_pc th = PAdd k o n ps ->
    trans c t th
      (set_thread (set_wg c (wg_set (c_wg c) (k_tid k) (k_n k) (c_wg c (k_tid k) (k_n k) + n)))
                  t (with_pc th (PLoop k o ps)))
| T_SyncSend k o p ps ob c' :
    th_pc th = PLoop k o (p :: ps) -> nth_error (c_objs c) o = Some ob -> snd (k_var k) = Sync ->
    send_trans c t th k p (o_timeout ob) (o_cb ob) (PLoop k o ps) (PSyncCb k o p ps) c' ->
    trans c t th c'
| T_Spawn k o p ps ob :
    th_pc th = PLoop k o (p :: ps) -> nth_error (c_objs c) o = Some ob -> snd (k_var k) <> Sync ->
    trans c t th
      (spawn (set_thread c t (with_pc th (PLoop k o ps)))
             (Thread [] (PGoSend k p (o_timeout ob) (o_cb ob)
                                 (match snd (k_var k) with Wait => true | _ => false end)) []))
| T_LoopEndWait k o ob :
    th_pc th = PLoop k o [] -> nth_error (c_objs c) o = Some ob -> snd (k_var k) = Wait ->
    trans c t th (set_thread (set_obj c o (set_rd ob (remove_one t (o_rd ob)))) t (with_pc th (PWait k)))
| T_LoopEndRet k o ob :
    th_pc th = PLoop k o [] -> nth_error (c_objs c) o = Some ob -> snd (k_var k) <> Wait ->
    trans c t th
      (log (set_thread (set_obj c o (set_rd ob (remove_one t (o_rd ob)))) t (returns th RUnit)) [EPubRet k])
| T_SyncCb k o p ps :
    th_pc th = PSyncCb k o p ps ->
    trans c t th (log (set_thread c t (with_pc th (PLoop k o ps))) [EDone k p; ECallback k p])
| T_WaitRet k :
    th_pc th = PWait k -> c_wg c (k_tid k) (k_n k) = 0 ->
    trans c t th (log (set_thread c t (returns th RUnit)) [EPubRet k])
| T_GoSend k p timeout cb wg c' :
    th_pc th = PGoSend k p timeout cb wg ->
    send_trans c t th k p timeout cb (after_send wg k p) (PGoCb k p wg) c' ->
    trans c t th c'
| T_GoCb k p wg :
    th_pc th = PGoCb k p wg ->
    trans c t th (log (set_thread c t (with_pc th (after_send wg k p))) [EDone k p; ECallback k p])
| T_GoDonePanic k p :
    th_pc th = PGoDone k p -> c_wg c (k_tid k) (k_n k) = 0 ->
    trans c t th (do_panic c t PNegWaitGroup)
| T_GoDone k p m :
    th_pc th = PGoDone k p -> c_wg c (k_tid k) (k_n k) = S m ->
    trans c t th (set_thread (set_wg c (wg_set (c_wg c) (k_tid k) (k_n k) m)) t (with_pc th PExit))
| T_WithOnlyU o clone ob :
    th_pc th = PWithOnlyU o clone -> nth_error (c_objs c) o = Some ob ->
    trans c t th
      (log (set_thread (set_objs c (upd o (set_rd ob (remove_one t (o_rd ob))) (c_objs c) ++ [clone]))
                       t (returns th (RView (length (c_objs c)))))
           [EViewRet t (length (th_rets th)) o (length (c_objs c)) (o_subs clone) (o_subs ob)])
| T_SubU o ci ob :
    th_pc th = PSubU o ci -> nth_error (c_objs c) o = Some ob ->
    trans c t th (log (set_thread (set_obj c o (set_wr ob None)) t (returns th (RChan ci))) [EUnlock t (length (th_rets th)) o (RChan ci) (o_subs ob)])
| T_UnsubCloseIdx o idx ob :
    th_pc th = PUnsubClose o idx -> nth_error (c_objs c) o = Some ob -> nth_error (o_subs ob) idx = None ->
    trans c t th (do_panic c t PIndex)
| T_UnsubCloseNil o idx ob ci :
    th_pc th = PUnsubClose o idx -> nth_error (c_objs c) o = Some ob -> nth_error (o_subs ob) idx = Some ci ->
    nth_error (c_chans c) ci = None ->
    trans c t th (do_panic c t PCloseOfNil)
| T_UnsubCloseClosed o idx ob ci chn :
    th_pc th = PUnsubClose o idx -> nth_error (c_objs c) o = Some ob -> nth_error (o_subs ob) idx = Some ci ->
    nth_error (c_chans c) ci = Some chn -> ch_closed chn = true ->
    trans c t th (do_panic c t PCloseOfClosed)
| T_UnsubCloseOk o idx ob ci chn :
    th_pc th = PUnsubClose o idx -> nth_error (c_objs c) o = Some ob -> nth_error (o_subs ob) idx = Some ci ->
    nth_error (c_chans c) ci = Some chn -> ch_closed chn = false ->
    trans c t th
      (set_thread (set_obj (log (set_chans c (upd ci (Chan (ch_buf chn) (ch_cap chn) true) (c_chans c))) [EClose t o ci])
                           o (set_subs ob (firstn idx (o_subs ob) ++ skipn (S idx) (o_subs ob))))
                  t (with_pc th (PUnsubU o RNil)))
| T_UnsubU o r ob :
    th_pc th = PUnsubU o r -> nth_error (c_objs c) o = Some ob ->
    trans c t th (log (set_thread (set_obj c o (set_wr ob None)) t (returns th r)) [EUnlock t (length (th_rets th)) o r (o_subs ob)])
| T_UnsubAllNil o ci rest :
    th_pc th = PUnsubAllLoop o (ci :: rest) -> nth_error (c_chans c) ci = None ->
    trans c t th (do_panic c t PCloseOfNil)
| T_UnsubAllClosed o ci rest chn :
    th_pc th = PUnsubAllLoop o (ci :: rest) -> nth_error (c_chans c) ci = Some chn -> ch_closed chn = true ->
    trans c t th (do_panic c t PCloseOfClosed)
| T_UnsubAllClose o ci rest chn :
    th_pc th = PUnsubAllLoop o (ci :: rest) -> nth_error (c_chans c) ci = Some chn -> ch_closed chn = false ->
    trans c t th
      (set_thread (log (set_chans c (upd ci (Chan (ch_buf chn) (ch_cap chn) true) (c_chans c))) [EClose t o ci])
                  t (with_pc th (PUnsubAllLoop o rest)))
| T_UnsubAllEnd o ob :
    th_pc th = PUnsubAllLoop o [] -> nth_error (c_objs c) o = Some ob ->
    trans c t th (log (set_thread (set_obj c o (set_wr (set_subs ob []) None)) t (returns th RNil)) [EUnlock t (length (th_rets th)) o RNil []]).

Lemma step_send_trans c t th ch k p timeout cb pc_sent pc_cb c' :
  step_send c t th ch k p timeout cb pc_sent pc_cb = Some c' ->
  send_trans c t th k p timeout cb pc_sent pc_cb c'.
Proof.
  unfold step_send, try_send. intro H.
  destruct (nth_error (c_chans c) (p_sub p)) as [chn|] eqn:Hc; [|discriminate].
  destruct ch as [| |r].
  - destruct (ch_closed chn) eqn:Hcl.
    + injection H as <-. eapply S_Panic; eauto.
    + destruct (length (ch_buf chn) <? ch_cap chn) eqn:Hlt; [|discriminate].
      injection H as <-. apply Nat.ltb_lt in Hlt. eapply S_Buf; eauto.
  - destruct (0 <? timeout)%Z eqn:Hto; [|discriminate]. apply Z.ltb_lt in Hto.
    destruct cb; injection H as <-; [apply S_TimeoutCb|apply S_TimeoutNoCb]; auto.
  - destruct (ch_closed chn) eqn:Hcl.
    + injection H as <-. eapply S_Panic; eauto.
    + destruct (ch_cap chn =? 0) eqn:Hcap; [|discriminate]. apply Nat.eqb_eq in Hcap.
      destruct (nth_error (c_threads c) r) as [thr|] eqn:Hr; [|discriminate].
      destruct (ocid_eqb (recv_target thr) (p_sub p)) eqn:Ht; [|discriminate].
      injection H as <-. eapply S_To; eauto.
      unfold ocid_eqb in Ht. destruct (recv_target thr); [|discriminate]. apply Nat.eqb_eq in Ht. congruence.
Qed.

Lemma step_recv_trans c t th ci c' :
  recv_target th = Some ci -> step_recv c t th ci = Some c' -> trans c t th c'.
Proof.
  unfold step_recv. intros Hr H.
  destruct (nth_error (c_chans c) ci) as [chn|] eqn:Hc; [|discriminate].
  destruct (ch_buf chn) as [|v buf'] eqn:Hb.
  - destruct (ch_closed chn) eqn:Hcl; [|discriminate]. injection H as <-. eapply T_RecvClosed; eauto.
  - injection H as <-. eapply T_RecvVal; eauto.
Qed.

Lemma step_sub_start_trans c t th rest l o size ob c' :
  starts th (call_of l) rest -> (th_pc th = PIdle -> th_prog th = call_of l :: rest) ->
  (l = LSub o /\ size = o_defbuf ob \/ l = LSubBuf o size) ->
  nth_error (c_objs c) o = Some ob ->
  step_sub_start c t th rest l o size = Some c' -> trans c t th c'.
Proof.
  intros Hs Hidle Hl Ho H. unfold step_sub_start in H. rewrite Ho in H.
  destruct (lock_free t ob) eqn:Hf.
  - destruct (size <? 0)%Z eqn:Hsz.
    + injection H as <-. apply Z.ltb_lt in Hsz. eapply T_SubPanic; eauto.
    + injection H as <-. apply Z.ltb_ge in Hsz. eapply T_SubStart; eauto.
  - unfold announce in H. destruct (th_pc th) eqn:Hpc; try discriminate.
    destruct (can_announce ob) eqn:Ha; [|discriminate]. injection H as <-.
    assert (lock_target l = o) as <- by (destruct Hl as [[-> _]| ->]; reflexivity).
    eapply T_Announce; eauto.
Qed.

Lemma step_call_trans c t th cl rest c' :
  starts th cl rest -> (th_pc th = PIdle -> th_prog th = cl :: rest) ->
  step_call c t th cl rest = Some c' -> trans c t th c'.
Proof.
  intros Hs Hidle H. destruct cl as [w o ev|w o evs|o sub|o|o size|o [sub|]|o|ci|ci]; cbn [step_call] in H.
  - unfold step_pub_start in H. destruct (nth_error (c_objs c) o) as [ob|] eqn:Ho; [|discriminate].
    destruct (rlock_free ob) eqn:Hf; [|discriminate]. injection H as <-.
    eapply (T_PubStart c t th _ rest false w o [ev] ob); eauto.
  - unfold step_pub_start in H. destruct (nth_error (c_objs c) o) as [ob|] eqn:Ho; [|discriminate].
    destruct (rlock_free ob) eqn:Hf; [|discriminate]. injection H as <-.
    eapply (T_PubStart c t th _ rest true w o evs ob); eauto.
  - destruct (nth_error (c_objs c) o) as [ob|] eqn:Ho; [|discriminate].
    destruct (rlock_free ob) eqn:Hf; [|discriminate]. injection H as <-.
    eapply T_WithOnlyStart; eauto.
  - destruct (nth_error (c_objs c) o) as [ob|] eqn:Ho; [|discriminate].
    eapply (step_sub_start_trans c t th rest (LSub o)); eauto.
  - destruct (nth_error (c_objs c) o) as [ob|] eqn:Ho.
    + eapply (step_sub_start_trans c t th rest (LSubBuf o size)); eauto.
    + unfold step_sub_start in H. rewrite Ho in H. discriminate.
  - destruct (nth_error (c_objs c) o) as [ob|] eqn:Ho; [|discriminate].
    destruct (lock_free t ob) eqn:Hf.
    + injection H as <-. eapply T_UnsubStart; eauto.
    + unfold announce in H. destruct (th_pc th) eqn:Hpc; try discriminate.
      destruct (can_announce ob) eqn:Ha; [|discriminate]. injection H as <-.
      eapply (T_Announce c t th (LUnsub o sub)); eauto.
  - injection H as <-. eapply T_UnsubNil; eauto.
  - destruct (nth_error (c_objs c) o) as [ob|] eqn:Ho; [|discriminate].
    destruct (lock_free t ob) eqn:Hf.
    + injection H as <-. eapply T_UnsubAllStart; eauto.
    + unfold announce in H. destruct (th_pc th) eqn:Hpc; try discriminate.
      destruct (can_announce ob) eqn:Ha; [|discriminate]. injection H as <-.
      eapply (T_Announce c t th (LUnsubAll o)); eauto.
  - eapply step_recv_trans; eauto. unfold recv_target.
    destruct Hs as [[Hpc Hpr]|(l & _ & E & _)]; [rewrite Hpc, Hpr; reflexivity|destruct l; discriminate].
  - eapply step_recv_trans; eauto. unfold recv_target.
    destruct Hs as [[Hpc Hpr]|(l & _ & E & _)]; [rewrite Hpc, Hpr; reflexivity|destruct l; discriminate].
Qed.

Lemma step_trans c t ch c' :
  step c t ch = Some c' ->
  c_panic c = None /\ exists th, nth_error (c_threads c) t = Some th /\ trans c t th c'.
Proof.
  unfold step. destruct (c_panic c) eqn:Hp; [discriminate|].
  destruct (nth_error (c_threads c) t) as [th|] eqn:Ht; [|discriminate].
  intro H. split; auto. exists th. split; auto.
  unfold step_thread in H. destruct (th_pc th) eqn:Hpc.
  - destruct (th_prog th) as [|cl rest] eqn:Hpr; [discriminate|].
    eapply step_call_trans; eauto. left; auto.
  - eapply step_call_trans; [right; exists l; auto | intro F; rewrite Hpc in F; discriminate | exact H].
  - injection H as <-. eapply T_Add; eauto.
  - destruct ps as [|p ps].
    + destruct (nth_error (c_objs c) o) as [ob|] eqn:Ho; [|discriminate].
      destruct (snd (k_var k)) eqn:Hw; injection H as <-.
      * eapply T_LoopEndRet; eauto. congruence.
      * eapply T_LoopEndWait; eauto.
      * eapply T_LoopEndRet; eauto. congruence.
    + destruct (nth_error (c_objs c) o) as [ob|] eqn:Ho; [|discriminate].
      destruct (snd (k_var k)) eqn:Hw.
      * injection H as <-. pose proof (T_Spawn c t th k o p ps ob Hpc Ho) as T. rewrite Hw in T. apply T. discriminate.
      * injection H as <-. pose proof (T_Spawn c t th k o p ps ob Hpc Ho) as T. rewrite Hw in T. apply T. discriminate.
      * eapply T_SyncSend; eauto. eapply step_send_trans; eauto.
  - injection H as <-. eapply T_SyncCb; eauto.
  - destruct (c_wg c (k_tid k) (k_n k) =? 0) eqn:Hw; [|discriminate]. injection H as <-.
    apply Nat.eqb_eq in Hw. eapply T_WaitRet; eauto.
  - eapply T_GoSend; eauto. eapply step_send_trans; eauto.
  - injection H as <-. eapply T_GoCb; eauto.
  - destruct (c_wg c (k_tid k) (k_n k)) as [|m] eqn:Hw; injection H as <-.
    + eapply T_GoDonePanic; eauto.
    + eapply T_GoDone; eauto.
  - discriminate.
  - destruct (nth_error (c_objs c) o) as [ob|] eqn:Ho; [|discriminate]. injection H as <-.
    pose proof (T_WithOnlyU c t th o clone ob Hpc Ho) as T. exact T.
  - destruct (nth_error (c_objs c) o) as [ob|] eqn:Ho; [|discriminate]. injection H as <-.
    eapply T_SubU; eauto.
  - destruct (nth_error (c_objs c) o) as [ob|] eqn:Ho; [|discriminate].
    destruct (nth_error (o_subs ob) idx) as [ci|] eqn:Hi.
    + unfold close_chan in H. destruct (nth_error (c_chans c) ci) as [chn|] eqn:Hc.
      * destruct (ch_closed chn) eqn:Hcl.
        -- cbn in H. injection H as <-. eapply T_UnsubCloseClosed; eauto.
        -- cbn in H. rewrite Hp in H. injection H as <-. eapply T_UnsubCloseOk; eauto.
      * cbn in H. injection H as <-. eapply T_UnsubCloseNil; eauto.
    + injection H as <-. eapply T_UnsubCloseIdx; eauto.
  - destruct (nth_error (c_objs c) o) as [ob|] eqn:Ho; [|discriminate]. injection H as <-.
    eapply T_UnsubU; eauto.
  - destruct rest as [|ci rest].
    + destruct (nth_error (c_objs c) o) as [ob|] eqn:Ho; [|discriminate]. injection H as <-.
      eapply T_UnsubAllEnd; eauto.
    + unfold close_chan in H. destruct (nth_error (c_chans c) ci) as [chn|] eqn:Hc.
      * destruct (ch_closed chn) eqn:Hcl.
        -- cbn in H. injection H as <-. eapply T_UnsubAllClosed; eauto.
        -- cbn in H. rewrite Hp in H. injection H as <-. eapply T_UnsubAllClose; eauto.
      * cbn in H. injection H as <-. eapply T_UnsubAllNil; eauto.
  - eapply step_recv_trans; eauto. unfold recv_target. rewrite Hpc. reflexivity.
Qed.

(* ------------------------------------------------------------------ *)
(* Tactics for invariant proofs                                         *)
(* ------------------------------------------------------------------ *)

Lemma In_remove_one_other t t' l : t <> t' -> In t l -> In t (remove_one t' l).
Proof.
  intros N. induction l as [|x l IH]; simpl; auto. intros [->|H].
  - destruct (Nat.eqb_spec t t'); [congruence|]. left; reflexivity.
  - destruct (x =? t'); auto. right; auto.
Qed.

(* case analysis on a lookup in an updated / extended list *)
Ltac lookup H :=
  let N := fresh "N" in
  let L := fresh "L" in
  match type of H with
  | nth_error (upd _ _ _ ++ [_]) _ = Some _ =>
      apply nth_error_app_some in H as [H|[-> ->]]; [lookup H|]
  | nth_error (_ ++ [_]) _ = Some _ =>
      apply nth_error_app_some in H as [H|[-> ->]]
  | nth_error (upd _ _ _) _ = Some _ =>
      apply nth_error_upd in H as [(<- & -> & L)|(N & H)]; [|try lookup H]
  | _ => idtac
  end.

Ltac inv_send S := destruct S as [chn Hch Hcl|chn Hch Hcl Hlt|chn r thr Hch Hcl Hcap Hr Hrt|Hto Hcb|Hto Hcb].

(* ------------------------------------------------------------------ *)
(* Lock invariant                                                       *)
(* ------------------------------------------------------------------ *)

Definition holds_read (p : pc) (o : oid) : Prop :=
  match p with
  | PAdd _ o' _ _ | PLoop _ o' _ | PSyncCb _ o' _ _ | PWithOnlyU o' _ => o' = o
  | _ => False
  end.
Definition holds_write (p : pc) (o : oid) : Prop :=
  match p with
  | PSubU o' _ | PUnsubClose o' _ | PUnsubU o' _ | PUnsubAllLoop o' _ => o' = o
  | _ => False
  end.

Lemma rlock_free_inv ob : rlock_free ob = true -> o_wr ob = None /\ o_ww ob = None.
Proof. unfold rlock_free. destruct (o_wr ob), (o_ww ob); try discriminate; auto. Qed.

Lemma deliver_pc_cases thr v :
  th_pc (deliver thr v) = th_pc thr \/ th_pc (deliver thr v) = PIdle \/
  exists ci acc, th_pc (deliver thr v) = PRange ci acc.
Proof.
  unfold deliver. destruct (th_pc thr) eqn:E; cbn; auto.
  - destruct (th_prog thr) as [|[] ?]; cbn; eauto.
  - eauto.
Qed.
Lemma deliver_closed_pc_cases thr :
  th_pc (deliver_closed thr) = th_pc thr \/ th_pc (deliver_closed thr) = PIdle.
Proof.
  unfold deliver_closed. destruct (th_pc thr) eqn:E; cbn; auto.
  destruct (th_prog thr) as [|[] ?]; cbn; eauto.
Qed.

Lemma can_announce_inv ob : can_announce ob = true -> o_wr ob = None /\ o_ww ob = None /\ o_rd ob <> [].
Proof. unfold can_announce. destruct (o_rd ob), (o_wr ob), (o_ww ob); try discriminate. intuition discriminate. Qed.

Definition lock_inv (c : config) : Prop :=
  (forall o ob, nth_error (c_objs c) o = Some ob ->
     (o_wr ob <> None -> o_rd ob = [] /\ o_ww ob = None)) /\
  (forall t th o ob, nth_error (c_threads c) t = Some th -> nth_error (c_objs c) o = Some ob ->
     holds_read (th_pc th) o -> In t (o_rd ob)) /\
  (forall t th o ob, nth_error (c_threads c) t = Some th -> nth_error (c_objs c) o = Some ob ->
     holds_write (th_pc th) o -> o_wr ob = Some t) /\
  (forall t th o, nth_error (c_threads c) t = Some th -> holds_read (th_pc th) o \/ holds_write (th_pc th) o ->
     o < length (c_objs c)) /\
  (forall t th o clone, nth_error (c_threads c) t = Some th -> th_pc th = PWithOnlyU o clone ->
     o_wr clone = None).

Ltac prep :=
  repeat match goal with
  | H : rlock_free _ = true |- _ => apply rlock_free_inv in H as [? ?]
  | H : lock_free _ _ = true |- _ => apply lock_free_inv in H as (? & ? & ?)
  | H : can_announce _ = true |- _ => apply can_announce_inv in H as (? & ? & ?)
  end;
  repeat match goal with
  | H : nth_error (c_objs ?c) ?o = Some _ |- _ =>
      lazymatch goal with
      | _ : o < length (c_objs c) |- _ => fail
      | _ => pose proof (nth_error_some_lt _ _ _ H)
      end
  end.
Ltac pcfacts :=
  repeat match goal with
  | Hpc : th_pc ?th = PAdd _ ?o _ _ |- _ =>
      lazymatch goal with _ : holds_read (th_pc th) o |- _ => fail | _ => assert (holds_read (th_pc th) o) by (rewrite Hpc; reflexivity) end
  | Hpc : th_pc ?th = PLoop _ ?o _ |- _ =>
      lazymatch goal with _ : holds_read (th_pc th) o |- _ => fail | _ => assert (holds_read (th_pc th) o) by (rewrite Hpc; reflexivity) end
  | Hpc : th_pc ?th = PSyncCb _ ?o _ _ |- _ =>
      lazymatch goal with _ : holds_read (th_pc th) o |- _ => fail | _ => assert (holds_read (th_pc th) o) by (rewrite Hpc; reflexivity) end
  | Hpc : th_pc ?th = PWithOnlyU ?o _ |- _ =>
      lazymatch goal with _ : holds_read (th_pc th) o |- _ => fail | _ => assert (holds_read (th_pc th) o) by (rewrite Hpc; reflexivity) end
  | Hpc : th_pc ?th = PSubU ?o _ |- _ =>
      lazymatch goal with _ : holds_write (th_pc th) o |- _ => fail | _ => assert (holds_write (th_pc th) o) by (rewrite Hpc; reflexivity) end
  | Hpc : th_pc ?th = PUnsubClose ?o _ |- _ =>
      lazymatch goal with _ : holds_write (th_pc th) o |- _ => fail | _ => assert (holds_write (th_pc th) o) by (rewrite Hpc; reflexivity) end
  | Hpc : th_pc ?th = PUnsubU ?o _ |- _ =>
      lazymatch goal with _ : holds_write (th_pc th) o |- _ => fail | _ => assert (holds_write (th_pc th) o) by (rewrite Hpc; reflexivity) end
  | Hpc : th_pc ?th = PUnsubAllLoop ?o _ |- _ =>
      lazymatch goal with _ : holds_write (th_pc th) o |- _ => fail | _ => assert (holds_write (th_pc th) o) by (rewrite Hpc; reflexivity) end
  end.
Ltac sat :=
  repeat match goal with
  | H : context [th_pc (deliver ?thr ?v)] |- _ =>
      let E := fresh "E" in destruct (deliver_pc_cases thr v) as [E|[E|(? & ? & E)]]; rewrite E in *; clear E
  | H : context [th_pc (deliver_closed ?thr)] |- _ =>
      let E := fresh "E" in destruct (deliver_closed_pc_cases thr) as [E|E]; rewrite E in *; clear E
  | H : _ \/ _ |- _ => destruct H
  end;
  repeat match goal with
  | L : forall t th o ob, nth_error (c_threads ?c) t = Some th -> nth_error (c_objs ?c) o = Some ob -> holds_write (th_pc th) o -> _,
    Ht : nth_error (c_threads ?c) ?t = Some ?th, Ho : nth_error (c_objs ?c) ?o = Some ?ob, Hh : holds_write (th_pc ?th) ?o |- _ =>
      lazymatch goal with
      | _ : o_wr ob = Some t |- _ => fail
      | _ => pose proof (L t th o ob Ht Ho Hh)
      end
  | L : forall t th o ob, nth_error (c_threads ?c) t = Some th -> nth_error (c_objs ?c) o = Some ob -> holds_read (th_pc th) o -> _,
    Ht : nth_error (c_threads ?c) ?t = Some ?th, Ho : nth_error (c_objs ?c) ?o = Some ?ob, Hh : holds_read (th_pc ?th) ?o |- _ =>
      lazymatch goal with
      | _ : In t (o_rd ob) |- _ => fail
      | _ => pose proof (L t th o ob Ht Ho Hh)
      end
  | L : forall t th o, nth_error (c_threads ?c) t = Some th -> _ -> o < length (c_objs ?c),
    Ht : nth_error (c_threads ?c) ?t = Some ?th, Hh : holds_write (th_pc ?th) ?o |- _ =>
      lazymatch goal with
      | _ : o < length (c_objs c) |- _ => fail
      | _ => pose proof (L t th o Ht (or_intror Hh))
      end
  | L : forall t th o, nth_error (c_threads ?c) t = Some th -> _ -> o < length (c_objs ?c),
    Ht : nth_error (c_threads ?c) ?t = Some ?th, Hh : holds_read (th_pc ?th) ?o |- _ =>
      lazymatch goal with
      | _ : o < length (c_objs c) |- _ => fail
      | _ => pose proof (L t th o Ht (or_introl Hh))
      end
  | L : forall t th o clone, nth_error (c_threads ?c) t = Some th -> th_pc th = PWithOnlyU o clone -> _,
    Ht : nth_error (c_threads ?c) ?t = Some ?th, Hh : th_pc ?th = PWithOnlyU ?o ?cl |- _ =>
      lazymatch goal with
      | _ : o_wr cl = None |- _ => fail
      | _ => pose proof (L t th o cl Ht Hh)
      end
  | L : forall o ob, nth_error (c_objs ?c) o = Some ob -> o_wr ob <> None -> _,
    Ho : nth_error (c_objs ?c) ?o = Some ?ob, Hw : o_wr ?ob <> None |- _ =>
      lazymatch goal with
      | _ : o_rd ob = [] /\ _ |- _ => fail
      | _ => pose proof (L o ob Ho Hw)
      end
  end.
Ltac fin :=
  try match goal with H : context [pub_pc _ _ _ ?w _ _] |- _ => destruct w end;
  try match goal with H : context [after_send ?w _ _] |- _ => destruct w end;
  try match goal with H : context [if ?b then PUnsubU _ _ else _] |- _ => destruct b end;
  cbn [th_pc th_prog th_rets o_rd o_wr o_ww o_subs set_rd set_wr set_ww set_subs holds_read holds_write pub_pc after_send In] in *;
  intros; sat; try subst;
  try match goal with H : PWithOnlyU _ _ = PWithOnlyU _ _ |- _ => injection H as ? ?; subst end;
  rewrite ?upd_length in *;
  cbn [th_pc th_prog th_rets o_rd o_wr o_ww o_subs set_rd set_wr set_ww set_subs holds_read holds_write pub_pc after_send In] in *;
  first [ contradiction | congruence | lia | solve [eauto] | solve [intuition (eauto; congruence)]
        | solve [eauto using In_remove_one_other]
        | match goal with H : ?x = [] /\ _, H' : In _ ?x |- _ => destruct H as [H _]; rewrite H in H'; destruct H' end
        | match goal with H : ?x = [], H' : In _ ?x |- _ => rewrite H in H'; destruct H' end ].

Lemma lock_inv_step c t th c' :
  c_panic c = None -> nth_error (c_threads c) t = Some th -> trans c t th c' -> lock_inv c -> lock_inv c'.
Proof.
  intros Hp Ht T (L1 & L2 & L3 & L4 & L5).
  assert (Lt : t < length (c_threads c)) by (eapply nth_error_some_lt; eauto).
  destruct T; try match goal with S : send_trans _ _ _ _ _ _ _ _ _ _ |- _ => inv_send S end; unfold lock_inv; norm; prep; pcfacts.
  all: split; [|split; [|split; [|split]]].
  all: try (intros xo xob Hxo; lookup Hxo; fin; fail).
  all: try (intros xt xth xo xob Hxt Hxo Hxh; lookup Hxt; lookup Hxo; fin; fail).
  all: try (intros xt xth xo Hxt Hxh; lookup Hxt; rewrite ?app_length, ?upd_length; fin; fail).
  all: try (intros xt xth xo xcl Hxt Hxh; lookup Hxt; fin; fail).
Qed.
Lemma step_lift (P : config -> Prop) :
  (forall c t th c', c_panic c = None -> nth_error (c_threads c) t = Some th -> trans c t th c' -> P c -> P c') ->
  forall c t ch c', P c -> step c t ch = Some c' -> P c'.
Proof. intros H c t ch c' Hc Hs. apply step_trans in Hs as (Hp & th & Ht & T). eauto. Qed.

Lemma run_lift (P : config -> Prop) :
  (forall c t th c', c_panic c = None -> nth_error (c_threads c) t = Some th -> trans c t th c' -> P c -> P c') ->
  forall s c, P c -> P (run c s).
Proof. intros H. apply run_inv. intros c t ch c' Hc Hs. eapply step_lift; eauto. Qed.

Lemma init_threads_pc timeout cb defbuf progs t th :
  nth_error (c_threads (init timeout cb defbuf progs)) t = Some th -> th_pc th = PIdle /\ th_rets th = [].
Proof.
  cbn. intro H. apply nth_error_In in H. apply in_map_iff in H as (p & <- & _). auto.
Qed.

Lemma lock_inv_init timeout cb defbuf progs : lock_inv (init timeout cb defbuf progs).
Proof.
  unfold lock_inv. repeat split.
  - cbn in H. destruct o as [|[|o]]; try discriminate. injection H as <-. cbn in H0. congruence.
  - cbn in H. destruct o as [|[|o]]; try discriminate. injection H as <-. cbn in H0. congruence.
  - intros t th o ob Ht _ Hh. apply init_threads_pc in Ht as [E _]. rewrite E in Hh. destruct Hh.
  - intros t th o ob Ht _ Hh. apply init_threads_pc in Ht as [E _]. rewrite E in Hh. destruct Hh.
  - intros t th o Ht [Hh|Hh]; apply init_threads_pc in Ht as [E _]; rewrite E in Hh; destruct Hh.
  - intros t th o cl Ht Hh. apply init_threads_pc in Ht as [E _]. congruence.
Qed.

Lemma lock_inv_run timeout cb defbuf progs s : lock_inv (run (init timeout cb defbuf progs) s).
Proof. apply run_lift; [exact lock_inv_step|apply lock_inv_init]. Qed.

(* consequences *)
Lemma reader_no_writer c t th o ob :
  lock_inv c -> nth_error (c_threads c) t = Some th -> nth_error (c_objs c) o = Some ob ->
  holds_read (th_pc th) o -> o_wr ob = None /\ In t (o_rd ob).
Proof.
  intros (L1 & L2 & _) Ht Ho Hh. pose proof (L2 t th o ob Ht Ho Hh) as Hin. split; auto.
  destruct (o_wr ob) eqn:E; auto. destruct (L1 o ob Ho) as [R _]; [congruence|]. rewrite R in Hin. destruct Hin.
Qed.
Lemma writer_excl c t th o ob :
  lock_inv c -> nth_error (c_threads c) t = Some th -> nth_error (c_objs c) o = Some ob ->
  holds_write (th_pc th) o -> o_wr ob = Some t /\ o_rd ob = [].
Proof.
  intros (L1 & _ & L3 & _) Ht Ho Hh. pose proof (L3 t th o ob Ht Ho Hh) as Hw. split; auto.
  apply (L1 o ob Ho). congruence.
Qed.

(* ------------------------------------------------------------------ *)
(* Structural well-formedness                                           *)
(* ------------------------------------------------------------------ *)
Definition wf_inv (c : config) : Prop :=
  (forall o ob ci, nth_error (c_objs c) o = Some ob -> In ci (o_subs ob) -> ci < length (c_chans c)) /\
  (forall o ob, nth_error (c_objs c) o = Some ob -> NoDup (o_subs ob)) /\
  (forall t th o clone, nth_error (c_threads c) t = Some th -> th_pc th = PWithOnlyU o clone ->
     NoDup (o_subs clone) /\ forall ci, In ci (o_subs clone) -> ci < length (c_chans c)).

Lemma in_splice {A} (l : list A) i x : In x (firstn i l ++ skipn (S i) l) -> In x l.
Proof.
  intro H. apply in_app_or in H as [H|H].
  - rewrite <- (firstn_skipn i l). apply in_or_app. left; exact H.
  - rewrite <- (firstn_skipn (S i) l). apply in_or_app. right; exact H.
Qed.
Lemma nodup_splice {A} (l : list A) i : NoDup l -> NoDup (firstn i l ++ skipn (S i) l).
Proof.
  revert i; induction l as [|x l IH]; intros i ND.
  - rewrite firstn_nil, skipn_nil. constructor.
  - inversion ND; subst. destruct i as [|i].
    + rewrite firstn_O, skipn_cons, skipn_O. assumption.
    + rewrite firstn_cons, skipn_cons. cbn [app]. constructor; auto.
      intro F. apply in_splice in F. contradiction.
Qed.
Lemma nodup_withonly sub subs : NoDup subs -> NoDup (withonly_loop sub subs).
Proof. rewrite withonly_loop_filter. apply NoDup_filter. Qed.
Lemma nodup_snoc (l : list nat) n : NoDup l -> (forall x, In x l -> x < n) -> NoDup (l ++ [n]).
Proof.
  intros ND B. induction l as [|x l IH]; cbn; [constructor; auto; constructor|].
  inversion ND; subst. constructor.
  - intro F. apply in_app_or in F as [F|[F|[]]]; [contradiction|]. specialize (B x (or_introl eq_refl)). lia.
  - apply IH; auto. intros y Hy. apply B. right; auto.
Qed.

Ltac fin_wf :=
  cbn [th_pc th_prog th_rets o_rd o_wr o_ww o_subs set_rd set_wr set_ww set_subs pub_pc after_send In] in *;
  intros; try subst;
  try match goal with H : context [th_pc (deliver ?thr ?v)] |- _ =>
      let E := fresh "E" in destruct (deliver_pc_cases thr v) as [E|[E|(? & ? & E)]]; rewrite E in *; clear E end;
  try match goal with H : context [th_pc (deliver_closed ?thr)] |- _ =>
      let E := fresh "E" in destruct (deliver_closed_pc_cases thr) as [E|E]; rewrite E in *; clear E end;
  try match goal with H : context [pub_pc _ _ _ ?w _ _] |- _ => destruct w end;
  try match goal with H : context [after_send ?w _ _] |- _ => destruct w end;
  try match goal with H : context [if ?b then PUnsubU _ _ else _] |- _ => destruct b end;
  cbn [th_pc th_prog th_rets o_rd o_wr o_ww o_subs set_rd set_wr set_ww set_subs pub_pc after_send In] in *;
  rewrite ?app_length, ?upd_length in *; cbn [length] in *;
  try match goal with H : PWithOnlyU _ _ = PWithOnlyU _ _ |- _ => injection H as ? ?; subst end;
  cbn [o_subs] in *;
  first [ contradiction | congruence | lia | solve [eauto] | solve [constructor] | solve [eauto using nodup_splice, nodup_withonly]
        | match goal with H : In _ (firstn _ _ ++ skipn _ _) |- _ => apply in_splice in H end; solve [eauto]
        | match goal with H : In _ (_ ++ [_]) |- _ => apply in_app_or in H as [H|[H|[]]] end;
          solve [ lia | match goal with W : forall o ob ci, _ -> _ -> ci < _, Ho : nth_error _ _ = Some ?ob, Hi : In ?ci (o_subs ?ob) |- _ =>
                    pose proof (W _ _ _ Ho Hi); lia end ]
        | match goal with W : forall o ob ci, _ -> _ -> ci < _, Ho : nth_error _ _ = Some ?ob, Hi : In ?ci (o_subs ?ob) |- _ =>
                    pose proof (W _ _ _ Ho Hi); lia end
        | solve [apply nodup_snoc; eauto]
        | solve [split; [apply nodup_withonly; eauto | intros ? Hq; apply withonly_loop_in in Hq as [_ Hq]; eauto]]
        | solve [match goal with W : forall t th o clone, _ -> _ -> NoDup _ /\ _, Ht : nth_error _ _ = Some ?th, Hc : th_pc ?th = PWithOnlyU _ _ |- _ =>
                   destruct (W _ _ _ _ Ht Hc) as [? ?]; eauto end]
        | solve [match goal with W : forall t th o clone, _ -> _ -> NoDup _ /\ _, Ht : nth_error _ _ = Some ?th, Hc : th_pc ?th = PWithOnlyU _ _ |- _ =>
                   destruct (W _ _ _ _ Ht Hc) as [? Hb]; split; auto; intros ? Hq; specialize (Hb _ Hq); lia end] ].

Lemma wf_inv_step c t th c' :
  c_panic c = None -> nth_error (c_threads c) t = Some th -> trans c t th c' -> wf_inv c -> wf_inv c'.
Proof.
  intros Hp Ht T (W1 & W2 & W3).
  assert (Lt : t < length (c_threads c)) by (eapply nth_error_some_lt; eauto).
  destruct T; try match goal with S : send_trans _ _ _ _ _ _ _ _ _ _ |- _ => inv_send S end; unfold wf_inv; norm; prep.
  all: split; [|split].
  all: try (intros xo xob xci Hxo Hxi; lookup Hxo; fin_wf; fail).
  all: try (intros xo xob Hxo; lookup Hxo; fin_wf; fail).
  all: try (intros xt xth xo xcl Hxt Hxh; lookup Hxt; fin_wf; fail).
Qed.

Lemma wf_inv_init timeout cb defbuf progs : wf_inv (init timeout cb defbuf progs).
Proof.
  unfold wf_inv. repeat split.
  - intros o ob ci H Hi. cbn in H. destruct o as [|[|o]]; try discriminate. injection H as <-. destruct Hi.
  - intros o ob H. cbn in H. destruct o as [|[|o]]; try discriminate. injection H as <-. constructor.
  - apply init_threads_pc in H as [E _]. congruence.
  - apply init_threads_pc in H as [E _]. congruence.
Qed.

Lemma wf_inv_run timeout cb defbuf progs s : wf_inv (run (init timeout cb defbuf progs) s).
Proof. apply run_lift; [exact wf_inv_step|apply wf_inv_init]. Qed.
(* ------------------------------------------------------------------ *)
(* WaitGroup accounting                                                 *)
(* ------------------------------------------------------------------ *)
Definition total {A} (f : A -> nat) (l : list A) : nat := fold_right (fun x acc => f x + acc) 0 l.

Lemma total_app {A} (f : A -> nat) l x : total f (l ++ [x]) = total f l + f x.
Proof. unfold total. induction l as [|y l IH]; cbn; [lia|]. rewrite IH. lia. Qed.

Lemma total_upd {A} (f : A -> nat) l i x y :
  nth_error l i = Some x -> total f (upd i y l) + f x = total f l + f y.
Proof.
  unfold total. revert i; induction l as [|z l IH]; intros [|i] H; cbn in *; try discriminate.
  - injection H as ->. lia.
  - specialize (IH i H). lia.
Qed.

Lemma total_upd2 {A} (f : A -> nat) l i j x y x' y' :
  i <> j -> nth_error l i = Some x -> nth_error l j = Some y ->
  total f (upd i x' (upd j y' l)) + f x + f y = total f l + f x' + f y'.
Proof.
  intros N Hi Hj.
  assert (Hi' : nth_error (upd j y' l) i = Some x) by (rewrite nth_error_upd_neq; auto).
  pose proof (total_upd f _ i x x' Hi'). pose proof (total_upd f l j y y' Hj). lia.
Qed.

Lemma total_zero {A} (f : A -> nat) l : total f l = 0 -> forall x, In x l -> f x = 0.
Proof. unfold total. induction l as [|y l IH]; cbn; intros H x []; subst; [lia|apply IH; auto; lia]. Qed.

(* what a thread still owes to the WaitGroup of the n-th call of thread t *)
Definition owed_pc (t n : nat) (p : pc) : nat :=
  match p with
  | PLoop k o ps => match snd (k_var k) with
                    | Wait => if wg_key_eqb (k_tid k) (k_n k) t n then length ps else 0
                    | _ => 0
                    end
  | PGoSend k p _ _ true => if wg_key_eqb (k_tid k) (k_n k) t n then 1 else 0
  | PGoCb k p true => if wg_key_eqb (k_tid k) (k_n k) t n then 1 else 0
  | PGoDone k p => if wg_key_eqb (k_tid k) (k_n k) t n then 1 else 0
  | _ => 0
  end.
Definition owed (t n : nat) (th : thread) : nat := owed_pc t n (th_pc th).

Definition wg_inv (c : config) : Prop :=
  (forall t n, total (owed t n) (c_threads c) <= c_wg c t n) /\
  (forall t th k o n ps, nth_error (c_threads c) t = Some th -> th_pc th = PAdd k o n ps ->
     n = length ps /\ snd (k_var k) = Wait) /\
  (forall t th k o p ps, nth_error (c_threads c) t = Some th -> th_pc th = PSyncCb k o p ps ->
     snd (k_var k) = Sync).

Lemma owed_recv t n thr ci v : recv_target thr = Some ci -> owed t n thr = 0 /\ owed t n (deliver thr v) = 0.
Proof.
  unfold recv_target, deliver, owed. destruct (th_pc thr) eqn:E; try discriminate; cbn.
  - destruct (th_prog thr) as [|[] ?]; try discriminate; cbn; rewrite ?E; auto.
  - auto.
Qed.
Lemma owed_recv_closed t n thr ci : recv_target thr = Some ci -> owed t n thr = 0 /\ owed t n (deliver_closed thr) = 0.
Proof.
  unfold recv_target, deliver_closed, owed. destruct (th_pc thr) eqn:E; try discriminate; cbn.
  - destruct (th_prog thr) as [|[] ?]; try discriminate; cbn; rewrite ?E; auto.
  - auto.
Qed.
Lemma starts_owed th cl rest t n : starts th cl rest -> owed t n th = 0.
Proof. unfold owed. intros [[E _]|(l & E & _)]; rewrite E; reflexivity. Qed.
Lemma wg_key_eqb_refl a b : wg_key_eqb a b a b = true.
Proof. unfold wg_key_eqb. rewrite !Nat.eqb_refl. reflexivity. Qed.
Lemma owed_pc_eq t n th p : th_pc th = p -> owed t n th = owed_pc t n p.
Proof. intros <-. reflexivity. Qed.

(* E : total f new + owed old = total f old + owed new: evaluate the owed terms *)
Ltac owed_eval E :=
  repeat match type of E with
  | context [owed ?a ?b (deliver ?th ?v)] =>
      match goal with Hr : recv_target th = Some _ |- _ =>
        let X := fresh in destruct (owed_recv a b th _ v Hr) as [X X']; rewrite ?X, ?X' in E end
  | context [owed ?a ?b (deliver_closed ?th)] =>
      match goal with Hr : recv_target th = Some _ |- _ =>
        let X := fresh in destruct (owed_recv_closed a b th _ Hr) as [X X']; rewrite ?X, ?X' in E end
  | context [owed ?a ?b {| th_prog := ?p; th_pc := ?q; th_rets := ?r |}] =>
      change (owed a b {| th_prog := p; th_pc := q; th_rets := r |}) with (owed_pc a b q) in E
  | context [owed ?a ?b ?th] =>
      match goal with
      | Hpc : th_pc th = _ |- _ => rewrite (owed_pc_eq a b th _ Hpc) in E
      | Hs : starts th _ _ |- _ => rewrite (starts_owed th _ _ a b Hs) in E
      | Hr : recv_target th = Some _ |- _ => rewrite (proj1 (owed_recv a b th _ 0%Z Hr)) in E
      end
  end;
  cbn [owed_pc snd pub_pc after_send] in E.

Lemma wg_inv_step c t th c' :
  c_panic c = None -> nth_error (c_threads c) t = Some th -> trans c t th c' -> wg_inv c -> wg_inv c'.
Proof.
  intros Hp Ht T (G1 & G2 & G3).
  assert (Lt : t < length (c_threads c)) by (eapply nth_error_some_lt; eauto).
  destruct T; try match goal with S : send_trans _ _ _ _ _ _ _ _ _ _ |- _ => inv_send S end; unfold wg_inv; norm.
  all: split; [|split].
  all: try (intros xt xth xk xo xn xps Hxt Hxh; lookup Hxt; fin_wf; fail).
  all: try (intros xt xth xk xo xp xps Hxt Hxh; lookup Hxt; fin_wf; fail).
  all: try (intros xt xn; specialize (G1 xt xn); exact G1).
  all: try (intros xt xn; specialize (G1 xt xn);
            match goal with |- context [total ?f (upd ?t ?th' ?l)] => pose proof (total_upd f l t th th' Ht) as E end;
            owed_eval E; lia).
  all: try (intros xt xn; specialize (G1 xt xn);
            first
            [ match goal with |- context [total ?f (upd ?t ?th' (upd ?r ?thr' ?l))] =>
                assert (Nr : t <> r) by
                  (intros <-; match goal with Hr : nth_error _ t = Some ?thr |- _ => rewrite Ht in Hr; injection Hr as <- end;
                   match goal with Hrt : recv_target ?x = Some _, Hpc : th_pc ?x = _ |- _ => unfold recv_target in Hrt; rewrite Hpc in Hrt; discriminate end);
                match goal with Hr : nth_error _ r = Some ?thr |- _ => pose proof (total_upd2 f l t r th thr th' thr' Nr Ht Hr) as E end
              end
            | match goal with |- context [total ?f (upd ?t ?th' ?l ++ [?new])] =>
                rewrite total_app; pose proof (total_upd f l t th th' Ht) as E;
                change (f new) with (owed_pc xt xn (th_pc new)); cbn [th_pc]
              end
            | match goal with |- context [total ?f (upd ?t ?th' ?l)] => pose proof (total_upd f l t th th' Ht) as E end ];
            unfold pub_pc, after_send in *; owed_eval E; unfold wg_set; cbn [owed_pc];
            repeat match goal with
            | |- context [match ?w with Async => _ | Wait => _ | Sync => _ end] => destruct w eqn:?
            | _ : context [match ?w with Async => _ | Wait => _ | Sync => _ end] |- _ => destruct w eqn:?
            | _ : context [if ?b then _ else _] |- _ => destruct b eqn:?
            | |- context [if ?b then _ else _] => destruct b eqn:?
            end; cbn [owed_pc snd length k_var] in *;
            try match goal with Hpc : th_pc _ = PAdd _ _ _ _ |- _ => destruct (G2 _ _ _ _ _ _ Ht Hpc) as [? ?] end;
            try match goal with Hpc : th_pc _ = PSyncCb _ _ _ _ |- _ => pose proof (G3 _ _ _ _ _ _ Ht Hpc) end;
            repeat match goal with
            | Hk : wg_key_eqb _ _ _ _ = true |- _ =>
                unfold wg_key_eqb in Hk; apply andb_true_iff in Hk as [Hk1 Hk2]; apply Nat.eqb_eq in Hk1, Hk2
            end;
            try subst; rewrite ?wg_key_eqb_refl in *; cbn [owed_pc snd length k_var] in *;
            repeat match goal with
            | _ : context [if ?b then _ else _] |- _ => destruct b eqn:?
            | |- context [if ?b then _ else _] => destruct b eqn:?
            end;
            solve [congruence | lia]).
  - intros xt xth xk xo xn xps Hxt Hxh. lookup Hxt; [|eauto].
    cbn [th_pc] in Hxh. unfold pub_pc in Hxh. destruct w; try discriminate. injection Hxh as <- <- <- <-.
    split; [|reflexivity]. unfold pub_ps. destruct sl; [rewrite pairs_slice_length|rewrite pairs_one_length]; reflexivity.
Qed.

Lemma total_all_zero {A} (f : A -> nat) l : (forall x, In x l -> f x = 0) -> total f l = 0.
Proof.
  unfold total. induction l as [|y l IH]; cbn; intro H; auto.
  rewrite (H y (or_introl eq_refl)), IH; auto.
Qed.

Lemma wg_inv_init timeout cb defbuf progs : wg_inv (init timeout cb defbuf progs).
Proof.
  unfold wg_inv. repeat split.
  - intros t n. rewrite total_all_zero; [cbn; lia|].
    intros th Hin. apply In_nth_error in Hin as (i & Hi). apply init_threads_pc in Hi as [E _].
    unfold owed. rewrite E. reflexivity.
  - apply init_threads_pc in H as [E _]. congruence.
  - apply init_threads_pc in H as [E _]. congruence.
  - intros t th k o p ps H E'. apply init_threads_pc in H as [E _]. congruence.
Qed.

Lemma wg_inv_run timeout cb defbuf progs s : wg_inv (run (init timeout cb defbuf progs) s).
Proof. apply run_lift; [exact wg_inv_step|apply wg_inv_init]. Qed.
(* ------------------------------------------------------------------ *)
(* Listed channels are open; no panic                                   *)
(* ------------------------------------------------------------------ *)
Definition pc_pairs (p : pc) : list pair :=
  match p with PAdd _ _ _ ps | PLoop _ _ ps | PSyncCb _ _ _ ps => ps | _ => [] end.

Definition wopen (chs : list chan) (ob : psobj) (p : pc) : Prop :=
  match p with
  | PSubU _ _ | PUnsubU _ _ => forall ci, In ci (o_subs ob) -> is_open chs ci
  | PUnsubClose _ idx => (forall ci, In ci (o_subs ob) -> is_open chs ci) /\ idx < length (o_subs ob)
  | PUnsubAllLoop _ rest => (forall ci, In ci rest -> is_open chs ci) /\ NoDup rest /\ incl rest (o_subs ob)
  | _ => True
  end.

Definition call_ok (cl : call) : Prop := match cl with CSubBuf _ size => (0 <= size)%Z | _ => True end.

Definition open_inv (c : config) : Prop :=
  (forall o ob ci, nth_error (c_objs c) o = Some ob -> o_wr ob = None -> In ci (o_subs ob) -> is_open (c_chans c) ci) /\
  (forall t th o ob, nth_error (c_threads c) t = Some th -> nth_error (c_objs c) o = Some ob ->
     holds_write (th_pc th) o -> wopen (c_chans c) ob (th_pc th)) /\
  (forall t th o ob p, nth_error (c_threads c) t = Some th -> nth_error (c_objs c) o = Some ob ->
     holds_read (th_pc th) o -> In p (pc_pairs (th_pc th)) -> In (p_sub p) (o_subs ob)) /\
  (forall t th k p tm cb wg, nth_error (c_threads c) t = Some th -> th_pc th = PGoSend k p tm cb wg ->
     is_open (c_chans c) (p_sub p)) /\
  (forall t th o clone ob ci, nth_error (c_threads c) t = Some th -> th_pc th = PWithOnlyU o clone ->
     nth_error (c_objs c) o = Some ob -> In ci (o_subs clone) -> In ci (o_subs ob)) /\
  (forall o ob, nth_error (c_objs c) o = Some ob -> (0 <= o_defbuf ob)%Z) /\
  (forall t th cl, nth_error (c_threads c) t = Some th -> In cl (th_prog th) -> call_ok cl) /\
  (forall t th l, nth_error (c_threads c) t = Some th -> th_pc th = PLockWait l -> call_ok (call_of l)) /\
  (forall t th o clone, nth_error (c_threads c) t = Some th -> th_pc th = PWithOnlyU o clone -> (0 <= o_defbuf clone)%Z).

Definition closing (c : config) (th : thread) : option (oid * cid) :=
  match th_pc th with
  | PUnsubClose o idx =>
      match nth_error (c_objs c) o with
      | Some ob => match nth_error (o_subs ob) idx with Some ci => Some (o, ci) | None => None end
      | None => None
      end
  | PUnsubAllLoop o (ci :: _) => Some (o, ci)
  | _ => None
  end.

(* the next step of thread t, if it closes a channel, does so when no
   asynchronous sender for that channel is alive and no other PubSub (view)
   lists the channel *)
Definition safe_close (c : config) (t : tid) : Prop :=
  forall th o ci, nth_error (c_threads c) t = Some th -> closing c th = Some (o, ci) ->
    (forall t' th' k p tm cb wg, nth_error (c_threads c) t' = Some th' -> th_pc th' = PGoSend k p tm cb wg -> p_sub p <> ci) /\
    (forall o' ob', o' <> o -> nth_error (c_objs c) o' = Some ob' -> ~ In ci (o_subs ob')).

Lemma is_open_upd chs ci cj chn b cp cl :
  nth_error chs ci = Some chn -> (ci <> cj \/ cl = false) -> is_open chs cj -> is_open (upd ci (Chan b cp cl) chs) cj.
Proof.
  intros Hc Hd (chn' & H & O). destruct (Nat.eq_dec ci cj) as [->|N].
  - destruct Hd as [F| ->]; [congruence|]. eexists. split; [apply nth_error_upd_eq; eapply nth_error_some_lt; eauto|reflexivity].
  - exists chn'. rewrite nth_error_upd_neq by exact N. auto.
Qed.
Lemma is_open_upd_recv chs ci cj chn b cp :
  nth_error chs ci = Some chn -> is_open chs cj -> is_open (upd ci (Chan b cp (ch_closed chn)) chs) cj.
Proof.
  intros Hc Ho. destruct (Nat.eq_dec ci cj) as [->|N].
  - apply is_open_upd with (chn := chn); auto. right. destruct Ho as (chn' & H & O). congruence.
  - apply is_open_upd with (chn := chn); auto.
Qed.
Lemma is_open_app chs x cj : is_open chs cj -> is_open (chs ++ [x]) cj.
Proof. intros (chn & H & O). exists chn. split; auto. rewrite nth_error_app1; auto. eapply nth_error_some_lt; eauto. Qed.
Lemma is_open_new chs n : is_open (chs ++ [Chan [] n false]) (length chs).
Proof. eexists. split; [rewrite nth_error_app2, Nat.sub_diag by lia; reflexivity|reflexivity]. Qed.
Lemma is_open_not_closed chs ci chn : is_open chs ci -> nth_error chs ci = Some chn -> ch_closed chn = true -> False.
Proof. intros (chn' & H & O) H' C. congruence. Qed.

Lemma recv_target_pc thr ci : recv_target thr = Some ci ->
  th_pc thr = PIdle \/ exists acc, th_pc thr = PRange ci acc.
Proof.
  unfold recv_target. destruct (th_pc thr); try discriminate; auto.
  intro H. injection H as ->. eauto.
Qed.

Lemma deliver_prog thr v cl : In cl (th_prog (deliver thr v)) -> In cl (th_prog thr).
Proof.
  unfold deliver. destruct (th_pc thr) eqn:E; cbn; auto.
  destruct (th_prog thr) as [|[] ?] eqn:E2; cbn; rewrite ?E2; cbn; auto.
Qed.
Lemma deliver_closed_prog thr cl : In cl (th_prog (deliver_closed thr)) -> In cl (th_prog thr).
Proof.
  unfold deliver_closed. destruct (th_pc thr) eqn:E; cbn; auto.
  destruct (th_prog thr) as [|[] ?] eqn:E2; cbn; rewrite ?E2; cbn; auto.
Qed.

Lemma starts_prog th cl rest x : starts th cl rest -> In x rest -> In x (th_prog th).
Proof. intros [[_ E]|(l & _ & _ & ->)] H; [rewrite E; right|]; auto. Qed.
Lemma total_ge {A} (f : A -> nat) l i x : nth_error l i = Some x -> f x <= total f l.
Proof.
  unfold total. revert i; induction l as [|y l IH]; intros [|i] H; cbn in *; try discriminate.
  - injection H as ->. lia.
  - specialize (IH i H). lia.
Qed.

Lemma starts_call_ok c t th cl rest :
  open_inv c -> nth_error (c_threads c) t = Some th -> starts th cl rest -> call_ok cl.
Proof.
  intros (_ & _ & _ & _ & _ & _ & O7 & O8 & _) Ht [[_ E]|(l & E & -> & _)].
  - apply (O7 t th); auto. rewrite E. left; reflexivity.
  - eapply O8; eauto.
Qed.

Lemma no_panic_step c t th c' :
  c_panic c = None -> nth_error (c_threads c) t = Some th -> trans c t th c' ->
  lock_inv c -> wg_inv c -> open_inv c -> c_panic c' = None.
Proof.
  intros Hp Ht T LI (G1 & _) OI.
  pose proof OI as (O1 & O2 & O3 & O4 & O5 & O6 & O7 & O8 & O9).
  destruct T; try match goal with S : send_trans _ _ _ _ _ _ _ _ _ _ |- _ => inv_send S end; norm; auto; exfalso.
  - (* Sub with a negative size *)
    pose proof (starts_call_ok c t th _ rest OI Ht H) as Hok.
    destruct H0 as [[-> ->]| ->]; cbn in Hok.
    + specialize (O6 _ _ H1). lia.
    + lia.
  - (* synchronous send on a closed channel *)
    assert (Hr : holds_read (th_pc th) o) by (rewrite H; reflexivity).
    destruct (reader_no_writer c t th o ob LI Ht H0 Hr) as [Hw _].
    assert (Hin : In (p_sub p) (o_subs ob)) by (apply (O3 t th o ob p Ht H0 Hr); rewrite H; left; reflexivity).
    eapply is_open_not_closed; eauto.
  - (* asynchronous send on a closed channel *)
    eapply is_open_not_closed; eauto.
  - (* negative WaitGroup counter *)
    specialize (G1 (k_tid k) (k_n k)). pose proof (total_ge (owed (k_tid k) (k_n k)) _ _ _ Ht) as Hge.
    rewrite (owed_pc_eq _ _ th _ H) in Hge. cbn [owed_pc] in Hge. rewrite wg_key_eqb_refl in Hge. lia.
  - assert (Hw : holds_write (th_pc th) o) by (rewrite H; reflexivity).
    pose proof (O2 t th o ob Ht H0 Hw) as W. rewrite H in W. destruct W as [_ W].
    apply nth_error_None in H1. lia.
  - assert (Hw : holds_write (th_pc th) o) by (rewrite H; reflexivity).
    pose proof (O2 t th o ob Ht H0 Hw) as W. rewrite H in W. destruct W as [W _].
    destruct (W ci (nth_error_In _ _ H1)) as (chn & F & _). congruence.
  - assert (Hw : holds_write (th_pc th) o) by (rewrite H; reflexivity).
    pose proof (O2 t th o ob Ht H0 Hw) as W. rewrite H in W. destruct W as [W _].
    eapply is_open_not_closed; eauto. apply W. eapply nth_error_In; eauto.
  - assert (Hw : holds_write (th_pc th) o) by (rewrite H; reflexivity).
    destruct LI as (_ & _ & _ & L4 & _). pose proof (L4 t th o Ht (or_intror Hw)) as Lo.
    destruct (nth_error (c_objs c) o) as [ob|] eqn:Ho; [|apply nth_error_None in Ho; lia].
    pose proof (O2 t th o ob Ht Ho Hw) as W. rewrite H in W. destruct W as [W _].
    destruct (W ci (or_introl eq_refl)) as (chn & F & _). congruence.
  - assert (Hw : holds_write (th_pc th) o) by (rewrite H; reflexivity).
    destruct LI as (_ & _ & _ & L4 & _). pose proof (L4 t th o Ht (or_intror Hw)) as Lo.
    destruct (nth_error (c_objs c) o) as [ob|] eqn:Ho; [|apply nth_error_None in Ho; lia].
    pose proof (O2 t th o ob Ht Ho Hw) as W. rewrite H in W. destruct W as [W _].
    eapply is_open_not_closed; eauto. apply W. left; reflexivity.
Qed.
Ltac lockfacts LI :=
  repeat match goal with
  | Ht : nth_error (c_threads ?c) ?t = Some ?th, Ho : nth_error (c_objs ?c) ?o = Some ?ob, Hh : holds_read (th_pc ?th) ?o |- _ =>
      lazymatch goal with
      | _ : In t (o_rd ob) |- _ => fail
      | _ => destruct (reader_no_writer c t th o ob LI Ht Ho Hh)
      end
  | Ht : nth_error (c_threads ?c) ?t = Some ?th, Ho : nth_error (c_objs ?c) ?o = Some ?ob, Hh : holds_write (th_pc ?th) ?o |- _ =>
      lazymatch goal with
      | _ : o_wr ob = Some t |- _ => fail
      | _ => destruct (writer_excl c t th o ob LI Ht Ho Hh)
      end
  end.

Ltac simp_o :=
  cbn [th_pc th_prog th_rets o_rd o_wr o_ww o_subs o_defbuf set_rd set_wr set_ww set_subs holds_read holds_write
       pub_pc after_send pc_pairs wopen In call_ok call_of] in *.

Ltac deliver_cases :=
  repeat match goal with
  | H : context [th_pc (deliver ?thr ?v)] |- _ =>
      let E := fresh "E" in destruct (deliver_pc_cases thr v) as [E|[E|(? & ? & E)]]; rewrite E in *; clear E
  | H : context [th_pc (deliver_closed ?thr)] |- _ =>
      let E := fresh "E" in destruct (deliver_closed_pc_cases thr) as [E|E]; rewrite E in *; clear E
  | H : In _ (th_prog (deliver _ _)) |- _ => apply deliver_prog in H
  | H : In _ (th_prog (deliver_closed _)) |- _ => apply deliver_closed_prog in H
  end.

Lemma is_open_upd_false chs ci cj chn b cp :
  nth_error chs ci = Some chn -> is_open chs cj -> is_open (upd ci (Chan b cp false) chs) cj.
Proof. intros Hc Ho. eapply is_open_upd; eauto. Qed.
Lemma is_open_upd_close chs ci cj chn b cp :
  nth_error chs ci = Some chn -> ci <> cj -> is_open chs cj -> is_open (upd ci (Chan b cp true) chs) cj.
Proof. intros Hc N Ho. eapply is_open_upd; eauto. Qed.

Lemma wopen_mono chs chs' ob p :
  (forall ci, is_open chs ci -> is_open chs' ci) -> wopen chs ob p -> wopen chs' ob p.
Proof. intro M. destruct p; cbn; auto; intuition auto. Qed.
Lemma wopen_subs chs ob ob' p : o_subs ob' = o_subs ob -> wopen chs ob p -> wopen chs ob' p.
Proof. intro E. destruct p; cbn; rewrite ?E; auto. Qed.

Ltac mono :=
  let ci := fresh "ci" in let Hq := fresh "Hq" in
  intros ci Hq;
  first [ exact Hq
        | apply is_open_app; exact Hq
        | eapply is_open_upd_recv; [eassumption | exact Hq]
        | eapply is_open_upd_false; [eassumption | exact Hq] ].

Ltac oldfacts OI LI :=
  repeat match goal with
  | Hpc : th_pc ?th = _, Ht : nth_error (c_threads ?c) ?t = Some ?th, Ho : nth_error (c_objs ?c) ?o = Some ?ob, Hr : holds_read (th_pc ?th) ?o |- _ =>
      lazymatch goal with
      | _ : forall q, _ -> In (p_sub q) (o_subs ob) |- _ => fail
      | _ => let Hpairs := fresh "Hpairs" in
             pose proof (fun q => proj1 (proj2 (proj2 OI)) t th o ob q Ht Ho Hr) as Hpairs; rewrite Hpc in Hpairs; cbn [pc_pairs In] in Hpairs
      end
  | Hpc : th_pc ?th = _, Ht : nth_error (c_threads ?c) ?t = Some ?th, Ho : nth_error (c_objs ?c) ?o = Some ?ob, Hw : holds_write (th_pc ?th) ?o |- _ =>
      lazymatch goal with
      | _ : wopen _ ob _ |- _ => fail
      | _ => let Hwo := fresh "Hwo" in
             pose proof (proj1 (proj2 OI) t th o ob Ht Ho Hw) as Hwo; rewrite Hpc in Hwo
      end
  | Hpc : th_pc ?th = PWithOnlyU ?o ?cl, Ht : nth_error (c_threads ?c) ?t = Some ?th, Ho : nth_error (c_objs ?c) ?o = Some ?ob |- _ =>
      lazymatch goal with
      | _ : forall ci, In ci (o_subs cl) -> In ci (o_subs ob) |- _ => fail
      | _ => let Hclone := fresh "Hclone" in
             pose proof (fun ci => proj1 (proj2 (proj2 (proj2 (proj2 OI)))) t th o cl ob ci Ht Hpc Ho) as Hclone
      end
  | Hpc : th_pc ?th = PGoSend _ ?p _ _ _, Ht : nth_error (c_threads ?c) ?t = Some ?th |- _ =>
      lazymatch goal with
      | _ : is_open (c_chans c) (p_sub p) |- _ => fail
      | _ => let Hsend := fresh "Hsend" in
             pose proof (proj1 (proj2 (proj2 (proj2 OI))) t th _ _ _ _ _ Ht Hpc) as Hsend
      end
  end.

Ltac fin_o OI LI :=
  unfold pub_pc, after_send in *;
  repeat match goal with
  | H : context [match ?w with Async => _ | Wait => _ | Sync => _ end] |- _ => destruct w
  | H : context [if ?b then _ else _] |- _ => destruct b
  end;
  simp_o; intros; deliver_cases; simp_o; try subst; pcfacts; lockfacts LI; oldfacts OI LI; simp_o;
  rewrite ?app_length, ?upd_length in *;
  first [ contradiction | congruence | lia | solve [eauto]
        | solve [eauto using is_open_app, is_open_upd_recv, is_open_upd_false, starts_prog, in_or_app]
        | solve [eapply wopen_mono; [| solve [eauto]]; mono]
        | solve [eapply wopen_mono; [| eapply wopen_subs; [|solve [eauto]]; reflexivity]; mono] ].

Lemma notin_splice {A} (l : list A) i x : NoDup l -> nth_error l i = Some x -> ~ In x (firstn i l ++ skipn (S i) l).
Proof.
  revert i; induction l as [|y l IH]; intros i ND H; [destruct i; discriminate|].
  inversion ND; subst. destruct i as [|i]; cbn in H.
  - injection H as ->. rewrite firstn_O, skipn_cons, skipn_O. assumption.
  - rewrite firstn_cons, skipn_cons. cbn [app]. intros [->|F].
    + apply H2. eapply nth_error_In; eauto.
    + eapply IH; eauto.
Qed.

Lemma wopen_close chs ob p ci chn b cp :
  nth_error chs ci = Some chn -> ~ In ci (o_subs ob) -> wopen chs ob p ->
  wopen (upd ci (Chan b cp true) chs) ob p.
Proof.
  intros Hc Hn. destruct p; cbn; auto.
  - intros W cj Hj. eapply is_open_upd_close; eauto. intros ->; contradiction.
  - intros [W L]. split; auto. intros cj Hj. eapply is_open_upd_close; eauto. intros ->; contradiction.
  - intros W cj Hj. eapply is_open_upd_close; eauto. intros ->; contradiction.
  - intros (W & ND & I). split; [|split]; auto. intros cj Hj. eapply is_open_upd_close; eauto.
    intros ->. apply Hn. apply I. assumption.
Qed.

Ltac l4_contra LI :=
  exfalso; destruct LI as (_ & _ & _ & L4 & _);
  match goal with
  | Hh : holds_write (th_pc ?x) _, Hn : nth_error _ ?i = Some ?x |- _ => pose proof (L4 i x _ Hn (or_intror Hh))
  | Hh : holds_read (th_pc ?x) _, Hn : nth_error _ ?i = Some ?x |- _ => pose proof (L4 i x _ Hn (or_introl Hh))
  end; rewrite ?upd_length in *; lia.

Lemma open_inv_step c t th c' :
  c_panic c = None -> nth_error (c_threads c) t = Some th -> trans c t th c' ->
  lock_inv c -> wf_inv c -> safe_close c t -> open_inv c -> open_inv c'.
Proof.
  intros Hp Ht T LI (W1 & W2 & W3) SC OI.
  pose proof OI as (O1 & O2 & O3 & O4 & O5 & O6 & O7 & O8 & O9).
  assert (Lt : t < length (c_threads c)) by (eapply nth_error_some_lt; eauto).
  destruct T; try match goal with S : send_trans _ _ _ _ _ _ _ _ _ _ |- _ => inv_send S end;
    try exact OI;
    try match goal with Hpc : th_pc th = PUnsubClose ?o ?idx, Ho : nth_error (c_objs c) ?o = Some ?ob, Hi : nth_error (o_subs ?ob) ?idx = Some ?ci |- _ =>
      destruct (SC th o ci Ht) as [Hsc1 Hsc2]; [unfold closing; rewrite Hpc, Ho, Hi; reflexivity|] end;
    try match goal with Hpc : th_pc th = PUnsubAllLoop ?o (?ci :: _) |- _ =>
      destruct (SC th o ci Ht) as [Hsc1 Hsc2]; [unfold closing; rewrite Hpc; reflexivity|] end;
    unfold open_inv; norm; prep; pcfacts.
  all: split; [|split; [|split; [|split; [|split; [|split; [|split; [|split]]]]]]].
  all: try (intros xo xob xci Hxo Hxw Hxi; lookup Hxo; fin_o OI LI; fail).
  all: try (intros xt xth xo xob Hxt Hxo Hxh; lookup Hxt; lookup Hxo; fin_o OI LI; fail).
  all: try (intros xt xth xo xob xp Hxt Hxo Hxh Hxi; lookup Hxt; lookup Hxo; fin_o OI LI; fail).
  all: try (intros xt xth xk xp xtm xcb xwg Hxt Hxh; lookup Hxt; fin_o OI LI; fail).
  all: try (intros xt xth xo xcl xob xci Hxt Hxh Hxo Hxi; lookup Hxt; lookup Hxo; fin_o OI LI; fail).
  all: try (intros xo xob Hxo; lookup Hxo; fin_o OI LI; fail).
  all: try (intros xt xth xcl Hxt Hxi; lookup Hxt; fin_o OI LI; fail).
  all: try (intros xt xth xl Hxt Hxh; lookup Hxt; fin_o OI LI; fail).
  all: try (intros xt xth xo xcl Hxt Hxh; lookup Hxt; fin_o OI LI; fail).
  - (* PubStart, O3 *)
    intros xt xth xo xob xp Hxt Hxo Hxh Hxi; lookup Hxt; lookup Hxo; try (fin_o OI LI; fail).
    all: unfold pub_pc, pub_ps in *; destruct w, sl; simp_o; eauto using pairs_slice_sub, pairs_one_sub; congruence.
  - (* WithOnlyStart, O5 *)
    intros xt xth xo xcl xob xci Hxt Hxh Hxo Hxi; lookup Hxt; lookup Hxo; try (fin_o OI LI; fail).
    all: simp_o; inversion Hxh; subst; simp_o; apply withonly_loop_in in Hxi as [_ Hxi]; try assumption; try congruence.
  - (* WithOnlyStart, O9 *)
    intros xt xth xo xcl Hxt Hxh; lookup Hxt; try (fin_o OI LI; fail).
    all: simp_o; inversion Hxh; subst; cbn; lia.
  - (* SubStart, O2 *)
    intros xt xth xo xob Hxt Hxo Hxh; lookup Hxt; lookup Hxo; try (fin_o OI LI; fail).
    all: simp_o; intros ci Hci; apply in_app_or in Hci as [Hci|[<-|[]]]; [apply is_open_app; eapply O1; eauto | apply is_open_new].
  - (* Announce, O7 *)
    intros xt xth xcl Hxt Hxi; lookup Hxt; try (fin_o OI LI; fail).
    all: simp_o; apply (O7 t th); auto; rewrite H0; right; auto.
  - (* Announce, O8 *)
    intros xt xth xl Hxt Hxh; lookup Hxt; try (fin_o OI LI; fail).
    all: simp_o; inversion Hxh; subst; apply (O7 t th); auto; rewrite H0; left; reflexivity.
  - (* UnsubStart, O2 *)
    intros xt xth xo xob Hxt Hxo Hxh; lookup Hxt; lookup Hxo; try (fin_o OI LI; fail).
    all: simp_o; destruct (sub_index_spec (o_subs ob) sub) as [[_ E]|(n & E & Hn & _)]; rewrite E in *.
    all: try (cbn [Z.eqb Pos.eqb] in *; simp_o; eauto; fail).
    all: replace (Z.of_nat n =? -1)%Z with false in * by (symmetry; apply Z.eqb_neq; lia); simp_o.
    all: try contradiction; try congruence.
    all: split; [eauto|rewrite Nat2Z.id; eapply nth_error_some_lt; eauto].
  - (* UnsubAllStart, O2 *)
    intros xt xth xo xob Hxt Hxo Hxh; lookup Hxt; lookup Hxo; try (fin_o OI LI; fail).
    all: simp_o; split; [eauto|split; [eauto|apply incl_refl]].
  - (* Spawn, O4 *)
    intros xt xth xk xp xtm xcb xwg Hxt Hxh; lookup Hxt; try (fin_o OI LI; fail).
    all: simp_o; inversion Hxh; subst; lockfacts LI; oldfacts OI LI; eapply O1; eauto.
  - (* WithOnlyU, O2 *)
    intros xt xth xo xob Hxt Hxo Hxh; lookup Hxt; lookup Hxo; try (fin_o OI LI; fail).
    all: l4_contra LI.
  - (* WithOnlyU, O3 *)
    intros xt xth xo xob xp Hxt Hxo Hxh Hxi; lookup Hxt; lookup Hxo; try (fin_o OI LI; fail).
    all: l4_contra LI.
  - (* WithOnlyU, O5 *)
    intros xt xth xo xcl xob xci Hxt Hxh Hxo Hxi; lookup Hxt; lookup Hxo; try (fin_o OI LI; fail).
    all: pcfacts; l4_contra LI.
  - (* UnsubCloseOk, O1 *)
    intros xo xob xci Hxo Hxw Hxi; lookup Hxo; try (fin_o OI LI; fail).
    all: eapply is_open_upd_close; eauto; intros ->; eapply Hsc2; eauto.
  - (* UnsubCloseOk, O2 *)
    intros xt xth xo xob Hxt Hxo Hxh; lookup Hxt; lookup Hxo; try (fin_o OI LI; fail).
    + oldfacts OI LI; simp_o. destruct Hwo as [Hwo _]. intros cj Hj. pose proof (in_splice _ _ _ Hj) as Hj'.
      eapply is_open_upd_close; eauto. intros ->. eapply notin_splice; eauto.
    + eapply wopen_close; eauto.
  - (* UnsubCloseOk, O4 *)
    intros xt xth xk xp xtm xcb xwg Hxt Hxh; lookup Hxt; try (fin_o OI LI; fail).
    all: eapply is_open_upd_close; [eassumption | intro E; symmetry in E; revert E; eapply Hsc1; eauto | eapply O4; eauto].
  - (* UnsubAllClose, O1 *)
    intros xo xob xci Hxo Hxw Hxi. destruct (Nat.eq_dec xo o) as [->|N].
    { lockfacts LI. congruence. }
    eapply is_open_upd_close; eauto. intros ->. eapply Hsc2; eauto.
  - (* UnsubAllClose, O2 *)
    intros xt xth xo xob Hxt Hxo Hxh; lookup Hxt; try (fin_o OI LI; fail).
    + simp_o; subst. oldfacts OI LI; simp_o. destruct Hwo as (Wo & ND & I). inversion ND; subst.
      split; [|split]; auto.
      * intros cj Hj. eapply is_open_upd_close; eauto. intros ->; contradiction.
      * intros x Hx; apply I; right; auto.
    + destruct (Nat.eq_dec xo o) as [->|N']; [lockfacts LI; congruence | eapply wopen_close; eauto].
  - (* UnsubAllClose, O4 *)
    intros xt xth xk xp xtm xcb xwg Hxt Hxh; lookup Hxt; try (fin_o OI LI; fail).
    all: eapply is_open_upd_close; [eassumption | intro E; symmetry in E; revert E; eapply Hsc1; eauto | eapply O4; eauto].
Qed.

Lemma open_inv_init timeout cb defbuf progs :
  (0 <= defbuf)%Z -> (forall p cl, In p progs -> In cl p -> call_ok cl) ->
  open_inv (init timeout cb defbuf progs).
Proof.
  intros Hd Hc. unfold open_inv. repeat split.
  - intros o ob ci H _ Hi. cbn in H. destruct o as [|[|o]]; try discriminate. injection H as <-. destruct Hi.
  - intros t th o ob Ht _ Hh. apply init_threads_pc in Ht as [E _]. rewrite E in Hh. destruct Hh.
  - intros t th o ob p Ht _ Hh. apply init_threads_pc in Ht as [E _]. rewrite E in Hh. destruct Hh.
  - intros t th k p tm cb0 wg Ht E'. apply init_threads_pc in Ht as [E _]. congruence.
  - intros t th o cl ob ci Ht E'. apply init_threads_pc in Ht as [E _]. congruence.
  - intros o ob H. cbn in H. destruct o as [|[|o]]; try discriminate. injection H as <-. exact Hd.
  - intros t th cl Ht Hi. cbn in Ht. apply nth_error_In in Ht. apply in_map_iff in Ht as (p & <- & Hp). eapply Hc; eauto.
  - intros t th l Ht E'. apply init_threads_pc in Ht as [E _]. congruence.
  - intros t th o cl Ht E'. apply init_threads_pc in Ht as [E _]. congruence.
Qed.

(* every close step of the schedule happens in a safe configuration *)
Definition safe_sched (c0 : config) (s : sched) : Prop :=
  forall s1 tc s2, s = s1 ++ tc :: s2 -> safe_close (run c0 s1) (fst tc).

Lemma no_panic_safe timeout cb defbuf progs s :
  (0 <= defbuf)%Z -> (forall p cl, In p progs -> In cl p -> call_ok cl) ->
  safe_sched (init timeout cb defbuf progs) s ->
  c_panic (run (init timeout cb defbuf progs) s) = None /\ open_inv (run (init timeout cb defbuf progs) s).
Proof.
  intros Hd Hc. induction s as [|[t ch] s IH] using rev_ind; intro Hs.
  - split; [reflexivity|apply open_inv_init; auto].
  - destruct IH as [Hp OI].
    { intros s1 tc s2 E. apply (Hs s1 tc (s2 ++ [(t, ch)])). rewrite E, <- app_assoc. reflexivity. }
    rewrite run_app. cbn [run]. unfold step_or_stay. cbn [fst snd].
    destruct (step (run (init timeout cb defbuf progs) s) t ch) as [c'|] eqn:E; [|auto].
    apply step_trans in E as (_ & th & Ht & T).
    pose proof (lock_inv_run timeout cb defbuf progs s) as LI.
    pose proof (wf_inv_run timeout cb defbuf progs s) as WF.
    pose proof (wg_inv_run timeout cb defbuf progs s) as WG.
    split.
    + eapply no_panic_step; eauto.
    + eapply open_inv_step; eauto. apply (Hs s (t, ch) []). reflexivity.
Qed.
(* ------------------------------------------------------------------ *)
(* Programs whose publishes are all Sync variants (no WithOnly)         *)
(* ------------------------------------------------------------------ *)
Definition sync_only_call (cl : call) : Prop :=
  match cl with
  | CPubOne w _ _ | CPubSlice w _ _ => w = Sync
  | CWithOnly _ _ => False
  | _ => True
  end.
Definition sync_pc (p : pc) : Prop :=
  match p with
  | PLoop k _ _ | PSyncCb k _ _ _ => snd (k_var k) = Sync
  | PAdd _ _ _ _ | PWait _ | PGoSend _ _ _ _ _ | PGoCb _ _ _ | PGoDone _ _ | PWithOnlyU _ _ => False
  | _ => True
  end.
Definition sync_inv (c : config) : Prop :=
  (forall t th cl, nth_error (c_threads c) t = Some th -> In cl (th_prog th) -> sync_only_call cl) /\
  (forall t th, nth_error (c_threads c) t = Some th -> sync_pc (th_pc th)) /\
  length (c_objs c) = 1.

Lemma starts_sync c t th cl rest :
  sync_inv c -> nth_error (c_threads c) t = Some th -> starts th cl rest -> sync_only_call cl.
Proof.
  intros (S1 & _ & _) Ht [[_ E]|(l & _ & -> & _)].
  - apply (S1 t th); auto. rewrite E. left; reflexivity.
  - destruct l; exact I.
Qed.

Lemma deliver_sync_pc thr v ci : recv_target thr = Some ci -> sync_pc (th_pc (deliver thr v)).
Proof.
  intro H. destruct (recv_target_pc _ _ H) as [E|[acc E]]; unfold deliver; rewrite E; cbn; auto.
  destruct (th_prog thr) as [|[] ?]; cbn; auto; rewrite E; cbn; auto.
Qed.
Lemma deliver_closed_sync_pc thr ci : recv_target thr = Some ci -> sync_pc (th_pc (deliver_closed thr)).
Proof.
  intro H. destruct (recv_target_pc _ _ H) as [E|[acc E]]; unfold deliver_closed; rewrite E; cbn; auto.
  destruct (th_prog thr) as [|[] ?]; cbn; auto; rewrite E; cbn; auto.
Qed.

Ltac fin_s :=
  cbn [th_pc th_prog th_rets sync_pc sync_only_call after_send In] in *; intros;
  repeat match goal with
  | H : In _ (th_prog (deliver _ _)) |- _ => apply deliver_prog in H
  | H : In _ (th_prog (deliver_closed _)) |- _ => apply deliver_closed_prog in H
  end;
  rewrite ?app_length, ?upd_length in *;
  first [ contradiction | congruence | lia | solve [eauto] | solve [eauto using starts_prog]
        | solve [eapply deliver_sync_pc; eauto] | solve [eapply deliver_closed_sync_pc; eauto] ].

Lemma sync_inv_step c t th c' :
  c_panic c = None -> nth_error (c_threads c) t = Some th -> trans c t th c' -> sync_inv c -> sync_inv c'.
Proof.
  intros Hp Ht T SI. pose proof SI as (S1 & S2 & S3).
  assert (Lt : t < length (c_threads c)) by (eapply nth_error_some_lt; eauto).
  pose proof (S2 t th Ht) as Hpc.
  destruct T; try match goal with S : send_trans _ _ _ _ _ _ _ _ _ _ |- _ => inv_send S end;
    try exact SI;
    try match goal with Hs : starts th _ _ |- _ => pose proof (starts_sync c t th _ _ SI Ht Hs) as Hsy end;
    try match goal with E : th_pc th = _ |- _ => rewrite E in Hpc; cbn [sync_pc] in Hpc end;
    try contradiction;
    unfold sync_inv; norm.
  all: split; [|split].
  all: try (intros xt xth xcl Hxt Hxi; lookup Hxt; fin_s; fail).
  all: try (intros xt xth Hxt; lookup Hxt; fin_s; fail).
  all: try (rewrite ?app_length, ?upd_length; cbn; lia).
  - intros xt xth Hxt; lookup Hxt; [|eauto]. cbn [th_pc]. unfold pub_pc.
    destruct H0 as [(-> & _)|(-> & _)]; cbn in Hsy; subst w; cbn; reflexivity.
  - intros xt xth xcl Hxt Hxi; lookup Hxt; [|eauto]. cbn [th_prog] in Hxi.
    apply (S1 t th); auto. rewrite H0. right; auto.
  - intros xt xth Hxt; lookup Hxt; [|eauto]. cbn [th_pc]. destruct (_ =? _)%Z; exact I.
Qed.

Lemma sync_inv_init timeout cb defbuf progs :
  (forall p cl, In p progs -> In cl p -> sync_only_call cl) -> sync_inv (init timeout cb defbuf progs).
Proof.
  intro Hc. unfold sync_inv. repeat split.
  - intros t th cl Ht Hi. cbn in Ht. apply nth_error_In in Ht. apply in_map_iff in Ht as (p & <- & Hp). eapply Hc; eauto.
  - intros t th Ht. apply init_threads_pc in Ht as [E _]. rewrite E. exact I.
Qed.

Lemma sync_inv_run timeout cb defbuf progs s :
  (forall p cl, In p progs -> In cl p -> sync_only_call cl) -> sync_inv (run (init timeout cb defbuf progs) s).
Proof. intro Hc. apply run_lift; [exact sync_inv_step|apply sync_inv_init; auto]. Qed.

(* with Sync publishes only there is never an asynchronous sender and only the root PubSub: every close is safe *)
Lemma sync_safe_close c t : lock_inv c -> sync_inv c -> safe_close c t.
Proof.
  intros LI (_ & S2 & S3) th o ci Ht Hcl. split.
  - intros t' th' k p tm cb wg Ht' E. pose proof (S2 t' th' Ht') as F. rewrite E in F. destruct F.
  - intros o' ob' N Ho'. exfalso.
    assert (Hw : holds_write (th_pc th) o).
    { unfold closing in Hcl. destruct (th_pc th); try discriminate; cbn.
      - destruct (nth_error (c_objs c) o0); [|discriminate]. destruct (nth_error _ idx); [|discriminate]. congruence.
      - destruct rest; [discriminate|]. congruence. }
    destruct LI as (_ & _ & _ & L4 & _). pose proof (L4 t th o Ht (or_intror Hw)).
    apply nth_error_some_lt in Ho'. lia.
Qed.

Lemma no_panic_sync timeout cb defbuf progs s :
  (0 <= defbuf)%Z -> (forall p cl, In p progs -> In cl p -> call_ok cl /\ sync_only_call cl) ->
  c_panic (run (init timeout cb defbuf progs) s) = None.
Proof.
  intros Hd Hc. apply no_panic_safe; auto.
  - intros p cl Hp Hi. apply (Hc p cl Hp Hi).
  - intros s1 tc s2 E. apply sync_safe_close; [apply lock_inv_run|apply sync_inv_run].
    intros p cl Hp Hi. apply (Hc p cl Hp Hi).
Qed.

(* what UnsubAll's closing loop leaves in the channel heap: exactly the listed
   channels are closed (buffers and capacities kept), the others are untouched *)
Lemma close_all_notin l : forall chs ci, ~ In ci l -> nth_error (close_all l chs) ci = nth_error chs ci.
Proof.
  induction l as [|x l IH]; intros chs ci Hn; [reflexivity|].
  unfold close_all. cbn [fold_left]. fold (close_all l (close_one chs x)).
  rewrite IH by (intro F; apply Hn; right; exact F).
  unfold close_one. destruct (nth_error chs x); [|reflexivity].
  apply nth_error_upd_neq. intros ->. apply Hn. left; reflexivity.
Qed.
Lemma close_all_in l : forall chs ci chn, In ci l -> nth_error chs ci = Some chn ->
  nth_error (close_all l chs) ci = Some (Chan (ch_buf chn) (ch_cap chn) true).
Proof.
  induction l as [|x l IH]; intros chs ci chn Hi Hc; [destruct Hi|].
  unfold close_all. cbn [fold_left]. fold (close_all l (close_one chs x)).
  destruct (Nat.eq_dec x ci) as [->|N].
  - assert (Hx : nth_error (close_one chs ci) ci = Some (Chan (ch_buf chn) (ch_cap chn) true)).
    { unfold close_one. rewrite Hc. apply nth_error_upd_eq. eapply nth_error_some_lt; eauto. }
    destruct (in_dec Nat.eq_dec ci l) as [I|I].
    + rewrite (IH _ _ _ I Hx). reflexivity.
    + rewrite close_all_notin by exact I. exact Hx.
  - destruct Hi as [Hi|Hi]; [congruence|]. apply IH; auto.
    unfold close_one. destruct (nth_error chs x); [|exact Hc]. rewrite nth_error_upd_neq by exact N. exact Hc.
Qed.

(* A WithOnly view is a snapshot with its own lock: after the parent has
   removed (closed) the subscription, a publish on the stale view sends on the
   closed channel, sequentially, even with a Sync variant. This is why the
   no-panic theorems require that no other PubSub lists a channel at its close
   step (or that there is no WithOnly). *)
Definition stale_view_progs : list (list call) :=
  [[CSubBuf 0 1%Z; CWithOnly 0 (Some 0); CUnsub 0 (Some 0); CPubOne Sync 1 1%Z]].
Lemma stale_view_panic_reachable :
  c_panic (run (init 0%Z false 0%Z stale_view_progs) (repeat (0, Plain) 9)) = Some PSendOnClosed.
Proof. vm_compute. reflexivity. Qed.
