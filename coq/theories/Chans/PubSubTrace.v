(* PROOFS about the ghost log of the PubSub machine: closing, FIFO
   conservation per channel, exactly-once accounting per (call, event,
   subscriber) pair, and what has happened when a publish call returns. *)
From Typ Require Import Lib.Base Chans.PubSubModel Chans.PubSubProofs.
Local Arguments skipn : simpl never.
Local Arguments firstn : simpl never.

(* ------------------------------------------------------------------ *)
(* Channels: closing and FIFO conservation                              *)
(* ------------------------------------------------------------------ *)

Definition is_closed (chs : list chan) (ci : cid) : Prop :=
  exists chn, nth_error chs ci = Some chn /\ ch_closed chn = true.

(* values handed to channel ci / received from it, newest first *)
Fixpoint sent_rev (ci : cid) (tr : list event) : list Z :=
  match tr with
  | [] => []
  | EHandoff _ p :: older => if p_sub p =? ci then p_ev p :: sent_rev ci older else sent_rev ci older
  | _ :: older => sent_rev ci older
  end.
Fixpoint recv_rev (ci : cid) (tr : list event) : list Z :=
  match tr with
  | [] => []
  | ERecv _ c v :: older => if c =? ci then v :: recv_rev ci older else recv_rev ci older
  | _ :: older => recv_rev ci older
  end.

(* no hand-off to a channel is logged after (= nearer the head than) a close of it *)
Fixpoint no_handoff_after_close (tr : list event) : Prop :=
  match tr with
  | [] => True
  | e :: older =>
      no_handoff_after_close older /\
      match e with
      | EHandoff _ p => forall t o, ~ In (EClose t o (p_sub p)) older
      | _ => True
      end
  end.

Definition chan_inv (c : config) : Prop :=
  (forall t o ci, In (EClose t o ci) (c_trace c) -> is_closed (c_chans c) ci) /\
  no_handoff_after_close (c_trace c) /\
  (forall ci chn, nth_error (c_chans c) ci = Some chn ->
     length (ch_buf chn) <= ch_cap chn /\
     rev (sent_rev ci (c_trace c)) = rev (recv_rev ci (c_trace c)) ++ ch_buf chn) /\
  (forall ci, length (c_chans c) <= ci -> sent_rev ci (c_trace c) = [] /\ recv_rev ci (c_trace c) = []).

Lemma is_closed_upd chs ci cj chn b cp cl :
  nth_error chs ci = Some chn -> (ci <> cj \/ cl = true \/ ch_closed chn = false) ->
  is_closed chs cj -> is_closed (upd ci (Chan b cp cl) chs) cj.
Proof.
  intros Hc Hd (chn' & H & C). destruct (Nat.eq_dec ci cj) as [->|N].
  - destruct Hd as [F|[->|F]]; [congruence| |congruence].
    eexists. split; [apply nth_error_upd_eq; eapply nth_error_some_lt; eauto|reflexivity].
  - exists chn'. rewrite nth_error_upd_neq by exact N. auto.
Qed.
Lemma is_closed_app chs x cj : is_closed chs cj -> is_closed (chs ++ [x]) cj.
Proof. intros (chn & H & C). exists chn. split; auto. rewrite nth_error_app1; auto. eapply nth_error_some_lt; eauto. Qed.

Ltac eqb_simpl :=
  repeat match goal with
  | |- context [?a =? ?a] => rewrite (Nat.eqb_refl a)
  | N : ?a <> ?b |- context [?a =? ?b] => rewrite (proj2 (Nat.eqb_neq a b) N)
  | N : ?b <> ?a |- context [?a =? ?b] => rewrite (proj2 (Nat.eqb_neq a b) (not_eq_sym N))
  | H : context [?a =? ?a] |- _ => rewrite (Nat.eqb_refl a) in H
  | N : ?a <> ?b, H : context [?a =? ?b] |- _ => rewrite (proj2 (Nat.eqb_neq a b) N) in H
  | N : ?b <> ?a, H : context [?a =? ?b] |- _ => rewrite (proj2 (Nat.eqb_neq a b) (not_eq_sym N)) in H
  end.
Ltac fin_c :=
  cbn [sent_rev recv_rev no_handoff_after_close In app length ch_buf ch_cap ch_closed] in *; intros;
  rewrite ?app_length, ?upd_length in *; cbn [length] in *;
  first [ contradiction | congruence | lia | solve [eauto]
        | solve [intuition (eauto; congruence)]
        | solve [eauto using is_closed_app] ].

Lemma chan_inv_step c t th c' :
  c_panic c = None -> nth_error (c_threads c) t = Some th -> trans c t th c' -> chan_inv c -> chan_inv c'.
Proof.
  intros Hp Ht T CI. pose proof CI as (A1 & A2 & A3 & A4).
  destruct T; try match goal with S : send_trans _ _ _ _ _ _ _ _ _ _ |- _ => inv_send S end;
    try exact CI; unfold chan_inv; norm.
  all: split; [|split; [|split]].
  all: try (intros xt xo xci Hxi; fin_c; fail).
  all: try (fin_c; fail).
  all: try (intros xci xchn Hxc; lookup Hxc; fin_c; fail).
  all: try (intros xci Hxl; fin_c; fail).
  (* SubStart *)
  - intros xt xo xci [F|[F|Hi]]; try discriminate. apply is_closed_app; eauto.
  - intros xci xchn Hc. apply nth_error_app_some in Hc as [Hc|[-> ->]]; cbn [sent_rev recv_rev]; [eauto|].
    destruct (A4 (length (c_chans c))) as [-> ->]; [lia|]. cbn. split; [lia|reflexivity].
  - intros xci Hl. rewrite app_length in Hl. cbn in Hl. cbn [sent_rev recv_rev]. apply A4. lia.
  (* RecvVal *)
  - intros xt xo xci [F|Hi]; [discriminate|]. eapply is_closed_upd; eauto.
    destruct (ch_closed chn); auto.
  - intros xci xchn Hc. destruct (A3 ci chn H0) as [Hl Hf]. rewrite H1 in Hl, Hf. cbn [length] in Hl.
    lookup Hc; cbn [sent_rev recv_rev ch_buf ch_cap]; eqb_simpl.
    + split; [lia|]. cbn [rev]. rewrite <- app_assoc. exact Hf.
    + eauto.
  - intros xci Hl. rewrite upd_length in Hl. cbn [sent_rev recv_rev].
    assert (ci <> xci) by (apply nth_error_some_lt in H0; lia). eqb_simpl. apply A4. lia.
  (* synchronous send into the buffer *)
  - intros xt xo xci [F|[F|Hi]]; try discriminate. eapply is_closed_upd; eauto.
  - cbn. repeat split; auto. intros xt xo Hi. destruct (A1 _ _ _ Hi) as (chn' & E & C). congruence.
  - intros xci xchn Hc. destruct (A3 _ _ Hch) as [Hl Hf].
    lookup Hc; cbn [sent_rev recv_rev ch_buf ch_cap]; eqb_simpl.
    + split; [rewrite app_length; cbn; lia|]. cbn [rev]. rewrite Hf, <- app_assoc. reflexivity.
    + eauto.
  - intros xci Hl. rewrite upd_length in Hl. cbn [sent_rev recv_rev].
    assert (p_sub p <> xci) by (apply nth_error_some_lt in Hch; lia). eqb_simpl. apply A4. lia.
  (* synchronous rendezvous *)
  - cbn. repeat split; auto. intros xt xo Hi. destruct (A1 _ _ _ Hi) as (chn' & E & C). congruence.
  - intros xci xchn Hc. cbn [sent_rev recv_rev]. destruct (Nat.eq_dec (p_sub p) xci) as [<-|N]; eqb_simpl; [|eauto].
    rewrite Hch in Hc. injection Hc as <-. destruct (A3 _ _ Hch) as [Hl Hf].
    destruct (ch_buf chn) as [|? ?]; [|cbn in Hl; lia]. split; [cbn; lia|]. cbn [rev]. rewrite Hf, !app_nil_r. reflexivity.
  - intros xci Hl. cbn [sent_rev recv_rev].
    assert (p_sub p <> xci) by (apply nth_error_some_lt in Hch; lia). eqb_simpl. apply A4. lia.
  (* asynchronous send into the buffer *)
  - intros xt xo xci [F|[F|Hi]]; try discriminate. eapply is_closed_upd; eauto.
  - cbn. repeat split; auto. intros xt xo Hi. destruct (A1 _ _ _ Hi) as (chn' & E & C). congruence.
  - intros xci xchn Hc. destruct (A3 _ _ Hch) as [Hl Hf].
    lookup Hc; cbn [sent_rev recv_rev ch_buf ch_cap]; eqb_simpl.
    + split; [rewrite app_length; cbn; lia|]. cbn [rev]. rewrite Hf, <- app_assoc. reflexivity.
    + eauto.
  - intros xci Hl. rewrite upd_length in Hl. cbn [sent_rev recv_rev].
    assert (p_sub p <> xci) by (apply nth_error_some_lt in Hch; lia). eqb_simpl. apply A4. lia.
  (* asynchronous rendezvous *)
  - cbn. repeat split; auto. intros xt xo Hi. destruct (A1 _ _ _ Hi) as (chn' & E & C). congruence.
  - intros xci xchn Hc. cbn [sent_rev recv_rev]. destruct (Nat.eq_dec (p_sub p) xci) as [<-|N]; eqb_simpl; [|eauto].
    rewrite Hch in Hc. injection Hc as <-. destruct (A3 _ _ Hch) as [Hl Hf].
    destruct (ch_buf chn) as [|? ?]; [|cbn in Hl; lia]. split; [cbn; lia|]. cbn [rev]. rewrite Hf, !app_nil_r. reflexivity.
  - intros xci Hl. cbn [sent_rev recv_rev].
    assert (p_sub p <> xci) by (apply nth_error_some_lt in Hch; lia). eqb_simpl. apply A4. lia.
  (* closes *)
  - intros xt xo xci [E|Hi].
    + injection E as <- <- <-. eexists. split; [apply nth_error_upd_eq; eapply nth_error_some_lt; eauto|reflexivity].
    + eapply is_closed_upd; eauto.
  - intros xt xo xci [E|Hi].
    + injection E as <- <- <-. eexists. split; [apply nth_error_upd_eq; eapply nth_error_some_lt; eauto|reflexivity].
    + eapply is_closed_upd; eauto.
Qed.

Lemma chan_inv_init timeout cb defbuf progs : chan_inv (init timeout cb defbuf progs).
Proof.
  unfold chan_inv. cbn. repeat split; auto.
  - intros t o ci [].
  - destruct ci; discriminate.
  - destruct ci; discriminate.
Qed.

Lemma chan_inv_run timeout cb defbuf progs s : chan_inv (run (init timeout cb defbuf progs) s).
Proof. apply run_lift; [exact chan_inv_step|apply chan_inv_init]. Qed.

(* values handed to / received from a channel, oldest first *)
Definition handed_to (ci : cid) (c : config) : list Z := rev (sent_rev ci (c_trace c)).
Definition received_from (ci : cid) (c : config) : list Z := rev (recv_rev ci (c_trace c)).

(* FIFO conservation: at any time, what was handed to a channel is what was
   received from it followed by what its buffer holds; so the receives are a
   prefix of the hand-offs: nothing lost, duplicated, reordered or invented. *)
Lemma fifo_conservation timeout cb defbuf progs s ci chn :
  let c := run (init timeout cb defbuf progs) s in
  nth_error (c_chans c) ci = Some chn ->
  handed_to ci c = received_from ci c ++ ch_buf chn /\ length (ch_buf chn) <= ch_cap chn.
Proof.
  intros c H. destruct (chan_inv_run timeout cb defbuf progs s) as (_ & _ & A3 & _).
  destruct (A3 ci chn H). split; assumption.
Qed.

Lemma nhac_split l1 : forall t o ci l2,
  no_handoff_after_close (l1 ++ EClose t o ci :: l2) ->
  forall k p, In (EHandoff k p) l1 -> p_sub p <> ci.
Proof.
  induction l1 as [|e l1 IH]; intros t o ci l2 H k p Hi; [destruct Hi|].
  cbn in H. destruct H as [H He]. destruct Hi as [->|Hi]; [|eauto].
  intros <-. apply (He t o). apply in_or_app. right. left. reflexivity.
Qed.

(* nothing is handed to a channel after the step that closed it; and a logged close means closed for good *)
Lemma nothing_after_close timeout cb defbuf progs s later t o ci earlier :
  c_trace (run (init timeout cb defbuf progs) s) = later ++ EClose t o ci :: earlier ->
  (forall k p, In (EHandoff k p) later -> p_sub p <> ci) /\
  is_closed (c_chans (run (init timeout cb defbuf progs) s)) ci.
Proof.
  intro E. destruct (chan_inv_run timeout cb defbuf progs s) as (A1 & A2 & _). split.
  - rewrite E in A2. eapply nhac_split; eauto.
  - apply (A1 t o). rewrite E. apply in_or_app. right. left. reflexivity.
Qed.

(* ------------------------------------------------------------------ *)
(* Exactly-once accounting per (publish call, event index, subscriber)  *)
(* ------------------------------------------------------------------ *)

Definition wkind_eq_dec (a b : wkind) : {a = b} + {a <> b}.
Proof. decide equality. Defined.
Definition callid_eq_dec (a b : callid) : {a = b} + {a <> b}.
Proof. decide equality; [decide equality; [apply wkind_eq_dec|apply Bool.bool_dec]|apply Nat.eq_dec|apply Nat.eq_dec]. Defined.
Definition pair_eq_dec (a b : pair) : {a = b} + {a <> b}.
Proof. decide equality; [apply Nat.eq_dec|decide equality; [apply Z.eq_dec|apply Nat.eq_dec]]. Defined.

(* 1 if the stored (k',p') is the queried (k,p) *)
Definition is_kp (k' : callid) (p' : pair) (k : callid) (p : pair) : nat :=
  if callid_eq_dec k' k then if pair_eq_dec p' p then 1 else 0 else 0.
Definition cnt (k' : callid) (ps : list pair) (k : callid) (p : pair) : nat :=
  if callid_eq_dec k' k then count_occ pair_eq_dec ps p else 0.

(* pairs of (k,p) the thread still has to resolve (hand off or time out) ... *)
Definition obl_res (k : callid) (p : pair) (q : pc) : nat :=
  match q with
  | PAdd k' _ _ ps | PLoop k' _ ps | PSyncCb k' _ _ ps => cnt k' ps k p
  | PGoSend k' p' _ _ _ => is_kp k' p' k p
  | _ => 0
  end.
(* ... and for which send() has still to return *)
Definition obl_done (k : callid) (p : pair) (q : pc) : nat :=
  match q with
  | PAdd k' _ _ ps | PLoop k' _ ps => cnt k' ps k p
  | PSyncCb k' _ p' ps => is_kp k' p' k p + cnt k' ps k p
  | PGoSend k' p' _ _ _ | PGoCb k' p' _ => is_kp k' p' k p
  | _ => 0
  end.

Definition ev_res (k : callid) (p : pair) (e : event) : nat :=
  match e with EHandoff k' p' | ETimeout k' p' _ => is_kp k' p' k p | _ => 0 end.
Definition ev_handoff (k : callid) (p : pair) (e : event) : nat :=
  match e with EHandoff k' p' => is_kp k' p' k p | _ => 0 end.
Definition ev_done (k : callid) (p : pair) (e : event) : nat :=
  match e with EDone k' p' => is_kp k' p' k p | _ => 0 end.
(* how often (k,p) is among the pairs the publish calls set out to deliver *)
Definition ev_exp (k : callid) (p : pair) (e : event) : nat :=
  match e with ERLock k' _ evs subs => cnt k' (pub_ps (fst (k_var k')) evs subs) k p | _ => 0 end.

Definition res_count k p (c : config) := total (ev_res k p) (c_trace c).
Definition done_count k p (c : config) := total (ev_done k p) (c_trace c).
Definition exp_count k p (c : config) := total (ev_exp k p) (c_trace c).

Definition cons_inv (c : config) : Prop :=
  (forall k p, total (fun th => obl_res k p (th_pc th)) (c_threads c) + res_count k p c = exp_count k p c) /\
  (forall k p, total (fun th => obl_done k p (th_pc th)) (c_threads c) + done_count k p c = exp_count k p c).

Lemma total_cons {A} (f : A -> nat) x l : total f (x :: l) = f x + total f l.
Proof. reflexivity. Qed.
Lemma recv_obl thr ci v k p : recv_target thr = Some ci ->
  obl_res k p (th_pc thr) = 0 /\ obl_res k p (th_pc (deliver thr v)) = 0 /\
  obl_done k p (th_pc thr) = 0 /\ obl_done k p (th_pc (deliver thr v)) = 0 /\
  obl_res k p (th_pc (deliver_closed thr)) = 0 /\ obl_done k p (th_pc (deliver_closed thr)) = 0.
Proof.
  intro H. destruct (recv_target_pc _ _ H) as [E|[acc E]]; unfold deliver, deliver_closed; rewrite E; cbn.
  - destruct (th_prog thr) as [|[] ?]; cbn; rewrite ?E; cbn; repeat split; auto.
  - repeat split; auto.
Qed.
Lemma starts_obl th cl rest k p : starts th cl rest -> obl_res k p (th_pc th) = 0 /\ obl_done k p (th_pc th) = 0.
Proof. intros [[E _]|(l & E & _)]; rewrite E; auto. Qed.

(* evaluate obligations of the moving thread (old state via its pc equation) *)
Ltac obl_eval E :=
  repeat match type of E with
  | context [obl_res ?k ?p (th_pc (deliver ?th ?v))] =>
      match goal with Hr : recv_target th = Some ?ci |- _ => rewrite (proj1 (proj2 (recv_obl th ci v k p Hr))) in E end
  | context [obl_done ?k ?p (th_pc (deliver ?th ?v))] =>
      match goal with Hr : recv_target th = Some ?ci |- _ => rewrite (proj1 (proj2 (proj2 (proj2 (recv_obl th ci v k p Hr))))) in E end
  | context [obl_res ?k ?p (th_pc (deliver_closed ?th))] =>
      match goal with Hr : recv_target th = Some ?ci |- _ => rewrite (proj1 (proj2 (proj2 (proj2 (proj2 (recv_obl th ci 0%Z k p Hr)))))) in E end
  | context [obl_done ?k ?p (th_pc (deliver_closed ?th))] =>
      match goal with Hr : recv_target th = Some ?ci |- _ => rewrite (proj2 (proj2 (proj2 (proj2 (proj2 (recv_obl th ci 0%Z k p Hr)))))) in E end
  | context [th_pc ?th] =>
      match goal with
      | Hpc : th_pc th = _ |- _ => rewrite Hpc in E
      | Hs : starts th _ _ |- _ =>
          repeat match type of E with
          | context [obl_res ?k ?p (th_pc th)] => rewrite (proj1 (starts_obl th _ _ k p Hs)) in E
          | context [obl_done ?k ?p (th_pc th)] => rewrite (proj2 (starts_obl th _ _ k p Hs)) in E
          end
      | Hr : recv_target th = Some _ |- _ =>
          repeat match type of E with
          | context [obl_res ?k ?p (th_pc th)] => rewrite (proj1 (recv_obl th _ 0%Z k p Hr)) in E
          | context [obl_done ?k ?p (th_pc th)] => rewrite (proj1 (proj2 (proj2 (recv_obl th _ 0%Z k p Hr)))) in E
          end
      end
  end;
  cbn [th_pc obl_res obl_done] in E.

Lemma cons_inv_step c t th c' :
  c_panic c = None -> nth_error (c_threads c) t = Some th -> trans c t th c' -> cons_inv c -> cons_inv c'.
Proof.
  intros Hp Ht T (C1 & C2).
  assert (Lt : t < length (c_threads c)) by (eapply nth_error_some_lt; eauto).
  destruct T; try match goal with S : send_trans _ _ _ _ _ _ _ _ _ _ |- _ => inv_send S end;
    unfold cons_inv, res_count, done_count, exp_count in *; norm.
  all: try (split; assumption).
  all: split; intros xk xp; [specialize (C1 xk xp)|specialize (C2 xk xp)].
  all: try (first
            [ match goal with |- context [total ?f (upd ?t ?th' (upd ?r ?thr' ?l))] =>
                assert (Nr : t <> r) by
                  (intros <-; match goal with Hr : nth_error _ t = Some ?thr |- _ => rewrite Ht in Hr; injection Hr as <- end;
                   match goal with Hrt : recv_target ?x = Some _, Hpc : th_pc ?x = _ |- _ => unfold recv_target in Hrt; rewrite Hpc in Hrt; discriminate end);
                match goal with Hr : nth_error _ r = Some ?thr |- _ => pose proof (total_upd2 f l t r th thr th' thr' Nr Ht Hr) as E end
              end
            | match goal with |- context [total ?f (upd ?t ?th' ?l ++ [?new])] =>
                rewrite (total_app f); pose proof (total_upd f l t th th' Ht) as E
              end
            | match goal with |- context [total ?f (upd ?t ?th' ?l)] => pose proof (total_upd f l t th th' Ht) as E end ];
            cbv beta in E; obl_eval E; rewrite ?total_cons; cbn [ev_res ev_done ev_exp th_pc obl_res obl_done];
            unfold pub_pc, after_send, cnt, is_kp in *; cbn [k_var fst snd] in *;
            repeat match goal with
            | |- context [match ?w with Async => _ | Wait => _ | Sync => _ end] => destruct w eqn:?
            | _ : context [match ?w with Async => _ | Wait => _ | Sync => _ end] |- _ => destruct w eqn:?
            end; cbn [obl_res obl_done count_occ] in *; unfold cnt, is_kp in *;
            repeat match goal with
            | _ : context [if ?b then _ else _] |- _ => destruct b
            | |- context [if ?b then _ else _] => destruct b
            end; cbn [obl_res obl_done count_occ] in *;
            solve [congruence | lia]).
Qed.

Lemma cons_inv_init timeout cb defbuf progs : cons_inv (init timeout cb defbuf progs).
Proof.
  unfold cons_inv, res_count, done_count, exp_count. split; intros k p; unfold init; cbn [c_trace c_threads].
  all: rewrite total_all_zero; [reflexivity|].
  all: intros th Hin; apply in_map_iff in Hin as (pr & <- & _); reflexivity.
Qed.

Lemma cons_inv_run timeout cb defbuf progs s : cons_inv (run (init timeout cb defbuf progs) s).
Proof. apply run_lift; [exact cons_inv_step|apply cons_inv_init]. Qed.
(* ------------------------------------------------------------------ *)
(* Call ids are fresh: one ERLock per publish call                      *)
(* ------------------------------------------------------------------ *)
Definition pub_pc_of (k : callid) (q : pc) : Prop :=
  match q with PAdd k' _ _ _ | PLoop k' _ _ | PSyncCb k' _ _ _ | PWait k' => k' = k | _ => False end.
Definition ev_rlock (k : callid) (e : event) : nat :=
  match e with ERLock k' _ _ _ => if callid_eq_dec k' k then 1 else 0 | _ => 0 end.

(* the call k is over, or is the one its thread is executing *)
Definition call_state_ok (ths : list thread) (k : callid) : Prop :=
  match nth_error ths (k_tid k) with
  | Some th => k_n k < length (th_rets th) \/ (k_n k = length (th_rets th) /\ pub_pc_of k (th_pc th))
  | None => False
  end.

Definition fresh_inv (c : config) : Prop :=
  (forall k o evs subs, In (ERLock k o evs subs) (c_trace c) -> call_state_ok (c_threads c) k) /\
  (forall k, total (ev_rlock k) (c_trace c) <= 1) /\
  (forall k o evs subs, In (ERLock k o evs subs) (c_trace c) -> NoDup subs) /\
  (forall t th k, nth_error (c_threads c) t = Some th -> pub_pc_of k (th_pc th) ->
     k_tid k = t /\ k_n k = length (th_rets th)).

(* how a thread may move with respect to call k *)
Definition adv (k : callid) (th th' : thread) : Prop :=
  length (th_rets th) <= length (th_rets th') /\
  (k_n k = length (th_rets th) -> pub_pc_of k (th_pc th) ->
   k_n k < length (th_rets th') \/ (length (th_rets th') = length (th_rets th) /\ pub_pc_of k (th_pc th'))).

Lemma call_state_ok_upd ths k t th th' :
  nth_error ths t = Some th -> adv k th th' -> call_state_ok ths k -> call_state_ok (upd t th' ths) k.
Proof.
  unfold call_state_ok. intros Ht [A1 A2] H. destruct (Nat.eq_dec t (k_tid k)) as [E|N].
  - rewrite <- E in *. rewrite Ht in H. rewrite nth_error_upd_eq by (eapply nth_error_some_lt; eauto).
    destruct H as [H|[H1 H2]]; [left; lia|]. destruct (A2 H1 H2) as [?|[? ?]]; [left; lia|right; split; [lia|auto]].
  - rewrite nth_error_upd_neq by exact N. exact H.
Qed.
Lemma call_state_ok_app ths k x : call_state_ok ths k -> call_state_ok (ths ++ [x]) k.
Proof.
  unfold call_state_ok. destruct (nth_error ths (k_tid k)) eqn:E; [|intros []].
  rewrite nth_error_app1 by (eapply nth_error_some_lt; eauto). rewrite E. auto.
Qed.

Lemma adv_recv k thr ci v : recv_target thr = Some ci -> adv k thr (deliver thr v) /\ adv k thr (deliver_closed thr).
Proof.
  intro H. unfold adv. destruct (recv_target_pc _ _ H) as [E|[acc E]]; unfold deliver, deliver_closed; rewrite E.
  - destruct (th_prog thr) as [|[] ?]; cbn; rewrite ?E, ?app_length; cbn; repeat split; try lia; intros _ F; try destruct F.
  - cbn; rewrite ?app_length; cbn; repeat split; try lia; intros _ F; destruct F.
Qed.

Lemma adv_deliver k thr ci v : recv_target thr = Some ci -> adv k thr (deliver thr v).
Proof. intro H. apply (adv_recv k thr ci v H). Qed.
Lemma adv_deliver_closed k thr ci : recv_target thr = Some ci -> adv k thr (deliver_closed thr).
Proof. intro H. apply (adv_recv k thr ci 0%Z H). Qed.
Lemma recv_not_pub thr ci k v : recv_target thr = Some ci ->
  ~ pub_pc_of k (th_pc thr) /\ ~ pub_pc_of k (th_pc (deliver thr v)) /\ ~ pub_pc_of k (th_pc (deliver_closed thr)).
Proof.
  intro H. destruct (recv_target_pc _ _ H) as [E|[acc E]]; unfold deliver, deliver_closed; rewrite E.
  - destruct (th_prog thr) as [|[] ?]; cbn; rewrite ?E; cbn; auto.
  - cbn; auto.
Qed.

Lemma rlock_zero k tr : (forall o evs subs, ~ In (ERLock k o evs subs) tr) -> total (ev_rlock k) tr = 0.
Proof.
  intro H. apply total_all_zero. intros e He. destruct e; cbn; auto.
  destruct (callid_eq_dec k0 k) as [->|]; auto. exfalso. eapply H; eauto.
Qed.

Ltac adv_tac :=
  unfold adv; cbn [th_rets th_pc]; rewrite ?app_length; cbn [length];
  split; [lia|];
  let H1 := fresh in let H2 := fresh in intros H1 H2;
  try (match goal with Hpc : th_pc _ = _ |- _ => rewrite Hpc in H2 end);
  try (match goal with Hs : starts _ _ _ |- _ => destruct Hs as [[Hs _]|(? & Hs & _)]; rewrite Hs in H2 end);
  cbn [pub_pc_of] in *; try contradiction;
  first [ left; lia | right; split; [reflexivity|]; unfold pub_pc; try (match goal with |- context [match ?w with _ => _ end] => destruct w end); cbn [pub_pc_of]; congruence ].

Lemma fresh_inv_step c t th c' :
  c_panic c = None -> nth_error (c_threads c) t = Some th -> trans c t th c' -> wf_inv c -> fresh_inv c -> fresh_inv c'.
Proof.
  intros Hp Ht T (W1 & W2 & W3) (F1 & F2 & F3 & F4).
  assert (Lt : t < length (c_threads c)) by (eapply nth_error_some_lt; eauto).
  destruct T; try match goal with S : send_trans _ _ _ _ _ _ _ _ _ _ |- _ => inv_send S end;
    unfold fresh_inv; norm.
  all: try (repeat split; assumption).
  all: split; [|split; [|split]].
  (* F2, F3: only PubStart logs an ERLock *)
  all: try (intros xk; specialize (F2 xk); rewrite ?total_cons; cbn [ev_rlock]; lia).
  all: try (intros xk xo xevs xsubs Hxi; cbn [In] in Hxi;
            repeat (destruct Hxi as [Hxi|Hxi]; [discriminate|]); eauto; fail).
  (* F1 *)
  all: try (intros xk xo xevs xsubs Hxi; cbn [In] in Hxi;
            repeat (destruct Hxi as [Hxi|Hxi]; [discriminate|]);
            specialize (F1 _ _ _ _ Hxi);
            first [ apply call_state_ok_app | idtac ];
            first [ eapply call_state_ok_upd; [eassumption | | eassumption]; adv_tac
                  | eapply call_state_ok_upd; [eassumption | eapply adv_deliver; eassumption | eassumption]
                  | eapply call_state_ok_upd; [eassumption | eapply adv_deliver_closed; eassumption | eassumption] ]; fail).
  (* F1 with a rendezvous partner *)
  all: try (intros xk xo xevs xsubs Hxi; cbn [In] in Hxi;
            repeat (destruct Hxi as [Hxi|Hxi]; [discriminate|]);
            specialize (F1 _ _ _ _ Hxi);
            match goal with |- call_state_ok (upd ?t _ (upd ?r _ _)) _ =>
              assert (Nr : r <> t) by
                (intros ->; match goal with Hr : nth_error _ t = Some ?thr |- _ => rewrite Ht in Hr; injection Hr as <- end;
                 match goal with Hrt : recv_target ?x = Some _, Hpc : th_pc ?x = _ |- _ => unfold recv_target in Hrt; rewrite Hpc in Hrt; discriminate end)
            end;
            eapply call_state_ok_upd; [rewrite nth_error_upd_neq by exact Nr; eassumption | adv_tac
                                      | eapply call_state_ok_upd; [eassumption | eapply adv_deliver; eassumption | eassumption]]; fail).
  (* F4 *)
  all: try (intros xt xth xk Hxt Hxh; lookup Hxt; try (solve [eauto]);
            unfold after_send in *; cbn [th_pc th_rets pub_pc_of] in *;
            try (match type of Hxh with context [if ?b then _ else _] => destruct b end); cbn [pub_pc_of] in *;
            try contradiction;
            try (match goal with Hr : recv_target ?x = Some _ |- _ =>
                   destruct (recv_not_pub x _ xk 0%Z Hr) as (? & ? & ?); contradiction end);
            try (match goal with Hr : recv_target ?x = Some _, Hh : pub_pc_of _ (th_pc (deliver ?x ?v)) |- _ =>
                   destruct (recv_not_pub x _ xk v Hr) as (? & ? & ?); contradiction end);
            subst;
            match goal with Hpc : th_pc ?x = _ |- _ => apply (F4 t x); [exact Ht | rewrite Hpc; reflexivity] end; fail).
  - intros xk xo xevs xsubs [E|Hxi].
    + injection E as <- <- <- <-. unfold call_state_ok. cbn [k_tid k_n].
      rewrite nth_error_upd_eq by exact Lt. right. cbn [th_rets th_pc]. split; [reflexivity|].
      unfold pub_pc. destruct w; reflexivity.
    + specialize (F1 _ _ _ _ Hxi). eapply call_state_ok_upd; [eassumption| |eassumption]. adv_tac.
  - intros xk. rewrite total_cons. cbn [ev_rlock].
    destruct (callid_eq_dec _ xk) as [<-|N]; [|specialize (F2 xk); lia].
    rewrite rlock_zero; [lia|]. intros o1 evs1 subs1 Hi. specialize (F1 _ _ _ _ Hi).
    unfold call_state_ok in F1. cbn [k_tid k_n] in F1. rewrite Ht in F1. destruct F1 as [F|[_ F]]; [lia|].
    destruct H as [[E _]|(l & E & _)]; rewrite E in F; destruct F.
  - intros xk xo xevs xsubs [E|Hxi]; [|eauto]. injection E as <- <- <- <-. eauto.
  - intros xt xth xk Hxt Hxh; lookup Hxt; [|eauto]. cbn [th_pc th_rets] in *. unfold pub_pc in Hxh.
    destruct w; cbn [pub_pc_of] in Hxh; subst xk; cbn; auto.
Qed.

Lemma fresh_inv_init timeout cb defbuf progs : fresh_inv (init timeout cb defbuf progs).
Proof.
  unfold fresh_inv. cbn [c_trace init]. repeat split; try (intros; contradiction).
  - cbn. lia.
  - apply init_threads_pc in H as [E _]. rewrite E in H0. destruct H0.
  - apply init_threads_pc in H as [E _]. rewrite E in H0. destruct H0.
Qed.

Lemma fresh_inv_run timeout cb defbuf progs s : fresh_inv (run (init timeout cb defbuf progs) s).
Proof.
  induction s as [|[t ch] s IH] using rev_ind; [apply fresh_inv_init|].
  rewrite run_app. cbn [run]. unfold step_or_stay. cbn [fst snd].
  destruct (step (run (init timeout cb defbuf progs) s) t ch) as [c'|] eqn:E; [|auto].
  apply step_trans in E as (Hp & th & Ht & T). eapply fresh_inv_step; eauto. apply wf_inv_run.
Qed.

Lemma pairs_slice_idx j evs subs p : In p (pairs_slice j evs subs) -> j <= p_idx p.
Proof.
  revert j; induction evs as [|ev evs IH]; intros j H; cbn in H; [destruct H|].
  apply in_app_or in H as [H|H].
  - apply in_map_iff in H as (s & <- & _). cbn. lia.
  - specialize (IH _ H). lia.
Qed.

Lemma nodup_map_inj {A B} (f : A -> B) l : (forall a b, f a = f b -> a = b) -> NoDup l -> NoDup (map f l).
Proof.
  intros Inj ND. induction ND as [|x l Hn ND IH]; cbn; constructor; auto.
  intro F. apply in_map_iff in F as (y & E & Hy). apply Inj in E. subst. contradiction.
Qed.
Lemma nodup_app {A} (l1 l2 : list A) :
  NoDup l1 -> NoDup l2 -> (forall x, In x l1 -> In x l2 -> False) -> NoDup (l1 ++ l2).
Proof.
  intros N1 N2 D. induction N1 as [|x l Hn N1 IH]; cbn; auto. constructor.
  - intro F. apply in_app_or in F as [F|F]; [contradiction|]. eapply D; eauto. left; reflexivity.
  - apply IH. intros y Hy. apply D. right; exact Hy.
Qed.

Lemma nodup_pairs_one ev subs : NoDup subs -> NoDup (pairs_one ev subs).
Proof.
  intro ND. unfold pairs_one. apply nodup_map_inj; auto.
  intros a b E. injection E as ->. reflexivity.
Qed.
Lemma nodup_pairs_slice j evs subs : NoDup subs -> NoDup (pairs_slice j evs subs).
Proof.
  intro ND. revert j; induction evs as [|ev evs IH]; intro j; cbn; [constructor|].
  apply nodup_app.
  - apply nodup_map_inj; auto. intros a b E. injection E as ->. reflexivity.
  - apply IH.
  - intros p H1 H2. apply in_map_iff in H1 as (s & <- & _). apply pairs_slice_idx in H2. cbn in H2. lia.
Qed.
Lemma nodup_pub_ps sl evs subs : NoDup subs -> NoDup (pub_ps sl evs subs).
Proof. intro ND. unfold pub_ps. destruct sl; [apply nodup_pairs_slice|apply nodup_pairs_one]; exact ND. Qed.

Lemma total_le {A} (f g : A -> nat) l : (forall x, f x <= g x) -> total f l <= total g l.
Proof. intro H. unfold total. induction l as [|x l IH]; cbn; auto. specialize (H x). lia. Qed.

Lemma obl_res_le_done k p q : obl_res k p q <= obl_done k p q.
Proof. destruct q; cbn; lia. Qed.

Lemma exp_le_rlock k p tr :
  (forall k' o evs subs, In (ERLock k' o evs subs) tr -> NoDup subs) ->
  total (ev_exp k p) tr <= total (ev_rlock k) tr.
Proof.
  induction tr as [|e tr IH]; intro H; [cbn; lia|]. rewrite !total_cons.
  assert (IH' : total (ev_exp k p) tr <= total (ev_rlock k) tr) by (apply IH; intros; eapply H; right; eauto).
  destruct e; cbn [ev_exp ev_rlock]; try lia.
  unfold cnt. destruct (callid_eq_dec k0 k); [|lia].
  assert (ND : NoDup (pub_ps (fst (k_var k0)) evs subs)) by (apply nodup_pub_ps; eapply H; left; reflexivity).
  pose proof (proj1 (NoDup_count_occ pair_eq_dec _) ND p). lia.
Qed.

Lemma exp_count_le_1 timeout cb defbuf progs s k p : exp_count k p (run (init timeout cb defbuf progs) s) <= 1.
Proof.
  destruct (fresh_inv_run timeout cb defbuf progs s) as (_ & F2 & F3 & _).
  unfold exp_count. pose proof (exp_le_rlock k p _ F3). specialize (F2 k). lia.
Qed.

(* Conservation: every (publish call, event index, subscriber) pair is
   resolved (handed off, or timed out) at most once, its send() returns at
   most once, and once send() has returned the pair has been resolved exactly
   once; nothing is resolved that the call did not set out to deliver. *)
Lemma conservation timeout cb defbuf progs s k p :
  let c := run (init timeout cb defbuf progs) s in
  res_count k p c <= 1 /\ done_count k p c <= 1 /\
  (1 <= done_count k p c -> res_count k p c = 1) /\
  res_count k p c <= exp_count k p c /\ exp_count k p c <= 1.
Proof.
  intro c. destruct (cons_inv_run timeout cb defbuf progs s) as (C1 & C2).
  specialize (C1 k p). specialize (C2 k p). fold c in C1, C2.
  pose proof (exp_count_le_1 timeout cb defbuf progs s k p) as E. fold c in E.
  pose proof (total_le (fun th => obl_res k p (th_pc th)) (fun th => obl_done k p (th_pc th)) (c_threads c)
                       (fun th => obl_res_le_done k p (th_pc th))) as L.
  repeat split; lia.
Qed.

(* what is resolved was among the pairs built at the read-lock step of its call: its
   subscriber was subscribed to that PubSub (the root, or a WithOnly view) then *)
Lemma exp_pos k p tr : 1 <= total (ev_exp k p) tr ->
  exists o evs subs, In (ERLock k o evs subs) tr /\ In p (pub_ps (fst (k_var k)) evs subs).
Proof.
  induction tr as [|e tr IH]; [cbn; lia|]. rewrite total_cons. intro H.
  destruct e; cbn [ev_exp Nat.add] in H; try (destruct (IH H) as (o9 & evs9 & subs9 & Hi & Hp); exists o9, evs9, subs9; split; [right|]; assumption).
  unfold cnt in H. destruct (callid_eq_dec k0 k) as [->|N].
  - destruct (count_occ pair_eq_dec (pub_ps (fst (k_var k)) evs subs) p) eqn:E.
    + destruct (IH H) as (o' & evs' & subs' & Hi & Hp); exists o', evs', subs'; split; [right|]; assumption.
    + exists o, evs, subs. split; [left; reflexivity|]. apply (count_occ_In pair_eq_dec). lia.
  - destruct (IH H) as (o' & evs' & subs' & Hi & Hp); exists o', evs', subs'; split; [right|]; assumption.
Qed.

Lemma in_res_count k p tr : In (EHandoff k p) tr \/ (exists b, In (ETimeout k p b) tr) -> 1 <= total (ev_res k p) tr.
Proof.
  induction tr as [|e tr IH]; [intros [[]|[b []]]|]. rewrite total_cons. intros [[->|H]|[b [->|H]]].
  - cbn. unfold is_kp. destruct (callid_eq_dec k k); [|congruence]. destruct (pair_eq_dec p p); [lia|congruence].
  - specialize (IH (or_introl H)). lia.
  - cbn. unfold is_kp. destruct (callid_eq_dec k k); [|congruence]. destruct (pair_eq_dec p p); [lia|congruence].
  - specialize (IH (or_intror (ex_intro _ b H))). lia.
Qed.

Lemma pub_ps_sub sl evs subs p : In p (pub_ps sl evs subs) -> In (p_sub p) subs.
Proof. unfold pub_ps. destruct sl; [apply pairs_slice_sub|apply pairs_one_sub]. Qed.

Lemma resolved_was_subscribed timeout cb defbuf progs s k p :
  let c := run (init timeout cb defbuf progs) s in
  In (EHandoff k p) (c_trace c) \/ (exists b, In (ETimeout k p b) (c_trace c)) ->
  exists o evs subs, In (ERLock k o evs subs) (c_trace c) /\ In p (pub_ps (fst (k_var k)) evs subs) /\ In (p_sub p) subs.
Proof.
  intros c H. apply in_res_count in H.
  destruct (conservation timeout cb defbuf progs s k p) as (_ & _ & _ & L & _). fold c in L.
  destruct (exp_pos k p (c_trace c)) as (o & evs & subs & Hi & Hp); [unfold res_count, exp_count in *; lia|].
  exists o, evs, subs. repeat split; auto. eapply pub_ps_sub; eauto.
Qed.
(* ------------------------------------------------------------------ *)
(* Sender goroutines belong to asynchronous calls                       *)
(* ------------------------------------------------------------------ *)
Definition go_ok (q : pc) : Prop :=
  match q with
  | PGoSend k _ _ _ wg | PGoCb k _ wg =>
      snd (k_var k) <> Sync /\ (wg = true <-> snd (k_var k) = Wait)
  | PGoDone k _ | PWait k => snd (k_var k) = Wait
  | _ => True
  end.
Definition go_inv (c : config) : Prop :=
  forall t th, nth_error (c_threads c) t = Some th -> go_ok (th_pc th).

Lemma go_ok_deliver thr ci v : recv_target thr = Some ci -> go_ok (th_pc (deliver thr v)) /\ go_ok (th_pc (deliver_closed thr)).
Proof.
  intro H. destruct (recv_target_pc _ _ H) as [E|[acc E]]; unfold deliver, deliver_closed; rewrite E.
  - destruct (th_prog thr) as [|[] ?]; cbn; rewrite ?E; cbn; auto.
  - cbn; auto.
Qed.

Lemma go_inv_step c t th c' :
  c_panic c = None -> nth_error (c_threads c) t = Some th -> trans c t th c' -> go_inv c -> go_inv c'.
Proof.
  intros Hp Ht T GI. pose proof (GI t th Ht) as Hold.
  destruct T; try match goal with S : send_trans _ _ _ _ _ _ _ _ _ _ |- _ => inv_send S end;
    try exact GI; unfold go_inv; norm;
    try match goal with Hpc : th_pc th = _ |- _ => rewrite Hpc in Hold; cbn [go_ok] in Hold end.
  all: intros xt xth Hxt; lookup Hxt; try (solve [eauto]).
  all: cbn [th_pc go_ok]; unfold pub_pc, after_send;
       try match goal with |- context [match ?w with _ => _ end] => destruct w eqn:? end;
       try match goal with |- context [if ?b then _ else _] => destruct b eqn:? end;
       cbn [go_ok]; auto;
       try (eapply go_ok_deliver; eassumption);
       try (match goal with Hr : recv_target _ = Some _ |- _ => apply (go_ok_deliver _ _ 0%Z Hr) end).
  all: try (destruct Hold as [Hs Hw]; try (split; auto; fail); try (apply Hw; reflexivity); fail).
  all: try (split; [congruence|split; intro; congruence]).
Qed.

Lemma go_inv_run timeout cb defbuf progs s : go_inv (run (init timeout cb defbuf progs) s).
Proof.
  apply run_lift; [exact go_inv_step|]. intros t th Ht. apply init_threads_pc in Ht as [E _]. rewrite E. exact I.
Qed.
(* ------------------------------------------------------------------ *)
(* PubWait/PubSliceWait/PubSync/PubSliceSync return after every pair    *)
(* ------------------------------------------------------------------ *)

Lemma all_done_at_return c t th k :
  cons_inv c -> fresh_inv c -> wg_inv c -> go_inv c ->
  nth_error (c_threads c) t = Some th ->
  ((exists o, th_pc th = PLoop k o [] /\ snd (k_var k) = Sync) \/
   (th_pc th = PWait k /\ snd (k_var k) = Wait /\ c_wg c (k_tid k) (k_n k) = 0)) ->
  forall p, exp_count k p c = done_count k p c.
Proof.
  intros (_ & C2) (_ & _ & _ & F4) (G1 & _) GI Ht Hret p.
  specialize (C2 k p). rewrite total_all_zero in C2; [lia|].
  intros x Hx. apply In_nth_error in Hx as (i & Hi).
  assert (Hpub : pub_pc_of k (th_pc th)) by (destruct Hret as [(o & E & _)|(E & _)]; rewrite E; reflexivity).
  destruct (F4 t th k Ht Hpub) as [Hkt Hkn].
  assert (Hself : i = t -> obl_done k p (th_pc x) = 0).
  { intros ->. rewrite Ht in Hi. injection Hi as <-.
    destruct Hret as [(o & E & _)|(E & _)]; rewrite E; cbn; unfold cnt; destruct (callid_eq_dec k k); reflexivity. }
  pose proof (GI i x Hi) as Hgo.
  destruct (Nat.eq_dec i t) as [Eit|Nit]; [auto|].
  destruct (th_pc x) eqn:Epc; cbn [obl_done]; auto; unfold cnt, is_kp.
  - destruct (callid_eq_dec k0 k) as [->|]; auto. exfalso. destruct (F4 i x k Hi); [rewrite Epc; reflexivity|congruence].
  - destruct (callid_eq_dec k0 k) as [->|]; auto. exfalso. destruct (F4 i x k Hi); [rewrite Epc; reflexivity|congruence].
  - destruct (callid_eq_dec k0 k) as [->|]; auto. exfalso. destruct (F4 i x k Hi); [rewrite Epc; reflexivity|congruence].
  - (* PGoSend *)
    destruct (callid_eq_dec k0 k) as [->|]; auto. destruct (pair_eq_dec p0 p); auto. exfalso.
    cbn [go_ok] in Hgo. destruct Hgo as [Hns Hw].
    destruct Hret as [(o' & _ & Hs)|(_ & Hwk & Hz)]; [congruence|].
    specialize (G1 (k_tid k) (k_n k)). pose proof (total_ge (owed (k_tid k) (k_n k)) _ _ _ Hi) as Hge.
    rewrite (owed_pc_eq _ _ x _ Epc) in Hge. rewrite (proj2 Hw Hwk) in Hge. cbn [owed_pc] in Hge.
    rewrite wg_key_eqb_refl in Hge. lia.
  - (* PGoCb *)
    destruct (callid_eq_dec k0 k) as [->|]; auto. destruct (pair_eq_dec p0 p); auto. exfalso.
    cbn [go_ok] in Hgo. destruct Hgo as [Hns Hw].
    destruct Hret as [(o' & _ & Hs)|(_ & Hwk & Hz)]; [congruence|].
    specialize (G1 (k_tid k) (k_n k)). pose proof (total_ge (owed (k_tid k) (k_n k)) _ _ _ Hi) as Hge.
    rewrite (owed_pc_eq _ _ x _ Epc) in Hge. rewrite (proj2 Hw Hwk) in Hge. cbn [owed_pc] in Hge.
    rewrite wg_key_eqb_refl in Hge. lia.
Qed.

(* a returned Wait/Sync publish call had finished all its pairs BEFORE it returned *)
Definition ret_ok (tr : list event) : Prop :=
  forall later k earlier, tr = later ++ EPubRet k :: earlier -> snd (k_var k) <> Async ->
    forall p, total (ev_exp k p) earlier = total (ev_done k p) earlier.

Lemma ret_ok_cons_other e tr : (forall k, e <> EPubRet k) -> ret_ok tr -> ret_ok (e :: tr).
Proof.
  intros Hn H later k earlier E Hk p. destruct later as [|e' later]; cbn in E; injection E as -> E.
  - exfalso. eapply Hn; reflexivity.
  - eapply H; eauto.
Qed.
Lemma ret_ok_cons_ret k tr :
  (snd (k_var k) <> Async -> forall p, total (ev_exp k p) tr = total (ev_done k p) tr) ->
  ret_ok tr -> ret_ok (EPubRet k :: tr).
Proof.
  intros Hd H later k' earlier E Hk p. destruct later as [|e' later]; cbn in E; injection E as E1 E2.
  - subst. apply Hd; auto.
  - subst. eapply H; eauto.
Qed.

Lemma ret_ok_step c t th c' :
  c_panic c = None -> nth_error (c_threads c) t = Some th -> trans c t th c' ->
  cons_inv c -> fresh_inv c -> wg_inv c -> go_inv c -> ret_ok (c_trace c) -> ret_ok (c_trace c').
Proof.
  intros Hp Ht T CI FI WI GI R.
  destruct T; try match goal with S : send_trans _ _ _ _ _ _ _ _ _ _ |- _ => inv_send S end; norm; auto.
  all: repeat (apply ret_ok_cons_other; [intros ? ?; discriminate|]); auto.
  - (* LoopEndRet *)
    apply ret_ok_cons_ret; auto. intros Hk p.
    assert (Hs : snd (k_var k) = Sync) by (destruct (snd (k_var k)); congruence).
    apply (all_done_at_return c t th k CI FI WI GI Ht). left. eauto.
  - (* WaitRet *)
    apply ret_ok_cons_ret; auto. intros Hk p.
    apply (all_done_at_return c t th k CI FI WI GI Ht). right. split; [assumption|]. split; [|assumption].
    pose proof (GI t th Ht) as G. rewrite H in G. exact G.
Qed.

Lemma ret_ok_run timeout cb defbuf progs s : ret_ok (c_trace (run (init timeout cb defbuf progs) s)).
Proof.
  induction s as [|[t ch] s IH] using rev_ind.
  - intros later k earlier E. destruct later; discriminate.
  - rewrite run_app. cbn [run]. unfold step_or_stay. cbn [fst snd].
    destruct (step (run (init timeout cb defbuf progs) s) t ch) as [c'|] eqn:E; [|auto].
    apply step_trans in E as (Hp & th & Ht & T). eapply ret_ok_step; eauto.
    + apply cons_inv_run. + apply fresh_inv_run. + apply wg_inv_run. + apply go_inv_run.
Qed.

(* Wait and Sync variants return only after every (event, subscriber) pair
   of the call has finished: at the point of the trace where the call's return
   is logged, every pair that the call set out to deliver at its read-lock
   step has its send() returned (hence was handed off or timed out exactly once,
   by [conservation]). *)
Lemma wait_returns_after timeout cb defbuf progs s later k earlier :
  c_trace (run (init timeout cb defbuf progs) s) = later ++ EPubRet k :: earlier ->
  snd (k_var k) <> Async ->
  forall p, total (ev_exp k p) earlier = total (ev_done k p) earlier.
Proof. intros E Hk p. eapply ret_ok_run; eauto. Qed.
(* channels are closed only by the close steps of Unsub/UnsubAll *)
Definition closed_logged (c : config) : Prop :=
  forall ci, is_closed (c_chans c) ci -> exists t o, In (EClose t o ci) (c_trace c).

Lemma closed_logged_step c t th c' :
  c_panic c = None -> nth_error (c_threads c) t = Some th -> trans c t th c' -> closed_logged c -> closed_logged c'.
Proof.
  intros Hp Ht T CL.
  destruct T; try match goal with S : send_trans _ _ _ _ _ _ _ _ _ _ |- _ => inv_send S end;
    try exact CL; unfold closed_logged; norm; intros xci (xchn & Hx & Hc).
  all: try (destruct (CL xci) as (xt & xo & Hi); [exists xchn; auto|]; exists xt, xo; cbn [In]; auto; fail).
  all: try (lookup Hx; cbn [ch_closed] in Hc;
            first [ discriminate
                  | destruct (CL xci) as (xt & xo & Hi); [eexists; split; eauto|]; exists xt, xo; cbn [In]; auto
                  | eexists; eexists; left; reflexivity ]; fail).
  lookup Hx; cbn [ch_closed] in Hc.
  - destruct (CL ci) as (xt & xo & Hi); [exists chn; auto|]. exists xt, xo. right; auto.
  - destruct (CL xci) as (xt & xo & Hi); [exists xchn; auto|]. exists xt, xo. right; auto.
Qed.

Lemma closed_only_by_unsub timeout cb defbuf progs s ci :
  is_closed (c_chans (run (init timeout cb defbuf progs) s)) ci ->
  exists t o, In (EClose t o ci) (c_trace (run (init timeout cb defbuf progs) s)).
Proof.
  revert ci. change (closed_logged (run (init timeout cb defbuf progs) s)).
  apply run_lift; [exact closed_logged_step|]. intros ci (chn & H & _). destruct ci; discriminate.
Qed.
(* ------------------------------------------------------------------ *)
(* OnPubTimeout is called exactly once per timeout taken with it set    *)
(* ------------------------------------------------------------------ *)
Definition obl_cb (k : callid) (p : pair) (q : pc) : nat :=
  match q with PSyncCb k' _ p' _ | PGoCb k' p' _ => is_kp k' p' k p | _ => 0 end.
Definition ev_tcb (k : callid) (p : pair) (e : event) : nat :=
  match e with ETimeout k' p' true => is_kp k' p' k p | _ => 0 end.
Definition ev_cb (k : callid) (p : pair) (e : event) : nat :=
  match e with ECallback k' p' => is_kp k' p' k p | _ => 0 end.
Definition ev_timeout (k : callid) (p : pair) (e : event) : nat :=
  match e with ETimeout k' p' _ => is_kp k' p' k p | _ => 0 end.

Definition cb_inv (c : config) : Prop :=
  forall k p, total (fun th => obl_cb k p (th_pc th)) (c_threads c) + total (ev_cb k p) (c_trace c)
              = total (ev_tcb k p) (c_trace c).

Lemma recv_obl_cb thr ci v k p : recv_target thr = Some ci ->
  obl_cb k p (th_pc thr) = 0 /\ obl_cb k p (th_pc (deliver thr v)) = 0 /\ obl_cb k p (th_pc (deliver_closed thr)) = 0.
Proof.
  intro H. destruct (recv_target_pc _ _ H) as [E|[acc E]]; unfold deliver, deliver_closed; rewrite E; cbn.
  - destruct (th_prog thr) as [|[] ?]; cbn; rewrite ?E; cbn; repeat split; auto.
  - repeat split; auto.
Qed.
Lemma starts_obl_cb th cl rest k p : starts th cl rest -> obl_cb k p (th_pc th) = 0.
Proof. intros [[E _]|(l & E & _)]; rewrite E; auto. Qed.

Ltac cb_eval E :=
  repeat match type of E with
  | context [obl_cb ?k ?p (th_pc (deliver ?th ?v))] =>
      match goal with Hr : recv_target th = Some ?ci |- _ => rewrite (proj1 (proj2 (recv_obl_cb th ci v k p Hr))) in E end
  | context [obl_cb ?k ?p (th_pc (deliver_closed ?th))] =>
      match goal with Hr : recv_target th = Some ?ci |- _ => rewrite (proj2 (proj2 (recv_obl_cb th ci 0%Z k p Hr))) in E end
  | context [th_pc ?th] =>
      match goal with
      | Hpc : th_pc th = _ |- _ => rewrite Hpc in E
      | Hs : starts th _ _ |- _ =>
          repeat match type of E with
          | context [obl_cb ?k ?p (th_pc th)] => rewrite (starts_obl_cb th _ _ k p Hs) in E
          end
      | Hr : recv_target th = Some _ |- _ =>
          repeat match type of E with
          | context [obl_cb ?k ?p (th_pc th)] => rewrite (proj1 (recv_obl_cb th _ 0%Z k p Hr)) in E
          end
      end
  end;
  cbn [th_pc obl_cb] in E.

Lemma cb_inv_step c t th c' :
  c_panic c = None -> nth_error (c_threads c) t = Some th -> trans c t th c' -> cb_inv c -> cb_inv c'.
Proof.
  intros Hp Ht T C1.
  assert (Lt : t < length (c_threads c)) by (eapply nth_error_some_lt; eauto).
  destruct T; try match goal with S : send_trans _ _ _ _ _ _ _ _ _ _ |- _ => inv_send S end;
    unfold cb_inv in *; norm.
  all: try assumption.
  all: intros xk xp; specialize (C1 xk xp).
  all: try (first
            [ match goal with |- context [total ?f (upd ?t ?th' (upd ?r ?thr' ?l))] =>
                assert (Nr : t <> r) by
                  (intros <-; match goal with Hr : nth_error _ t = Some ?thr |- _ => rewrite Ht in Hr; injection Hr as <- end;
                   match goal with Hrt : recv_target ?x = Some _, Hpc : th_pc ?x = _ |- _ => unfold recv_target in Hrt; rewrite Hpc in Hrt; discriminate end);
                match goal with Hr : nth_error _ r = Some ?thr |- _ => pose proof (total_upd2 f l t r th thr th' thr' Nr Ht Hr) as E end
              end
            | match goal with |- context [total ?f (upd ?t ?th' ?l ++ [?new])] =>
                rewrite (total_app f); pose proof (total_upd f l t th th' Ht) as E
              end
            | match goal with |- context [total ?f (upd ?t ?th' ?l)] => pose proof (total_upd f l t th th' Ht) as E end ];
            cbv beta in E; cb_eval E; rewrite ?total_cons; cbn [ev_cb ev_tcb th_pc obl_cb];
            unfold pub_pc, after_send, is_kp in *; cbn [k_var fst snd] in *;
            repeat match goal with
            | |- context [match ?w with Async => _ | Wait => _ | Sync => _ end] => destruct w eqn:?
            | _ : context [match ?w with Async => _ | Wait => _ | Sync => _ end] |- _ => destruct w eqn:?
            end; cbn [obl_cb] in *; unfold is_kp in *;
            repeat match goal with
            | _ : context [if ?b then _ else _] |- _ => destruct b
            | |- context [if ?b then _ else _] => destruct b
            end; cbn [obl_cb] in *;
            solve [congruence | lia]).
Qed.

Lemma cb_inv_run timeout cb defbuf progs s : cb_inv (run (init timeout cb defbuf progs) s).
Proof.
  apply run_lift; [exact cb_inv_step|]. intros k p. unfold init; cbn [c_trace c_threads].
  rewrite total_all_zero; [reflexivity|]. intros th Hin. apply in_map_iff in Hin as (pr & <- & _). reflexivity.
Qed.

Lemma total_add {A} (f g : A -> nat) l : total (fun x => f x + g x) l = total f l + total g l.
Proof. unfold total. induction l as [|x l IH]; cbn; [reflexivity|]. rewrite IH. lia. Qed.
Lemma total_ext {A} (f g : A -> nat) l : (forall x, f x = g x) -> total f l = total g l.
Proof. intro H. unfold total. induction l as [|x l IH]; cbn; [reflexivity|]. rewrite IH, H. reflexivity. Qed.

Lemma obl_cb_le_done k p q : obl_cb k p q <= obl_done k p q.
Proof. destruct q; cbn; lia. Qed.

(* Each pair ends in exactly one of a delivery or a timeout, and a timeout
   taken with OnPubTimeout set is followed by exactly one OnPubTimeout call:
   once send() has returned for the pair (k,p), either it was handed off once
   (no timeout, no callback), or it timed out once (no hand-off) and the
   callback was called as many times (0 or 1) as the timeout was taken with
   the callback set. At all times callbacks <= such timeouts <= 1. *)
Lemma delivery_or_timeout timeout cb defbuf progs s k p :
  let tr := c_trace (run (init timeout cb defbuf progs) s) in
  total (ev_handoff k p) tr + total (ev_timeout k p) tr <= 1 /\
  total (ev_cb k p) tr <= total (ev_tcb k p) tr /\ total (ev_tcb k p) tr <= total (ev_timeout k p) tr /\
  (1 <= total (ev_done k p) tr ->
     total (ev_handoff k p) tr + total (ev_timeout k p) tr = 1 /\ total (ev_cb k p) tr = total (ev_tcb k p) tr).
Proof.
  intro tr. pose proof (conservation timeout cb defbuf progs s k p) as (R1 & D1 & RD & _).
  pose proof (cb_inv_run timeout cb defbuf progs s k p) as CB. fold tr in CB.
  destruct (cons_inv_run timeout cb defbuf progs s) as (_ & C2). specialize (C2 k p).
  pose proof (exp_count_le_1 timeout cb defbuf progs s k p) as E1.
  unfold res_count, done_count, exp_count in *. fold tr in R1, D1, RD, C2, E1.
  assert (Hsplit : total (ev_res k p) tr = total (ev_handoff k p) tr + total (ev_timeout k p) tr).
  { rewrite <- total_add. apply total_ext. intros []; cbn; lia. }
  assert (Htcb : total (ev_tcb k p) tr <= total (ev_timeout k p) tr).
  { apply total_le. intros []; cbn; try lia. destruct cb0; lia. }
  pose proof (total_le (fun th => obl_cb k p (th_pc th)) (fun th => obl_done k p (th_pc th))
                       (c_threads (run (init timeout cb defbuf progs) s)) (fun th => obl_cb_le_done k p (th_pc th))) as L.
  repeat split; try lia.
Qed.
(* ------------------------------------------------------------------ *)
(* Timeouts happen only with a positive PubTimeoutAfter                 *)
(* ------------------------------------------------------------------ *)
Definition ocfg (c : config) (o : oid) : option (Z * bool) :=
  option_map (fun ob => (o_timeout ob, o_cb ob)) (nth_error (c_objs c) o).

Definition pub_on (q : pc) : option (callid * oid) :=
  match q with PAdd k o _ _ | PLoop k o _ | PSyncCb k o _ _ => Some (k, o) | _ => None end.

Definition cfg_inv (c : config) : Prop :=
  (forall t th k p tm cb wg, nth_error (c_threads c) t = Some th -> th_pc th = PGoSend k p tm cb wg ->
     exists o evs subs, In (ERLock k o evs subs) (c_trace c) /\ ocfg c o = Some (tm, cb)) /\
  (forall t th k o, nth_error (c_threads c) t = Some th -> pub_on (th_pc th) = Some (k, o) ->
     exists evs subs, In (ERLock k o evs subs) (c_trace c)) /\
  (forall k p b, In (ETimeout k p b) (c_trace c) ->
     exists o evs subs tm, In (ERLock k o evs subs) (c_trace c) /\ ocfg c o = Some (tm, b) /\ (0 < tm)%Z).

Lemma ocfg_step c t th c' o x : trans c t th c' -> ocfg c o = Some x -> ocfg c' o = Some x.
Proof.
  intros T H. unfold ocfg in *.
  destruct (nth_error (c_objs c) o) as [ob0|] eqn:Ho; [|discriminate]. cbn in H.
  assert (Lo : o < length (c_objs c)) by (eapply nth_error_some_lt; eauto).
  destruct T; try match goal with S : send_trans _ _ _ _ _ _ _ _ _ _ |- _ => inv_send S end; norm;
    try (rewrite Ho; exact H).
  all: try (rewrite nth_error_app1 by (rewrite upd_length; exact Lo)).
  all: match goal with |- context [nth_error (upd ?o' _ _) ?o2] =>
         destruct (Nat.eq_dec o' o2) as [E|N];
         [subst; rewrite nth_error_upd_eq by exact Lo;
          match goal with Ha : nth_error ?l ?x = Some ?a, Hb : nth_error ?l ?x = Some ?b |- _ =>
            tryif constr_eq a b then fail else (rewrite Ha in Hb; injection Hb as <-) end; exact H
         |rewrite nth_error_upd_neq by exact N; rewrite Ho; exact H]
       end.
Qed.

Lemma pub_on_recv thr ci v : recv_target thr = Some ci ->
  pub_on (th_pc (deliver thr v)) = None /\ pub_on (th_pc (deliver_closed thr)) = None.
Proof.
  intro H. destruct (recv_target_pc _ _ H) as [E|[acc E]]; unfold deliver, deliver_closed; rewrite E.
  - destruct (th_prog thr) as [|[] ?]; cbn; rewrite ?E; cbn; auto.
  - cbn; auto.
Qed.
Lemma gosend_recv thr ci v k p tm cb wg : recv_target thr = Some ci ->
  th_pc (deliver thr v) <> PGoSend k p tm cb wg /\ th_pc (deliver_closed thr) <> PGoSend k p tm cb wg.
Proof.
  intro H. destruct (recv_target_pc _ _ H) as [E|[acc E]]; unfold deliver, deliver_closed; rewrite E.
  - destruct (th_prog thr) as [|[] ?]; cbn; rewrite ?E; cbn; split; discriminate.
  - cbn; split; discriminate.
Qed.

Lemma cfg_inv_step c t th c' :
  c_panic c = None -> nth_error (c_threads c) t = Some th -> trans c t th c' -> cfg_inv c -> cfg_inv c'.
Proof.
  intros Hp Ht T (E1 & E2 & E3).
  pose proof (fun o x => ocfg_step c t th c' o x T) as OS.
  assert (Lt : t < length (c_threads c)) by (eapply nth_error_some_lt; eauto).
  assert (E1' : forall t th k p tm cb wg, nth_error (c_threads c) t = Some th -> th_pc th = PGoSend k p tm cb wg ->
     exists o evs subs, In (ERLock k o evs subs) (c_trace c) /\ ocfg c' o = Some (tm, cb)).
  { intros. destruct (E1 _ _ _ _ _ _ _ H H0) as (o & evs & subs & Hi & Hc). eauto 8. }
  assert (E3' : forall k p b, In (ETimeout k p b) (c_trace c) ->
     exists o evs subs tm, In (ERLock k o evs subs) (c_trace c) /\ ocfg c' o = Some (tm, b) /\ (0 < tm)%Z).
  { intros. destruct (E3 _ _ _ H) as (o & evs & subs & tm & Hi & Hc & Hz). eauto 10. }
  clear E1 E3. unfold cfg_inv. remember (ocfg c') as oc eqn:Eoc.
  assert (OC : forall o ob, nth_error (c_objs c) o = Some ob -> oc o = Some (o_timeout ob, o_cb ob)).
  { intros o ob Ho. apply OS. unfold ocfg. rewrite Ho. reflexivity. }
  clear OS.
  destruct T; try match goal with S : send_trans _ _ _ _ _ _ _ _ _ _ |- _ => inv_send S end;
    clear Eoc; norm; (split; [|split]).
  (* E1 *)
  all: try (intros xt xth xk xp xtm xcb xwg Hxt Hxh; lookup Hxt;
            cbn [th_pc] in *; unfold pub_pc, after_send in *;
            try (match type of Hxh with context [match ?w with _ => _ end] => destruct w end);
            try (match type of Hxh with context [if ?b then _ else _] => destruct b end);
            try discriminate;
            try (match goal with Hr : recv_target _ = Some _ |- _ =>
                   first [ destruct (proj1 (gosend_recv _ _ _ _ _ _ _ _ Hr) Hxh) | destruct (proj2 (gosend_recv _ _ 0%Z _ _ _ _ _ Hr) Hxh) ] end);
            destruct (E1' _ _ _ _ _ _ _ Hxt Hxh) as (xo & xevs & xsubs & Hi & Hc);
            exists xo, xevs, xsubs; split; [cbn [In]; auto 6|exact Hc]; fail).
  (* E3: no new timeout event *)
  all: try (intros xk xp xb Hxi; cbn [In] in Hxi; repeat (destruct Hxi as [Hxi|Hxi]; [discriminate|]);
            destruct (E3' _ _ _ Hxi) as (xo & xevs & xsubs & xtm & Hi & Hc & Hz);
            exists xo, xevs, xsubs, xtm; split; [cbn [In]; auto 6|auto]; fail).
  (* E2 *)
  all: try (intros xt xth xk xo Hxt Hxh; lookup Hxt;
            cbn [th_pc pub_on] in *; unfold after_send in *;
            try (match type of Hxh with context [if ?b then _ else _] => destruct b end);
            cbn [pub_on] in *; try discriminate;
            try (match goal with Hr : recv_target _ = Some _ |- _ =>
                   first [ rewrite (proj1 (pub_on_recv _ _ _ Hr)) in Hxh | rewrite (proj2 (pub_on_recv _ _ 0%Z Hr)) in Hxh ]; discriminate end);
            first [ destruct (E2 _ _ _ _ Hxt Hxh) as (xevs & xsubs & Hi)
                  | injection Hxh as <- <-;
                    match goal with Hpc : th_pc ?x = _ |- _ =>
                      destruct (E2 t x _ _ Ht ltac:(rewrite Hpc; reflexivity)) as (xevs & xsubs & Hi) end ];
            exists xevs, xsubs; cbn [In]; auto 6; fail).
  - (* PubStart, E2 *)
    intros xt xth xk xo Hxt Hxh; lookup Hxt.
    + cbn [th_pc] in Hxh. unfold pub_pc in Hxh. destruct w; cbn [pub_on] in Hxh; injection Hxh as <- <-;
        exists evs, (o_subs ob); left; reflexivity.
    + destruct (E2 _ _ _ _ Hxt Hxh) as (xevs & xsubs & Hi). exists xevs, xsubs. right; exact Hi.
  - (* sync timeout with callback *)
    intros xk xp xb [E|Hxi].
    + injection E as <- <- <-. destruct (E2 t th k o Ht ltac:(rewrite H; reflexivity)) as (xevs & xsubs & Hi).
      exists o, xevs, xsubs, (o_timeout ob). split; [right; exact Hi|]. split; [|assumption].
      rewrite (OC _ _ H0). rewrite Hcb. reflexivity.
    + destruct (E3' _ _ _ Hxi) as (xo & xevs & xsubs & xtm & Hi & Hc & Hz). exists xo, xevs, xsubs, xtm. split; [right; exact Hi|auto].
  - (* sync timeout without callback *)
    intros xk xp xb [E|[E|Hxi]]; [discriminate| |].
    + injection E as <- <- <-. destruct (E2 t th k o Ht ltac:(rewrite H; reflexivity)) as (xevs & xsubs & Hi).
      exists o, xevs, xsubs, (o_timeout ob). split; [right; right; exact Hi|]. split; [|assumption].
      rewrite (OC _ _ H0). rewrite Hcb. reflexivity.
    + destruct (E3' _ _ _ Hxi) as (xo & xevs & xsubs & xtm & Hi & Hc & Hz). exists xo, xevs, xsubs, xtm. split; [right; right; exact Hi|auto].
  - (* Spawn, E1 *)
    intros xt xth xk xp xtm xcb xwg Hxt Hxh; lookup Hxt.
    + cbn [th_pc] in Hxh. discriminate.
    + destruct (E1' _ _ _ _ _ _ _ Hxt Hxh) as (xo & xevs & xsubs & Hi & Hc). eauto 8.
    + cbn [th_pc] in Hxh. injection Hxh as <- <- <- <- _.
      destruct (E2 t th k o Ht ltac:(rewrite H; reflexivity)) as (xevs & xsubs & Hi).
      exists o, xevs, xsubs. split; [exact Hi|]. apply OC; assumption.
  - (* asynchronous timeout with callback *)
    intros xk xp xb [E|Hxi].
    + injection E as <- <- <-. destruct (E1' _ _ _ _ _ _ _ Ht H) as (xo & xevs & xsubs & Hi & Hc).
      exists xo, xevs, xsubs, timeout. split; [right; exact Hi|]. split; [|assumption]. rewrite Hc, Hcb. reflexivity.
    + destruct (E3' _ _ _ Hxi) as (xo & xevs & xsubs & xtm & Hi & Hc & Hz). exists xo, xevs, xsubs, xtm. split; [right; exact Hi|auto].
  - (* asynchronous timeout without callback *)
    intros xk xp xb [E|[E|Hxi]]; [discriminate| |].
    + injection E as <- <- <-. destruct (E1' _ _ _ _ _ _ _ Ht H) as (xo & xevs & xsubs & Hi & Hc).
      exists xo, xevs, xsubs, timeout. split; [right; right; exact Hi|]. split; [|assumption]. rewrite Hc, Hcb. reflexivity.
    + destruct (E3' _ _ _ Hxi) as (xo & xevs & xsubs & xtm & Hi & Hc & Hz). exists xo, xevs, xsubs, xtm. split; [right; right; exact Hi|auto].
Qed.

Lemma cfg_inv_run timeout cb defbuf progs s : cfg_inv (run (init timeout cb defbuf progs) s).
Proof.
  apply run_lift; [exact cfg_inv_step|]. unfold cfg_inv. repeat split.
  - intros t th k p tm cb0 wg Ht E. apply init_threads_pc in Ht as [E' _]. congruence.
  - intros t th k o Ht E. apply init_threads_pc in Ht as [E' _]. rewrite E' in E. discriminate.
  - intros k p b [].
Qed.

Lemma total_pos_in {A} (f : A -> nat) l : 1 <= total f l -> exists x, In x l /\ 1 <= f x.
Proof.
  unfold total. induction l as [|x l IH]; cbn; [lia|]. intro H.
  destruct (f x) eqn:E; [destruct (IH H) as (y & Hy & Hf); exists y; auto|]. exists x. split; auto. lia.
Qed.

(* A timeout is taken only by a call made on a PubSub with a positive
   PubTimeoutAfter, and its flag says whether that PubSub has an OnPubTimeout.
   Hence with PubTimeoutAfter <= 0 every finished pair was handed off, and with
   OnPubTimeout set every timed-out finished pair got exactly one callback. *)
Lemma timeout_needs_config timeout cb defbuf progs s k p b :
  let c := run (init timeout cb defbuf progs) s in
  In (ETimeout k p b) (c_trace c) ->
  exists o evs subs tm, In (ERLock k o evs subs) (c_trace c) /\ ocfg c o = Some (tm, b) /\ (0 < tm)%Z.
Proof. intros c H. destruct (cfg_inv_run timeout cb defbuf progs s) as (_ & _ & E3). eauto. Qed.

Lemma no_timeout_means_handoff timeout cb defbuf progs s k p :
  let c := run (init timeout cb defbuf progs) s in
  (forall o evs subs tm b, In (ERLock k o evs subs) (c_trace c) -> ocfg c o = Some (tm, b) -> (tm <= 0)%Z) ->
  1 <= total (ev_done k p) (c_trace c) -> total (ev_handoff k p) (c_trace c) = 1.
Proof.
  intros c Hcfg Hd. destruct (delivery_or_timeout timeout cb defbuf progs s k p) as (_ & _ & _ & Hfin).
  destruct (Hfin Hd) as [Hsum _]. fold c in Hsum.
  destruct (total (ev_timeout k p) (c_trace c)) eqn:Et; [lia|]. exfalso.
  destruct (total_pos_in (ev_timeout k p) (c_trace c)) as (e & He & Hf); [lia|].
  destruct e; cbn in Hf; try lia. unfold is_kp in Hf.
  destruct (callid_eq_dec k0 k) as [->|]; [|lia]. destruct (pair_eq_dec p0 p) as [->|]; [|lia].
  destruct (timeout_needs_config timeout cb defbuf progs s k p cb0 He) as (o & evs & subs & tm & Hi & Hc & Hz).
  specialize (Hcfg _ _ _ _ _ Hi Hc). lia.
Qed.
(* ------------------------------------------------------------------ *)
(* Sync variants resolve their pairs in publication order               *)
(* ------------------------------------------------------------------ *)
(* pairs of call k resolved (handed off or timed out), newest first *)
Fixpoint res_rev (k : callid) (tr : list event) : list pair :=
  match tr with
  | [] => []
  | EHandoff k' p :: older | ETimeout k' p _ :: older =>
      if callid_eq_dec k' k then p :: res_rev k older else res_rev k older
  | _ :: older => res_rev k older
  end.

Definition sync_at (q : pc) : option (callid * oid * list pair) :=
  match q with PLoop k o ps | PSyncCb k o _ ps => Some (k, o, ps) | _ => None end.

Definition so_inv (c : config) : Prop :=
  forall t th k o ps, nth_error (c_threads c) t = Some th -> sync_at (th_pc th) = Some (k, o, ps) ->
    snd (k_var k) = Sync ->
    exists evs subs, In (ERLock k o evs subs) (c_trace c) /\
                     rev (res_rev k (c_trace c)) ++ ps = pub_ps (fst (k_var k)) evs subs.

Lemma res_rev_nil k tr : (forall p, total (ev_res k p) tr = 0) -> res_rev k tr = [].
Proof.
  induction tr as [|e tr IH]; intro H; [reflexivity|].
  assert (H' : forall p, total (ev_res k p) tr = 0) by (intro p; specialize (H p); rewrite total_cons in H; lia).
  destruct e; cbn [res_rev]; auto.
  - destruct (callid_eq_dec k0 k) as [->|]; auto. exfalso. specialize (H p). rewrite total_cons in H. cbn in H.
    unfold is_kp in H. destruct (callid_eq_dec k k); [|congruence]. destruct (pair_eq_dec p p); [lia|congruence].
  - destruct (callid_eq_dec k0 k) as [->|]; auto. exfalso. specialize (H p). rewrite total_cons in H. cbn in H.
    unfold is_kp in H. destruct (callid_eq_dec k k); [|congruence]. destruct (pair_eq_dec p p); [lia|congruence].
Qed.

Lemma exp_zero k p tr : (forall o evs subs, ~ In (ERLock k o evs subs) tr) -> total (ev_exp k p) tr = 0.
Proof.
  intro H. apply total_all_zero. intros e He. destruct e; cbn; auto. unfold cnt.
  destruct (callid_eq_dec k0 k) as [->|]; auto. exfalso. eapply H; eauto.
Qed.

Lemma sync_at_recv thr ci v : recv_target thr = Some ci ->
  sync_at (th_pc (deliver thr v)) = None /\ sync_at (th_pc (deliver_closed thr)) = None.
Proof.
  intro H. destruct (recv_target_pc _ _ H) as [E|[acc E]]; unfold deliver, deliver_closed; rewrite E.
  - destruct (th_prog thr) as [|[] ?]; cbn; rewrite ?E; cbn; auto.
  - cbn; auto.
Qed.

(* the moving thread's resolution events concern a call other than the Sync call k of another thread *)
Lemma other_call c t th x xth k xk xo xps :
  fresh_inv c -> go_inv c -> nth_error (c_threads c) t = Some th -> nth_error (c_threads c) x = Some xth -> t <> x ->
  sync_at (th_pc xth) = Some (xk, xo, xps) -> snd (k_var xk) = Sync ->
  ((exists o ps, th_pc th = PLoop k o ps) \/ (exists p tm cb wg, th_pc th = PGoSend k p tm cb wg)) ->
  k <> xk.
Proof.
  intros (_ & _ & _ & F4) GI Ht Hx N Hs Hk Hpc ->.
  assert (Hx4 : k_tid xk = x).
  { destruct (th_pc xth) eqn:E; try discriminate; cbn in Hs; injection Hs as <- <- <-;
      apply (F4 x xth); auto; rewrite E; reflexivity. }
  destruct Hpc as [(o & ps & E)|(p & tm & cb & wg & E)].
  - destruct (F4 t th xk Ht); [rewrite E; reflexivity|]. congruence.
  - pose proof (GI t th Ht) as G. rewrite E in G. cbn in G. destruct G. congruence.
Qed.

Lemma so_inv_step c t th c' :
  c_panic c = None -> nth_error (c_threads c) t = Some th -> trans c t th c' ->
  cons_inv c -> fresh_inv c -> go_inv c -> wg_inv c -> so_inv c -> so_inv c'.
Proof.
  intros Hp Ht T CI FI GI WI SO.
  assert (Lt : t < length (c_threads c)) by (eapply nth_error_some_lt; eauto).
  destruct T; try match goal with S : send_trans _ _ _ _ _ _ _ _ _ _ |- _ => inv_send S end;
    try exact SO; unfold so_inv; norm.
  (* transitions that log no resolution event *)
  all: try (intros xt xth xk xo xps Hxt Hxs Hxk; lookup Hxt; cbn [th_pc sync_at] in *; unfold after_send in *;
            try (match type of Hxs with context [if ?b then _ else _] => destruct b end);
            cbn [sync_at] in *; try discriminate;
            try (match goal with Hr : recv_target _ = Some _ |- _ =>
                   first [ rewrite (proj1 (sync_at_recv _ _ _ Hr)) in Hxs | rewrite (proj2 (sync_at_recv _ _ 0%Z Hr)) in Hxs ]; discriminate end);
            first [ destruct (SO _ _ _ _ _ Hxt Hxs Hxk) as (xevs & xsubs & Hi & He)
                  | injection Hxs as <- <- <-;
                    match goal with Hpc : th_pc ?x = _ |- _ =>
                      destruct (SO t x _ _ _ Ht ltac:(rewrite Hpc; reflexivity) Hxk) as (xevs & xsubs & Hi & He) end ];
            exists xevs, xsubs; cbn [In res_rev]; split; [auto 6|exact He]; fail).
  (* the remaining transitions; first the sub-cases "another thread's Sync call" and "not a Sync position" *)
  all: intros xt xth xk xo xps Hxt Hxs Hxk; lookup Hxt; cbn [th_pc sync_at] in *; unfold after_send in *;
       try (match type of Hxs with context [if ?b then _ else _] => destruct b end);
       cbn [sync_at] in *; try discriminate;
       try (match goal with Hr : recv_target _ = Some _ |- _ =>
              first [ rewrite (proj1 (sync_at_recv _ _ _ Hr)) in Hxs | rewrite (proj2 (sync_at_recv _ _ 0%Z Hr)) in Hxs ]; discriminate end).
  all: try (destruct (SO _ _ _ _ _ Hxt Hxs Hxk) as (xevs & xsubs & Hi & He); exists xevs, xsubs; split; [cbn [In]; auto 6|];
            cbn [res_rev];
            try (match goal with |- context [callid_eq_dec ?k1 ?k2] =>
                   destruct (callid_eq_dec k1 k2) as [E|_];
                   [exfalso; eapply (other_call c t th xt xth k1 k2); eauto 10|] end);
            exact He).
  - (* PubStart *)
    unfold pub_pc in Hxs. destruct w; cbn [sync_at] in Hxs; try discriminate; injection Hxs as <- <- <-;
      cbn [k_var snd] in Hxk; try discriminate.
    exists evs, (o_subs ob). split; [left; reflexivity|]. cbn [res_rev k_var fst].
    rewrite res_rev_nil; [reflexivity|]. intro p.
    destruct CI as (C1 & _). specialize (C1 (CallId t (length (th_rets th)) (sl, Sync)) p).
    unfold res_count, exp_count in C1. rewrite exp_zero in C1; [lia|].
    intros o1 evs1 subs1 Hi. destruct FI as (F1 & _). specialize (F1 _ _ _ _ Hi).
    unfold call_state_ok in F1. cbn [k_tid k_n] in F1. rewrite Ht in F1. destruct F1 as [F|[_ F]]; [lia|].
    destruct H as [[E _]|(l & E & _)]; rewrite E in F; destruct F.
  - (* Add: a Wait call, not Sync *)
    injection Hxs as <- <- <-. destruct WI as (_ & G2 & _). destruct (G2 _ _ _ _ _ _ Ht H). congruence.
  - (* synchronous send into the buffer *)
    injection Hxs as <- <- <-. destruct (SO t th k o (p :: ps) Ht ltac:(rewrite H; reflexivity) Hxk) as (xevs & xsubs & Hi & He).
    exists xevs, xsubs. split; [right; right; exact Hi|]. cbn [res_rev]. destruct (callid_eq_dec k k); [|congruence].
    cbn [rev]. rewrite <- app_assoc. exact He.
  - (* synchronous rendezvous *)
    injection Hxs as <- <- <-. destruct (SO t th k o (p :: ps) Ht ltac:(rewrite H; reflexivity) Hxk) as (xevs & xsubs & Hi & He).
    exists xevs, xsubs. split; [right; right; right; exact Hi|]. cbn [res_rev]. destruct (callid_eq_dec k k); [|congruence].
    cbn [rev]. rewrite <- app_assoc. exact He.
  - (* synchronous timeout, callback pending *)
    injection Hxs as <- <- <-. destruct (SO t th k o (p :: ps) Ht ltac:(rewrite H; reflexivity) Hxk) as (xevs & xsubs & Hi & He).
    exists xevs, xsubs. split; [right; exact Hi|]. cbn [res_rev]. destruct (callid_eq_dec k k); [|congruence].
    cbn [rev]. rewrite <- app_assoc. exact He.
  - (* synchronous timeout, no callback *)
    injection Hxs as <- <- <-. destruct (SO t th k o (p :: ps) Ht ltac:(rewrite H; reflexivity) Hxk) as (xevs & xsubs & Hi & He).
    exists xevs, xsubs. split; [right; right; exact Hi|]. cbn [res_rev]. destruct (callid_eq_dec k k); [|congruence].
    cbn [rev]. rewrite <- app_assoc. exact He.
  - (* Spawn: not a Sync call *)
    injection Hxs as <- <- <-. congruence.
  - (* the callback of a synchronous timeout *)
    injection Hxs as <- <- <-. destruct (SO t th k o ps Ht ltac:(rewrite H; reflexivity) Hxk) as (xevs & xsubs & Hi & He).
    exists xevs, xsubs. split; [right; right; exact Hi|]. exact He.
Qed.

Lemma so_inv_run timeout cb defbuf progs s : so_inv (run (init timeout cb defbuf progs) s).
Proof.
  induction s as [|[t ch] s IH] using rev_ind.
  - intros t th k o ps Ht E. apply init_threads_pc in Ht as [E' _]. rewrite E' in E. discriminate.
  - rewrite run_app. cbn [run]. unfold step_or_stay. cbn [fst snd].
    destruct (step (run (init timeout cb defbuf progs) s) t ch) as [c'|] eqn:E; [|auto].
    apply step_trans in E as (Hp & th & Ht & T). eapply so_inv_step; eauto.
    + apply cons_inv_run. + apply fresh_inv_run. + apply go_inv_run. + apply wg_inv_run.
Qed.

(* When a PubSync/PubSliceSync call returns, the pairs it resolved (handed off,
   or timed out), in the order in which it resolved them, are exactly the pairs
   built at its read-lock step in publication order: for each event of the
   slice in order, every subscriber in subscription order. In particular each
   subscriber is handed its events in publication order. *)
Definition sync_ok (tr : list event) : Prop :=
  forall later k earlier, tr = later ++ EPubRet k :: earlier -> snd (k_var k) = Sync ->
    exists o evs subs, In (ERLock k o evs subs) earlier /\
                       rev (res_rev k earlier) = pub_ps (fst (k_var k)) evs subs.

Lemma sync_ok_cons_other e tr : (forall k, e <> EPubRet k) -> sync_ok tr -> sync_ok (e :: tr).
Proof.
  intros Hn H later k earlier E Hk. destruct later as [|e' later]; cbn in E; injection E as -> E.
  - exfalso. eapply Hn; reflexivity.
  - eapply H; eauto.
Qed.
Lemma sync_ok_cons_ret k tr :
  (snd (k_var k) = Sync -> exists o evs subs, In (ERLock k o evs subs) tr /\ rev (res_rev k tr) = pub_ps (fst (k_var k)) evs subs) ->
  sync_ok tr -> sync_ok (EPubRet k :: tr).
Proof.
  intros Hd H later k' earlier E Hk. destruct later as [|e' later]; cbn in E; injection E as E1 E2.
  - subst. apply Hd; auto.
  - subst. eapply H; eauto.
Qed.

Lemma sync_ok_step c t th c' :
  c_panic c = None -> nth_error (c_threads c) t = Some th -> trans c t th c' ->
  go_inv c -> so_inv c -> sync_ok (c_trace c) -> sync_ok (c_trace c').
Proof.
  intros Hp Ht T GI SO R.
  destruct T; try match goal with S : send_trans _ _ _ _ _ _ _ _ _ _ |- _ => inv_send S end; norm; auto.
  all: repeat (apply sync_ok_cons_other; [intros ? ?; discriminate|]); auto.
  - apply sync_ok_cons_ret; auto. intros Hk.
    destruct (SO t th k o [] Ht ltac:(rewrite H; reflexivity) Hk) as (evs & subs & Hi & He).
    rewrite app_nil_r in He. eauto.
  - apply sync_ok_cons_ret; auto. intros Hk. pose proof (GI t th Ht) as G. rewrite H in G. cbn in G. congruence.
Qed.

Lemma sync_order timeout cb defbuf progs s later k earlier :
  c_trace (run (init timeout cb defbuf progs) s) = later ++ EPubRet k :: earlier ->
  snd (k_var k) = Sync ->
  exists o evs subs, In (ERLock k o evs subs) earlier /\
                     rev (res_rev k earlier) = pub_ps (fst (k_var k)) evs subs.
Proof.
  revert later k earlier. change (sync_ok (c_trace (run (init timeout cb defbuf progs) s))).
  induction s as [|[t ch] s IH] using rev_ind.
  - intros later k earlier E. destruct later; discriminate.
  - rewrite run_app. cbn [run]. unfold step_or_stay. cbn [fst snd].
    destruct (step (run (init timeout cb defbuf progs) s) t ch) as [c'|] eqn:E; [|auto].
    apply step_trans in E as (Hp & th & Ht & T). eapply sync_ok_step; eauto.
    + apply go_inv_run. + apply so_inv_run.
Qed.
