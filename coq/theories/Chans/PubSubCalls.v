(* PROOFS, continued: what Sub / Unsub / UnsubAll / WithOnly do in EVERY
   schedule, stated on the ghost log (ELock / EUnlock / EClose, EViewLock /
   EViewRet), and the link between the log and the calls the threads make
   and return from. *)
From Typ Require Import Lib.Base Chans.PubSubModel Chans.PubSubProofs Chans.PubSubTrace.
Local Arguments skipn : simpl never.
Local Arguments firstn : simpl never.

(* ------------------------------------------------------------------ *)
(* Write sections                                                       *)
(* ------------------------------------------------------------------ *)

(* The write section open on PubSub o at the head of the log: who holds the
   lock, for its n-th call cl, o.subs when the lock was taken, and the channels
   closed on o since then (newest first). None: no write section is open. *)
Fixpoint osect (o : oid) (tr : list event) : option (tid * nat * call * list cid * list cid) :=
  match tr with
  | [] => None
  | EUnlock _ _ o' _ _ :: older => if o' =? o then None else osect o older
  | ELock t n o' cl subs :: older => if o' =? o then Some (t, n, cl, subs, []) else osect o older
  | EClose _ o' ci :: older =>
      if o' =? o then
        match osect o older with
        | Some (t, n, cl, subs, cls) => Some (t, n, cl, subs, ci :: cls)
        | None => None
        end
      else osect o older
  | _ :: older => osect o older
  end.

(* what the program counter of the lock holder says about the section *)
Definition ws_pc (q : pc) (o : oid) (cl : call) (subs0 cls cur : list cid) : Prop :=
  match q with
  | PSubU _ c => (cl = CSub o \/ exists size, cl = CSubBuf o size) /\ cur = subs0 ++ [c] /\ cls = [] /\ ~ In c subs0
  | PUnsubClose _ idx =>
      exists ci, cl = CUnsub o (Some ci) /\ cur = subs0 /\ nth_error subs0 idx = Some ci /\ cls = []
  | PUnsubU _ r =>
      exists ci, cl = CUnsub o (Some ci) /\
        ((r = RErr ErrAlreadyUnsubscribed /\ ~ In ci subs0 /\ cur = subs0 /\ cls = []) \/
         (r = RNil /\ In ci subs0 /\ cur = remove Nat.eq_dec ci subs0 /\ cls = [ci]))
  | PUnsubAllLoop _ rest => cl = CUnsubAll o /\ cur = subs0 /\ subs0 = rev cls ++ rest
  | _ => False
  end.

Definition ws_inv (c : config) : Prop :=
  (forall t th o ob, nth_error (c_threads c) t = Some th -> nth_error (c_objs c) o = Some ob ->
     holds_write (th_pc th) o ->
     exists cl subs0 cls, osect o (c_trace c) = Some (t, length (th_rets th), cl, subs0, cls) /\
                          ws_pc (th_pc th) o cl subs0 cls (o_subs ob)) /\
  (forall o t n cl subs0 cls, osect o (c_trace c) = Some (t, n, cl, subs0, cls) ->
     exists th, nth_error (c_threads c) t = Some th /\ holds_write (th_pc th) o).

Lemma holds_write_recv thr ci v o : recv_target thr = Some ci ->
  ~ holds_write (th_pc thr) o /\ ~ holds_write (th_pc (deliver thr v)) o /\ ~ holds_write (th_pc (deliver_closed thr)) o.
Proof.
  intro H. destruct (recv_target_pc _ _ H) as [E|[acc E]]; unfold deliver, deliver_closed; rewrite E.
  - destruct (th_prog thr) as [|[] ?]; cbn; rewrite ?E; cbn; auto.
  - cbn; auto.
Qed.

Ltac eqb_cases :=
  repeat match goal with
  | |- context [?a =? ?b] =>
      lazymatch type of a with nat => destruct (Nat.eqb_spec a b); try subst end
  | H : context [?a =? ?b] |- _ =>
      lazymatch type of a with nat => destruct (Nat.eqb_spec a b); try subst end
  end.

Lemma ws_inv_step c t th c' :
  c_panic c = None -> nth_error (c_threads c) t = Some th -> trans c t th c' ->
  lock_inv c -> wf_inv c -> ws_inv c -> ws_inv c'.
Proof.
  intros Hp Ht T LI (W1 & W2 & W3) (WA & WB).
  assert (Lt : t < length (c_threads c)) by (eapply nth_error_some_lt; eauto).
  destruct T; try match goal with S : send_trans _ _ _ _ _ _ _ _ _ _ |- _ => inv_send S end;
    unfold ws_inv; norm; prep; pcfacts.
  all: split.
  (* (a), transitions that log nothing about write sections *)
  all: try (intros xt xth xo xob Hxt Hxo Hxh; lookup Hxt; lookup Hxo;
            cbn [th_pc th_rets holds_write osect o_subs set_rd set_wr set_ww set_subs] in *; unfold pub_pc, after_send in *;
            try (match type of Hxh with context [match ?w with _ => _ end] => destruct w end);
            try (match type of Hxh with context [if ?b then _ else _] => destruct b end);
            cbn [holds_write] in *; try contradiction;
            try (match goal with Hr : recv_target _ = Some _ |- _ =>
                   first [ destruct (proj1 (proj2 (holds_write_recv _ _ _ _ Hr)) Hxh)
                         | destruct (proj2 (proj2 (holds_write_recv _ _ 0%Z _ Hr)) Hxh) ] end);
            lockfacts LI; try congruence;
            try (match goal with Hin : In _ ?l, Hnil : ?l = [] |- _ => rewrite Hnil in Hin; destruct Hin end);
            solve [eauto]; fail).
  (* (b), transitions that log nothing about write sections: the holder is another thread, untouched *)
  all: try (intros xo xt xn xcl xs0 xcls Hx; cbn [osect] in Hx;
            destruct (WB _ _ _ _ _ _ Hx) as (xth & Hxt & Hxh);
            destruct (Nat.eq_dec xt t) as [Ext|Nx];
            [ exfalso; subst xt; rewrite Ht in Hxt; injection Hxt as <-;
              first [ match goal with Hpc : th_pc ?x = _ |- _ => rewrite Hpc in Hxh; exact Hxh end
                    | match goal with Hs : starts ?x _ _ |- _ => destruct Hs as [[Hs _]|(? & Hs & _)]; rewrite Hs in Hxh; exact Hxh end
                    | match goal with Hr : recv_target ?x = Some _ |- _ => exact (proj1 (holds_write_recv _ _ 0%Z _ Hr) Hxh) end ]
            | exists xth; split; [|exact Hxh];
              first [ rewrite nth_error_upd_neq by congruence; exact Hxt
                    | rewrite nth_error_app1 by (rewrite upd_length; eapply nth_error_some_lt; eauto);
                      rewrite nth_error_upd_neq by congruence; exact Hxt
                    | match goal with Hr : nth_error _ ?r = Some ?thr, Hrt : recv_target ?thr = Some _ |- _ =>
                        assert (xt <> r) by (intros ->; rewrite Hr in Hxt; injection Hxt as <-; exact (proj1 (holds_write_recv _ _ 0%Z _ Hrt) Hxh));
                        rewrite !nth_error_upd_neq by congruence; exact Hxt end ] ]; fail).
  (* write transitions, clause (a): all sub-cases but "the moving thread on its own object" *)
  all: try (lazymatch goal with |- forall (_ : nat) (_ : thread), _ => idtac end;
            intros xt xth xo xob Hxt Hxo Hxh; lookup Hxt; lookup Hxo;
            cbn [th_pc th_rets holds_write o_subs set_rd set_wr set_ww set_subs] in *;
            try (match type of Hxh with context [if ?b then _ else _] => destruct b eqn:Eidx end);
            cbn [holds_write] in *; try contradiction; try congruence;
            try (lockfacts LI; congruence);
            try (destruct (WA _ _ _ _ Hxt Hxo Hxh) as (xcl & xs0 & xcls & Hos & Hws); exists xcl, xs0, xcls;
                 split; [cbn [osect]; eqb_simpl; exact Hos | exact Hws]; fail);
            try (l4_contra LI)).
  (* clause (b) for write transitions *)
  all: try (lazymatch goal with |- forall (_ : oid) (_ : tid) (_ : nat), _ => idtac end;
            intros xo xt xn xcl xs0 xcls Hx; cbn [osect] in Hx;
            match type of Hx with context [?a =? ?b] => destruct (Nat.eqb_spec a b) as [Eo|No] end;
            [ subst xo | (* another object: the holder is another thread, untouched *)
              destruct (WB _ _ _ _ _ _ Hx) as (xth & Hxt & Hxh);
              destruct (Nat.eq_dec xt t) as [Ext|Nx];
              [ exfalso; subst xt; rewrite Ht in Hxt; injection Hxt as <-;
                first [ match goal with Hs : starts ?x _ _ |- _ => destruct Hs as [[Hs _]|(? & Hs & _)]; rewrite Hs in Hxh; exact Hxh end
                      | match goal with Hpc : th_pc ?x = _ |- _ => rewrite Hpc in Hxh; cbn [holds_write] in Hxh; congruence end ]
              | exists xth; split; [rewrite nth_error_upd_neq by congruence; exact Hxt|exact Hxh] ] ]).
  - (* SubStart (a) *)
    exists (call_of l), (o_subs ob), []. split; [cbn [osect]; rewrite Nat.eqb_refl; reflexivity|].
    cbn [ws_pc]. split; [destruct H0 as [[-> _]| ->]; cbn; eauto|]. repeat split; auto.
    intro F. specialize (W1 _ _ _ H1 F). lia.
  - (* SubStart (b) *)
    injection Hx as <- <- <- <- <-. eexists; split; [apply nth_error_upd_eq; exact Lt|cbn; reflexivity].
  - (* UnsubStart (a), not subscribed *)
    exists (CUnsub o (Some sub)), (o_subs ob), []. split; [cbn [osect]; rewrite Nat.eqb_refl; reflexivity|].
    cbn [ws_pc]. exists sub. split; [reflexivity|]. left. repeat split; auto.
    destruct (sub_index_spec (o_subs ob) sub) as [[Hn _]|(n & E & _)]; [exact Hn|].
    rewrite E in Eidx. apply Z.eqb_eq in Eidx. lia.
  - (* UnsubStart (a), subscribed *)
    exists (CUnsub o (Some sub)), (o_subs ob), []. split; [cbn [osect]; rewrite Nat.eqb_refl; reflexivity|].
    cbn [ws_pc]. exists sub. repeat split; auto.
    destruct (sub_index_spec (o_subs ob) sub) as [[_ E]|(n & E & Hn & _)].
    + rewrite E in Eidx. discriminate.
    + rewrite E, Nat2Z.id. exact Hn.
  - (* UnsubStart (b) *)
    injection Hx as <- <- <- <- <-. eexists; split; [apply nth_error_upd_eq; exact Lt|].
    cbn [th_pc]. destruct (_ =? _)%Z; reflexivity.
  - (* UnsubAllStart (a) *)
    exists (CUnsubAll o), (o_subs ob), []. split; [cbn [osect]; rewrite Nat.eqb_refl; reflexivity|].
    cbn [ws_pc]. repeat split; auto.
  - (* UnsubAllStart (b) *)
    injection Hx as <- <- <- <- <-. eexists; split; [apply nth_error_upd_eq; exact Lt|cbn; reflexivity].
  - (* SubU (b) *) discriminate.
  - (* UnsubCloseOk (a) *)
    destruct (WA t th o ob Ht H0 ltac:(rewrite H; reflexivity)) as (xcl & xs0 & xcls & Hos & Hws).
    rewrite H in Hws. cbn [ws_pc] in Hws. destruct Hws as (ci' & -> & Hcur & Hnth & ->).
    rewrite Hcur in H1. rewrite Hnth in H1. injection H1 as ->.
    exists (CUnsub o (Some ci)), xs0, [ci]. split; [cbn [osect]; rewrite Nat.eqb_refl, Hos; reflexivity|].
    cbn [ws_pc]. exists ci. split; [reflexivity|]. right. repeat split; auto.
    + eapply nth_error_In; eauto.
    + rewrite Hcur. apply splice_is_remove; auto. rewrite <- Hcur. eauto.
  - (* UnsubCloseOk (b) *)
    destruct (osect o (c_trace c)) as [[[[[a b] c0] d] e]|] eqn:Eos; [|discriminate]. injection Hx as <- <- <- <- <-.
    destruct (WB _ _ _ _ _ _ Eos) as (xth & Hxt & Hxh). lockfacts LI.
    assert (a = t) by congruence. subst a.
    eexists; split; [apply nth_error_upd_eq; exact Lt|cbn; reflexivity].
  - (* UnsubU (b) *) discriminate.
  - (* UnsubAllClose (a), the closing thread *)
    subst xo. destruct (WA t th o xob Ht Hxo ltac:(rewrite H; reflexivity)) as (xcl & xs0 & xcls & Hos & Hws).
    rewrite H in Hws. cbn [ws_pc] in Hws. destruct Hws as (-> & Hcur & Hsub).
    exists (CUnsubAll o), xs0, (ci :: xcls). split; [cbn [osect]; rewrite Nat.eqb_refl, Hos; reflexivity|].
    cbn [ws_pc rev]. repeat split; auto. rewrite <- app_assoc. exact Hsub.
  - (* UnsubAllClose (a), another thread *)
    destruct (Nat.eq_dec o xo) as [->|No].
    + exfalso. assert (Hw : holds_write (th_pc th) xo) by (rewrite H; reflexivity). lockfacts LI. congruence.
    + destruct (WA _ _ _ _ Hxt Hxo Hxh) as (xcl & xs0 & xcls & Hos & Hws). exists xcl, xs0, xcls.
      split; [cbn [osect]; eqb_simpl; exact Hos | exact Hws].
  - (* UnsubAllClose (b) *)
    destruct (osect o (c_trace c)) as [[[[[a b] c0] d] e]|] eqn:Eos; [|discriminate]. injection Hx as <- <- <- <- <-.
    destruct (WB _ _ _ _ _ _ Eos) as (xth & Hxt & Hxh).
    assert (Hw : holds_write (th_pc th) o) by (rewrite H; reflexivity).
    pose proof LI as (_ & _ & _ & L4 & _). pose proof (L4 t th o Ht (or_intror Hw)) as Lo.
    destruct (nth_error (c_objs c) o) as [ob|] eqn:Ho; [|apply nth_error_None in Ho; lia].
    lockfacts LI. assert (a = t) by congruence. subst a.
    eexists; split; [apply nth_error_upd_eq; exact Lt|cbn; reflexivity].
  - (* UnsubAllEnd (b) *) discriminate.
Qed.

Lemma ws_inv_run timeout cb defbuf progs s : ws_inv (run (init timeout cb defbuf progs) s).
Proof.
  induction s as [|[t ch] s IH] using rev_ind.
  - split.
    + intros t th o ob Ht _ Hh. apply init_threads_pc in Ht as [E _]. rewrite E in Hh. destruct Hh.
    + intros o t n cl subs0 cls H. discriminate.
  - rewrite run_app. cbn [run]. unfold step_or_stay. cbn [fst snd].
    destruct (step (run (init timeout cb defbuf progs) s) t ch) as [c'|] eqn:E; [|auto].
    apply step_trans in E as (Hp & th & Ht & T). eapply ws_inv_step; eauto.
    + apply lock_inv_run. + apply wf_inv_run.
Qed.


(* what the call that held the write lock did, in terms of o.subs when the lock was taken
   ([subs0]), the channels closed on o while it was held ([closes], oldest first), the
   result [r] and o.subs at the unlock ([subs1]) *)
Definition unlock_spec (o : oid) (cl : call) (subs0 closes : list cid) (r : ret) (subs1 : list cid) : Prop :=
  match cl with
  | CUnsub o' (Some ci) =>
      o' = o /\
      ((In ci subs0 /\ r = RNil /\ subs1 = remove Nat.eq_dec ci subs0 /\ closes = [ci]) \/
       (~ In ci subs0 /\ r = RErr ErrAlreadyUnsubscribed /\ subs1 = subs0 /\ closes = []))
  | CUnsubAll o' => o' = o /\ r = RNil /\ subs1 = [] /\ closes = subs0
  | CSub o' | CSubBuf o' _ => o' = o /\ exists c, r = RChan c /\ subs1 = subs0 ++ [c] /\ closes = [] /\ ~ In c subs0
  | _ => False
  end.

(* every unlock in the log closes a write section that was opened by the same thread for the
   same call, that no other Lock/Unlock of o interrupts, whose closes on o are exactly those
   the call must make, and that leaves o.subs as the call must leave it *)
Definition unlock_ok (tr : list event) : Prop :=
  forall later t n o r subs1 earlier, tr = later ++ EUnlock t n o r subs1 :: earlier ->
    exists cl subs0 cls, osect o earlier = Some (t, n, cl, subs0, cls) /\
                         unlock_spec o cl subs0 (rev cls) r subs1.

Lemma unlock_ok_cons_other e tr : (forall t n o r s, e <> EUnlock t n o r s) -> unlock_ok tr -> unlock_ok (e :: tr).
Proof.
  intros Hn H later t n o r subs1 earlier E. destruct later as [|e' later]; cbn in E; injection E as -> E.
  - exfalso. eapply Hn; reflexivity.
  - eapply H; eauto.
Qed.
Lemma unlock_ok_cons_unlock t n o r subs1 tr :
  (exists cl subs0 cls, osect o tr = Some (t, n, cl, subs0, cls) /\ unlock_spec o cl subs0 (rev cls) r subs1) ->
  unlock_ok tr -> unlock_ok (EUnlock t n o r subs1 :: tr).
Proof.
  intros Hd H later t' n' o' r' s' earlier E. destruct later as [|e' later]; cbn in E; inversion E; subst.
  - exact Hd.
  - eapply H; eauto.
Qed.

Lemma unlock_ok_step c t th c' :
  c_panic c = None -> nth_error (c_threads c) t = Some th -> trans c t th c' ->
  ws_inv c -> unlock_ok (c_trace c) -> unlock_ok (c_trace c').
Proof.
  intros Hp Ht T (WA & _) R.
  destruct T; try match goal with S : send_trans _ _ _ _ _ _ _ _ _ _ |- _ => inv_send S end; norm; auto.
  all: repeat (apply unlock_ok_cons_other; [intros ? ? ? ? ? ?; discriminate|]); auto.
  - (* SubU *)
    apply unlock_ok_cons_unlock; auto.
    destruct (WA t th o ob Ht H0 ltac:(rewrite H; reflexivity)) as (cl & subs0 & cls & Hos & Hws).
    rewrite H in Hws. cbn [ws_pc] in Hws. destruct Hws as (Hcl & Hcur & -> & Hfresh).
    exists cl, subs0, []. split; [exact Hos|]. cbn [rev].
    destruct Hcl as [->|[size ->]]; cbn [unlock_spec]; (split; [reflexivity|]); exists ci; auto.
  - (* UnsubU *)
    apply unlock_ok_cons_unlock; auto.
    destruct (WA t th o ob Ht H0 ltac:(rewrite H; reflexivity)) as (cl & subs0 & cls & Hos & Hws).
    rewrite H in Hws. cbn [ws_pc] in Hws. destruct Hws as (ci & -> & Hcase).
    exists (CUnsub o (Some ci)), subs0, cls. split; [exact Hos|]. cbn [unlock_spec]. split; [reflexivity|].
    destruct Hcase as [(-> & Hn & Hcur & ->)|(-> & Hi & Hcur & ->)]; [right|left]; cbn [rev app]; auto.
  - (* UnsubAllEnd *)
    apply unlock_ok_cons_unlock; auto.
    destruct (WA t th o ob Ht H0 ltac:(rewrite H; reflexivity)) as (cl & subs0 & cls & Hos & Hws).
    rewrite H in Hws. cbn [ws_pc] in Hws. destruct Hws as (-> & Hcur & Hsub).
    exists (CUnsubAll o), subs0, cls. split; [exact Hos|]. cbn [unlock_spec]. rewrite app_nil_r in Hsub. auto.
Qed.

Lemma unlock_ok_run timeout cb defbuf progs s : unlock_ok (c_trace (run (init timeout cb defbuf progs) s)).
Proof.
  induction s as [|[t ch] s IH] using rev_ind.
  - intros later t n o r s1 earlier E. destruct later; discriminate.
  - rewrite run_app. cbn [run]. unfold step_or_stay. cbn [fst snd].
    destruct (step (run (init timeout cb defbuf progs) s) t ch) as [c'|] eqn:E; [|auto].
    apply step_trans in E as (Hp & th & Ht & T). eapply unlock_ok_step; eauto. apply ws_inv_run.
Qed.

(* ------------------------------------------------------------------ *)
(* WithOnly: the read section of thread t                               *)
(* ------------------------------------------------------------------ *)
Fixpoint vsect (t : tid) (tr : list event) : option (nat * oid * option cid * list cid) :=
  match tr with
  | [] => None
  | EViewRet t' _ _ _ _ _ :: older => if t' =? t then None else vsect t older
  | EViewLock t' n o sub subs :: older => if t' =? t then Some (n, o, sub, subs) else vsect t older
  | _ :: older => vsect t older
  end.

Definition vs_inv (c : config) : Prop :=
  forall t th o clone ob, nth_error (c_threads c) t = Some th -> th_pc th = PWithOnlyU o clone ->
    nth_error (c_objs c) o = Some ob ->
    exists sub subs0, vsect t (c_trace c) = Some (length (th_rets th), o, sub, subs0) /\
                      o_subs clone = withonly_loop sub subs0 /\ o_subs ob = subs0 /\ NoDup subs0.

Lemma withonly_pc_recv thr ci v o cl : recv_target thr = Some ci ->
  th_pc (deliver thr v) <> PWithOnlyU o cl /\ th_pc (deliver_closed thr) <> PWithOnlyU o cl.
Proof.
  intro H. destruct (recv_target_pc _ _ H) as [E|[acc E]]; unfold deliver, deliver_closed; rewrite E.
  - destruct (th_prog thr) as [|[] ?]; cbn; rewrite ?E; cbn; split; discriminate.
  - cbn; split; discriminate.
Qed.

Lemma vs_inv_step c t th c' :
  c_panic c = None -> nth_error (c_threads c) t = Some th -> trans c t th c' ->
  lock_inv c -> wf_inv c -> vs_inv c -> vs_inv c'.
Proof.
  intros Hp Ht T LI (W1 & W2 & W3) VS.
  assert (Lt : t < length (c_threads c)) by (eapply nth_error_some_lt; eauto).
  destruct T; try match goal with S : send_trans _ _ _ _ _ _ _ _ _ _ |- _ => inv_send S end;
    unfold vs_inv; norm; prep; pcfacts.
  all: intros xt xth xo xcl xob Hxt Hxh Hxo; lookup Hxt; lookup Hxo;
       cbn [th_pc th_rets o_subs set_rd set_wr set_ww set_subs] in *; unfold pub_pc, after_send in *;
       try (match type of Hxh with context [match ?w with _ => _ end] => destruct w end);
       try (match type of Hxh with context [if ?b then _ else _] => destruct b end);
       try discriminate;
       try (match goal with Hr : recv_target _ = Some _ |- _ =>
              first [ destruct (proj1 (withonly_pc_recv _ _ _ _ _ Hr) Hxh) | destruct (proj2 (withonly_pc_recv _ _ 0%Z _ _ Hr) Hxh) ] end).
  (* the reader x keeps its read lock: nobody changed o.subs *)
  all: try (match type of Hxh with th_pc ?xx = PWithOnlyU ?oo _ =>
              assert (Hxr : holds_read (th_pc xx) oo) by (rewrite Hxh; reflexivity) end;
            lockfacts LI; try congruence;
            try (match goal with Hin : In _ ?l, Hnil : ?l = [] |- _ => rewrite Hnil in Hin; destruct Hin end)).
  all: try (match goal with Ho : nth_error (c_objs _) _ = Some _ |- _ =>
              destruct (VS _ _ _ _ _ Hxt Hxh Ho) as (xsub & xs0 & Hvs & Hvcl & Hvsb & Hvnd) end;
            exists xsub, xs0; cbn [vsect]; eqb_simpl; auto; fail).
  - (* WithOnlyStart, the caller *)
    injection Hxh as <-. exists sub, (o_subs ob). cbn [vsect o_subs]. rewrite Nat.eqb_refl. repeat split; eauto.
  - injection Hxh as E _. congruence.
  - (* WithOnlyU: the new object is not yet read by anybody *)
    exfalso. destruct LI as (_ & _ & _ & L4 & _). pose proof (L4 _ _ _ Hxt (or_introl Hxr)) as F. rewrite upd_length in F. lia.
Qed.

Lemma vs_inv_run timeout cb defbuf progs s : vs_inv (run (init timeout cb defbuf progs) s).
Proof.
  induction s as [|[t ch] s IH] using rev_ind.
  - intros t th o cl ob Ht E. apply init_threads_pc in Ht as [E' _]. congruence.
  - rewrite run_app. cbn [run]. unfold step_or_stay. cbn [fst snd].
    destruct (step (run (init timeout cb defbuf progs) s) t ch) as [c'|] eqn:E; [|auto].
    apply step_trans in E as (Hp & th & Ht & T). eapply vs_inv_step; eauto.
    + apply lock_inv_run. + apply wf_inv_run.
Qed.

(* every WithOnly return in the log closes the read section opened by the same call; the view
   lists exactly the requested subscription if it was subscribed when the read lock was taken
   (nothing for nil or an unknown channel), and o.subs did not change while the lock was held *)
Definition view_ok (tr : list event) : Prop :=
  forall later t n o v vsubs subs1 earlier, tr = later ++ EViewRet t n o v vsubs subs1 :: earlier ->
    exists sub subs0, vsect t earlier = Some (n, o, sub, subs0) /\ NoDup subs0 /\ subs1 = subs0 /\
      vsubs = match sub with
              | Some s => if in_dec Nat.eq_dec s subs0 then [s] else []
              | None => []
              end.

Lemma view_ok_cons_other e tr : (forall t n o v a b, e <> EViewRet t n o v a b) -> view_ok tr -> view_ok (e :: tr).
Proof.
  intros Hn H later t n o v a b earlier E. destruct later as [|e' later]; cbn in E; inversion E; subst.
  - exfalso. eapply Hn; reflexivity.
  - eapply H; eauto.
Qed.

Lemma view_ok_step c t th c' :
  c_panic c = None -> nth_error (c_threads c) t = Some th -> trans c t th c' ->
  vs_inv c -> view_ok (c_trace c) -> view_ok (c_trace c').
Proof.
  intros Hp Ht T VS R.
  destruct T; try match goal with S : send_trans _ _ _ _ _ _ _ _ _ _ |- _ => inv_send S end; norm; auto.
  all: repeat (apply view_ok_cons_other; [intros ? ? ? ? ? ? ?; discriminate|]); auto.
  intros later t' n o' v a b earlier E. destruct later as [|e' later]; cbn in E; inversion E; subst.
  - destruct (VS _ _ _ _ _ Ht H H0) as (sub & subs0 & Hvs & Hvcl & Hvsb & Hvnd).
    exists sub, subs0. repeat split; auto. rewrite Hvcl. apply withonly_loop_spec; auto.
  - eapply R; eauto.
Qed.

Lemma view_ok_run timeout cb defbuf progs s : view_ok (c_trace (run (init timeout cb defbuf progs) s)).
Proof.
  induction s as [|[t ch] s IH] using rev_ind.
  - intros later t n o v a b earlier E. destruct later; discriminate.
  - rewrite run_app. cbn [run]. unfold step_or_stay. cbn [fst snd].
    destruct (step (run (init timeout cb defbuf progs) s) t ch) as [c'|] eqn:E; [|auto].
    apply step_trans in E as (Hp & th & Ht & T). eapply view_ok_step; eauto. apply vs_inv_run.
Qed.

(* ------------------------------------------------------------------ *)
(* Where a log entry comes from                                         *)
(* ------------------------------------------------------------------ *)
Definition is_pub_call (cl : call) (v : variant) (o : oid) (evs : list Z) : Prop :=
  match cl with
  | CPubOne w o' ev => v = (false, w) /\ o' = o /\ evs = [ev]
  | CPubSlice w o' evs' => v = (true, w) /\ o' = o /\ evs = evs'
  | _ => False
  end.

(* what is true of the configuration c (thread t in state th moves, giving c') when e is logged *)
Definition logged_by (c : config) (t : tid) (th : thread) (c' : config) (e : event) : Prop :=
  match e with
  | ERLock k o evs subs =>
      k_tid k = t /\ k_n k = length (th_rets th) /\
      exists cl rest ob, th_pc th = PIdle /\ th_prog th = cl :: rest /\ is_pub_call cl (k_var k) o evs /\
                         nth_error (c_objs c) o = Some ob /\ o_subs ob = subs
  | ELock t' n o cl subs =>
      t' = t /\ n = length (th_rets th) /\
      exists rest ob, starts th cl rest /\ nth_error (c_objs c) o = Some ob /\ o_subs ob = subs /\ lock_free t ob = true
  | EUnlock t' n o r subs1 =>
      t' = t /\ n = length (th_rets th) /\ holds_write (th_pc th) o /\
      exists th' ob', nth_error (c_threads c') t = Some th' /\ th_rets th' = th_rets th ++ [r] /\ th_pc th' = PIdle /\
                      nth_error (c_objs c') o = Some ob' /\ o_subs ob' = subs1 /\ o_wr ob' = None
  | EViewLock t' n o sub subs =>
      t' = t /\ n = length (th_rets th) /\
      exists rest ob, starts th (CWithOnly o sub) rest /\ nth_error (c_objs c) o = Some ob /\ o_subs ob = subs
  | EViewRet t' n o v vsubs subs1 =>
      t' = t /\ n = length (th_rets th) /\ v = length (c_objs c) /\
      exists th' vob, nth_error (c_threads c') t = Some th' /\ th_rets th' = th_rets th ++ [RView v] /\
                      nth_error (c_objs c') v = Some vob /\ o_subs vob = vsubs
  | EPubRet k =>
      pub_pc_of k (th_pc th) /\
      exists th', nth_error (c_threads c') t = Some th' /\ th_rets th' = th_rets th ++ [RUnit] /\ th_pc th' = PIdle
  | EClose t' o ci =>
      t' = t /\ holds_write (th_pc th) o /\ exists chn, nth_error (c_chans c) ci = Some chn /\ ch_closed chn = false
  | _ => True
  end.

Lemma trans_logged c t th c' :
  nth_error (c_threads c) t = Some th -> trans c t th c' ->
  exists es, c_trace c' = es ++ c_trace c /\ forall e, In e es -> logged_by c t th c' e.
Proof.
  intros Ht T. assert (Lt : t < length (c_threads c)) by (eapply nth_error_some_lt; eauto).
  destruct T; try match goal with S : send_trans _ _ _ _ _ _ _ _ _ _ |- _ => inv_send S end; norm;
    match goal with
    | |- exists es, ?l = es ++ ?tr /\ _ =>
        match l with
        | tr => exists []
        | ?a :: tr => exists [a]
        | ?a :: ?b :: tr => exists [a; b]
        | ?a :: ?b :: ?d :: tr => exists [a; b; d]
        end
    end; (split; [reflexivity|]); intros e He; cbn [In] in He;
    repeat (destruct He as [<-|He]; [|]); try destruct He; cbn [logged_by]; auto.
  all: cbn [k_tid k_n k_var c_threads c_objs].
  - (* PubStart *)
    repeat split. destruct H as [[Hpc Hpr]|(l & _ & E & _)].
    + exists cl, rest, ob. repeat split; auto. destruct H0 as [(-> & -> & Hl)|(-> & ->)]; cbn.
      * destruct evs as [|ev [|? ?]]; try discriminate. cbn. auto.
      * auto.
    + exfalso. destruct H0 as [(-> & _)|(-> & _)]; destruct l; discriminate.
  - repeat split. exists rest, ob. auto.
  - repeat split. exists rest, ob. auto.
  - repeat split. exists rest, ob. auto.
  - repeat split. exists rest, ob. auto.
  - split; [rewrite H; reflexivity|]. eexists. split; [apply nth_error_upd_eq; exact Lt|]. cbn. auto.
  - split; [rewrite H; reflexivity|]. eexists. split; [apply nth_error_upd_eq; exact Lt|]. cbn. auto.
  - (* WithOnlyU *)
    repeat split. eexists. exists clone. split; [apply nth_error_upd_eq; exact Lt|]. cbn [th_rets]. split; [reflexivity|].
    split; [|reflexivity]. rewrite nth_error_app2 by (rewrite upd_length; lia). rewrite upd_length, Nat.sub_diag. reflexivity.
  - (* SubU *)
    repeat split; [rewrite H; reflexivity|]. eexists. exists (set_wr ob None). split; [apply nth_error_upd_eq; exact Lt|].
    cbn [th_rets th_pc]. repeat split. apply nth_error_upd_eq. eapply nth_error_some_lt; eauto.
  - repeat split; [rewrite H; reflexivity|]. eauto.
  - (* UnsubU *)
    repeat split; [rewrite H; reflexivity|]. eexists. exists (set_wr ob None). split; [apply nth_error_upd_eq; exact Lt|].
    cbn [th_rets th_pc]. repeat split. apply nth_error_upd_eq. eapply nth_error_some_lt; eauto.
  - repeat split; [rewrite H; reflexivity|]. eauto.
  - (* UnsubAllEnd *)
    repeat split; [rewrite H; reflexivity|]. eexists. exists (set_wr (set_subs ob []) None). split; [apply nth_error_upd_eq; exact Lt|].
    cbn [th_rets th_pc]. repeat split. apply nth_error_upd_eq. eapply nth_error_some_lt; eauto.
Qed.

(* every log entry was logged by some step of the run, in a configuration with the properties [logged_by] *)
Lemma log_origin c0 s e :
  In e (c_trace (run c0 s)) ->
  In e (c_trace c0) \/
  exists s1 t ch s2 th,
    s = s1 ++ (t, ch) :: s2 /\ c_panic (run c0 s1) = None /\
    nth_error (c_threads (run c0 s1)) t = Some th /\
    step (run c0 s1) t ch = Some (run c0 (s1 ++ [(t, ch)])) /\
    logged_by (run c0 s1) t th (run c0 (s1 ++ [(t, ch)])) e.
Proof.
  induction s as [|[t ch] s IH] using rev_ind; [auto|].
  rewrite run_app. cbn [run]. unfold step_or_stay. cbn [fst snd].
  destruct (step (run c0 s) t ch) as [c'|] eqn:E.
  - intro Hin. pose proof E as E0. apply step_trans in E as (Hp & th & Ht & T).
    destruct (trans_logged _ _ _ _ Ht T) as (es & Htr & Hes). rewrite Htr in Hin.
    apply in_app_or in Hin as [Hin|Hin].
    + right. exists s, t, ch, [], th. rewrite run_app. cbn [run]. unfold step_or_stay. cbn [fst snd]. rewrite E0.
      repeat split; auto.
    + destruct (IH Hin) as [?|(s1 & t1 & ch1 & s2 & th1 & -> & R)]; [auto|]. right.
      exists s1, t1, ch1, (s2 ++ [(t, ch)]), th1. rewrite <- app_assoc. split; [reflexivity|exact R].
  - intro Hin. destruct (IH Hin) as [?|(s1 & t1 & ch1 & s2 & th1 & -> & R)]; [auto|]. right.
    exists s1, t1, ch1, (s2 ++ [(t, ch)]), th1. rewrite <- app_assoc. split; [reflexivity|exact R].
Qed.

(* ------------------------------------------------------------------ *)
(* The log and the programs                                             *)
(* ------------------------------------------------------------------ *)
(* number of calls thread th has started *)
Definition started (th : thread) : nat :=
  length (th_rets th) + match th_pc th with PIdle => 0 | _ => 1 end.

Definition prog_inv (progs : list (list call)) (c : config) : Prop :=
  length progs <= length (c_threads c) /\
  (* the remaining program is the original one minus the calls started *)
  (forall t th p, nth_error (c_threads c) t = Some th -> nth_error progs t = Some p ->
     th_prog th = skipn (started th) p) /\
  (forall t th ci acc p, nth_error (c_threads c) t = Some th -> nth_error progs t = Some p ->
     th_pc th = PRange ci acc -> nth_error p (length (th_rets th)) = Some (CRange ci)) /\
  (forall t th l p, nth_error (c_threads c) t = Some th -> nth_error progs t = Some p ->
     th_pc th = PLockWait l -> nth_error p (length (th_rets th)) = Some (call_of l)) /\
  (* the calls named in the log are the calls of the programs, at the positions named *)
  (forall k o evs subs p, In (ERLock k o evs subs) (c_trace c) -> nth_error progs (k_tid k) = Some p ->
     exists cl, nth_error p (k_n k) = Some cl /\ is_pub_call cl (k_var k) o evs) /\
  (forall t n o cl subs p, In (ELock t n o cl subs) (c_trace c) -> nth_error progs t = Some p ->
     nth_error p n = Some cl) /\
  (forall t n o sub subs p, In (EViewLock t n o sub subs) (c_trace c) -> nth_error progs t = Some p ->
     nth_error p n = Some (CWithOnly o sub)).

Lemma skipn_head {A} n (p : list A) x rest : skipn n p = x :: rest -> nth_error p n = Some x /\ skipn (S n) p = rest.
Proof.
  revert p; induction n as [|n IH]; intros [|y p] H; try (rewrite ?skipn_nil in H; discriminate).
  - rewrite skipn_O in H. injection H as -> ->. split; [reflexivity|]. rewrite skipn_cons, skipn_O. reflexivity.
  - rewrite skipn_cons in H. destruct (IH _ H). split; [assumption|]. rewrite skipn_cons. assumption.
Qed.

Lemma starts_head progs c t th p cl rest :
  prog_inv progs c -> nth_error (c_threads c) t = Some th -> nth_error progs t = Some p ->
  starts th cl rest -> nth_error p (length (th_rets th)) = Some cl /\ rest = skipn (S (length (th_rets th))) p.
Proof.
  intros (_ & P1 & _ & PL & _) Ht Hp [[Hpc Hpr]|(l & Hpc & -> & ->)].
  - pose proof (P1 _ _ _ Ht Hp) as E. unfold started in E. rewrite Hpc, Nat.add_0_r, Hpr in E.
    symmetry in E. destruct (skipn_head _ _ _ _ E). auto.
  - split; [eapply PL; eauto|]. pose proof (P1 _ _ _ Ht Hp) as E. unfold started in E. rewrite Hpc in E.
    rewrite E. f_equal. lia.
Qed.

Lemma deliver_prog_ok th ci v p :
  recv_target th = Some ci -> th_prog th = skipn (started th) p ->
  (forall c acc, th_pc th = PRange c acc -> nth_error p (length (th_rets th)) = Some (CRange c)) ->
  (th_prog (deliver th v) = skipn (started (deliver th v)) p /\
   (forall c acc, th_pc (deliver th v) = PRange c acc -> nth_error p (length (th_rets (deliver th v))) = Some (CRange c)) /\
   (forall l, th_pc (deliver th v) <> PLockWait l)) /\
  (th_prog (deliver_closed th) = skipn (started (deliver_closed th)) p /\
   (forall c acc, th_pc (deliver_closed th) = PRange c acc -> nth_error p (length (th_rets (deliver_closed th))) = Some (CRange c)) /\
   (forall l, th_pc (deliver_closed th) <> PLockWait l)).
Proof.
  intros Hr E HR. unfold started in E.
  destruct (recv_target_pc _ _ Hr) as [Epc|[acc Epc]]; unfold deliver, deliver_closed, started; rewrite Epc in *.
  - unfold recv_target in Hr. rewrite Epc in Hr. rewrite Nat.add_0_r in E.
    destruct (th_prog th) as [|[] rest] eqn:Epr; try discriminate; symmetry in E; destruct (skipn_head _ _ _ _ E) as [Hn Hs];
      cbn [th_prog th_pc th_rets]; rewrite ?app_length; cbn [length]; rewrite ?Nat.add_0_r, ?Nat.add_1_r.
    + repeat split; try discriminate; auto.
    + repeat split; try discriminate; auto. intros c0 acc0 Ec. injection Ec as <- _. exact Hn.
  - unfold with_pc, returns. cbn [th_prog th_pc th_rets]. rewrite ?app_length; cbn [length]. rewrite ?Nat.add_0_r.
    repeat split; try discriminate; auto.
    all: try (intros c0 acc0 Ec; injection Ec as <- _; eapply HR; eauto).
    all: try (rewrite E; f_equal; lia).
Qed.

Lemma prog_inv_step progs c t th c' :
  c_panic c = None -> nth_error (c_threads c) t = Some th -> trans c t th c' ->
  prog_inv progs c -> prog_inv progs c'.
Proof.
  intros Hp Ht T PI. pose proof PI as (P0 & P1 & PR & PL & EL1 & EL2 & EL3).
  assert (Lt : t < length (c_threads c)) by (eapply nth_error_some_lt; eauto).
  assert (Hdel : forall p ci v, nth_error progs t = Some p -> recv_target th = Some ci ->
            (th_prog (deliver th v) = skipn (started (deliver th v)) p /\
             (forall c0 acc, th_pc (deliver th v) = PRange c0 acc -> nth_error p (length (th_rets (deliver th v))) = Some (CRange c0)) /\
             (forall l, th_pc (deliver th v) <> PLockWait l)) /\
            (th_prog (deliver_closed th) = skipn (started (deliver_closed th)) p /\
             (forall c0 acc, th_pc (deliver_closed th) = PRange c0 acc -> nth_error p (length (th_rets (deliver_closed th))) = Some (CRange c0)) /\
             (forall l, th_pc (deliver_closed th) <> PLockWait l))).
  { intros p ci v Hpp Hr. apply (deliver_prog_ok th ci v p Hr); [eapply P1; eauto|]. intros. eapply PR; eauto. }
  destruct T; try match goal with S : send_trans _ _ _ _ _ _ _ _ _ _ |- _ => inv_send S end;
    try exact PI; unfold prog_inv; norm.
  all: split; [rewrite ?app_length, ?upd_length; lia|].
  all: split; [|split; [|split; [|split; [|split]]]].
  (* P1 *)
  all: try (lazymatch goal with |- forall (_ : nat) (_ : thread) (_ : list call), _ => idtac end;
            intros xt xth xp Hxt Hxp; lookup Hxt; try (solve [eauto]);
            try (exfalso; apply nth_error_some_lt in Hxp; rewrite ?upd_length in Hxp; lia);
            try (match goal with Hr : recv_target ?x = Some _ |- _ =>
                   first [ exact (proj1 (proj1 (Hdel _ _ _ Hxp Hr))) | exact (proj1 (proj2 (Hdel _ _ 0%Z Hxp Hr))) ] end);
            unfold started, after_send, pub_pc; cbn [th_pc th_prog th_rets]; rewrite ?app_length; cbn [length];
            try (match goal with |- context [match ?w with Async => _ | Wait => _ | Sync => _ end] => destruct w end);
            try (match goal with |- context [if ?b then _ else _] => destruct b end);
            first [ match goal with Hs : starts ?x _ _ |- _ =>
                      destruct (starts_head progs c t x _ _ _ PI Ht Hxp Hs) as [_ Hrest]; rewrite Hrest; f_equal; lia end
                  | match goal with Hpc : th_pc ?x = _ |- _ =>
                      pose proof (P1 _ _ _ Ht Hxp) as E; unfold started in E; rewrite Hpc in E; rewrite E; f_equal; lia end ]; fail).
  (* PRange / PLockWait clauses *)
  all: try (lazymatch goal with |- forall (_ : nat) (_ : thread) (_ : cid) (_ : list Z) (_ : list call), _ => idtac end;
            intros xt xth xci xacc xp Hxt Hxp Hxh; lookup Hxt; try (solve [eauto]);
            try (exfalso; apply nth_error_some_lt in Hxp; rewrite ?upd_length in Hxp; lia);
            try (match goal with Hr : recv_target ?x = Some _ |- _ =>
                   first [ exact (proj1 (proj2 (proj1 (Hdel _ _ _ Hxp Hr))) _ _ Hxh) | exact (proj1 (proj2 (proj2 (Hdel _ _ 0%Z Hxp Hr))) _ _ Hxh) ] end);
            cbn [th_pc] in Hxh; unfold after_send, pub_pc in Hxh;
            try (match type of Hxh with context [match ?w with Async => _ | Wait => _ | Sync => _ end] => destruct w end);
            try (match type of Hxh with context [if ?b then _ else _] => destruct b end);
            discriminate).
  all: try (lazymatch goal with |- forall (_ : nat) (_ : thread) (_ : lcall) (_ : list call), _ => idtac end;
            intros xt xth xl xp Hxt Hxp Hxh; lookup Hxt; try (solve [eauto]);
            try (exfalso; apply nth_error_some_lt in Hxp; rewrite ?upd_length in Hxp; lia);
            try (match goal with Hr : recv_target ?x = Some _ |- _ =>
                   first [ destruct (proj2 (proj2 (proj1 (Hdel _ _ _ Hxp Hr))) _ Hxh) | destruct (proj2 (proj2 (proj2 (Hdel _ _ 0%Z Hxp Hr))) _ Hxh) ] end);
            cbn [th_pc] in Hxh; unfold after_send, pub_pc in Hxh;
            try (match type of Hxh with context [match ?w with Async => _ | Wait => _ | Sync => _ end] => destruct w end);
            try (match type of Hxh with context [if ?b then _ else _] => destruct b end);
            discriminate).
  (* log clauses: no new lock event *)
  all: try (lazymatch goal with |- forall (_ : callid), _ => idtac end;
            intros xk xo xevs xsubs xp Hxi Hxp; cbn [In] in Hxi; repeat (destruct Hxi as [Hxi|Hxi]; [discriminate|]); eauto; fail).
  all: try (lazymatch goal with |- forall (_ : tid) (_ : nat) (_ : oid) (_ : call), _ => idtac end;
            intros xt xn xo xcl xsubs xp Hxi Hxp; cbn [In] in Hxi; repeat (destruct Hxi as [Hxi|Hxi]; [discriminate|]); eauto; fail).
  all: try (lazymatch goal with |- forall (_ : tid) (_ : nat) (_ : oid) (_ : option cid), _ => idtac end;
            intros xt xn xo xsub xsubs xp Hxi Hxp; cbn [In] in Hxi; repeat (destruct Hxi as [Hxi|Hxi]; [discriminate|]); eauto; fail).
  - (* PubStart: ERLock *)
    intros xk xo xevs xsubs xp [E|Hxi] Hxp; [|eauto]. injection E as <- <- <- <-. cbn [k_tid k_n k_var] in *.
    destruct (starts_head progs c t th _ _ _ PI Ht Hxp H) as [Hh _]. exists cl. split; [exact Hh|].
    destruct H0 as [(-> & -> & Hl)|(-> & ->)]; cbn; auto.
    destruct evs as [|ev [|? ?]]; try discriminate. cbn. auto.
  - (* WithOnlyStart: EViewLock *)
    intros xt xn xo xsub xsubs xp [E|Hxi] Hxp; [|eauto]. injection E as <- <- <- <- <-.
    destruct (starts_head progs c t th _ _ _ PI Ht Hxp H) as [Hh _]. exact Hh.
  - (* SubStart: ELock *)
    intros xt xn xo xcl xsubs xp [E|[E|Hxi]] Hxp; [discriminate| |eauto]. injection E as <- <- <- <- <-.
    destruct (starts_head progs c t th _ _ _ PI Ht Hxp H) as [Hh _]. exact Hh.
  - (* Announce: P1 *)
    intros xt xth xp Hxt Hxp; lookup Hxt; [|eauto]. unfold started. cbn [th_pc th_prog th_rets].
    pose proof (P1 _ _ _ Ht Hxp) as E. unfold started in E. rewrite H, Nat.add_0_r, H0 in E. symmetry in E.
    destruct (skipn_head _ _ _ _ E) as [_ Hs]. rewrite Nat.add_1_r. auto.
  - (* Announce: PLockWait *)
    intros xt xth xl xp Hxt Hxp Hxh; lookup Hxt; [|eauto]. cbn [th_pc th_rets] in *. injection Hxh as <-.
    pose proof (P1 _ _ _ Ht Hxp) as E. unfold started in E. rewrite H, Nat.add_0_r, H0 in E. symmetry in E.
    destruct (skipn_head _ _ _ _ E) as [Hh _]. exact Hh.
  - intros xt xn xo xcl xsubs xp [E|Hxi] Hxp; [|eauto]. injection E as <- <- <- <- <-.
    destruct (starts_head progs c t th _ _ _ PI Ht Hxp H) as [Hh _]. exact Hh.
  - intros xt xn xo xcl xsubs xp [E|Hxi] Hxp; [|eauto]. injection E as <- <- <- <- <-.
    destruct (starts_head progs c t th _ _ _ PI Ht Hxp H) as [Hh _]. exact Hh.
  (* rendezvous: the receiver r moves too *)
  - intros xt xth xp Hxt Hxp; lookup Hxt; try (solve [eauto]).
    + unfold started. cbn [th_pc th_prog th_rets]. pose proof (P1 _ _ _ Ht Hxp) as E. unfold started in E. rewrite H in E. exact E.
    + apply (deliver_prog_ok thr _ (p_ev p) xp Hrt); [eapply P1; eauto|intros; eapply PR; eauto].
  - intros xt xth xci xacc xp Hxt Hxp Hxh; lookup Hxt; try (solve [eauto]); try discriminate.
    destruct (deliver_prog_ok thr _ (p_ev p) xp Hrt) as [(_ & Hq & _) _]; [eapply P1; eauto|intros; eapply PR; eauto|]. eauto.
  - intros xt xth xl xp Hxt Hxp Hxh; lookup Hxt; try (solve [eauto]); try discriminate.
    destruct (deliver_prog_ok thr _ (p_ev p) xp Hrt) as [(_ & _ & Hq) _]; [eapply P1; eauto|intros; eapply PR; eauto|]. destruct (Hq _ Hxh).
  - intros xt xth xp Hxt Hxp; lookup Hxt; try (solve [eauto]).
    + unfold started, after_send. cbn [th_pc th_prog th_rets]. pose proof (P1 _ _ _ Ht Hxp) as E. unfold started in E. rewrite H in E.
      destruct wg; exact E.
    + apply (deliver_prog_ok thr _ (p_ev p) xp Hrt); [eapply P1; eauto|intros; eapply PR; eauto].
  - intros xt xth xci xacc xp Hxt Hxp Hxh; lookup Hxt; try (solve [eauto]).
    + cbn [th_pc] in Hxh. unfold after_send in Hxh. destruct wg; discriminate.
    + destruct (deliver_prog_ok thr _ (p_ev p) xp Hrt) as [(_ & Hq & _) _]; [eapply P1; eauto|intros; eapply PR; eauto|]. eauto.
  - intros xt xth xl xp Hxt Hxp Hxh; lookup Hxt; try (solve [eauto]).
    + cbn [th_pc] in Hxh. unfold after_send in Hxh. destruct wg; discriminate.
    + destruct (deliver_prog_ok thr _ (p_ev p) xp Hrt) as [(_ & _ & Hq) _]; [eapply P1; eauto|intros; eapply PR; eauto|]. destruct (Hq _ Hxh).
Qed.

Lemma prog_inv_run timeout cb defbuf progs s : prog_inv progs (run (init timeout cb defbuf progs) s).
Proof.
  apply run_lift; [apply prog_inv_step|]. unfold prog_inv, init. cbn [c_threads c_trace].
  split; [rewrite map_length; lia|]. split; [|split; [|split; [|split; [|split]]]].
  - intros t th p Ht Hp. rewrite nth_error_map in Ht. rewrite Hp in Ht. cbn in Ht. injection Ht as <-. reflexivity.
  - intros t th ci acc p Ht _ E. rewrite nth_error_map in Ht. destruct (nth_error progs t); cbn in Ht; [|discriminate]. injection Ht as <-. discriminate.
  - intros t th l p Ht _ E. rewrite nth_error_map in Ht. destruct (nth_error progs t); cbn in Ht; [|discriminate]. injection Ht as <-. discriminate.
  - intros ? ? ? ? ? [].
  - intros ? ? ? ? ? ? [].
  - intros ? ? ? ? ? ? [].
Qed.

(* a thread inside publish call k has logged the call's ERLock *)
Definition pr_inv (c : config) : Prop :=
  forall t th k, nth_error (c_threads c) t = Some th -> pub_pc_of k (th_pc th) ->
    exists o evs subs, In (ERLock k o evs subs) (c_trace c).

Lemma pr_inv_step c t th c' :
  c_panic c = None -> nth_error (c_threads c) t = Some th -> trans c t th c' -> pr_inv c -> pr_inv c'.
Proof.
  intros Hp Ht T PR.
  destruct T; try match goal with S : send_trans _ _ _ _ _ _ _ _ _ _ |- _ => inv_send S end;
    try exact PR; unfold pr_inv; norm.
  all: intros xt xth xk Hxt Hxh; lookup Hxt;
       cbn [th_pc pub_pc_of] in *; unfold after_send, pub_pc in *;
       try (match type of Hxh with context [match ?w with Async => _ | Wait => _ | Sync => _ end] => destruct w end);
       try (match type of Hxh with context [if ?b then _ else _] => destruct b end);
       cbn [pub_pc_of] in *; try contradiction;
       try (match goal with Hr : recv_target ?x = Some _ |- _ =>
              first [ destruct (proj1 (proj2 (recv_not_pub x _ xk _ Hr)) Hxh) | destruct (proj2 (proj2 (recv_not_pub x _ xk 0%Z Hr)) Hxh) ] end).
  all: try (subst xk; do 3 eexists; left; reflexivity).
  all: try (destruct (PR _ _ _ Hxt Hxh) as (xo & xevs & xsubs & Hi); exists xo, xevs, xsubs; cbn [In]; auto 6; fail).
  all: try (subst xk; match goal with Hpc : th_pc ?x = _ |- _ =>
              destruct (PR t x _ Ht ltac:(rewrite Hpc; reflexivity)) as (xo & xevs & xsubs & Hi) end;
            exists xo, xevs, xsubs; cbn [In]; auto 6; fail).
Qed.

Lemma pr_inv_run timeout cb defbuf progs s : pr_inv (run (init timeout cb defbuf progs) s).
Proof.
  apply run_lift; [exact pr_inv_step|]. intros t th k Ht E. apply init_threads_pc in Ht as [E' _]. rewrite E' in E. destruct E.
Qed.

(* every publish return in the log comes after the ERLock of the same call *)
Definition pubret_ok (tr : list event) : Prop :=
  forall later k earlier, tr = later ++ EPubRet k :: earlier -> exists o evs subs, In (ERLock k o evs subs) earlier.

Lemma pubret_ok_app es tr :
  pubret_ok tr -> (forall k, In (EPubRet k) es -> exists o evs subs, In (ERLock k o evs subs) tr) ->
  pubret_ok (es ++ tr).
Proof.
  intros H. induction es as [|e es IH]; intros Hes; [exact H|].
  intros later k earlier E. destruct later as [|e' later]; cbn in E; inversion E; subst.
  - destruct (Hes k (or_introl eq_refl)) as (o & evs & subs & Hi). exists o, evs, subs. apply in_or_app. right. exact Hi.
  - eapply IH; eauto. intros k0 Hk. apply Hes. right. exact Hk.
Qed.

Lemma pubret_ok_run timeout cb defbuf progs s : pubret_ok (c_trace (run (init timeout cb defbuf progs) s)).
Proof.
  induction s as [|[t ch] s IH] using rev_ind.
  - intros later k earlier E. destruct later; discriminate.
  - rewrite run_app. cbn [run]. unfold step_or_stay. cbn [fst snd].
    destruct (step (run (init timeout cb defbuf progs) s) t ch) as [c'|] eqn:E; [|auto].
    apply step_trans in E as (Hp & th & Ht & T). pose proof (pr_inv_run timeout cb defbuf progs s) as PR.
    destruct (trans_logged _ _ _ _ Ht T) as (es & Htr & Hes). rewrite Htr.
    apply pubret_ok_app; [exact IH|]. intros k Hk. destruct (Hes _ Hk) as (Hpub & _). eapply PR; eauto.
Qed.

(* ------------------------------------------------------------------ *)
(* Returned calls are logged                                            *)
(* ------------------------------------------------------------------ *)
Definition call_logged (t : tid) (n : nat) (cl : call) (r : ret) (tr : list event) : Prop :=
  match cl with
  | CPubOne w o ev =>
      r = RUnit /\ In (EPubRet (CallId t n (false, w))) tr /\ exists subs, In (ERLock (CallId t n (false, w)) o [ev] subs) tr
  | CPubSlice w o evs =>
      r = RUnit /\ In (EPubRet (CallId t n (true, w))) tr /\ exists subs, In (ERLock (CallId t n (true, w)) o evs subs) tr
  | CSub o | CSubBuf o _ | CUnsub o (Some _) | CUnsubAll o =>
      exists subs0 subs1, In (ELock t n o cl subs0) tr /\ In (EUnlock t n o r subs1) tr
  | CWithOnly o sub =>
      exists v vs s0 s1, r = RView v /\ In (EViewLock t n o sub s0) tr /\ In (EViewRet t n o v vs s1) tr
  | CUnsub _ None => r = RErr ErrSubscriptionNotInitalized
  | CRecv _ | CRange _ => True
  end.

Definition rl_inv (progs : list (list call)) (c : config) : Prop :=
  forall t th p n cl r, nth_error (c_threads c) t = Some th -> nth_error progs t = Some p ->
    nth_error p n = Some cl -> nth_error (th_rets th) n = Some r -> call_logged t n cl r (c_trace c).

Lemma call_logged_mono t n cl r es tr : call_logged t n cl r tr -> call_logged t n cl r (es ++ tr).
Proof.
  destruct cl as [w o ev|w o evs|o sub|o|o size|o [sub|]|o|ci|ci]; cbn; auto.
  - intros (? & ? & subs & ?). repeat split; auto using in_or_app. exists subs. auto using in_or_app.
  - intros (? & ? & subs & ?). repeat split; auto using in_or_app. exists subs. auto using in_or_app.
  - intros (v & vs & s0 & s1 & ? & ? & ?). exists v, vs, s0, s1. repeat split; auto using in_or_app.
  - intros (a & b & ? & ?). exists a, b. split; auto using in_or_app.
  - intros (a & b & ? & ?). exists a, b. split; auto using in_or_app.
  - intros (a & b & ? & ?). exists a, b. split; auto using in_or_app.
  - intros (a & b & ? & ?). exists a, b. split; auto using in_or_app.
Qed.

Lemma osect_in o tr : forall t n cl subs0 cls, osect o tr = Some (t, n, cl, subs0, cls) -> In (ELock t n o cl subs0) tr.
Proof.
  induction tr as [|e tr IH]; intros t n cl subs0 cls H; [discriminate|].
  destruct e; cbn [osect] in H; try (right; eapply IH; eauto; fail).
  - destruct (Nat.eqb_spec o0 o) as [->|]; [|right; eapply IH; eauto].
    destruct (osect o tr) as [[[[[a b] c0] d] e]|] eqn:E; [|discriminate]. injection H as <- <- <- <- <-. right. eapply IH; eauto.
  - destruct (Nat.eqb_spec o0 o) as [->|]; [|right; eapply IH; eauto]. injection H as <- <- <- <- <-. left. reflexivity.
  - destruct (Nat.eqb_spec o0 o) as [->|]; [discriminate|right; eapply IH; eauto].
Qed.
Lemma vsect_in t tr : forall n o sub subs0, vsect t tr = Some (n, o, sub, subs0) -> In (EViewLock t n o sub subs0) tr.
Proof.
  induction tr as [|e tr IH]; intros n o sub subs0 H; [discriminate|].
  destruct e; cbn [vsect] in H; try (right; eapply IH; eauto; fail).
  - destruct (Nat.eqb_spec t0 t) as [->|]; [|right; eapply IH; eauto]. injection H as <- <- <- <-. left. reflexivity.
  - destruct (Nat.eqb_spec t0 t) as [->|]; [discriminate|right; eapply IH; eauto].
Qed.

Lemma recv_call progs c t th p ci :
  prog_inv progs c -> nth_error (c_threads c) t = Some th -> nth_error progs t = Some p ->
  recv_target th = Some ci ->
  nth_error p (length (th_rets th)) = Some (CRecv ci) \/ nth_error p (length (th_rets th)) = Some (CRange ci).
Proof.
  intros (_ & P1 & PR & _) Ht Hp Hr. destruct (recv_target_pc _ _ Hr) as [E|[acc E]].
  - pose proof (P1 _ _ _ Ht Hp) as E1. unfold started in E1. rewrite E, Nat.add_0_r in E1.
    unfold recv_target in Hr. rewrite E in Hr. destruct (th_prog th) as [|[] rest] eqn:Epr; try discriminate;
      injection Hr as ->; symmetry in E1; destruct (skipn_head _ _ _ _ E1); auto.
  - right. eapply PR; eauto.
Qed.

Lemma call_logged_cons t n cl r e tr : call_logged t n cl r tr -> call_logged t n cl r (e :: tr).
Proof. apply (call_logged_mono t n cl r [e] tr). Qed.

Lemma deliver_rets thr ci v n r : recv_target thr = Some ci ->
  (nth_error (th_rets (deliver thr v)) n = Some r -> nth_error (th_rets thr) n = Some r \/ n = length (th_rets thr)) /\
  (nth_error (th_rets (deliver_closed thr)) n = Some r -> nth_error (th_rets thr) n = Some r \/ n = length (th_rets thr)).
Proof.
  intro H. destruct (recv_target_pc _ _ H) as [E|[acc E]]; unfold deliver, deliver_closed, returns, with_pc; rewrite E.
  - destruct (th_prog thr) as [|[] ?]; cbn [th_rets]; split; intro Hn; auto;
      apply nth_error_app_some in Hn as [Hn|[-> _]]; auto.
  - cbn [th_rets]; split; intro Hn; auto. apply nth_error_app_some in Hn as [Hn|[-> _]]; auto.
Qed.

Lemma recv_logged progs c t th p ci n cl r tr :
  prog_inv progs c -> nth_error (c_threads c) t = Some th -> nth_error progs t = Some p ->
  recv_target th = Some ci -> n = length (th_rets th) -> nth_error p n = Some cl -> call_logged t n cl r tr.
Proof.
  intros PI Ht Hp Hr -> Hn. destruct (recv_call progs c t th p ci PI Ht Hp Hr) as [E|E]; rewrite E in Hn; injection Hn as <-; exact I.
Qed.

Lemma rl_inv_step progs c t th c' :
  c_panic c = None -> nth_error (c_threads c) t = Some th -> trans c t th c' ->
  prog_inv progs c -> fresh_inv c -> ws_inv c -> vs_inv c -> pr_inv c -> rl_inv progs c -> rl_inv progs c'.
Proof.
  intros Hp Ht T PI (_ & _ & _ & F4) (WA & _) VS PR RL.
  pose proof PI as (P0 & P1 & PRg & PL & EL1 & EL2 & EL3).
  assert (Lt : t < length (c_threads c)) by (eapply nth_error_some_lt; eauto).
  destruct T; try match goal with S : send_trans _ _ _ _ _ _ _ _ _ _ |- _ => inv_send S end;
    unfold rl_inv; norm; intros xt xth xp xn xcl xr Hxt Hxp Hxn Hxr; lookup Hxt;
    cbn [th_rets] in *.
  (* untouched threads and results that were already there *)
  all: try (solve [repeat apply call_logged_cons; eauto]).
  all: try (exfalso; apply nth_error_some_lt in Hxp; rewrite ?upd_length in Hxp; lia).
  (* a receiver *)
  all: try (match goal with Hr : recv_target ?x = Some _ |- _ =>
              first [ destruct (proj1 (deliver_rets x _ _ xn xr Hr) Hxr) as [Hold|Hnew]
                    | destruct (proj2 (deliver_rets x _ 0%Z xn xr Hr) Hxr) as [Hold|Hnew] ];
              [ solve [repeat apply call_logged_cons; eapply RL; eauto] | solve [eapply recv_logged; eauto] ] end).
  (* returns: an old result, or the one just appended *)
  all: try (apply nth_error_app_some in Hxr as [Hxr|[-> ->]]; [solve [repeat apply call_logged_cons; eapply RL; eauto]|]).
  - (* Unsub(nil) *)
    destruct (starts_head progs c t th _ _ _ PI Ht Hxp H) as [Hh _]. rewrite Hh in Hxn. injection Hxn as <-. reflexivity.
  - (* a Sync/Async publish returns *)
    assert (Hpub : pub_pc_of k (th_pc th)) by (rewrite H; reflexivity).
    destruct (F4 t th k Ht Hpub) as [Hkt Hkn]. destruct (PR t th k Ht Hpub) as (o' & evs' & subs' & Hi).
    destruct k as [kt kn kv]; cbn [k_tid k_n k_var] in *; subst kt kn.
    destruct (EL1 _ _ _ _ xp Hi Hxp) as (cl' & Hcl & Hpc). cbn [k_n k_var] in *. rewrite Hcl in Hxn. injection Hxn as <-.
    destruct cl'; cbn in Hpc; try contradiction; destruct Hpc as (-> & -> & ->); cbn;
      (split; [reflexivity|]); (split; [left; reflexivity|]); exists subs'; right; exact Hi.
  - (* a Wait publish returns *)
    assert (Hpub : pub_pc_of k (th_pc th)) by (rewrite H; reflexivity).
    destruct (F4 t th k Ht Hpub) as [Hkt Hkn]. destruct (PR t th k Ht Hpub) as (o' & evs' & subs' & Hi).
    destruct k as [kt kn kv]; cbn [k_tid k_n k_var] in *; subst kt kn.
    destruct (EL1 _ _ _ _ xp Hi Hxp) as (cl' & Hcl & Hpc). cbn [k_n k_var] in *. rewrite Hcl in Hxn. injection Hxn as <-.
    destruct cl'; cbn in Hpc; try contradiction; destruct Hpc as (-> & -> & ->); cbn;
      (split; [reflexivity|]); (split; [left; reflexivity|]); exists subs'; right; exact Hi.
  - (* WithOnly returns *)
    destruct (VS _ _ _ _ _ Ht H H0) as (sub & subs0 & Hvs & _).
    pose proof (vsect_in _ _ _ _ _ _ Hvs) as Hi. rewrite (EL3 _ _ _ _ _ _ Hi Hxp) in Hxn. injection Hxn as <-.
    cbn. do 4 eexists. split; [reflexivity|]. split; [right; exact Hi|left; reflexivity].
  - (* Sub returns *)
    destruct (WA t th o ob Ht H0 ltac:(rewrite H; reflexivity)) as (cl & subs0 & cls & Hos & Hws).
    pose proof (osect_in _ _ _ _ _ _ _ Hos) as Hi. rewrite (EL2 _ _ _ _ _ _ Hi Hxp) in Hxn. injection Hxn as <-.
    rewrite H in Hws. cbn [ws_pc] in Hws. destruct Hws as ([->|[size ->]] & _); cbn;
      exists subs0, (o_subs ob); (split; [right; exact Hi|left; reflexivity]).
  - (* Unsub returns *)
    destruct (WA t th o ob Ht H0 ltac:(rewrite H; reflexivity)) as (cl & subs0 & cls & Hos & Hws).
    pose proof (osect_in _ _ _ _ _ _ _ Hos) as Hi. rewrite (EL2 _ _ _ _ _ _ Hi Hxp) in Hxn. injection Hxn as <-.
    rewrite H in Hws. cbn [ws_pc] in Hws. destruct Hws as (ci & -> & _); cbn.
    exists subs0, (o_subs ob). split; [right; exact Hi|left; reflexivity].
  - (* UnsubAll returns *)
    destruct (WA t th o ob Ht H0 ltac:(rewrite H; reflexivity)) as (cl & subs0 & cls & Hos & Hws).
    pose proof (osect_in _ _ _ _ _ _ _ Hos) as Hi. rewrite (EL2 _ _ _ _ _ _ Hi Hxp) in Hxn. injection Hxn as <-.
    rewrite H in Hws. cbn [ws_pc] in Hws. destruct Hws as (-> & _); cbn.
    exists subs0, []. split; [right; exact Hi|left; reflexivity].
Qed.

Lemma rl_inv_run timeout cb defbuf progs s : rl_inv progs (run (init timeout cb defbuf progs) s).
Proof.
  induction s as [|[t ch] s IH] using rev_ind.
  - intros t th p n cl r Ht _ _ Hr. apply init_threads_pc in Ht as [_ E]. rewrite E in Hr. destruct n; discriminate.
  - rewrite run_app. cbn [run]. unfold step_or_stay. cbn [fst snd].
    destruct (step (run (init timeout cb defbuf progs) s) t ch) as [c'|] eqn:E; [|auto].
    apply step_trans in E as (Hp & th & Ht & T). eapply rl_inv_step; eauto.
    + apply prog_inv_run. + apply fresh_inv_run. + apply ws_inv_run. + apply vs_inv_run. + apply pr_inv_run.
Qed.

(* ------------------------------------------------------------------ *)
(* Statements for Props/C10.v                                           *)
(* ------------------------------------------------------------------ *)

Lemma log_origin_init timeout cb defbuf progs s e :
  In e (c_trace (run (init timeout cb defbuf progs) s)) ->
  exists s1 t ch s2 th,
    s = s1 ++ (t, ch) :: s2 /\ c_panic (run (init timeout cb defbuf progs) s1) = None /\
    nth_error (c_threads (run (init timeout cb defbuf progs) s1)) t = Some th /\
    step (run (init timeout cb defbuf progs) s1) t ch = Some (run (init timeout cb defbuf progs) (s1 ++ [(t, ch)])) /\
    logged_by (run (init timeout cb defbuf progs) s1) t th (run (init timeout cb defbuf progs) (s1 ++ [(t, ch)])) e.
Proof. intro H. destruct (log_origin _ _ _ H) as [[]|R]. exact R. Qed.

(* PubWait & co.: the return of a publish call comes after its ERLock, and for the
   Wait and Sync variants after every pair built there has finished *)
Lemma wait_returns_after_rlock timeout cb defbuf progs s later k earlier :
  c_trace (run (init timeout cb defbuf progs) s) = later ++ EPubRet k :: earlier ->
  (exists o evs subs, In (ERLock k o evs subs) earlier) /\
  (snd (k_var k) <> Async -> forall p, total (ev_exp k p) earlier = total (ev_done k p) earlier).
Proof.
  intro E. split.
  - eapply pubret_ok_run; eauto.
  - intros Hk p. eapply wait_returns_after; eauto.
Qed.

(* the calls that have returned are in the log, at the position they have in the program *)
Lemma returned_logged timeout cb defbuf progs s t th p n cl r :
  let c := run (init timeout cb defbuf progs) s in
  nth_error (c_threads c) t = Some th -> nth_error progs t = Some p ->
  nth_error p n = Some cl -> nth_error (th_rets th) n = Some r ->
  call_logged t n cl r (c_trace c).
Proof. intros c. apply rl_inv_run. Qed.

(* and conversely the lock events of the log name the calls of the programs *)
Lemma logged_calls timeout cb defbuf progs s :
  let c := run (init timeout cb defbuf progs) s in
  (forall k o evs subs p, In (ERLock k o evs subs) (c_trace c) -> nth_error progs (k_tid k) = Some p ->
     exists cl, nth_error p (k_n k) = Some cl /\ is_pub_call cl (k_var k) o evs) /\
  (forall t n o cl subs p, In (ELock t n o cl subs) (c_trace c) -> nth_error progs t = Some p ->
     nth_error p n = Some cl) /\
  (forall t n o sub subs p, In (EViewLock t n o sub subs) (c_trace c) -> nth_error progs t = Some p ->
     nth_error p n = Some (CWithOnly o sub)).
Proof. intro c. destruct (prog_inv_run timeout cb defbuf progs s) as (_ & _ & _ & _ & E1 & E2 & E3). auto. Qed.

(* ------------------------------------------------------------------ *)
(* A decidable version of [safe_sched], for concrete schedules          *)
(* ------------------------------------------------------------------ *)
Definition safe_closeb (c : config) (t : tid) : bool :=
  match nth_error (c_threads c) t with
  | None => true
  | Some th =>
    match closing c th with
    | None => true
    | Some (o, ci) =>
        forallb (fun th' => match th_pc th' with PGoSend _ p _ _ _ => negb (p_sub p =? ci) | _ => true end) (c_threads c) &&
        forallb (fun oo => (fst oo =? o) || negb (existsb (Nat.eqb ci) (o_subs (snd oo))))
                (combine (seq 0 (length (c_objs c))) (c_objs c))
    end
  end.

Lemma in_combine_seq {A} (l : list A) i x : nth_error l i = Some x -> In (i, x) (combine (seq 0 (length l)) l).
Proof.
  assert (G : forall a, nth_error l i = Some x -> In (a + i, x) (combine (seq a (length l)) l)).
  { revert i; induction l as [|y l IH]; intros i a H; [destruct i; discriminate|].
    destruct i as [|i]; cbn in *.
    - injection H as ->. left. f_equal. lia.
    - right. replace (a + S i) with (S a + i) by lia. apply IH. exact H. }
  intro H. apply (G 0 H).
Qed.

Lemma safe_closeb_sound c t : safe_closeb c t = true -> safe_close c t.
Proof.
  unfold safe_closeb, safe_close. intros H th o ci Ht Hcl. rewrite Ht, Hcl in H.
  apply andb_true_iff in H as [H1 H2]. rewrite forallb_forall in H1, H2. split.
  - intros t' th' k p tm cb wg Ht' E. specialize (H1 th' (nth_error_In _ _ Ht')). rewrite E in H1.
    apply negb_true_iff, Nat.eqb_neq in H1. exact H1.
  - intros o' ob' N Ho' Hin. specialize (H2 (o', ob') (in_combine_seq _ _ _ Ho')). cbn [fst snd] in H2.
    apply orb_true_iff in H2 as [F|F]; [apply Nat.eqb_eq in F; congruence|].
    apply negb_true_iff in F. assert (existsb (Nat.eqb ci) (o_subs ob') = true); [|congruence].
    apply existsb_exists. exists ci. split; [exact Hin|apply Nat.eqb_refl].
Qed.

Fixpoint safe_schedb (c : config) (s : sched) : bool :=
  match s with
  | [] => true
  | tc :: s' => safe_closeb c (fst tc) && safe_schedb (step_or_stay c tc) s'
  end.

Lemma safe_schedb_sound c s : safe_schedb c s = true -> safe_sched c s.
Proof.
  revert c; induction s as [|tc s IH]; intros c H s1 tc' s2 E.
  - destruct s1; discriminate.
  - cbn in H. apply andb_true_iff in H as [H1 H2]. destruct s1 as [|x s1]; cbn in E; injection E as -> E.
    + cbn. apply safe_closeb_sound. exact H1.
    + cbn [run]. eapply IH; eauto.
Qed.

(* ------------------------------------------------------------------ *)
(* The third known finding: Unsub through a stale view                  *)
(* ------------------------------------------------------------------ *)
(* s := SubBuf(1); v := WithOnly(s); Unsub(s) on the parent; Unsub(s) through v:
   the view still lists s, so its Unsub closes the closed channel. *)
Definition stale_view_unsub_progs : list (list call) :=
  [[CSubBuf 0 1%Z; CWithOnly 0 (Some 0); CUnsub 0 (Some 0); CUnsub 1 (Some 0)]].
Lemma stale_view_unsub_panic_reachable :
  c_panic (run (init 0%Z false 0%Z stale_view_unsub_progs) (repeat (0, Plain) 9)) = Some PCloseOfClosed.
Proof. vm_compute. reflexivity. Qed.

(* that history is excluded by the hypothesis of the no-panic theorem: when the parent's Unsub
   closes the channel (6th step), another PubSub (the view) lists it *)
Lemma stale_view_unsub_not_safe :
  ~ safe_sched (init 0%Z false 0%Z stale_view_unsub_progs) (repeat (0, Plain) 9).
Proof.
  intro H. specialize (H (repeat (0, Plain) 5) (0, Plain) (repeat (0, Plain) 3) eq_refl).
  unfold safe_close in H. cbn [fst] in H.
  destruct (H (Thread [CUnsub 1 (Some 0)] (PUnsubClose 0 0) [RChan 0; RView 1]) 0 0) as [_ H2];
    [vm_compute; reflexivity|vm_compute; reflexivity|].
  apply (H2 1 (PsObj [0] [] None None 0%Z false 0%Z)); [discriminate|vm_compute; reflexivity|left; reflexivity].
Qed.
(* and likewise the stale-view publish history (second known finding) *)
Lemma stale_view_not_safe :
  ~ safe_sched (init 0%Z false 0%Z stale_view_progs) (repeat (0, Plain) 9).
Proof.
  intro H. specialize (H (repeat (0, Plain) 5) (0, Plain) (repeat (0, Plain) 3) eq_refl).
  unfold safe_close in H. cbn [fst] in H.
  destruct (H (Thread [CPubOne Sync 1 1%Z] (PUnsubClose 0 0) [RChan 0; RView 1]) 0 0) as [_ H2];
    [vm_compute; reflexivity|vm_compute; reflexivity|].
  apply (H2 1 (PsObj [0] [] None None 0%Z false 0%Z)); [discriminate|vm_compute; reflexivity|left; reflexivity].
Qed.

(* ------------------------------------------------------------------ *)
(* A view carries its parent's timeout configuration, in every schedule *)
(* ------------------------------------------------------------------ *)
Definition vcfg_inv (c : config) : Prop :=
  (forall t th o clone, nth_error (c_threads c) t = Some th -> th_pc th = PWithOnlyU o clone ->
     ocfg c o = Some (o_timeout clone, o_cb clone)) /\
  (forall t n o v vsubs subs1, In (EViewRet t n o v vsubs subs1) (c_trace c) ->
     ocfg c v = ocfg c o /\ ocfg c o <> None).

Lemma vcfg_inv_step c t th c' :
  c_panic c = None -> nth_error (c_threads c) t = Some th -> trans c t th c' -> vcfg_inv c -> vcfg_inv c'.
Proof.
  intros Hp Ht T (V1 & V2).
  pose proof (fun o x => ocfg_step c t th c' o x T) as OS.
  assert (V1' : forall t th o clone, nth_error (c_threads c) t = Some th -> th_pc th = PWithOnlyU o clone ->
     ocfg c' o = Some (o_timeout clone, o_cb clone)) by (intros; eapply OS; eauto).
  assert (V2' : forall t n o v vsubs subs1, In (EViewRet t n o v vsubs subs1) (c_trace c) ->
     ocfg c' v = ocfg c' o /\ ocfg c' o <> None).
  { intros t0 n o v a b Hi. destruct (V2 _ _ _ _ _ _ Hi) as [E N].
    destruct (ocfg c o) as [x|] eqn:Eo; [|congruence]. rewrite (OS o x Eo), (OS v x E). split; congruence. }
  clear V1 V2. unfold vcfg_inv. remember (ocfg c') as oc eqn:Eoc.
  assert (OC : forall o ob, nth_error (c_objs c) o = Some ob -> oc o = Some (o_timeout ob, o_cb ob)).
  { intros o ob Ho. apply OS. unfold ocfg. rewrite Ho. reflexivity. }
  assert (Lt : t < length (c_threads c)) by (eapply nth_error_some_lt; eauto).
  destruct T; try match goal with S : send_trans _ _ _ _ _ _ _ _ _ _ |- _ => inv_send S end; norm; split.
  all: try (intros xt xth xo xcl Hxt Hxh; lookup Hxt; try (solve [eauto]);
            cbn [th_pc] in Hxh; unfold pub_pc, after_send in Hxh;
            try (match type of Hxh with context [match ?w with _ => _ end] => destruct w end);
            try (match type of Hxh with context [if ?b then _ else _] => destruct b end);
            try discriminate;
            try (match goal with Hr : recv_target _ = Some _ |- _ =>
                   first [ destruct (proj1 (withonly_pc_recv _ _ _ _ _ Hr) Hxh) | destruct (proj2 (withonly_pc_recv _ _ 0%Z _ _ Hr) Hxh) ] end); fail).
  all: try (intros xt xn xo xv xa xb Hxi; cbn [In] in Hxi; repeat (destruct Hxi as [Hxi|Hxi]; [discriminate|]); eauto; fail).
  - (* WithOnlyStart *)
    intros xt xth xo xcl Hxt Hxh; lookup Hxt; [|eauto]. cbn [th_pc] in Hxh. injection Hxh as <- <-. cbn. eauto.
  - (* WithOnlyU *)
    intros xt xn xo xv xa xb [E|Hxi]; [|eauto]. injection E as <- <- <- <- <- <-.
    assert (Hv : oc (length (c_objs c)) = Some (o_timeout clone, o_cb clone)).
    { rewrite Eoc. unfold ocfg. norm. rewrite nth_error_app2 by (rewrite upd_length; lia).
      rewrite upd_length, Nat.sub_diag. reflexivity. }
    rewrite Hv, (V1' _ _ _ _ Ht H). split; [reflexivity|discriminate].
Qed.

Lemma vcfg_inv_run timeout cb defbuf progs s : vcfg_inv (run (init timeout cb defbuf progs) s).
Proof.
  apply run_lift; [exact vcfg_inv_step|]. split.
  - intros t th o cl Ht E. apply init_threads_pc in Ht as [E' _]. congruence.
  - intros ? ? ? ? ? ? [].
Qed.

(* the view returned by a WithOnly call has, from then on, the PubTimeoutAfter and the
   OnPubTimeout setting of its parent *)
Lemma view_config timeout cb defbuf progs s t n o v vsubs subs1 :
  let c := run (init timeout cb defbuf progs) s in
  In (EViewRet t n o v vsubs subs1) (c_trace c) -> ocfg c v = ocfg c o /\ ocfg c o <> None.
Proof. intros c H. destruct (vcfg_inv_run timeout cb defbuf progs s) as [_ V2]. eauto. Qed.

(* ------------------------------------------------------------------ *)
(* The mirrored stale-view histories (known findings 4 and 5)           *)
(* ------------------------------------------------------------------ *)
(* s := SubBuf(1); v := WithOnly(s); Unsub(s) THROUGH v; then on the parent, which still lists s:
   PubSync(1) sends on the closed channel, Unsub(s) closes it again *)
Definition view_first_pub_progs : list (list call) :=
  [[CSubBuf 0 1%Z; CWithOnly 0 (Some 0); CUnsub 1 (Some 0); CPubOne Sync 0 1%Z]].
Definition view_first_unsub_progs : list (list call) :=
  [[CSubBuf 0 1%Z; CWithOnly 0 (Some 0); CUnsub 1 (Some 0); CUnsub 0 (Some 0)]].
Lemma view_first_pub_panic_reachable :
  c_panic (run (init 0%Z false 0%Z view_first_pub_progs) (repeat (0, Plain) 9)) = Some PSendOnClosed.
Proof. vm_compute. reflexivity. Qed.
Lemma view_first_unsub_panic_reachable :
  c_panic (run (init 0%Z false 0%Z view_first_unsub_progs) (repeat (0, Plain) 9)) = Some PCloseOfClosed.
Proof. vm_compute. reflexivity. Qed.

(* excluded by hypothesis (b): when the view's Unsub closes the channel (6th step), the parent lists it *)
Lemma view_first_pub_not_safe :
  ~ safe_sched (init 0%Z false 0%Z view_first_pub_progs) (repeat (0, Plain) 9).
Proof.
  intro H. specialize (H (repeat (0, Plain) 5) (0, Plain) (repeat (0, Plain) 3) eq_refl).
  unfold safe_close in H. cbn [fst] in H.
  destruct (H (Thread [CPubOne Sync 0 1%Z] (PUnsubClose 1 0) [RChan 0; RView 1]) 1 0) as [_ H2];
    [vm_compute; reflexivity|vm_compute; reflexivity|].
  apply (H2 0 (PsObj [0] [] None None 0%Z false 0%Z)); [discriminate|vm_compute; reflexivity|left; reflexivity].
Qed.
Lemma view_first_unsub_not_safe :
  ~ safe_sched (init 0%Z false 0%Z view_first_unsub_progs) (repeat (0, Plain) 9).
Proof.
  intro H. specialize (H (repeat (0, Plain) 5) (0, Plain) (repeat (0, Plain) 3) eq_refl).
  unfold safe_close in H. cbn [fst] in H.
  destruct (H (Thread [CUnsub 0 (Some 0)] (PUnsubClose 1 0) [RChan 0; RView 1]) 1 0) as [_ H2];
    [vm_compute; reflexivity|vm_compute; reflexivity|].
  apply (H2 0 (PsObj [0] [] None None 0%Z false 0%Z)); [discriminate|vm_compute; reflexivity|left; reflexivity].
Qed.
