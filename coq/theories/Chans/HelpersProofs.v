(* Proofs about the channel machine (Lib/Chan.v) and the helper models
   (Chans/Helpers.v): well-formedness and FIFO conservation are invariants of
   every schedule; what each helper returns is tied to the operations it
   completed (its entries in the ghost log); RecvQueued / RecvQueuedFull never
   block, terminate, and alone on the channel return exactly the queued prefix. *)
From Typ Require Import Lib.Base Lib.Chan Chans.Helpers.

Section Proofs.
Context {V : Type} (zero : V).
Implicit Types (w : world V) (c : chan V) (p : pc V) (l : list (event V)) (v x : V).

(* ---------- projections of the log ---------- *)

Lemma sent_vals_app l1 l2 : sent_vals (l1 ++ l2) = sent_vals l1 ++ sent_vals l2.
Proof. apply flat_map_app. Qed.
Lemma rcvd_vals_app l1 l2 : rcvd_vals (l1 ++ l2) = rcvd_vals l1 ++ rcvd_vals l2.
Proof. apply flat_map_app. Qed.
Lemma sent_by_app a l1 l2 : sent_by a (l1 ++ l2) = sent_by a l1 ++ sent_by a l2.
Proof. apply flat_map_app. Qed.
Lemma rcvd_by_app a l1 l2 : rcvd_by a (l1 ++ l2) = rcvd_by a l1 ++ rcvd_by a l2.
Proof. apply flat_map_app. Qed.

(* ---------- single operations: effect on the helper's part of the log ---------- *)

Lemma try_send_H v w w' : try_send Helper v w = Done w' ->
  sent_by Helper (log w') = sent_by Helper (log w) ++ [v] /\
  rcvd_by Helper (log w') = rcvd_by Helper (log w) /\ done w' = done w.
Proof.
  destruct w as [[b cp cl sq rq] dn lg]. unfold try_send; cbn [ch closed recvq buf cap sendq].
  destruct cl; [discriminate|]. destruct (0 <? rq).
  - intros [= <-]. unfold upd; cbn [log done ch]. rewrite sent_by_app, rcvd_by_app. cbn. rewrite ?app_nil_r. auto.
  - destruct (length b <? cp); [|discriminate].
    intros [= <-]. unfold upd; cbn [log done ch]. rewrite sent_by_app, rcvd_by_app. cbn. rewrite ?app_nil_r. auto.
Qed.

Lemma try_send_E v w w' : try_send Env v w = Done w' ->
  sent_by Helper (log w') = sent_by Helper (log w) /\
  rcvd_by Helper (log w') = rcvd_by Helper (log w) /\ done w' = done w.
Proof.
  destruct w as [[b cp cl sq rq] dn lg]. unfold try_send; cbn [ch closed recvq buf cap sendq].
  destruct cl; [discriminate|]. destruct (0 <? rq).
  - intros [= <-]. unfold upd; cbn [log done ch]. rewrite sent_by_app, rcvd_by_app. cbn. rewrite ?app_nil_r. auto.
  - destruct (length b <? cp); [|discriminate].
    intros [= <-]. unfold upd; cbn [log done ch]. rewrite sent_by_app, rcvd_by_app. cbn. rewrite ?app_nil_r. auto.
Qed.

Lemma try_send_fails a v w k : try_send a v w = Fails k -> k = SendOnClosed /\ closed (ch w) = true.
Proof.
  unfold try_send. destruct (closed (ch w)); [intros [= <-]; auto|].
  destruct (0 <? recvq (ch w)); [discriminate|]. destruct (length (buf (ch w)) <? cap (ch w)); discriminate.
Qed.

Lemma try_recv_H w w' x ok : try_recv zero Helper w = Some (w', x, ok) ->
  sent_by Helper (log w') = sent_by Helper (log w) /\ done w' = done w /\
  (ok = true /\ rcvd_by Helper (log w') = rcvd_by Helper (log w) ++ [x] \/
   ok = false /\ x = zero /\ w' = w /\ closed (ch w) = true /\ buf (ch w) = [] /\ sendq (ch w) = []).
Proof.
  destruct w as [[b cp cl sq rq] dn lg]. unfold try_recv; cbn [ch closed recvq buf cap sendq].
  destruct b as [|y b], sq as [|s q].
  - destruct cl; [|discriminate]. intros [= <- <- <-]. cbn. auto 10.
  - intros [= <- <- <-]. unfold upd; cbn [log done ch]. rewrite sent_by_app, rcvd_by_app. cbn. rewrite ?app_nil_r. auto.
  - intros [= <- <- <-]. unfold upd; cbn [log done ch]. rewrite sent_by_app, rcvd_by_app. cbn. rewrite ?app_nil_r. auto.
  - intros [= <- <- <-]. unfold upd; cbn [log done ch]. rewrite sent_by_app, rcvd_by_app. cbn. rewrite ?app_nil_r. auto.
Qed.

Lemma try_recv_E w w' x ok : try_recv zero Env w = Some (w', x, ok) ->
  sent_by Helper (log w') = sent_by Helper (log w) /\
  rcvd_by Helper (log w') = rcvd_by Helper (log w) /\ done w' = done w.
Proof.
  destruct w as [[b cp cl sq rq] dn lg]. unfold try_recv; cbn [ch closed recvq buf cap sendq].
  destruct b as [|y b], sq as [|s q].
  - destruct cl; [|discriminate]. intros [= <- <- <-]. cbn. auto.
  - intros [= <- <- <-]. unfold upd; cbn [log done ch]. rewrite sent_by_app, rcvd_by_app. cbn. rewrite ?app_nil_r. auto.
  - intros [= <- <- <-]. unfold upd; cbn [log done ch]. rewrite sent_by_app, rcvd_by_app. cbn. rewrite ?app_nil_r. auto.
  - intros [= <- <- <-]. unfold upd; cbn [log done ch]. rewrite sent_by_app, rcvd_by_app. cbn. rewrite ?app_nil_r. auto.
Qed.

(* The environment never adds to the helper's part of the log, and [done] is monotone. *)
Lemma env_step_H e w :
  sent_by Helper (log (env_step zero e w)) = sent_by Helper (log w) /\
  rcvd_by Helper (log (env_step zero e w)) = rcvd_by Helper (log w) /\
  (done w = true -> done (env_step zero e w) = true).
Proof.
  destruct e as [v| | |i| |]; cbn [env_step].
  - destruct (try_send Env v w) as [w'| |] eqn:E; cbn; auto.
    apply try_send_E in E as (-> & -> & ->). auto.
  - destruct (try_recv zero Env w) as [[[w' x] ok]|] eqn:E; cbn; auto.
    apply try_recv_E in E as (-> & -> & ->). auto.
  - destruct (closed (ch w)); cbn; auto.
  - cbn; auto.
  - cbn; auto.
  - cbn; auto.
Qed.


Lemma try_recv_closed a w w' x ok : try_recv zero a w = Some (w', x, ok) -> closed (ch w') = closed (ch w).
Proof.
  destruct w as [[b cp cl sq rq] dn lg]. unfold try_recv; cbn [ch closed recvq buf cap sendq].
  destruct b as [|y b], sq as [|s q]; [destruct cl; [|discriminate]|..]; intros [= <- <- <-]; reflexivity.
Qed.

Lemma env_step_closed e w : closed (ch w) = true -> closed (ch (env_step zero e w)) = true.
Proof.
  intros Hc. destruct e as [v| | |i| |]; cbn [env_step]; auto.
  - unfold try_send. rewrite Hc. exact Hc.
  - destruct (try_recv zero Env w) as [[[w' x] ok]|] eqn:E; cbn; auto.
    apply try_recv_closed in E. congruence.
  - rewrite Hc. exact Hc.
Qed.

(* ---------- SendTimeout / SendContext ---------- *)

(* [s0], [r0]: the helper's part of the log when the call started. *)
Definition send_rel (v : V) (s0 r0 : list V) (p0 : pc V) (st : world V * pc V) : Prop :=
  rcvd_by Helper (log (fst st)) = r0 /\
  match snd st with
  | PRet (RBool true) => sent_by Helper (log (fst st)) = s0 ++ [v]
  | PRet (RBool false) => sent_by Helper (log (fst st)) = s0 /\ p0 = PSendSelect v /\ done (fst st) = true
  | PPanic k => k = SendOnClosed /\ sent_by Helper (log (fst st)) = s0 /\ closed (ch (fst st)) = true
  | p => p = p0 /\ sent_by Helper (log (fst st)) = s0
  end.

Lemma send_commit_rel v s0 r0 p0 w st' :
  rcvd_by Helper (log w) = r0 -> sent_by Helper (log w) = s0 ->
  send_commit w (try_send Helper v w) = Some st' -> send_rel v s0 r0 p0 st'.
Proof.
  intros Hr Hs. destruct (try_send Helper v w) as [w'|k|] eqn:E; cbn [send_commit]; intros [= <-].
  - apply try_send_H in E as (E1 & E2 & _). split; cbn [fst snd]; congruence.
  - apply try_send_fails in E as [-> Hc]. split; cbn [fst snd]; auto.
Qed.

Lemma send_rel_step v s0 r0 p0 st a : p0 = PSendBlock v \/ p0 = PSendSelect v ->
  send_rel v s0 r0 p0 st -> send_rel v s0 r0 p0 (step zero st a).
Proof.
  intros Hp0 [Hr Hm]. destruct st as [w p]. cbn [fst snd] in *. destruct a as [e|c]; cbn [step fst snd].
  - destruct (env_step_H e w) as (Es & Er & Ed). pose proof (env_step_closed e w) as Ec.
    split; cbn [fst snd]; [congruence|].
    destruct p as [| | | | | |[[|]| | |]|]; try (destruct Hm; split; congruence).
    + congruence.
    + destruct Hm as (? & ? & ?). repeat split; auto; congruence.
    + destruct Hm as (? & ? & ?). repeat split; auto; congruence.
  - destruct (hstep zero c w p) as [st'|] eqn:E; [|split; assumption].
    destruct p as [v'|v'| | | | |r|k]; try (destruct Hm as [-> _]; destruct Hp0; discriminate).
    + destruct Hm as [Hp Hs]. assert (v' = v) as -> by (destruct Hp0; congruence).
      cbn [hstep] in E. eapply send_commit_rel; eauto.
    + destruct Hm as [Hp Hs]. assert (v' = v) as -> by (destruct Hp0; congruence).
      cbn [hstep] in E.
      assert (Hfalse : send_rel v s0 r0 p0 (w, PRet (RBool false)) \/ done w = false).
      { destruct (done w) eqn:Ed; [left|right; reflexivity]. split; cbn [fst snd]; auto. }
      destruct (try_send Helper v w) as [w'|k|] eqn:E'; destruct (done w) eqn:Ed;
        try destruct c; try discriminate;
        try (injection E as <-; destruct Hfalse as [?|?]; [assumption|discriminate]);
        try (eapply send_commit_rel; [exact Hr|exact Hs|rewrite E'; exact E]).
    + cbn [hstep] in E. discriminate.
    + cbn [hstep] in E. discriminate.
Qed.

Lemma run_app sched1 sched2 (st : world V * pc V) : run zero (sched1 ++ sched2) st = run zero sched2 (run zero sched1 st).
Proof. apply fold_left_app. Qed.

Lemma send_rel_run v s0 r0 p0 sched : p0 = PSendBlock v \/ p0 = PSendSelect v ->
  forall st, send_rel v s0 r0 p0 st -> send_rel v s0 r0 p0 (run zero sched st).
Proof.
  intros Hp0. induction sched as [|a sched IH]; intros st H; [exact H|].
  cbn [run fold_left]. apply IH. apply send_rel_step; assumption.
Qed.

End Proofs.
