(* Proofs about the channel machine (Lib/Chan.v) and the helper models
   (Chans/Helpers.v): well-formedness and FIFO conservation are invariants of
   every schedule; what each helper returns is tied to the operations it
   completed (its entries in the ghost log); RecvQueued / RecvQueuedFull never
   block, terminate, and alone on the channel return exactly the queued prefix. *)
From Coq Require Import Permutation.
From Typ Require Import Lib.Base Lib.Chan Chans.Helpers.

Section Proofs.
Context {V : Type} (zero : V).
Implicit Types (w : world V) (p : pc V) (v x : V).

(* ---------- projections of the log ---------- *)

Lemma sent_vals_app (l1 l2 : list (event V)) : sent_vals (l1 ++ l2) = sent_vals l1 ++ sent_vals l2.
Proof. apply flat_map_app. Qed.
Lemma rcvd_vals_app (l1 l2 : list (event V)) : rcvd_vals (l1 ++ l2) = rcvd_vals l1 ++ rcvd_vals l2.
Proof. apply flat_map_app. Qed.
Lemma sent_by_app a (l1 l2 : list (event V)) : sent_by a (l1 ++ l2) = sent_by a l1 ++ sent_by a l2.
Proof. apply flat_map_app. Qed.
Lemma rcvd_by_app a (l1 l2 : list (event V)) : rcvd_by a (l1 ++ l2) = rcvd_by a l1 ++ rcvd_by a l2.
Proof. apply flat_map_app. Qed.

(* ---------- single operations: effect on the helper's part of the log ---------- *)

Lemma try_send_H v w w' : try_send Helper v w = Done w' ->
  sent_by Helper (log w') = sent_by Helper (log w) ++ [v] /\
  rcvd_by Helper (log w') = rcvd_by Helper (log w) /\ done w' = done w.
Proof.
  destruct w as [[b cp cl sq rq] dn lg]. unfold try_send; cbn [ch closed recvq buf cap sendq].
  destruct cl; [discriminate|]. destruct (0 <? rq).
  - intros [= <-]. unfold upd; cbn [log done ch]. rewrite sent_by_app, rcvd_by_app. cbn. rewrite ?app_nil_r. auto.
  - destruct (length b <? cp); [|discriminate].
    intros [= <-]. unfold upd; cbn [log done ch]. rewrite sent_by_app, rcvd_by_app. cbn. rewrite ?app_nil_r. auto.
Qed.

Lemma try_send_E v w w' : try_send Env v w = Done w' ->
  sent_by Helper (log w') = sent_by Helper (log w) /\
  rcvd_by Helper (log w') = rcvd_by Helper (log w) /\ done w' = done w.
Proof.
  destruct w as [[b cp cl sq rq] dn lg]. unfold try_send; cbn [ch closed recvq buf cap sendq].
  destruct cl; [discriminate|]. destruct (0 <? rq).
  - intros [= <-]. unfold upd; cbn [log done ch]. rewrite sent_by_app, rcvd_by_app. cbn. rewrite ?app_nil_r. auto.
  - destruct (length b <? cp); [|discriminate].
    intros [= <-]. unfold upd; cbn [log done ch]. rewrite sent_by_app, rcvd_by_app. cbn. rewrite ?app_nil_r. auto.
Qed.

Lemma try_send_fails a v w k : try_send a v w = Fails k -> k = SendOnClosed /\ closed (ch w) = true.
Proof.
  unfold try_send. destruct (closed (ch w)); [intros [= <-]; auto|].
  destruct (0 <? recvq (ch w)); [discriminate|]. destruct (length (buf (ch w)) <? cap (ch w)); discriminate.
Qed.

Lemma try_recv_H w w' x ok : try_recv zero Helper w = Some (w', x, ok) ->
  sent_by Helper (log w') = sent_by Helper (log w) /\ done w' = done w /\
  (ok = true /\ rcvd_by Helper (log w') = rcvd_by Helper (log w) ++ [x] \/
   ok = false /\ x = zero /\ w' = w /\ closed (ch w) = true /\ buf (ch w) = [] /\ sendq (ch w) = []).
Proof.
  destruct w as [[b cp cl sq rq] dn lg]. unfold try_recv; cbn [ch closed recvq buf cap sendq].
  destruct b as [|y b], sq as [|s q].
  - destruct cl; [|discriminate]. intros [= <- <- <-]. cbn. auto 10.
  - intros [= <- <- <-]. unfold upd; cbn [log done ch]. rewrite sent_by_app, rcvd_by_app. cbn. rewrite ?app_nil_r. auto.
  - intros [= <- <- <-]. unfold upd; cbn [log done ch]. rewrite sent_by_app, rcvd_by_app. cbn. rewrite ?app_nil_r. auto.
  - intros [= <- <- <-]. unfold upd; cbn [log done ch]. rewrite sent_by_app, rcvd_by_app. cbn. rewrite ?app_nil_r. auto.
Qed.

Lemma try_recv_E w w' x ok : try_recv zero Env w = Some (w', x, ok) ->
  sent_by Helper (log w') = sent_by Helper (log w) /\
  rcvd_by Helper (log w') = rcvd_by Helper (log w) /\ done w' = done w.
Proof.
  destruct w as [[b cp cl sq rq] dn lg]. unfold try_recv; cbn [ch closed recvq buf cap sendq].
  destruct b as [|y b], sq as [|s q].
  - destruct cl; [|discriminate]. intros [= <- <- <-]. cbn. auto.
  - intros [= <- <- <-]. unfold upd; cbn [log done ch]. rewrite sent_by_app, rcvd_by_app. cbn. rewrite ?app_nil_r. auto.
  - intros [= <- <- <-]. unfold upd; cbn [log done ch]. rewrite sent_by_app, rcvd_by_app. cbn. rewrite ?app_nil_r. auto.
  - intros [= <- <- <-]. unfold upd; cbn [log done ch]. rewrite sent_by_app, rcvd_by_app. cbn. rewrite ?app_nil_r. auto.
Qed.

(* The environment never adds to the helper's part of the log, and [done] is monotone. *)
Lemma env_step_H e w :
  sent_by Helper (log (env_step zero e w)) = sent_by Helper (log w) /\
  rcvd_by Helper (log (env_step zero e w)) = rcvd_by Helper (log w) /\
  (done w = true -> done (env_step zero e w) = true).
Proof.
  destruct e as [v| | |i| |]; cbn [env_step].
  - destruct (try_send Env v w) as [w'| |] eqn:E; cbn; auto.
    apply try_send_E in E as (-> & -> & ->). auto.
  - destruct (try_recv zero Env w) as [[[w' x] ok]|] eqn:E; cbn; auto.
    apply try_recv_E in E as (-> & -> & ->). auto.
  - destruct (closed (ch w)); cbn; auto.
  - cbn; auto.
  - cbn; auto.
  - cbn; auto.
Qed.


Lemma try_recv_closed a w w' x ok : try_recv zero a w = Some (w', x, ok) -> closed (ch w') = closed (ch w).
Proof.
  destruct w as [[b cp cl sq rq] dn lg]. unfold try_recv; cbn [ch closed recvq buf cap sendq].
  destruct b as [|y b], sq as [|s q]; [destruct cl; [|discriminate]|..]; intros [= <- <- <-]; reflexivity.
Qed.

Lemma env_step_closed e w : closed (ch w) = true -> closed (ch (env_step zero e w)) = true.
Proof.
  intros Hc. destruct e as [v| | |i| |]; cbn [env_step]; auto.
  - unfold try_send. rewrite Hc. exact Hc.
  - destruct (try_recv zero Env w) as [[[w' x] ok]|] eqn:E; cbn; auto.
    apply try_recv_closed in E. congruence.
  - rewrite Hc. exact Hc.
Qed.

(* ---------- SendTimeout / SendContext ---------- *)

(* [s0], [r0]: the helper's part of the log when the call started. *)
Definition send_rel (v : V) (s0 r0 : list V) (p0 : pc V) (st : world V * pc V) : Prop :=
  rcvd_by Helper (log (fst st)) = r0 /\
  match snd st with
  | PRet (RBool true) => sent_by Helper (log (fst st)) = s0 ++ [v]
  | PRet (RBool false) => sent_by Helper (log (fst st)) = s0 /\ p0 = PSendSelect v /\ done (fst st) = true
  | PPanic k => k = SendOnClosed /\ sent_by Helper (log (fst st)) = s0 /\ closed (ch (fst st)) = true
  | p => p = p0 /\ sent_by Helper (log (fst st)) = s0
  end.

Lemma send_commit_rel v s0 r0 p0 w st' :
  rcvd_by Helper (log w) = r0 -> sent_by Helper (log w) = s0 ->
  send_commit w (try_send Helper v w) = Some st' -> send_rel v s0 r0 p0 st'.
Proof.
  intros Hr Hs. destruct (try_send Helper v w) as [w'|k|] eqn:E; cbn [send_commit]; intros [= <-].
  - apply try_send_H in E as (E1 & E2 & _). split; cbn [fst snd]; congruence.
  - apply try_send_fails in E as [-> Hc]. split; cbn [fst snd]; auto.
Qed.

Lemma send_rel_step v s0 r0 p0 st a : p0 = PSendBlock v \/ p0 = PSendSelect v ->
  send_rel v s0 r0 p0 st -> send_rel v s0 r0 p0 (step zero st a).
Proof.
  intros Hp0 [Hr Hm]. destruct st as [w p]. cbn [fst snd] in *. destruct a as [e|c]; cbn [step fst snd].
  - destruct (env_step_H e w) as (Es & Er & Ed). pose proof (env_step_closed e w) as Ec.
    split; cbn [fst snd]; [congruence|].
    destruct p as [| | | | | |[[|]| | |]|]; try (destruct Hm; split; congruence).
    + congruence.
    + destruct Hm as (? & ? & ?). repeat split; auto; congruence.
    + destruct Hm as (? & ? & ?). repeat split; auto; congruence.
  - destruct (hstep zero c w p) as [st'|] eqn:E; [|split; assumption].
    destruct p as [v'|v'| | | | |r|k]; try (destruct Hm as [Hm _]; subst p0; destruct Hp0; discriminate).
    + destruct Hm as [Hp Hs]. assert (v' = v) as -> by (destruct Hp0; congruence).
      cbn [hstep] in E. eapply send_commit_rel; eauto.
    + destruct Hm as [Hp Hs]. assert (v' = v) as -> by (destruct Hp0; congruence).
      cbn [hstep] in E.
      assert (Hfalse : send_rel v s0 r0 p0 (w, PRet (RBool false)) \/ done w = false).
      { destruct (done w) eqn:Ed; [left|right; reflexivity]. split; cbn [fst snd]; auto. }
      destruct (try_send Helper v w) as [w'|k|] eqn:E'; destruct (done w) eqn:Ed;
        try destruct c; try discriminate;
        try (injection E as <-; destruct Hfalse as [?|?]; [assumption|discriminate]);
        try (eapply send_commit_rel; [exact Hr|exact Hs|rewrite E'; exact E]).
    + cbn [hstep] in E. discriminate.
    + cbn [hstep] in E. discriminate.
Qed.

Lemma run_app sched1 sched2 (st : world V * pc V) : run zero (sched1 ++ sched2) st = run zero sched2 (run zero sched1 st).
Proof. apply fold_left_app. Qed.

Lemma send_rel_run v s0 r0 p0 sched : p0 = PSendBlock v \/ p0 = PSendSelect v ->
  forall st, send_rel v s0 r0 p0 st -> send_rel v s0 r0 p0 (run zero sched st).
Proof.
  intros Hp0. induction sched as [|a sched IH]; intros st H; [exact H|].
  cbn [run fold_left]. apply IH. apply send_rel_step; assumption.
Qed.


Lemma send_entry v timeout : SendTimeout v timeout = PSendBlock v \/ SendTimeout v timeout = PSendSelect v.
Proof. unfold SendTimeout. destruct (timeout <=? 0)%Z; auto. Qed.

(* What a send helper has returned after any schedule, against what it did to the channel. *)
Definition send_outcome (v : V) (p0 : pc V) (w : world V) (st' : world V * pc V) : Prop :=
  let w' := fst st' in
  rcvd_by Helper (log w') = rcvd_by Helper (log w) /\
  ((snd st' = p0 /\ sent_by Helper (log w') = sent_by Helper (log w)) \/
   (snd st' = PRet (RBool true) /\ sent_by Helper (log w') = sent_by Helper (log w) ++ [v]) \/
   (snd st' = PRet (RBool false) /\ sent_by Helper (log w') = sent_by Helper (log w) /\
      p0 = PSendSelect v /\ done w' = true) \/
   (snd st' = PPanic SendOnClosed /\ sent_by Helper (log w') = sent_by Helper (log w) /\
      closed (ch w') = true)).

Lemma send_iff_handed_pc sched w v p0 : p0 = PSendBlock v \/ p0 = PSendSelect v ->
  send_outcome v p0 w (run zero sched (w, p0)).
Proof.
  intros Hp0.
  assert (H0 : send_rel v (sent_by Helper (log w)) (rcvd_by Helper (log w)) p0 (w, p0)).
  { split; cbn [fst snd]; [reflexivity|]. destruct Hp0 as [-> | ->]; auto. }
  apply (send_rel_run _ _ _ _ sched Hp0) in H0.
  destruct (run zero sched (w, p0)) as [w' p']. destruct H0 as [Hr Hm]. cbn [fst snd] in *.
  split; [exact Hr|]. cbn [fst snd].
  destruct p' as [| | | | | |[[|]| | |]|]; try (left; destruct Hm; split; congruence).
  - right; left; auto.
  - right; right; left. tauto.
  - right; right; right. destruct Hm as (-> & ? & ?). auto.
Qed.

Theorem send_iff_handed sched w v p0 :
  (exists timeout, p0 = SendTimeout v timeout) \/ p0 = SendContext v ->
  send_outcome v p0 w (run zero sched (w, p0)).
Proof.
  intros H. apply send_iff_handed_pc. destruct H as [[t ->] | ->]; [apply send_entry | right; reflexivity].
Qed.

(* timeout <= 0: there is no timer branch: false is never returned, whatever the timer does *)
Theorem send_no_limit sched w v timeout : (timeout <= 0)%Z ->
  snd (run zero sched (w, SendTimeout v timeout)) <> PRet (RBool false).
Proof.
  intros Ht E. assert (Hb : SendTimeout v timeout = PSendBlock v).
  { unfold SendTimeout. destruct (Z.leb_spec timeout 0); [reflexivity|lia]. }
  destruct (send_iff_handed_pc sched w v (SendTimeout v timeout)) as [_ H]; [left; exact Hb|].
  rewrite Hb in *.
  destruct H as [[H _]|[[H _]|[(_ & _ & H & _)|[H _]]]]; congruence.
Qed.


(* ---------- well-formedness and FIFO conservation are invariants ---------- *)

Ltac wf_crush :=
  unfold wf in *; cbn [buf cap closed sendq recvq ch upd set_chan length] in *;
  rewrite ?app_length in *; cbn [length] in *;
  repeat match goal with
  | H : _ /\ _ |- _ => destruct H
  end;
  repeat split; intros;
  repeat match goal with
  | H : ?x :: ?l <> [] -> _ |- _ => specialize (H ltac:(discriminate))
  | H : true = true -> _ |- _ => specialize (H eq_refl)
  | H : ?P -> _, H' : ?P |- _ => specialize (H H')
  | H : 0 < _ -> _ |- _ => specialize (H ltac:(lia))
  | H : _ /\ _ |- _ => destruct H
  | H : _ ++ [_] = [] |- _ => apply app_eq_nil in H; destruct H; discriminate
  end;
  try discriminate; try congruence; try lia; auto.

Lemma try_send_wf a v w w' : try_send a v w = Done w' -> wf (ch w) -> wf (ch w').
Proof.
  destruct w as [[b cp cl sq rq] dn lg]. unfold try_send; cbn [ch closed recvq buf cap sendq].
  destruct cl; [discriminate|]. destruct (Nat.ltb_spec 0 rq) as [Hq|Hq].
  - intros [= <-] H. wf_crush.
  - destruct (Nat.ltb_spec (length b) cp) as [Hl|Hl]; [|discriminate].
    intros [= <-] H. wf_crush.
Qed.

Lemma try_send_blocks a v w : try_send a v w = WouldBlock ->
  closed (ch w) = false /\ recvq (ch w) = 0 /\ cap (ch w) <= length (buf (ch w)).
Proof.
  unfold try_send. destruct (closed (ch w)); [discriminate|].
  destruct (Nat.ltb_spec 0 (recvq (ch w))); [discriminate|].
  destruct (Nat.ltb_spec (length (buf (ch w))) (cap (ch w))); [discriminate|]. intros _. repeat split; lia.
Qed.

Lemma try_recv_wf a w w' x ok : try_recv zero a w = Some (w', x, ok) -> wf (ch w) -> wf (ch w').
Proof.
  destruct w as [[b cp cl sq rq] dn lg]. unfold try_recv; cbn [ch closed recvq buf cap sendq].
  destruct b as [|y b], sq as [|s q].
  - destruct cl; [|discriminate]. intros [= <- <- <-]. auto.
  - intros [= <- <- <-] H. wf_crush.
  - intros [= <- <- <-] H. wf_crush.
  - intros [= <- <- <-] H. wf_crush.
Qed.

Lemma try_recv_blocks a w : try_recv zero a w = None ->
  closed (ch w) = false /\ buf (ch w) = [] /\ sendq (ch w) = [].
Proof.
  unfold try_recv. destruct (buf (ch w)), (sendq (ch w)); try discriminate.
  destruct (closed (ch w)); [discriminate|]. auto.
Qed.

Lemma remove_nth_nil {A} i : @remove_nth A i [] = [].
Proof. unfold remove_nth. rewrite firstn_nil, skipn_nil. reflexivity. Qed.

Lemma env_step_wf e w : wf (ch w) -> wf (ch (env_step zero e w)).
Proof.
  intros H. destruct e as [v| | |i| |]; cbn [env_step].
  - destruct (try_send Env v w) as [w'|k|] eqn:E; auto.
    + eapply try_send_wf; eauto.
    + apply try_send_blocks in E as (E1 & E2 & E3).
      destruct w as [[b cp cl sq rq] dn lg]. cbn [ch closed recvq buf cap sendq] in *. subst. wf_crush.
  - destruct (try_recv zero Env w) as [[[w' x] ok]|] eqn:E.
    + eapply try_recv_wf; eauto.
    + apply try_recv_blocks in E as (E1 & E2 & E3).
      destruct w as [[b cp cl sq rq] dn lg]. cbn [ch closed recvq buf cap sendq] in *. subst. wf_crush.
  - destruct (closed (ch w)) eqn:Ec; auto.
    destruct w as [[b cp cl sq rq] dn lg]. cbn [ch closed recvq buf cap sendq] in *. subst. wf_crush.
  - destruct w as [[b cp cl sq rq] dn lg]. cbn [ch closed recvq buf cap sendq] in *.
    unfold wf in *; cbn [buf cap closed sendq recvq ch set_chan] in *.
    destruct H as (H1 & H2 & H3 & H4). repeat split; auto.
    + intros Hn. apply H2. intros ->. apply Hn. apply remove_nth_nil.
    + apply H3; assumption.
    + destruct (H3 H) as [_ ->]. apply remove_nth_nil.
    + destruct (H4 H) as [-> _]. apply remove_nth_nil.
    + apply H4; assumption.
  - destruct w as [[b cp cl sq rq] dn lg]. cbn [ch closed recvq buf cap sendq] in *.
    unfold wf in *; cbn [buf cap closed sendq recvq ch set_chan] in *.
    destruct H as (H1 & H2 & H3 & H4). repeat split; auto.
    + apply H3; lia.
    + apply H3; lia.
    + apply H4; assumption.
    + destruct (H4 H) as [_ ->]. reflexivity.
  - exact H.
Qed.

(* A helper step changes the world through at most one channel operation. *)
Lemma hstep_world c w p w' p' : hstep zero c w p = Some (w', p') ->
  w' = w \/ (exists v, try_send Helper v w = Done w') \/ (exists x ok, try_recv zero Helper w = Some (w', x, ok)).
Proof.
  assert (Hsc : forall v st, send_commit w (try_send Helper v w) = Some st ->
                fst st = w \/ try_send Helper v w = Done (fst st)).
  { intros v st. destruct (try_send Helper v w); cbn [send_commit]; intros [= <-]; cbn [fst]; auto. }
  destruct p as [v|v| | |b m|i bf|r|k]; cbn [hstep].
  - intros E. apply Hsc in E. cbn [fst] in E. destruct E; eauto.
  - destruct (try_send Helper v w) as [w1|k|] eqn:E1; destruct (done w); try destruct c; cbn [send_commit];
      intros [= <- <-] || discriminate; eauto.
  - destruct (try_recv zero Helper w) as [[[w1 x] ok]|] eqn:E1; [|discriminate]. intros [= <- <-]. eauto.
  - destruct (try_recv zero Helper w) as [[[w1 x] ok]|] eqn:E1; destruct (done w); try destruct c;
      intros [= <- <-] || discriminate; eauto.
  - destruct (Z.of_nat (length b) <? m)%Z; [|intros [= <- <-]; auto].
    destruct (try_recv zero Helper w) as [[[w1 x] ok]|] eqn:E1; [|intros [= <- <-]; auto].
    destruct ok; cbn [negb]; intros [= <- <-]; eauto.
  - destruct (i <? length bf); [|intros [= <- <-]; auto].
    destruct (try_recv zero Helper w) as [[[w1 x] ok]|] eqn:E1; [|intros [= <- <-]; auto].
    destruct ok; cbn [negb]; [destruct (set_nth i x bf)|]; intros [= <- <-]; eauto.
  - discriminate.
  - discriminate.
Qed.

Lemma step_wf a (st : world V * pc V) : wf (ch (fst st)) -> wf (ch (fst (step zero st a))).
Proof.
  destruct st as [w p]. cbn [fst]. intros H. destruct a as [e|c]; cbn [step fst snd].
  - apply env_step_wf; exact H.
  - destruct (hstep zero c w p) as [[w' p']|] eqn:E; cbn [fst]; [|exact H].
    apply hstep_world in E as [->|[[v E]|(x & ok & E)]]; auto.
    + eapply try_send_wf; eauto.
    + eapply try_recv_wf; eauto.
Qed.

Theorem run_wf sched : forall (st : world V * pc V), wf (ch (fst st)) -> wf (ch (fst (run zero sched st))).
Proof.
  induction sched as [|a sched IH]; intros st H; [exact H|].
  cbn [run fold_left]. apply IH. apply step_wf. exact H.
Qed.


Ltac cons_start :=
  unfold conserved in *; unfold upd, set_chan; cbn [log ch buf] in *;
  rewrite ?sent_vals_app, ?rcvd_vals_app; cbn [sent_vals rcvd_vals flat_map app]; rewrite ?app_nil_r.

Lemma try_send_cons b0 a v w w' : try_send a v w = Done w' -> wf (ch w) -> conserved b0 w -> conserved b0 w'.
Proof.
  destruct w as [[b cp cl sq rq] dn lg]. unfold try_send; cbn [ch closed recvq buf cap sendq].
  destruct cl; [discriminate|]. destruct (Nat.ltb_spec 0 rq) as [Hq|Hq].
  - intros [= <-] (_ & _ & H3 & _) H. cbn [recvq buf sendq] in H3. destruct (H3 Hq) as [-> _].
    cons_start. rewrite app_nil_r in H. rewrite app_assoc, H. reflexivity.
  - destruct (Nat.ltb_spec (length b) cp) as [Hl|Hl]; [|discriminate].
    intros [= <-] _ H. cons_start. rewrite !app_assoc, H. reflexivity.
Qed.

Lemma try_recv_cons b0 a w w' x ok : try_recv zero a w = Some (w', x, ok) -> conserved b0 w -> conserved b0 w'.
Proof.
  destruct w as [[b cp cl sq rq] dn lg]. unfold try_recv; cbn [ch closed recvq buf cap sendq].
  destruct b as [|y b], sq as [|s q].
  - destruct cl; [|discriminate]. intros [= <- <- <-]. auto.
  - intros [= <- <- <-] H. cons_start. rewrite app_nil_r in H. rewrite app_assoc, H. reflexivity.
  - intros [= <- <- <-] H. cons_start. rewrite H, <- app_assoc. reflexivity.
  - intros [= <- <- <-] H. cons_start. rewrite app_assoc, H, <- !app_assoc. reflexivity.
Qed.

Lemma env_step_cons b0 e w : wf (ch w) -> conserved b0 w -> conserved b0 (env_step zero e w).
Proof.
  intros Hw H. destruct e as [v| | |i| |]; cbn [env_step]; try exact H.
  - destruct (try_send Env v w) as [w'|k|] eqn:E; auto. eapply try_send_cons; eauto.
  - destruct (try_recv zero Env w) as [[[w' x] ok]|] eqn:E; auto. eapply try_recv_cons; eauto.
  - destruct (closed (ch w)); auto.
Qed.

Lemma step_cons b0 a (st : world V * pc V) :
  wf (ch (fst st)) -> conserved b0 (fst st) -> conserved b0 (fst (step zero st a)).
Proof.
  destruct st as [w p]. cbn [fst]. intros Hw H. destruct a as [e|c]; cbn [step fst snd].
  - apply env_step_cons; assumption.
  - destruct (hstep zero c w p) as [[w' p']|] eqn:E; cbn [fst]; [|exact H].
    apply hstep_world in E as [->|[[v E]|(x & ok & E)]]; auto.
    + eapply try_send_cons; eauto.
    + eapply try_recv_cons; eauto.
Qed.

(* FIFO conservation under every schedule, whatever the helper is and does. *)
Theorem run_conserved b0 sched : forall (st : world V * pc V),
  wf (ch (fst st)) -> conserved b0 (fst st) -> conserved b0 (fst (run zero sched st)).
Proof.
  induction sched as [|a sched IH]; intros st Hw H; [exact H|].
  cbn [run fold_left]. apply IH; [apply step_wf|apply step_cons]; assumption.
Qed.

(* the form used in Props: start with an empty log, buffer contents b0 *)
Theorem conservation sched c dn p :
  wf c ->
  let w' := fst (run zero sched (World c dn [], p)) in
  wf (ch w') /\ buf c ++ sent_vals (log w') = rcvd_vals (log w') ++ buf (ch w').
Proof.
  intros Hw. split.
  - apply (run_wf sched (World c dn [], p)). exact Hw.
  - apply (run_conserved (buf c) sched (World c dn [], p)); [exact Hw|].
    unfold conserved. cbn. rewrite app_nil_r. reflexivity.
Qed.


(* ---------- RecvTimeout / RecvContext ---------- *)

Lemma env_step_closed_empty e w : closed (ch w) = true -> buf (ch w) = [] ->
  closed (ch (env_step zero e w)) = true /\ buf (ch (env_step zero e w)) = [].
Proof.
  intros Hc Hb. split; [apply env_step_closed; exact Hc|].
  destruct w as [[b cp cl sq rq] dn lg]. cbn [ch closed buf] in *. subst.
  destruct e as [v| | |i| |]; cbn; try reflexivity.
  destruct sq; reflexivity.
Qed.

Definition recv_rel (s0 r0 : list V) (p0 : pc V) (st : world V * pc V) : Prop :=
  sent_by Helper (log (fst st)) = s0 /\
  match snd st with
  | PRet (RRecv x true) => rcvd_by Helper (log (fst st)) = r0 ++ [x]
  | PRet (RRecv x false) => x = zero /\ rcvd_by Helper (log (fst st)) = r0 /\
      (p0 = PRecvSelect /\ done (fst st) = true \/
       closed (ch (fst st)) = true /\ buf (ch (fst st)) = [])
  | p => p = p0 /\ rcvd_by Helper (log (fst st)) = r0
  end.

Lemma recv_commit_rel s0 r0 p0 w w' x ok :
  sent_by Helper (log w) = s0 -> rcvd_by Helper (log w) = r0 ->
  try_recv zero Helper w = Some (w', x, ok) -> recv_rel s0 r0 p0 (w', PRet (RRecv x ok)).
Proof.
  intros Hs Hr E. apply try_recv_H in E as (Es & _ & [[-> Er]|(-> & -> & -> & Hc & Hb & _)]).
  - split; cbn [fst snd]; congruence.
  - split; cbn [fst snd]; auto.
Qed.

Lemma recv_rel_step s0 r0 p0 st a : p0 = PRecvBlock \/ p0 = PRecvSelect ->
  recv_rel s0 r0 p0 st -> recv_rel s0 r0 p0 (step zero st a).
Proof.
  intros Hp0 [Hs Hm]. destruct st as [w p]. cbn [fst snd] in *. destruct a as [e|c]; cbn [step fst snd].
  - destruct (env_step_H e w) as (Es & Er & Ed). pose proof (env_step_closed_empty e w) as Ec.
    split; cbn [fst snd]; [congruence|].
    destruct p as [| | | | | |[|x [|]| |]|]; try (destruct Hm; split; congruence).
    + congruence.
    + destruct Hm as (? & ? & [[? ?]|[? ?]]); repeat split; auto; try congruence.
  - destruct (hstep zero c w p) as [st'|] eqn:E; [|split; assumption].
    destruct p as [v'|v'| | | | |r|k]; try (destruct Hm as [Hm _]; subst p0; destruct Hp0; discriminate).
    + destruct Hm as [Hp Hr]. cbn [hstep] in E.
      destruct (try_recv zero Helper w) as [[[w' x] ok]|] eqn:E'; [|discriminate].
      injection E as <-. eapply recv_commit_rel; eauto.
    + destruct Hm as [Hp Hr]. cbn [hstep] in E.
      assert (Hfalse : recv_rel s0 r0 p0 (w, PRet (RRecv zero false)) \/ done w = false).
      { destruct (done w) eqn:Ed; [left|right; reflexivity]. split; cbn [fst snd]; auto. }
      destruct (try_recv zero Helper w) as [[[w' x] ok]|] eqn:E'; destruct (done w) eqn:Ed;
        try destruct c; try discriminate;
        try (injection E as <-; destruct Hfalse as [?|?]; [assumption|discriminate]);
        try (injection E as <-; eapply recv_commit_rel; eauto).
    + cbn [hstep] in E. discriminate.
Qed.

Lemma recv_rel_run s0 r0 p0 sched : p0 = PRecvBlock \/ p0 = PRecvSelect ->
  forall st, recv_rel s0 r0 p0 st -> recv_rel s0 r0 p0 (run zero sched st).
Proof.
  intros Hp0. induction sched as [|a sched IH]; intros st H; [exact H|].
  cbn [run fold_left]. apply IH. apply recv_rel_step; assumption.
Qed.

Lemma recv_entry timeout : @RecvTimeout V timeout = PRecvBlock \/ @RecvTimeout V timeout = PRecvSelect.
Proof. unfold RecvTimeout. destruct (timeout <=? 0)%Z; auto. Qed.

(* What a receive helper has returned after any schedule, against what it did to the channel. *)
Definition recv_outcome (p0 : pc V) (w : world V) (st' : world V * pc V) : Prop :=
  let w' := fst st' in
  sent_by Helper (log w') = sent_by Helper (log w) /\
  ((snd st' = p0 /\ rcvd_by Helper (log w') = rcvd_by Helper (log w)) \/
   (exists x, snd st' = PRet (RRecv x true) /\ rcvd_by Helper (log w') = rcvd_by Helper (log w) ++ [x]) \/
   (snd st' = PRet (RRecv zero false) /\ rcvd_by Helper (log w') = rcvd_by Helper (log w) /\
      (p0 = PRecvSelect /\ done w' = true \/ closed (ch w') = true /\ buf (ch w') = []))).

Lemma recv_iff_taken_pc sched w p0 : p0 = PRecvBlock \/ p0 = PRecvSelect ->
  recv_outcome p0 w (run zero sched (w, p0)).
Proof.
  intros Hp0.
  assert (H0 : recv_rel (sent_by Helper (log w)) (rcvd_by Helper (log w)) p0 (w, p0)).
  { split; cbn [fst snd]; [reflexivity|]. destruct Hp0 as [-> | ->]; auto. }
  apply (recv_rel_run _ _ _ sched Hp0) in H0.
  destruct (run zero sched (w, p0)) as [w' p']. destruct H0 as [Hs Hm]. cbn [fst snd] in *.
  split; [exact Hs|]. cbn [fst snd].
  destruct p' as [| | | | | |[|x [|]| |]|]; try (left; destruct Hm; split; congruence).
  - right; left; eauto.
  - right; right. destruct Hm as (-> & ? & ?). auto.
Qed.

Theorem recv_iff_taken sched w p0 :
  (exists timeout, p0 = RecvTimeout timeout) \/ p0 = RecvContext ->
  recv_outcome p0 w (run zero sched (w, p0)).
Proof.
  intros H. apply recv_iff_taken_pc. destruct H as [[t ->] | ->]; [apply recv_entry | right; reflexivity].
Qed.

(* timeout <= 0: no timer branch: (zero,false) only from a closed and drained channel *)
Theorem recv_no_limit sched w timeout x : (timeout <= 0)%Z ->
  let st' := run zero sched (w, RecvTimeout timeout) in
  snd st' = PRet (RRecv x false) -> closed (ch (fst st')) = true /\ buf (ch (fst st')) = [].
Proof.
  intros Ht st' E. assert (Hb : @RecvTimeout V timeout = PRecvBlock).
  { unfold RecvTimeout. destruct (Z.leb_spec timeout 0); [reflexivity|lia]. }
  destruct (recv_iff_taken_pc sched w (RecvTimeout timeout)) as [_ H]; [left; exact Hb|].
  fold st' in H. rewrite Hb in *.
  destruct H as [[H _]|[(y & H & _)|(_ & _ & [[H _]|H])]]; try congruence; try assumption.
Qed.

(* a closed and drained channel counts as false, immediately and without consuming anything,
   whichever branch a select takes *)
Theorem recv_closed_false c w p0 : p0 = PRecvBlock \/ p0 = PRecvSelect ->
  closed (ch w) = true -> buf (ch w) = [] -> sendq (ch w) = [] ->
  hstep zero c w p0 = Some (w, PRet (RRecv zero false)).
Proof.
  intros Hp0 Hc Hb Hq.
  assert (E : try_recv zero Helper w = Some (w, zero, false)).
  { unfold try_recv. rewrite Hb, Hq, Hc. reflexivity. }
  destruct Hp0 as [-> | ->]; cbn [hstep]; rewrite E; [reflexivity|].
  destruct (done w); [destruct c|]; reflexivity.
Qed.


(* ---------- RecvQueued / RecvQueuedFull ---------- *)

(* never blocked: the step is enabled in every world *)
Theorem queued_never_blocks c w :
  (forall buffer m, hstep zero c w (PQueued buffer m) <> None) /\
  (forall index bf, hstep zero c w (PQueuedFull index bf) <> None).
Proof.
  split; intros; cbn [hstep].
  - destruct (Z.of_nat (length buffer) <? m)%Z; [|discriminate].
    destruct (try_recv zero Helper w) as [[[w' x] ok]|]; [|discriminate]. destruct ok; discriminate.
  - destruct (index <? length bf); [|discriminate].
    destruct (try_recv zero Helper w) as [[[w' x] ok]|]; [|discriminate].
    destruct ok; cbn [negb]; [destruct (set_nth index x bf)|]; discriminate.
Qed.

(* number of own steps after which the loop has certainly returned *)
Definition fuel_left (p : pc V) : nat :=
  match p with
  | PQueued buffer m => S (Z.to_nat m - length buffer)
  | PQueuedFull index bf => S (length bf - index)
  | _ => 0
  end.

Lemma hstep_fuel c w p w' p' : hstep zero c w p = Some (w', p') -> fuel_left p' <= pred (fuel_left p).
Proof.
  destruct p as [v|v| | |b m|i bf|r|k]; cbn [hstep].
  - destruct (try_send Helper v w); cbn [send_commit]; intros [= <- <-] || discriminate; cbn; lia.
  - destruct (try_send Helper v w); destruct (done w); try destruct c; cbn [send_commit];
      intros [= <- <-] || discriminate; cbn; lia.
  - destruct (try_recv zero Helper w) as [[[w1 x] ok]|]; [|discriminate]. intros [= <- <-]. cbn; lia.
  - destruct (try_recv zero Helper w) as [[[w1 x] ok]|]; destruct (done w); try destruct c;
      intros [= <- <-] || discriminate; cbn; lia.
  - destruct (Z.ltb_spec (Z.of_nat (length b)) m); [|intros [= <- <-]; cbn; lia].
    destruct (try_recv zero Helper w) as [[[w1 x] ok]|]; [|intros [= <- <-]; cbn; lia].
    destruct ok; cbn [negb]; intros [= <- <-]; cbn [fuel_left pred]; [|lia].
    rewrite app_length. cbn [length]. lia.
  - destruct (Nat.ltb_spec i (length bf)); [|intros [= <- <-]; cbn; lia].
    destruct (try_recv zero Helper w) as [[[w1 x] ok]|]; [|intros [= <- <-]; cbn; lia].
    destruct ok; cbn [negb]; [|intros [= <- <-]; cbn; lia].
    destruct (set_nth i x bf) as [bf'|] eqn:Es; intros [= <- <-]; cbn [fuel_left pred]; [|lia].
    apply set_nth_length in Es. lia.
  - discriminate.
  - discriminate.
Qed.

Lemma run_fuel sched : forall (st : world V * pc V),
  fuel_left (snd (run zero sched st)) <= fuel_left (snd st) - count_help sched.
Proof.
  induction sched as [|a sched IH]; intros [w p]; [cbn; lia|].
  cbn [run fold_left]. fold (run zero sched (step zero (w, p) a)).
  etransitivity; [apply IH|]. destruct a as [e|c]; cbn [step fst snd count_help filter length].
  - fold (count_help sched). lia.
  - fold (count_help sched). destruct (hstep zero c w p) as [[w' p']|] eqn:E.
    + apply hstep_fuel in E. cbn [snd]. lia.
    + cbn [snd]. destruct p; try (cbn; lia); exfalso;
        [eapply (proj1 (queued_never_blocks c w)) | eapply (proj2 (queued_never_blocks c w))]; exact E.
Qed.

Lemma rcvd_by_subseq a (l : list (event V)) : subseq (rcvd_by a l) (rcvd_vals l).
Proof.
  induction l as [|[a' v|a' v] l IH]; cbn; [constructor|exact IH|].
  destruct (agent_eqb a a'); cbn; constructor; exact IH.
Qed.

(* RecvQueued under an arbitrary environment *)
Definition queued_rel (s0 r0 : list V) (m : Z) (st : world V * pc V) : Prop :=
  sent_by Helper (log (fst st)) = s0 /\
  match snd st with
  | PQueued buffer m' => m' = m /\ rcvd_by Helper (log (fst st)) = r0 ++ buffer /\
                         (Z.of_nat (length buffer) <= Z.max 0 m)%Z
  | PRet (RList l) => rcvd_by Helper (log (fst st)) = r0 ++ l /\ (Z.of_nat (length l) <= Z.max 0 m)%Z
  | _ => False
  end.

Lemma queued_rel_step s0 r0 m st a : queued_rel s0 r0 m st -> queued_rel s0 r0 m (step zero st a).
Proof.
  intros [Hs Hm]. destruct st as [w p]. cbn [fst snd] in *. destruct a as [e|c]; cbn [step fst snd].
  - destruct (env_step_H e w) as (Es & Er & _). split; cbn [fst snd]; [congruence|].
    destruct p as [| | | |b m'| |[| |l|]|]; try contradiction; rewrite Er; exact Hm.
  - destruct (hstep zero c w p) as [st'|] eqn:E; [|split; assumption].
    destruct p as [| | | |b m'| |[| |l|]|]; try contradiction.
    + destruct Hm as (-> & Hr & Hl). cbn [hstep] in E.
      destruct (Z.ltb_spec (Z.of_nat (length b)) m) as [Hlt|Hge];
        [|injection E as <-; split; cbn [fst snd]; auto].
      destruct (try_recv zero Helper w) as [[[w' x] ok]|] eqn:E';
        [|injection E as <-; split; cbn [fst snd]; auto].
      apply try_recv_H in E' as (Es & _ & [[-> Er]|(-> & -> & -> & _)]); cbn [negb] in E; injection E as <-.
      * split; cbn [fst snd]; [congruence|]. split; [reflexivity|]. split.
        -- rewrite Er, Hr, app_assoc. reflexivity.
        -- rewrite app_length. cbn [length]. lia.
      * split; cbn [fst snd]; auto.
    + cbn [hstep] in E. discriminate.
Qed.

Lemma queued_rel_run s0 r0 m sched : forall st, queued_rel s0 r0 m st -> queued_rel s0 r0 m (run zero sched st).
Proof.
  induction sched as [|a sched IH]; intros st H; [exact H|].
  cbn [run fold_left]. apply IH. apply queued_rel_step; assumption.
Qed.

(* After any schedule: RecvQueued has sent nothing; the values [l] it holds are
   exactly what it took from the channel, in order, at most maxValues of them;
   it is still in its loop holding l, or has returned l; and after
   max(maxValues,0)+1 of its own steps it has returned. *)
Definition queued_outcome (m : Z) (w : world V) (sched : list (action V)) (st' : world V * pc V) : Prop :=
  let w' := fst st' in
  sent_by Helper (log w') = sent_by Helper (log w) /\
  exists l, rcvd_by Helper (log w') = rcvd_by Helper (log w) ++ l /\
    (Z.of_nat (length l) <= Z.max 0 m)%Z /\
    (snd st' = PQueued l m \/ snd st' = PRet (RList l)) /\
    (Z.to_nat m + 1 <= count_help sched -> snd st' = PRet (RList l)).

Theorem recv_queued_any_schedule sched w m :
  queued_outcome m w sched (run zero sched (w, RecvQueued m)).
Proof.
  assert (H0 : queued_rel (sent_by Helper (log w)) (rcvd_by Helper (log w)) m (w, RecvQueued m)).
  { split; cbn [fst snd RecvQueued]; [reflexivity|]. rewrite app_nil_r. cbn [length]. repeat split; lia. }
  apply (queued_rel_run _ _ _ sched) in H0.
  pose proof (run_fuel sched (w, RecvQueued m)) as Hf. cbn [snd RecvQueued fuel_left length] in Hf.
  destruct (run zero sched (w, RecvQueued m)) as [w' p']. destruct H0 as [Hs Hm]. cbn [fst snd] in *.
  split; [exact Hs|]. cbn [fst snd].
  destruct p' as [| | | |b m'| |[| |l|]|]; try contradiction.
  - destruct Hm as (-> & Hr & Hl). exists b. repeat split; auto. intros Hc. cbn [fuel_left] in Hf. lia.
  - destruct Hm as (Hr & Hl). exists l. repeat split; auto.
Qed.

(* Everything about RecvQueued under a concurrent environment in one statement,
   from a runtime-reachable channel and an empty log: the helper holds / has
   returned l; l is EXACTLY the helper's own receives, in order (its entries
   in the log: nothing lost, duplicated, reordered or invented by the helper);
   at most maxValues of them; it sent nothing; it has returned after
   maxValues+1 own steps; those receives are an order-preserving part of all
   receives from the channel, which are a prefix of initial contents ++
   completed sends (FIFO conservation). *)
Theorem recv_queued_fifo sched c dn m :
  wf c ->
  let st' := run zero sched (World c dn [], RecvQueued m) in
  exists l, (snd st' = PQueued l m \/ snd st' = PRet (RList l)) /\
    (Z.to_nat m + 1 <= count_help sched -> snd st' = PRet (RList l)) /\
    (Z.of_nat (length l) <= Z.max 0 m)%Z /\
    rcvd_by Helper (log (fst st')) = l /\ sent_by Helper (log (fst st')) = [] /\
    subseq l (rcvd_vals (log (fst st'))) /\
    buf c ++ sent_vals (log (fst st')) = rcvd_vals (log (fst st')) ++ buf (ch (fst st')).
Proof.
  intros Hw st'.
  destruct (recv_queued_any_schedule sched (World c dn []) m) as (Hs & l & Hr & Hl & Hp & Ht).
  fold st' in Hs, Hr, Hp, Ht. cbn [log rcvd_by sent_by flat_map app] in Hr, Hs.
  exists l. repeat split; auto.
  - rewrite <- Hr. apply rcvd_by_subseq.
  - apply (conservation sched c dn (RecvQueued m) Hw).
Qed.

(* RecvQueuedFull: the caller's buf is always (values taken so far) ++ (untouched tail of the original) *)

Lemma set_nth_app_here (pre : list V) x y rest :
  set_nth (length pre) x (pre ++ y :: rest) = Ok (pre ++ x :: rest).
Proof.
  induction pre as [|q pre IH]; [reflexivity|].
  cbn [app length set_nth]. rewrite IH. reflexivity.
Qed.

Lemma skipn_cons_S n : forall (l : list V) y r, skipn n l = y :: r -> skipn (S n) l = r.
Proof.
  induction n as [|n IH]; intros [|a l] y r E; try discriminate.
  - cbn in E. injection E as _ <-. reflexivity.
  - cbn [skipn] in E. apply IH in E. exact E.
Qed.

Lemma full_len (l buf0 : list V) : length l <= length buf0 ->
  length (l ++ skipn (length l) buf0) = length buf0.
Proof. intros H. rewrite app_length, skipn_length. lia. Qed.

Lemma full_set (l buf0 : list V) x : length l < length buf0 ->
  set_nth (length l) x (l ++ skipn (length l) buf0) = Ok ((l ++ [x]) ++ skipn (length (l ++ [x])) buf0).
Proof.
  intros H. destruct (skipn (length l) buf0) as [|y rest] eqn:E.
  - pose proof (skipn_length (length l) buf0) as Hl. rewrite E in Hl. cbn in Hl. lia.
  - rewrite set_nth_app_here. apply skipn_cons_S in E.
    rewrite app_length. cbn [length]. rewrite Nat.add_1_r, E, <- app_assoc. reflexivity.
Qed.

Definition full_rel (s0 r0 buf0 : list V) (st : world V * pc V) : Prop :=
  sent_by Helper (log (fst st)) = s0 /\
  match snd st with
  | PQueuedFull i bf => exists l, rcvd_by Helper (log (fst st)) = r0 ++ l /\
      length l <= length buf0 /\ i = length l /\ bf = l ++ skipn (length l) buf0
  | PRet (RFull n bf) => exists l, rcvd_by Helper (log (fst st)) = r0 ++ l /\
      length l <= length buf0 /\ n = length l /\ bf = l ++ skipn (length l) buf0
  | _ => False
  end.

Lemma full_rel_step s0 r0 buf0 st a : full_rel s0 r0 buf0 st -> full_rel s0 r0 buf0 (step zero st a).
Proof.
  intros [Hs Hm]. destruct st as [w p]. cbn [fst snd] in *. destruct a as [e|c]; cbn [step fst snd].
  - destruct (env_step_H e w) as (Es & Er & _). split; cbn [fst snd]; [congruence|].
    destruct p as [| | | | |i bf|[| | |n bf]|]; try contradiction; rewrite Er; exact Hm.
  - destruct (hstep zero c w p) as [st'|] eqn:E; [|split; assumption].
    destruct p as [| | | | |i bf|[| | |n bf]|]; try contradiction.
    + destruct Hm as (l & Hr & Hl & -> & ->). cbn [hstep] in E. rewrite full_len in E by exact Hl.
      destruct (Nat.ltb_spec (length l) (length buf0)) as [Hlt|Hge];
        [|injection E as <-; split; cbn [fst snd]; eauto].
      destruct (try_recv zero Helper w) as [[[w' x] ok]|] eqn:E';
        [|injection E as <-; split; cbn [fst snd]; eauto].
      apply try_recv_H in E' as (Es & _ & [[-> Er]|(-> & -> & -> & _)]); cbn [negb] in E.
      * rewrite full_set in E by exact Hlt. injection E as <-.
        split; cbn [fst snd]; [congruence|]. exists (l ++ [x]). repeat split.
        -- rewrite Er, Hr, app_assoc. reflexivity.
        -- rewrite app_length. cbn [length]. lia.
        -- rewrite app_length. cbn [length]. reflexivity.
      * injection E as <-. split; cbn [fst snd]; eauto.
    + cbn [hstep] in E. discriminate.
Qed.

Lemma full_rel_run s0 r0 buf0 sched : forall st, full_rel s0 r0 buf0 st -> full_rel s0 r0 buf0 (run zero sched st).
Proof.
  induction sched as [|a sched IH]; intros st H; [exact H|].
  cbn [run fold_left]. apply IH. apply full_rel_step; assumption.
Qed.

(* After any schedule: RecvQueuedFull has sent nothing; it took the values [l]
   from the channel, in order, at most len(buf) of them; buf holds l followed
   by the untouched rest of the original buf; it is in its loop at index len l
   or has returned len l; after len(buf)+1 of its own steps it has returned;
   it never panics. *)
Definition full_outcome (buf0 : list V) (w : world V) (sched : list (action V)) (st' : world V * pc V) : Prop :=
  let w' := fst st' in
  sent_by Helper (log w') = sent_by Helper (log w) /\
  exists l, rcvd_by Helper (log w') = rcvd_by Helper (log w) ++ l /\
    length l <= length buf0 /\
    (snd st' = PQueuedFull (length l) (l ++ skipn (length l) buf0) \/
     snd st' = PRet (RFull (length l) (l ++ skipn (length l) buf0))) /\
    (length buf0 + 1 <= count_help sched -> snd st' = PRet (RFull (length l) (l ++ skipn (length l) buf0))).

Theorem recv_queued_full_any_schedule sched w buf0 :
  full_outcome buf0 w sched (run zero sched (w, RecvQueuedFull buf0)).
Proof.
  assert (H0 : full_rel (sent_by Helper (log w)) (rcvd_by Helper (log w)) buf0 (w, RecvQueuedFull buf0)).
  { split; cbn [fst snd RecvQueuedFull]; [reflexivity|]. exists []. rewrite app_nil_r. cbn. repeat split; lia. }
  apply (full_rel_run _ _ _ sched) in H0.
  pose proof (run_fuel sched (w, RecvQueuedFull buf0)) as Hf. cbn [snd RecvQueuedFull fuel_left] in Hf.
  destruct (run zero sched (w, RecvQueuedFull buf0)) as [w' p']. destruct H0 as [Hs Hm]. cbn [fst snd] in *.
  split; [exact Hs|]. cbn [fst snd].
  destruct p' as [| | | | |i bf|[| | |n bf]|]; try contradiction.
  - destruct Hm as (l & Hr & Hl & -> & ->). exists l. repeat split; auto.
    intros Hc. cbn [fuel_left] in Hf. lia.
  - destruct Hm as (l & Hr & Hl & -> & ->). exists l. repeat split; auto.
Qed.

(* the same for RecvQueuedFull: buf = own receives ++ untouched rest of the original buf *)
Theorem recv_queued_full_fifo sched c dn buf0 :
  wf c ->
  let st' := run zero sched (World c dn [], RecvQueuedFull buf0) in
  exists l, (snd st' = PQueuedFull (length l) (l ++ skipn (length l) buf0) \/
             snd st' = PRet (RFull (length l) (l ++ skipn (length l) buf0))) /\
    (length buf0 + 1 <= count_help sched -> snd st' = PRet (RFull (length l) (l ++ skipn (length l) buf0))) /\
    length l <= length buf0 /\
    rcvd_by Helper (log (fst st')) = l /\ sent_by Helper (log (fst st')) = [] /\
    subseq l (rcvd_vals (log (fst st'))) /\
    buf c ++ sent_vals (log (fst st')) = rcvd_vals (log (fst st')) ++ buf (ch (fst st')).
Proof.
  intros Hw st'.
  destruct (recv_queued_full_any_schedule sched (World c dn []) buf0) as (Hs & l & Hr & Hl & Hp & Ht).
  fold st' in Hs, Hr, Hp, Ht. cbn [log rcvd_by sent_by flat_map app] in Hr, Hs.
  exists l. repeat split; auto.
  - rewrite <- Hr. apply rcvd_by_subseq.
  - apply (conservation sched c dn (RecvQueuedFull buf0) Hw).
Qed.

(* ---------- alone on the channel: the exact result ---------- *)

Lemma run_help_returned choices w p : returned p = true -> run zero (map AHelp choices) (w, p) = (w, p).
Proof.
  intros H. induction choices as [|c cs IH]; [reflexivity|].
  cbn [map run fold_left step fst snd]. destruct p; try discriminate; cbn [hstep]; exact IH.
Qed.


(* ---------- the log splits into the helper's and the environment's operations ---------- *)

Lemma sent_by_subseq a (l : list (event V)) : subseq (sent_by a l) (sent_vals l).
Proof.
  induction l as [|[a' v|a' v] l IH]; cbn; [constructor| |exact IH].
  destruct (agent_eqb a a'); cbn; constructor; exact IH.
Qed.

Lemma log_cons (e : event V) (l : list (event V)) a :
  sent_vals (e :: l) = sent_vals [e] ++ sent_vals l /\ rcvd_vals (e :: l) = rcvd_vals [e] ++ rcvd_vals l /\
  sent_by a (e :: l) = sent_by a [e] ++ sent_by a l /\ rcvd_by a (e :: l) = rcvd_by a [e] ++ rcvd_by a l.
Proof.
  change (e :: l) with ([e] ++ l). rewrite sent_vals_app, rcvd_vals_app, sent_by_app, rcvd_by_app. auto.
Qed.

Theorem log_parts (l : list (event V)) :
  length (sent_vals l) = length (sent_by Helper l) + length (sent_by Env l) /\
  length (rcvd_vals l) = length (rcvd_by Helper l) + length (rcvd_by Env l) /\
  subseq (sent_by Helper l) (sent_vals l) /\ subseq (rcvd_by Helper l) (rcvd_vals l).
Proof.
  repeat split; try apply sent_by_subseq; try apply rcvd_by_subseq.
  - induction l as [|e l IH]; [reflexivity|].
    destruct (log_cons e l Helper) as (-> & _ & -> & _). destruct (log_cons e l Env) as (_ & _ & -> & _).
    rewrite !app_length, IH. destruct e as [[|] v|[|] v]; cbn; lia.
  - induction l as [|e l IH]; [reflexivity|].
    destruct (log_cons e l Helper) as (_ & -> & _ & ->). destruct (log_cons e l Env) as (_ & _ & _ & ->).
    rewrite !app_length, IH. destruct e as [[|] v|[|] v]; cbn; lia.
Qed.

(* multiset form of conservation, as in the property text *)
Theorem conservation_multiset sched c dn p :
  wf c ->
  let w' := fst (run zero sched (World c dn [], p)) in
  Permutation (sent_vals (log w') ++ buf c) (rcvd_vals (log w') ++ buf (ch w')).
Proof.
  intros Hw w'. destruct (conservation sched c dn p Hw) as [_ H]. fold w' in H.
  rewrite <- H. apply Permutation_app_comm.
Qed.


(* ---------- frame: the helper touches the world only through logged operations ---------- *)

Lemma app_one_neq (l : list V) x : l ++ [x] <> l.
Proof. intros E. apply (f_equal (@length V)) in E. rewrite app_length in E. cbn in E. lia. Qed.

(* A helper step that adds nothing to the helper's part of the log leaves the
   whole world (channel contents, queues, closed flag, timer, log) untouched. *)
Theorem no_log_no_change c w p w' p' : hstep zero c w p = Some (w', p') ->
  sent_by Helper (log w') = sent_by Helper (log w) ->
  rcvd_by Helper (log w') = rcvd_by Helper (log w) -> w' = w.
Proof.
  intros E Hs Hr. apply hstep_world in E as [->|[[v E]|(x & ok & E)]]; [reflexivity| |].
  - apply try_send_H in E as (E & _). rewrite E in Hs. apply app_one_neq in Hs. contradiction.
  - apply try_recv_H in E as (_ & _ & [[_ E]|(_ & _ & -> & _)]); [|reflexivity].
    rewrite E in Hr. apply app_one_neq in Hr. contradiction.
Qed.

(* once the timer has fired / the context is cancelled, a select helper can always return;
   a helper without limit is blocked exactly while the channel is not ready *)
Theorem enabledness c w v :
  (done w = true -> hstep zero c w (PSendSelect v) <> None /\ hstep zero c w PRecvSelect <> None) /\
  (hstep zero c w (PSendBlock v) = None <-> try_send Helper v w = WouldBlock) /\
  (hstep zero c w PRecvBlock = None <-> try_recv zero Helper w = None).
Proof.
  split; [|split].
  - intros Hd. split; cbn [hstep]; rewrite Hd.
    + destruct (try_send Helper v w); destruct c; cbn [send_commit]; discriminate.
    + destruct (try_recv zero Helper w) as [[[w' x] ok]|]; destruct c; discriminate.
  - cbn [hstep]. destruct (try_send Helper v w); cbn [send_commit]; split; intros; try discriminate; reflexivity.
  - cbn [hstep]. destruct (try_recv zero Helper w) as [[[w' x] ok]|]; split; intros; try discriminate; reflexivity.
Qed.


(* ---------- alone on the channel, with senders already parked ---------- *)

(* What k successful non-blocking receives leave in the buffer, and what they
   log, from buffer b and parked senders sq (oldest first): each receive takes
   the oldest value; while senders are parked the oldest of them completes
   (its value moves into the freed slot, or is handed over directly when the
   buffer is empty). *)
Fixpoint drain_buf (k : nat) (b sq : list V) : list V :=
  match k with
  | 0 => b
  | S k' => match b, sq with
            | x :: b', s :: q => drain_buf k' (b' ++ [s]) q
            | x :: b', [] => drain_buf k' b' []
            | [], s :: q => drain_buf k' [] q
            | [], [] => []
            end
  end.

Fixpoint drain_log (k : nat) (b sq : list V) : list (event V) :=
  match k with
  | 0 => []
  | S k' => match b, sq with
            | x :: b', s :: q => Rcvd Helper x :: Sent Env s :: drain_log k' (b' ++ [s]) q
            | x :: b', [] => Rcvd Helper x :: drain_log k' b' []
            | [], s :: q => Sent Env s :: Rcvd Helper s :: drain_log k' [] q
            | [], [] => []
            end
  end.

Lemma drain_buf_spec k : forall b sq, drain_buf k b sq ++ skipn k sq = skipn k (b ++ sq).
Proof.
  induction k as [|k IH]; intros b sq; [reflexivity|].
  destruct b as [|x b], sq as [|s q]; cbn [drain_buf skipn app].
  - reflexivity.
  - apply (IH [] q).
  - rewrite <- (IH b []). rewrite skipn_nil. reflexivity.
  - rewrite IH, <- app_assoc. reflexivity.
Qed.

Lemma drain_log_spec k : forall b sq,
  rcvd_by Helper (drain_log k b sq) = firstn k (b ++ sq) /\ sent_by Env (drain_log k b sq) = firstn k sq /\
  sent_by Helper (drain_log k b sq) = [] /\ rcvd_by Env (drain_log k b sq) = [].
Proof.
  induction k as [|k IH]; intros b sq; [cbn; auto|].
  destruct b as [|x b], sq as [|s q]; cbn [drain_log app firstn].
  - cbn; auto.
  - destruct (IH [] q) as (I1 & I2 & I3 & I4).
    destruct (log_cons (Sent Env s) (Rcvd Helper s :: drain_log k [] q) Helper) as (_ & _ & -> & ->).
    destruct (log_cons (Sent Env s) (Rcvd Helper s :: drain_log k [] q) Env) as (_ & _ & -> & ->).
    destruct (log_cons (Rcvd Helper s) (drain_log k [] q) Helper) as (_ & _ & -> & ->).
    destruct (log_cons (Rcvd Helper s) (drain_log k [] q) Env) as (_ & _ & -> & ->).
    rewrite I1, I2, I3, I4. cbn. auto.
  - destruct (IH b []) as (I1 & I2 & I3 & I4).
    destruct (log_cons (Rcvd Helper x) (drain_log k b []) Helper) as (_ & _ & -> & ->).
    destruct (log_cons (Rcvd Helper x) (drain_log k b []) Env) as (_ & _ & -> & ->).
    rewrite I1, I2, I3, I4. rewrite firstn_nil. cbn. auto.
  - destruct (IH (b ++ [s]) q) as (I1 & I2 & I3 & I4).
    destruct (log_cons (Rcvd Helper x) (Sent Env s :: drain_log k (b ++ [s]) q) Helper) as (_ & _ & -> & ->).
    destruct (log_cons (Rcvd Helper x) (Sent Env s :: drain_log k (b ++ [s]) q) Env) as (_ & _ & -> & ->).
    destruct (log_cons (Sent Env s) (drain_log k (b ++ [s]) q) Helper) as (_ & _ & -> & ->).
    destruct (log_cons (Sent Env s) (drain_log k (b ++ [s]) q) Env) as (_ & _ & -> & ->).
    rewrite I1, I2, I3, I4, <- app_assoc. cbn. auto.
Qed.

Lemma drain_nil k : forall b, drain_buf k b [] = skipn k b /\ drain_log k b [] = map (Rcvd Helper) (firstn k b).
Proof.
  induction k as [|k IH]; intros [|x b]; cbn; auto.
  destruct (IH b) as [-> ->]. auto.
Qed.

Lemma queued_parked_gen k : forall b sq cp cl rq dn lg acc m choices,
  k = Z.to_nat m - length acc -> k + 1 <= length choices ->
  run zero (map AHelp choices) (World (Chan b cp cl sq rq) dn lg, PQueued acc m)
  = (World (Chan (drain_buf k b sq) cp cl (skipn k sq) rq) dn (lg ++ drain_log k b sq),
     PRet (RList (acc ++ firstn k (b ++ sq)))).
Proof.
  induction k as [|k IH]; intros b sq cp cl rq dn lg acc m [|c cs] Hk Hc; cbn [length] in Hc; try lia;
    cbn [map run fold_left step fst snd hstep]; change (fold_left (step zero)) with (run zero).
  - destruct (Z.ltb_spec (Z.of_nat (length acc)) m) as [Hlt|Hge]; [lia|].
    cbn [drain_buf drain_log skipn firstn]. rewrite !app_nil_r. apply run_help_returned; reflexivity.
  - destruct (Z.ltb_spec (Z.of_nat (length acc)) m) as [Hlt|Hge]; [|lia].
    assert (Hk' : k = Z.to_nat m - length (acc ++ [zero])) by (rewrite app_length; cbn [length]; lia).
    assert (Hl : forall y, length (acc ++ [y]) = length (acc ++ [zero])) by (intros; rewrite !app_length; reflexivity).
    destruct b as [|x b], sq as [|s q]; unfold try_recv, upd; cbn [ch buf sendq closed negb log done cap recvq].
    + cbn [drain_buf drain_log skipn firstn app]. rewrite !app_nil_r.
      destruct cl; cbn [negb]; apply run_help_returned; reflexivity.
    + rewrite (IH [] q cp cl rq dn (lg ++ [Sent Env s; Rcvd Helper s]) (acc ++ [s]) m cs) by (rewrite ?Hl; lia).
      cbn [drain_buf drain_log skipn firstn app]. rewrite <- !app_assoc. reflexivity.
    + rewrite (IH b [] cp cl rq dn (lg ++ [Rcvd Helper x]) (acc ++ [x]) m cs) by (rewrite ?Hl; lia).
      cbn [drain_buf drain_log skipn firstn app]. rewrite skipn_nil, <- !app_assoc. reflexivity.
    + rewrite (IH (b ++ [s]) q cp cl rq dn (lg ++ [Rcvd Helper x; Sent Env s]) (acc ++ [x]) m cs) by (rewrite ?Hl; lia).
      cbn [drain_buf drain_log skipn firstn app]. rewrite <- !app_assoc. reflexivity.
Qed.

Lemma full_parked_gen k : forall b sq cp cl rq dn lg l buf0 choices,
  k = length buf0 - length l -> length l <= length buf0 -> k + 1 <= length choices ->
  run zero (map AHelp choices)
      (World (Chan b cp cl sq rq) dn lg, PQueuedFull (length l) (l ++ skipn (length l) buf0))
  = (World (Chan (drain_buf k b sq) cp cl (skipn k sq) rq) dn (lg ++ drain_log k b sq),
     let t := firstn k (b ++ sq) in
     PRet (RFull (length (l ++ t)) ((l ++ t) ++ skipn (length (l ++ t)) buf0))).
Proof.
  induction k as [|k IH]; intros b sq cp cl rq dn lg l buf0 [|c cs] Hk Hl Hc; cbn [length] in Hc; try lia;
    cbn [map run fold_left step fst snd hstep]; change (fold_left (step zero)) with (run zero);
    rewrite full_len by exact Hl.
  - destruct (Nat.ltb_spec (length l) (length buf0)) as [Hlt|Hge]; [lia|].
    cbn [drain_buf drain_log skipn firstn]. rewrite !app_nil_r. apply run_help_returned; reflexivity.
  - destruct (Nat.ltb_spec (length l) (length buf0)) as [Hlt|Hge]; [|lia].
    assert (Hk' : forall y, k = length buf0 - length (l ++ [y])) by (intros; rewrite app_length; cbn [length]; lia).
    assert (Hl' : forall y, length (l ++ [y]) <= length buf0) by (intros; rewrite app_length; cbn [length]; lia).
    assert (Hn : forall y, length l + 1 = length (l ++ [y])) by (intros; rewrite app_length; reflexivity).
    destruct b as [|x b], sq as [|s q]; unfold try_recv, upd; cbn [ch buf sendq closed negb log done cap recvq].
    + cbn [drain_buf drain_log skipn firstn app]. rewrite !app_nil_r.
      destruct cl; cbn [negb]; apply run_help_returned; reflexivity.
    + rewrite full_set by exact Hlt. rewrite (Hn s).
      rewrite (IH [] q cp cl rq dn (lg ++ [Sent Env s; Rcvd Helper s]) (l ++ [s]) buf0 cs (Hk' s) (Hl' s)) by lia.
      cbn [drain_buf drain_log skipn firstn app]. rewrite <- !app_assoc. reflexivity.
    + rewrite full_set by exact Hlt. rewrite (Hn x).
      rewrite (IH b [] cp cl rq dn (lg ++ [Rcvd Helper x]) (l ++ [x]) buf0 cs (Hk' x) (Hl' x)) by lia.
      cbn [drain_buf drain_log skipn firstn app]. rewrite skipn_nil, <- !app_assoc. reflexivity.
    + rewrite full_set by exact Hlt. rewrite (Hn x).
      rewrite (IH (b ++ [s]) q cp cl rq dn (lg ++ [Rcvd Helper x; Sent Env s]) (l ++ [x]) buf0 cs (Hk' x) (Hl' x)) by lia.
      cbn [drain_buf drain_log skipn firstn app]. rewrite <- !app_assoc. reflexivity.
Qed.

(* What the channel and the log look like after the helper took k values from
   buffer b with senders sq parked: the result is the first k of (buffered
   values followed by the parked senders' values); the first min(k, |sq|) parked
   senders have completed, in order; the rest of that queue is still there, its
   front b' in the buffer, its tail still parked; nothing else was logged. *)
Definition parked_after (b sq : list V) (cp : nat) (cl : bool) (rq : nat) (dn : bool) (lg : list (event V))
           (k : nat) (w' : world V) : Prop :=
  exists b' lg', w' = World (Chan b' cp cl (skipn k sq) rq) dn lg' /\
    b' ++ skipn k sq = skipn k (b ++ sq) /\
    rcvd_by Helper lg' = rcvd_by Helper lg ++ firstn k (b ++ sq) /\
    sent_by Env lg' = sent_by Env lg ++ firstn k sq /\
    sent_by Helper lg' = sent_by Helper lg /\ rcvd_by Env lg' = rcvd_by Env lg.

Lemma parked_after_drain b sq cp cl rq dn lg k :
  parked_after b sq cp cl rq dn lg k
    (World (Chan (drain_buf k b sq) cp cl (skipn k sq) rq) dn (lg ++ drain_log k b sq)).
Proof.
  exists (drain_buf k b sq), (lg ++ drain_log k b sq). destruct (drain_log_spec k b sq) as (I1 & I2 & I3 & I4).
  rewrite !sent_by_app, !rcvd_by_app, I1, I2, I3, I4, !app_nil_r.
  repeat split. apply drain_buf_spec.
Qed.

(* RecvQueued, no other goroutine RUNNING, any senders already parked: every
   capacity, contents, open/closed state, parked senders and limit. *)
Theorem recv_queued_alone_parked b sq cp cl rq dn lg m choices :
  Z.to_nat m + 1 <= length choices ->
  let k := Z.to_nat m in
  exists w', run zero (map AHelp choices) (World (Chan b cp cl sq rq) dn lg, RecvQueued m)
             = (w', PRet (RList (firstn k (b ++ sq)))) /\
             parked_after b sq cp cl rq dn lg k w'.
Proof.
  intros H k. eexists. split; [|apply parked_after_drain].
  unfold RecvQueued. rewrite (queued_parked_gen k b sq cp cl rq dn lg [] m choices); cbn [length]; try lia.
  reflexivity.
Qed.

Theorem recv_queued_full_alone_parked b sq cp cl rq dn lg buf0 choices :
  length buf0 + 1 <= length choices ->
  let k := length buf0 in
  let taken := firstn k (b ++ sq) in
  exists w', run zero (map AHelp choices) (World (Chan b cp cl sq rq) dn lg, RecvQueuedFull buf0)
             = (w', PRet (RFull (length taken) (taken ++ skipn (length taken) buf0))) /\
             parked_after b sq cp cl rq dn lg k w'.
Proof.
  intros H k taken. eexists. split; [|apply parked_after_drain].
  unfold RecvQueuedFull.
  pose proof (full_parked_gen k b sq cp cl rq dn lg [] buf0 choices) as G.
  cbn [length app skipn] in G. rewrite G; try lia. reflexivity.
Qed.

(* Corollaries: no sender parked (no other goroutine on the channel at all). For
   every capacity, contents, open/closed state and limit, any limit+1 of the
   helper's own steps (each enabled) end with exactly the queued prefix, the
   rest left in the channel, one receive logged per value, nothing else changed. *)
Theorem recv_queued_alone b cp cl rq dn lg m choices :
  Z.to_nat m + 1 <= length choices ->
  run zero (map AHelp choices) (World (Chan b cp cl [] rq) dn lg, RecvQueued m)
  = (World (Chan (skipn (Z.to_nat m) b) cp cl [] rq) dn (lg ++ map (Rcvd Helper) (firstn (Z.to_nat m) b)),
     PRet (RList (firstn (Z.to_nat m) b))).
Proof.
  intros H. unfold RecvQueued.
  rewrite (queued_parked_gen (Z.to_nat m) b [] cp cl rq dn lg [] m choices); cbn [length]; try lia.
  destruct (drain_nil (Z.to_nat m) b) as [-> ->]. rewrite skipn_nil, app_nil_r. reflexivity.
Qed.

(* RecvQueuedFull alone on the channel: n = min(len buf, queued) values are
   taken, written to buf[0..n), the rest of buf and of the channel untouched. *)
Theorem recv_queued_full_alone b cp cl rq dn lg buf0 choices :
  length buf0 + 1 <= length choices ->
  let taken := firstn (length buf0) b in
  run zero (map AHelp choices) (World (Chan b cp cl [] rq) dn lg, RecvQueuedFull buf0)
  = (World (Chan (skipn (length buf0) b) cp cl [] rq) dn (lg ++ map (Rcvd Helper) taken),
     PRet (RFull (length taken) (taken ++ skipn (length taken) buf0))).
Proof.
  intros H taken. unfold RecvQueuedFull.
  pose proof (full_parked_gen (length buf0) b [] cp cl rq dn lg [] buf0 choices) as G.
  cbn [length app skipn] in G. rewrite G; try lia.
  destruct (drain_nil (length buf0) b) as [-> ->]. rewrite skipn_nil, app_nil_r. reflexivity.
Qed.

End Proofs.

(* ---------- concrete instances (non-vacuity) ---------- *)

Lemma wf_example : wf (Chan [1; 2]%Z 2 false [3]%Z 0) /\ wf (Chan ([] : list Z) 0 false [] 2) /\
                   wf (Chan [5]%Z 3 true [] 0).
Proof. unfold wf; cbn. repeat split; intros; try discriminate; try lia; try congruence; auto. Qed.

Lemma parked_example :
  run 0%Z (map AHelp [true; true; true; true; true]) (World (Chan [1; 2]%Z 2 false [3; 4; 5]%Z 0) false [], RecvQueued 4%Z)
    = (World (Chan [5]%Z 2 false [] 0) false
         [Rcvd Helper 1%Z; Sent Env 3%Z; Rcvd Helper 2%Z; Sent Env 4%Z; Rcvd Helper 3%Z; Sent Env 5%Z; Rcvd Helper 4%Z],
       PRet (RList [1; 2; 3; 4]%Z)) /\
  run 0%Z (map AHelp [true; true; true; true]) (World (Chan ([] : list Z) 0 false [7; 8]%Z 0) false [], RecvQueuedFull [9; 9; 9]%Z)
    = (World (Chan [] 0 false [] 0) false [Sent Env 7%Z; Rcvd Helper 7%Z; Sent Env 8%Z; Rcvd Helper 8%Z],
       PRet (RFull 2 [7; 8; 9]%Z))
  /\
  (* the same instance in the terms of the theorem: senders 3,4,5 completed, 5 sits in the buffer, nobody parked *)
  parked_after [1; 2]%Z [3; 4; 5]%Z 2 false 0 false [] 4
    (World (Chan [5]%Z 2 false [] 0) false
       [Rcvd Helper 1%Z; Sent Env 3%Z; Rcvd Helper 2%Z; Sent Env 4%Z; Rcvd Helper 3%Z; Sent Env 5%Z; Rcvd Helper 4%Z]).
Proof.
  split; [vm_compute; reflexivity|]. split; [vm_compute; reflexivity|].
  eexists _, _. split; [reflexivity|]. vm_compute. repeat split.
Qed.
