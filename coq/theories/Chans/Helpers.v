(* Model of SendTimeout, SendContext, RecvTimeout, RecvContext, RecvQueued and
   RecvQueuedFull (/repo/chans/chans.go) as small state machines on the channel
   machine of Lib/Chan.v.  A program counter [pc] is a point of the Go code at
   which the goroutine performs its next channel operation; [hstep] performs
   that operation together with the goroutine-private code up to the next one.
   The other goroutines, the timer and the context are the environment
   ([env_step]); a schedule interleaves both arbitrarily.
   timer.Stop() has no effect on the channel or on the result and is omitted.
   Definitions only. *)
From Typ Require Export Lib.Base Lib.Chan.

(* what a helper returns *)
Inductive hres (V : Type) :=
| RBool (b : bool)                    (* SendTimeout, SendContext *)
| RRecv (v : V) (ok : bool)           (* RecvTimeout, RecvContext *)
| RList (l : list V)                  (* RecvQueued *)
| RFull (n : nat) (buf : list V).     (* RecvQueuedFull: the count, and the caller's buf afterwards *)
Arguments RBool {V} b.
Arguments RRecv {V} v ok.
Arguments RList {V} l.
Arguments RFull {V} n buf.

Inductive pc (V : Type) :=
| PSendBlock (value : V)                       (* ch <- value; return true *)
| PSendSelect (value : V)                      (* select { case ch <- value: return true; case <-timer.C / <-ctx.Done(): return false } *)
| PRecvBlock                                   (* value, ok := <-ch; return value, ok *)
| PRecvSelect                                  (* select { case value, ok := <-ch: return value, ok; case <-timer.C / <-ctx.Done(): return zero, false } *)
| PQueued (buffer : list V) (maxValues : Z)    (* loop head of RecvQueued *)
| PQueuedFull (index : nat) (buf : list V)     (* loop head of RecvQueuedFull *)
| PRet (r : hres V)
| PPanic (k : panic_kind).
Arguments PSendBlock {V} value.
Arguments PSendSelect {V} value.
Arguments PRecvBlock {V}.
Arguments PRecvSelect {V}.
Arguments PQueued {V} buffer maxValues.
Arguments PQueuedFull {V} index buf.
Arguments PRet {V} r.
Arguments PPanic {V} k.

(* Entry points: the code before the first channel operation. *)

(* if timeout <= 0 { ch <- value; return true }; timer := time.NewTimer(timeout); select {...} *)
Definition SendTimeout {V} (value : V) (timeout : Z) : pc V :=
  if (timeout <=? 0)%Z then PSendBlock value else PSendSelect value.
Definition SendContext {V} (value : V) : pc V := PSendSelect value.
(* if timeout <= 0 { value, ok := <-ch; return value, ok }; timer := time.NewTimer(timeout); select {...} *)
Definition RecvTimeout {V} (timeout : Z) : pc V :=
  if (timeout <=? 0)%Z then PRecvBlock else PRecvSelect.
Definition RecvContext {V} : pc V := PRecvSelect.
(* var buffer []V; for len(buffer) < maxValues {...} *)
Definition RecvQueued {V} (maxValues : Z) : pc V := PQueued [] maxValues.
(* var index int; for index < len(buf) {...} *)
Definition RecvQueuedFull {V} (buf : list V) : pc V := PQueuedFull 0 buf.

Definition send_commit {V} (w : world V) (a : attempt (world V)) : option (world V * pc V) :=
  match a with
  | Done w' => Some (w', PRet (RBool true))
  | Fails k => Some (w, PPanic k)
  | WouldBlock => None
  end.

(* One step of the helper in world [w]; None = not enabled (blocked, or already
   returned).  [choice] resolves a select in which both branches are ready:
   true = the channel branch. *)
Definition hstep {V} (zero : V) (choice : bool) (w : world V) (p : pc V) : option (world V * pc V) :=
  match p with
  | PSendBlock value => send_commit w (try_send Helper value w)
  | PSendSelect value =>
      match try_send Helper value w, done w with
      | WouldBlock, false => None
      | WouldBlock, true => Some (w, PRet (RBool false))
      | a, false => send_commit w a
      | a, true => if choice then send_commit w a else Some (w, PRet (RBool false))
      end
  | PRecvBlock =>
      match try_recv zero Helper w with
      | Some (w', value, ok) => Some (w', PRet (RRecv value ok))
      | None => None
      end
  | PRecvSelect =>
      match try_recv zero Helper w, done w with
      | None, false => None
      | None, true => Some (w, PRet (RRecv zero false))
      | Some (w', value, ok), false => Some (w', PRet (RRecv value ok))
      | Some (w', value, ok), true =>
          if choice then Some (w', PRet (RRecv value ok)) else Some (w, PRet (RRecv zero false))
      end
  | PQueued buffer maxValues =>
      (* for len(buffer) < maxValues { select { case v, ok := <-ch: ...; default: return buffer } }; return buffer *)
      if (Z.of_nat (length buffer) <? maxValues)%Z then
        match try_recv zero Helper w with
        | Some (w', v, ok) =>
            if negb ok then Some (w', PRet (RList buffer))
            else Some (w', PQueued (buffer ++ [v]) maxValues)
        | None => Some (w, PRet (RList buffer))
        end
      else Some (w, PRet (RList buffer))
  | PQueuedFull index buf =>
      (* for index < len(buf) { select { case v, ok := <-ch: ...; default: return index } }; return index *)
      if index <? length buf then
        match try_recv zero Helper w with
        | Some (w', v, ok) =>
            if negb ok then Some (w', PRet (RFull index buf))
            else match set_nth index v buf with
                 | Ok buf' => Some (w', PQueuedFull (index + 1) buf')
                 | Panic k => Some (w', PPanic k)
                 end
        | None => Some (w, PRet (RFull index buf))
        end
      else Some (w, PRet (RFull index buf))
  | PRet _ | PPanic _ => None
  end.

(* Schedules: any interleaving of environment actions and helper steps; a
   helper step that is not enabled is skipped. *)
Inductive action (V : Type) := AEnv (e : env_op V) | AHelp (choice : bool).
Arguments AEnv {V} e.
Arguments AHelp {V} choice.

Definition step {V} (zero : V) (st : world V * pc V) (a : action V) : world V * pc V :=
  match a with
  | AEnv e => (env_step zero e (fst st), snd st)
  | AHelp c => match hstep zero c (fst st) (snd st) with Some st' => st' | None => st end
  end.

Definition run {V} (zero : V) (sched : list (action V)) (st : world V * pc V) : world V * pc V :=
  fold_left (step zero) sched st.

Definition count_help {V} (sched : list (action V)) : nat :=
  length (filter (fun a => match a with AHelp _ => true | AEnv _ => false end) sched).

Definition returned {V} (p : pc V) : bool :=
  match p with PRet _ | PPanic _ => true | _ => false end.
