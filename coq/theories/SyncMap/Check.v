(* Correspondence check for sync2.Map / sync2.Set / keyed mutexes (C04, C05,
   C09): trace validation. The harness runs the real code under its
   controlled scheduler (one goroutine at a time, switching only at the hooks)
   and records the executed schedule: (goroutine, hook label, iteration key).
   [check_case] replays the schedule on the small-step model: every recorded
   step must be an enabled step of that thread AT THAT LABEL, every call must
   return what the real call returned, the run must end as the real run ended
   (all finished, or deadlocked on the same configuration) and the final
   contents must agree. Single-thread cases are additionally run on the
   big-step sequential model (Seq.v). Definitions only. *)
From Typ Require Export SyncMap.Model.
Local Open Scope Z_scope.

Record case := MkCase {
  c_ninst : Z;
  c_progs : list (list call);
  c_steps : list (Z * label * Z);       (* thread, label, key of an iteration hook (0 otherwise) *)
  c_results : list (list res);          (* per thread, in program order *)
  c_deadlock : bool;                    (* the real run ended with every live goroutine blocked *)
  c_final : list (list (Z * Z));        (* per instance: pairs seen by a final sequential Range *)
  c_zerosize : bool                     (* the instances are Sets (Map[T, struct{}], zero-size values): see Model.cas_ok *)
}.
(* the case syntax the harnesses emit: [Case ...] for Maps with ordinary values
   (C04, C09), [CaseZ ... true] for Sets (C05) *)
Definition Case ninst progs steps results deadlock final : case := MkCase ninst progs steps results deadlock final false.
Definition CaseZ ninst progs steps results deadlock final zerosize : case := MkCase ninst progs steps results deadlock final zerosize.

Definition opt_eqb {X} (eqb : X -> X -> bool) := @option_eqb X eqb.
Definition pairZ_eqb (a b : Z * Z) : bool := Z.eqb a.1 b.1 && Z.eqb a.2 b.2.

Definition res_eqb (a b : res) : bool :=
  match a, b with
  | RUnit, RUnit => true
  | ROpt x, ROpt y => option_eqb Z.eqb x y
  | RLos x l, RLos y l' => Z.eqb x y && Bool.eqb l l'
  | RBool x, RBool y => Bool.eqb x y
  | RRange x n, RRange y n' => list_eqb pairZ_eqb x y && Z.eqb n n'
  | RRange _ n, RCount n' => Z.eqb n n'
  | RPanic x, RPanic y => panic_kind_eqb x y
  | _, _ => false
  end.

(* replay; None = some recorded step is not a step of the model *)
Fixpoint replay (c : config) (steps : list (Z * label * Z)) : option config :=
  match steps with
  | [] => Some c
  | (t, l, k) :: steps' =>
      let t := Z.to_nat t in
      match nth_error (c_threads c) t with
      | None => None
      | Some th =>
          match thread_label th with
          | Some l' => if label_eqb l l' then
                         match step c t k with Some c' => replay c' steps' | None => None end
                       else None
          | None => None
          end
      end
  end.

Definition contents_ok (i : inst) (obs : list (Z * Z)) : bool :=
  forallb (fun kv => option_eqb Z.eqb (abs_lookup (i_st i) kv.1) (Some kv.2)) obs
  && Nat.eqb (length obs) (size (abs_map (i_st i))).

Fixpoint all2 {X Y} (f : X -> Y -> bool) (a : list X) (b : list Y) : bool :=
  match a, b with
  | [], [] => true
  | x :: a', y :: b' => f x y && all2 f a' b'
  | _, _ => false
  end.

Definition no_thread_enabled (c : config) : bool :=
  forallb (fun t => match step c t 0 with Some _ => false | None => true end) (seq 0 (length (c_threads c))).

Definition check_small (cs : case) : bool :=
  match replay (init_config_z (repeat (c_zerosize cs) (Z.to_nat (c_ninst cs))) (c_progs cs)) (c_steps cs) with
  | None => false
  | Some c =>
      all2 (fun th rs => list_eqb res_eqb (t_results th) rs) (c_threads c) (c_results cs)
      && (if c_deadlock cs then negb (finished c) && no_thread_enabled c else finished c)
      && negb (c_panicked c)
      && (match c_final cs with [] => true | _ => all2 contents_ok (c_insts c) (c_final cs) end)  (* [] = contents not observed *)
  end.

(* ---- the same program on the big-step model, for single-thread, single-call-depth programs ---- *)
Fixpoint insert_pair (x : Z * Z) (l : list (Z * Z)) : list (Z * Z) :=
  match l with [] => [x] | y :: l' => if x.1 <=? y.1 then x :: l else y :: insert_pair x l' end.
Definition sort_pairs (l : list (Z * Z)) : list (Z * Z) := fold_right insert_pair [] l.

Definition seq_supported (c : call) : bool :=
  match c with
  | CLoadOrStore _ _ _ PNone => true
  | CLoadOrStore _ _ _ _ => false
  | CRange _ (CbStop _) => true
  | CRange _ _ => false
  | _ => true
  end.

(* run one call on instance states; Range results are compared up to order *)
Definition seq_call (ss : list mstate) (c : call) (observed : res) : option (list mstate * bool) :=
  let j := call_inst c in
  match nth_error ss j with
  | None => None
  | Some s =>
      let upd s' := set_nth_list j s' ss in
      match c with
      | CLoad _ k => let '(s', r) := Load s k in Some (upd s', res_eqb (ROpt r) observed)
      | CStore _ k v => match Store s k v with Ok s' => Some (upd s', res_eqb RUnit observed) | Panic _ => None end
      | CLoadOrStore _ k v _ =>
          match LoadOrStore s k v with
          | Ok (s', a, l) => Some (upd s', res_eqb (RLos a l) observed)
          | Panic _ => None
          end
      | CLoadAndDelete _ k => let '(s', r) := LoadAndDelete s k in Some (upd s', res_eqb (ROpt r) observed)
      | CDelete _ k => Some (upd (Delete s k), res_eqb RUnit observed)
      | CRange _ f =>
          let stop := match f with CbStop n => n | _ => None end in
          let order := map fst (map_to_list (read_m (range_promotion s))) in
          let '(s', all) := Range s order None in
          match observed with
          | RRange obs n =>
              let ok := match stop with
                        | None => list_eqb pairZ_eqb (sort_pairs obs) (sort_pairs all)
                        | Some m => Nat.eqb (length obs) (Nat.min m (length all))
                                    && forallb (fun kv => existsb (pairZ_eqb kv) all) obs
                        end in
              Some (upd s', ok && Z.eqb n (Z.of_nat (length obs)))
          | _ => Some (upd s', false)
          end
      end
  end.

Fixpoint seq_run (ss : list mstate) (prog : list call) (obs : list res) : option (list mstate) :=
  match prog, obs with
  | [], [] => Some ss
  | c :: prog', r :: obs' =>
      match seq_call ss c r with
      | Some (ss', true) => seq_run ss' prog' obs'
      | _ => None
      end
  | _, _ => None
  end.

Definition check_big (cs : case) : bool :=
  match c_progs cs, c_results cs with
  | [prog], [obs] =>
      if forallb seq_supported prog then
        match seq_run (repeat empty_mstate (Z.to_nat (c_ninst cs))) prog obs with
        | Some ss => all2 (fun s o => contents_ok (Inst s None ∅ false) o) ss (c_final cs)
        | None => false
        end
      else true
  | _, _ => true
  end.

Definition check_case (cs : case) : bool := check_small cs && check_big cs.
