(* The concurrent Range clause of C04 (DESIGN 6/C04 item 5): programs in which
   any goroutine may call Range (with a callback that only counts and possibly
   stops: CbStop) next to Load / Store / LoadOrStore / LoadAndDelete / Delete,
   on one Map, under every schedule. For every COMPLETED Range call, with
   result RRange out cnt (out = the pairs passed to the callback, in order):
   (1) [range_once]   no key occurs twice in out;
   (2) [range_values] every (k, v) in out is a value k held at some
       configuration of the run that lies inside that very call (after its
       invocation, before its response): Range loads an entry of the map it
       iterates, and a loaded VALUE comes from an entry that is still the
       current one (a dead entry is expunged and yields nothing);
   (3) [range_complete] every key that holds one and the same value v in every
       configuration of the call's closed interval (the configuration in which
       the call takes its first step, and those strictly inside it) is in out
       with v, unless the callback asked to stop (bound n reached, cnt >= n):
       such a key is in the map Range finally iterates (the read map once it is
       not amended, possibly after Range's own promotion), its entry stays the
       one of the current read map (it can only be dropped after having been
       nil, i.e. the key absent), and the loop visits every key of that map.
   "Inside the call" needs no ghost state: thread t is inside its i-th call in
   exactly the configurations of the run in which it has i results, is not
   fresh and has a frame ([in_call]); the run's configurations are [run_trace]. *)
From Typ Require Import SyncMap.Model SyncMap.Inv SyncMap.SetAtomic Lib.Lin SyncMap.Linearizable.

(* a step of a Range frame does not change the abstract contents *)
Lemma cons_Range t i f ch i' o j cb :
  f_call f = CRange j cb -> frame_ok f -> frame_pc_ok f -> WF_core (i_st i) -> (in_cs f = true -> WFL (i_st i) f) ->
  ref_inv (i_st i) f -> step_frame t i f ch = Some (Ok (i', o)) ->
  forall k, abs_lookup (i_st i') k = abs_lookup (i_st i) k.
Proof.
  intros Hcall [He Hst Hdel Hpost] Hpk Hc Hw [_ Hrp] H k. unfold frame_pc_ok in Hpk. rewrite Hcall in Hpk.
  unfold step_frame in H. unfold WFL, in_cs in Hw. unfold cs_class in Hw. unfold ref_prom in Hrp.
  destruct (f_pc f) eqn:Hpc; try discriminate Hpk; rewrite ?Hcall in H; cbn in H, Hw, Hrp;
    repeat case_match; simplify_eq; try reflexivity.
  destruct (Hw eq_refl) as [_ Hwa]. cbn. destruct (dirty (i_st i)) as [d|] eqn:Hd; [|congruence]. cbn. apply abs_promote; auto.
Qed.

(* programs: the five calls of [lin_frag] and Range with a callback that only counts / stops *)
Definition rfrag (c : call) : Prop :=
  match c with
  | CRange j (CbStop _) => j = 0
  | CRange _ _ => False
  | _ => lin_frag c
  end.

Lemma rfrag_inst c : rfrag c -> call_inst c = 0.
Proof. destruct c as [| | | | |j cb]; cbn; try (intros [H _]; exact H). destruct cb; tauto. Qed.
Lemma rfrag_nopost c : rfrag c -> nopost c.
Proof. destruct c; cbn; auto; try (intros [_ H]; exact H). Qed.

(* what Range does after its callback was called with (k, v) *)
Definition cb_next (f : frame) (k v : Z) : outcome :=
  let f'' := set_out f (f_out f ++ [(k, v)]) (f_acc f + 1)%Z in
  let stop := match cb_of (f_call f) with CbStop (Some n) => (Z.of_nat n <=? f_acc f'')%Z | _ => false end in
  range_next f'' stop.
(* the outcome of a step once the callback (if any) has been run *)
Definition eff (o : outcome) : outcome := match o with Callback f' k v => cb_next f' k v | _ => o end.

Lemma cb_next_cases f k v :
  let f'' := set_out f (f_out f ++ [(k, v)]) (f_acc f + 1)%Z in
  cb_next f k v = Continue (set_pc f'' Range_iter) \/ cb_next f k v = Return (RRange (f_out f'') (f_acc f'')).
Proof.
  unfold cb_next. cbv zeta. unfold range_next. destruct (match cb_of (f_call f) with CbStop (Some n) => _ | _ => false end); [right; reflexivity|].
  destruct (unvisited _ _); [right|left]; reflexivity.
Qed.

Lemma step_rfrag c t ch c' th f :
  step c t ch = Some c' -> nth_error (c_threads c) t = Some th -> t_stack th = [f] -> rfrag (f_call f) ->
  is_post_label (f_pc f) = false ->
  let inv := if t_fresh th then [EvInv t (f_call f)] else [] in
  exists i r, nth_error (c_insts c) 0 = Some i /\ step_frame t i f ch = Some r /\
    match r with
    | Panic _ => c_panicked c' = true
    | Ok (i', o) =>
        match eff o with
        | Continue f' =>
            c' = Config (set_nth_list 0 i' (c_insts c)) (c_um c)
                        (set_nth_list t (Thread (t_prog th) [f'] (t_results th) false) (c_threads c))
                        (c_hist c ++ inv) false
        | Return r =>
            c' = Config (set_nth_list 0 i' (c_insts c)) (c_um c)
                        (set_nth_list t (next_call (Thread (t_prog th) [] (t_results th ++ [rep (f_call f) r]) false)) (c_threads c))
                        (c_hist c ++ inv ++ [EvRes t (rep (f_call f) r)]) false
        | Callback _ _ _ => False
        end
    end.
Proof.
  intros H Hth Hst Hfr Hpl inv. rewrite step_unfold in H.
  destruct (c_panicked c); [discriminate|]. rewrite Hth, Hst, Hpl in H. rewrite (rfrag_inst _ Hfr) in H.
  destruct (nth_error (c_insts c) 0) as [i|] eqn:Hi; [|discriminate].
  destruct (step_frame t i f ch) as [r|] eqn:Hsf; [|discriminate].
  exists i, r. split; [reflexivity|]. split; [exact Hsf|].
  destruct r as [[i' [f'|r|f' k v]]|k]; unfold fin in H; cbn [eff].
  - simplify_eq. reflexivity.
  - cbn in H. unfold rep. destruct (f_call f); simplify_eq; reflexivity.
  - apply sf_callback in Hsf as (-> & _ & (j & cb & Hc) & ->). rewrite Hc in Hfr. cbn in Hfr. destruct cb as [n| |]; try contradiction.
    subst inv. rewrite Hc in H. cbn [cb_of] in H. unfold cb_next. rewrite Hc. cbn [cb_of]. cbv zeta.
    match goal with |- context [range_next ?x ?y] => destruct (range_next_cases x y) as [[r' Hr]| Hr]; rewrite Hr in H |- * end.
    + cbn in H. simplify_eq. reflexivity.
    + simplify_eq. reflexivity.
  - simplify_eq. reflexivity.
Qed.

(* ---- Range frames ---- *)
Definition keys_of (out : list (Z * Z)) : list Z := map fst out.

(* frame-local *)
Definition range_ok (f : frame) : Prop :=
  List.NoDup (f_visited f) /\ List.NoDup (keys_of (f_out f)) /\
  (forall k, In k (keys_of (f_out f)) -> In k (f_visited f)) /\
  (f_pc f = Range_read1 -> f_out f = []) /\
  (f_pc f = E_load -> exists e, f_e f = Some e /\ f_rd_m f !! f_curk f = Some e /\
                               In (f_curk f) (f_visited f) /\ ~ In (f_curk f) (keys_of (f_out f))).

(* the entries of the map Range iterates are those of the current read map, or dead *)
Definition snap (s : mstate) (f : frame) : Prop := forall k e, f_rd_m f !! k = Some e -> pub_or_dead s k e.

(* how the list of pairs passed to the callback grows in a step from state s *)
Definition out_ext (atE : Prop) (s s' : mstate) (out out' : list (Z * Z)) : Prop :=
  out' = out \/ exists k v, out' = out ++ [(k, v)] /\ abs_lookup s k = Some v /\ s' = s /\ atE.

Lemma range_ok_new c : range_ok (new_frame c).
Proof. unfold range_ok. cbn. repeat split; try constructor; try contradiction. destruct c; discriminate. Qed.

Lemma keys_of_app out k v : keys_of (out ++ [(k, v)]) = keys_of out ++ [k].
Proof. unfold keys_of. rewrite map_app. reflexivity. Qed.

Lemma NoDup_snoc (l : list Z) k : List.NoDup l -> ~ In k l -> List.NoDup (l ++ [k]).
Proof.
  induction l as [|a l IH]; intros H N; cbn.
  - constructor; [intros []|constructor].
  - inversion H; subst. constructor.
    + intros Hin. apply in_app_or in Hin as [Hin|[<-|[]]]; [contradiction|]. apply N. left. reflexivity.
    + apply IH; [assumption|]. intros Hin. apply N. right. exact Hin.
Qed.

Definition range_ok0 (f : frame) : Prop :=
  List.NoDup (f_visited f) /\ List.NoDup (keys_of (f_out f)) /\ (forall k, In k (keys_of (f_out f)) -> In k (f_visited f)).

Lemma range_next_ok f stop :
  range_ok0 f ->
  match range_next f stop with
  | Continue f' => range_ok f' /\ f_call f' = f_call f /\ f_out f' = f_out f /\ f_rd_m f' = f_rd_m f
  | Return r => r = RRange (f_out f) (f_acc f)
  | Callback _ _ _ => False
  end.
Proof.
  intros (H1 & H2 & H3).
  destruct (range_next_cases f stop) as [[r Hr]|Hr]; rewrite Hr.
  - unfold range_next in Hr. destruct stop; [injection Hr as <-; reflexivity|]. destruct (unvisited _ _); [injection Hr as <-; reflexivity|discriminate].
  - split; [|auto]. unfold range_ok. cbn. split; [exact H1|]. split; [exact H2|]. split; [exact H3|]. split; discriminate.
Qed.

Lemma eff_range_next f stop : eff (range_next f stop) = range_next f stop.
Proof. destruct (range_next_cases f stop) as [[r ->]| ->]; reflexivity. Qed.

Section RangeStep.
Variables (t : nat) (i : inst) (f : frame) (ch : Z) (j : nat) (cb : cb).
Hypothesis Hcall : f_call f = CRange j cb.
Hypothesis Hok : frame_ok f.
Hypothesis Hpk : frame_pc_ok f.
Hypothesis Hc : WF_core (i_st i).
Hypothesis Hw : in_cs f = true -> WFL (i_st i) f.
Hypothesis Hr : ref_inv (i_st i) f.
Hypothesis Hro : range_ok f.
Hypothesis Hsn : snap (i_st i) f.

Lemma sf_range i' o :
  step_frame t i f ch = Some (Ok (i', o)) ->
  match eff o with
  | Continue f' => range_ok f' /\ snap (i_st i') f' /\ f_call f' = f_call f /\ out_ext (f_pc f = E_load) (i_st i) (i_st i') (f_out f) (f_out f')
  | Return r => exists out cnt, r = RRange out cnt /\ out_ext (f_pc f = E_load) (i_st i) (i_st i') (f_out f) out /\ List.NoDup (keys_of out)
  | Callback _ _ _ => False
  end /\ trans2 (i_st i) (i_st i').
Proof.
  intros H. pose proof Hok as [He Hst Hdel Hpost]. pose proof Hro as (R1 & R2 & R3 & R4 & R5). destruct Hr as [_ Hrp].
  pose proof Hw as Hw'. unfold frame_pc_ok in Hpk. rewrite Hcall in Hpk.
  unfold step_frame in H. unfold WFL, in_cs in Hw'. unfold cs_class in Hw'. unfold ref_prom in Hrp.
  assert (RN : forall f1 stop, range_ok0 f1 -> f_call f1 = f_call f -> f_out f1 = f_out f ->
            forall s1, snap s1 f1 ->
            match eff (range_next f1 stop) with
            | Continue f' => range_ok f' /\ snap s1 f' /\ f_call f' = f_call f /\ out_ext (f_pc f = E_load) (i_st i) s1 (f_out f) (f_out f')
            | Return r => exists out cnt, r = RRange out cnt /\ out_ext (f_pc f = E_load) (i_st i) s1 (f_out f) out /\ List.NoDup (keys_of out)
            | Callback _ _ _ => False
            end).
  { intros f1 stop Ho E1 E2 s1 Hs1. rewrite eff_range_next. pose proof (range_next_ok f1 stop Ho) as X.
    destruct (range_next f1 stop) as [f'|r|]; [| |exact X].
    - destruct X as (A & B & C & D). split; [exact A|]. split; [intros k e; rewrite D; apply Hs1|]. split; [congruence|]. left. congruence.
    - subst r. exists (f_out f1), (f_acc f1). split; [reflexivity|]. split; [left; exact E2|]. destruct Ho as (_ & X & _). exact X. }
  assert (R0 : range_ok0 f) by (split; [exact R1|split; [exact R2|exact R3]]).
  destruct (f_pc f) eqn:Hpc; try discriminate Hpk; rewrite ?Hcall in H; cbn -[range_next] in H; cbn in Hw', Hrp, He.
  - (* E_load *)
    destruct (R5 eq_refl) as (e & Hfe & Hrd & Hcv & Hco). rewrite Hfe in H.
    destruct (ent i e) eqn:Hent; injection H as <- <-; cbn [eff]; (split; [|apply trans2_refl]).
    + apply (RN f false); auto.
    + apply (RN f false); auto.
    + (* the callback is called with (curk, v) *)
      assert (Hk : read_m (i_st i) !! f_curk f = Some e).
      { apply pod_live; [apply Hsn; exact Hrd|]. apply is_exp_of_ent. congruence. }
      assert (Hab : abs_lookup (i_st i) (f_curk f) = Some v).
      { rewrite (abs_reach _ _ e (reach_read _ _ _ Hk)). unfold e_load. unfold ent in Hent. rewrite Hent. reflexivity. }
      set (f2 := set_out f (f_out f ++ [(f_curk f, v)]) (f_acc f + 1)%Z).
      assert (Ho2 : range_ok0 f2).
      { unfold range_ok0, f2. cbn. rewrite keys_of_app. split; [exact R1|]. split; [apply NoDup_snoc; assumption|].
        intros k Hin; apply in_app_or in Hin as [Hin|[<-|[]]]; auto. }
      unfold cb_next. cbv zeta. fold f2.
      pose proof (range_next_ok f2 (match cb_of (f_call f) with CbStop (Some n) => (Z.of_nat n <=? f_acc f2)%Z | _ => false end) Ho2) as X.
      destruct (range_next f2 _) as [f'|r|]; [| |exact X].
      * destruct X as (A & B & C & D).
        split; [exact A|]. split; [intros k0 e0; rewrite D; apply Hsn|]. split; [exact B|]. right. exists (f_curk f), v. rewrite C. auto 6.
      * rewrite X. exists (f_out f2), (f_acc f2). split; [reflexivity|].
        split; [right; exists (f_curk f), v; auto 6|]. destruct Ho2 as (_ & Y & _). exact Y.
  - (* Range_read1 *)
    assert (Ho1 : range_ok0 (set_iter (set_rd f (read_m (i_st i)) (amended (i_st i)) None) [] 0)).
    { unfold range_ok0. cbn. rewrite (R4 eq_refl). cbn. repeat split; try constructor; try contradiction. }
    assert (Hs1 : forall f1, f_rd_m f1 = read_m (i_st i) -> snap (i_st i) f1).
    { intros f1 E k e. rewrite E. intros Hk. left. exact Hk. }
    destruct (amended (i_st i)); injection H as <- <-; cbn [eff]; (split; [|apply trans2_refl]).
    + split; [|split; [apply Hs1; reflexivity|split; [reflexivity|left; reflexivity]]].
      unfold range_ok. cbn. destruct Ho1 as (A & B & C). repeat split; auto; try discriminate.
    + apply (RN (set_iter (set_rd f (read_m (i_st i)) false None) [] 0) false); auto.
  - (* Range_lock *)
    destruct (i_mu i); [discriminate|]; injection H as <- <-. cbn [eff]. split; [|apply trans2_refl].
    split; [|split; [exact Hsn|split; [reflexivity|left; reflexivity]]].
    unfold range_ok. cbn. repeat split; auto; try discriminate.
  - (* Range_read2 *)
    assert (X : forall l, l <> Range_read1 -> l <> E_load ->
              range_ok (set_pc (set_rd f (read_m (i_st i)) (amended (i_st i)) None) l) /\
              snap (i_st i) (set_pc (set_rd f (read_m (i_st i)) (amended (i_st i)) None) l)).
    { intros l N1 N2. split; [|intros k e Hk; left; exact Hk]. unfold range_ok. cbn. repeat split; auto; congruence. }
    destruct (amended (i_st i)); injection H as <- <-; cbn [eff]; (split; [|apply trans2_refl]).
    + destruct (X Range_promote) as [A B]; try discriminate. split; [exact A|]. split; [exact B|]. split; [reflexivity|left; reflexivity].
    + destruct (X Range_unlock) as [A B]; try discriminate. split; [exact A|]. split; [exact B|]. split; [reflexivity|left; reflexivity].
  - (* Range_promote *)
    destruct (Hw' eq_refl) as [_ Hwa]. destruct (dirty (i_st i)) as [d|] eqn:Hd; [|congruence]. injection H as <- <-. cbn [eff]. cbn.
    split; [|apply trans2_promote; auto].
    split; [unfold range_ok; cbn; repeat split; auto; congruence|]. split; [intros k e Hk; left; exact Hk|]. split; [reflexivity|left; reflexivity].
  - (* Range_unlock *)
    injection H as <- <-. cbn [eff]. split; [|apply trans2_refl]. apply (RN f false); auto.
  - (* Range_iter *)
    destruct (f_rd_m f !! ch) as [e|] eqn:Hch; [|discriminate]. destruct (existsb (Z.eqb ch) (f_visited f)) eqn:Hex; [discriminate|].
    injection H as <- <-. cbn [eff]. split; [|apply trans2_refl].
    assert (Hnv : ~ In ch (f_visited f)). { apply existsb_eqb_notin in Hex. rewrite <- elem_of_list_In. exact Hex. }
    split; [|split; [exact Hsn|split; [reflexivity|left; reflexivity]]].
    unfold range_ok. cbn. split; [constructor; assumption|]. split; [exact R2|]. split; [intros k Hin; right; auto|].
    split; [discriminate|]. intros _. exists e. split; [reflexivity|]. split; [exact Hch|]. split; [left; reflexivity|].
    intros Hin. apply Hnv. apply R3, Hin.
Qed.
End RangeStep.

(* a call that is not Range never returns a Range result *)
Lemma sf_no_range_res t i f ch i' r :
  frame_pc_ok f -> is_range (f_call f) = false -> step_frame t i f ch = Some (Ok (i', Return r)) ->
  forall out cnt, r <> RRange out cnt.
Proof.
  unfold frame_pc_ok. intros Hpk Hnr H out cnt. unfold step_frame in H.
  destruct (f_call f) eqn:Hc; try discriminate Hnr; destruct (f_pc f) eqn:Hpc; try discriminate Hpk;
    unfold expunge_done, tlos_done, bind in H; unfold after_miss, dirty_next, los_return in H;
    rewrite ?Hc in H; cbn in H; repeat case_match; simplify_eq; discriminate.
Qed.

(* ---- the configurations a run goes through ---- *)
Fixpoint trace_from (c : config) (sched : list (nat * Z)) : list config :=
  match sched with
  | [] => []
  | (t, ch) :: sched' => let c1 := default c (step c t ch) in c1 :: trace_from c1 sched'
  end.
Definition run_trace (c : config) (sched : list (nat * Z)) : list config := c :: trace_from c sched.

(* thread t is inside its i-th call (counting from 0): invoked, not yet returned *)
Definition in_call (c : config) (t i : nat) : Prop :=
  exists th, nth_error (c_threads c) t = Some th /\ length (t_results th) = i /\ t_fresh th = false /\ t_stack th <> [].

(* key k held value v at some configuration of the trace that lies inside the i-th call of thread t *)
Definition seen_val (tr : list config) (t i : nat) (k v : Z) : Prop :=
  exists cj, In cj tr /\ in_call cj t i /\ abs_lookup (st0 cj) k = Some v.

Lemma seen_val_mono tr tr' t i k v : (forall c, In c tr -> In c tr') -> seen_val tr t i k v -> seen_val tr' t i k v.
Proof. intros H (cj & A & B & C). exists cj. auto. Qed.

Record RInv (tr : list config) (c : config) : Prop := {
  ri_in : In c tr;
  ri_inst : exists i, nth_error (c_insts c) 0 = Some i;
  ri_frag : forall t th, nth_error (c_threads c) t = Some th ->
            Forall rfrag (t_prog th) /\ Forall (fun f => rfrag (f_call f)) (t_stack th) /\ length (t_stack th) <= 1;
  ri_fresh : forall t th f, nth_error (c_threads c) t = Some th -> t_fresh th = true -> head (t_stack th) = Some f ->
             f_pc f = first_label (f_call f);
  ri_range : forall t th f, nth_error (c_threads c) t = Some th -> t_stack th = [f] -> is_range (f_call f) = true ->
             range_ok f /\ snap (st0 c) f /\
             forall k v, In (k, v) (f_out f) -> seen_val tr t (length (t_results th)) k v;
  ri_res : forall t th i out cnt, nth_error (c_threads c) t = Some th -> nth_error (t_results th) i = Some (RRange out cnt) ->
           List.NoDup (keys_of out) /\ forall k v, In (k, v) out -> seen_val tr t i k v
}.

Lemma RInv_nopost tr c : RInv tr c -> calls_nopost c.
Proof.
  intros H t th Hth. destruct (ri_frag tr c H t th Hth) as (H1 & H2 & _). split.
  - eapply List.Forall_impl; [|exact H1]. apply rfrag_nopost.
  - eapply List.Forall_impl; [|exact H2]. intros f. apply rfrag_nopost.
Qed.

Lemma RInv_weaken tr tr' c : (forall x, In x tr -> In x tr') -> RInv tr c -> RInv tr' c.
Proof.
  intros Hsub [A B C D E F]. constructor; auto.
  - intros t th f H1 H2 H3. destruct (E t th f H1 H2 H3) as (X & Y & Z). split; [exact X|]. split; [exact Y|].
    intros k v Hin. eapply seen_val_mono; eauto.
  - intros t th i out cnt H1 H2. destruct (F t th i out cnt H1 H2) as [X Y]. split; [exact X|].
    intros k v Hin. eapply seen_val_mono; eauto.
Qed.

Lemma nth_error_snoc {X} (l : list X) x i y : nth_error (l ++ [x]) i = Some y ->
  nth_error l i = Some y \/ (i = length l /\ y = x).
Proof.
  intros H. destruct (lt_dec i (length l)) as [Hl|Hl].
  - left. rewrite nth_error_app1 in H by exact Hl. exact H.
  - right. rewrite nth_error_app2 in H by lia. destruct (i - length l) as [|n] eqn:E; cbn in H.
    + injection H as <-. split; [lia|reflexivity].
    + destruct n; discriminate.
Qed.

Theorem RInv_step tr c t ch c' :
  Inv c -> Inv2 c -> RInv tr c -> step c t ch = Some c' -> RInv (tr ++ [c']) c'.
Proof.
  intros HI HI2 HR H. pose proof HR as [Rin [i0 Hi0] Rfrag Rfresh Rrange Rres].
  assert (Hsub : forall x, In x tr -> In x (tr ++ [c'])) by (intros; apply in_or_app; auto).
  destruct (step_nopost c t ch c' HI (RInv_nopost tr c HR) H) as [_ Hnp].
  pose proof H as Hstep. apply step_cases in Hstep as (th & f & rest & th0 & Hth & Hst & _ & _).
  destruct (Rfrag t th Hth) as (Hfp & Hfs & Hlen). rewrite Hst in Hfs, Hlen.
  destruct rest as [|? ?]; [|cbn in Hlen; lia]. inversion Hfs as [|? ? Hfr _]; subst.
  assert (Tt : top_frame c t = Some f) by (unfold top_frame; rewrite Hth, Hst; reflexivity).
  assert (Hok : frame_ok f) by (eapply inv_frames; eauto).
  assert (Hpl : is_post_label (f_pc f) = false).
  { destruct (is_post_label (f_pc f)) eqn:E; [|reflexivity]. exfalso. apply (fo_post _ Hok) in E.
    pose proof (rfrag_nopost _ Hfr). destruct (f_call f); cbn in *; try contradiction. }
  destruct (step_rfrag c t ch c' th f H Hth Hst Hfr Hpl) as (i & r & Hi & Hsf & Hr).
  destruct r as [[i' o]|kk]; [|rewrite Hr in Hnp; discriminate].
  pose proof (rfrag_inst _ Hfr) as Hinst0.
  assert (Hl0 : 0 < length (c_insts c)) by (eapply nth_error_lt; eauto).
  assert (Hlt : t < length (c_threads c)) by (eapply nth_error_lt; eauto).
  assert (Hcore : WF_core (i_st i)) by (eapply Inv_WF_core; eauto).
  assert (Hwfl : in_cs f = true -> WFL (i_st i) f).
  { intros Hcs. destruct (inv_insts c HI _ _ Hi) as [Hm Hw].
    assert (Hmu : i_mu i = Some t) by (apply Hm; exists f; rewrite Hinst0; auto). rewrite Hmu in Hw. apply Hw, Tt. }
  assert (H2 : WF2 (i_st i)) by (eapply i2_wf2; eauto).
  assert (Href : ref_inv (i_st i) f) by (eapply i2_ref; eauto; rewrite Hinst0; exact Hi).
  assert (Hpk : frame_pc_ok f) by (eapply i2_pc; eauto).
  assert (Hs0 : st0 c = i_st i) by (unfold st0; rewrite Hi; reflexivity).
  (* what the step does to the references of the other threads *)
  destruct (sf_ref t i f ch i' o Hok Hpk Hcore Hwfl H2 Href Hsf) as (w & Htr & _ & Hwj & _).
  assert (Hwok : w_ok (i_st i) w).
  { intros e Ew. destruct (Hwj e Ew) as [Hre|[Hpf Hef]]; [right; exact Hre|].
    left. destruct (is_priv_priv _ _ _ Hpf Href Hef) as ([v Hv] & _). unfold is_exp. rewrite Hv. reflexivity. }
  (* the shape of c' *)
  assert (Hshape : exists th',
            c_insts c' = set_nth_list 0 i' (c_insts c) /\
            c_threads c' = set_nth_list t th' (c_threads c) /\
            match eff o with
            | Continue f' => th' = Thread (t_prog th) [f'] (t_results th) false
            | Return r => th' = next_call (Thread (t_prog th) [] (t_results th ++ [rep (f_call f) r]) false)
            | Callback _ _ _ => False
            end).
  { destruct (eff o) as [f'|r|? ? ?]; [| |contradiction]; subst c'; eexists; cbn; eauto. }
  destruct Hshape as (th' & Hi' & Hth' & Hthe).
  assert (Hi'0 : nth_error (c_insts c') 0 = Some i') by (rewrite Hi'; apply nth_error_set_nth_list_eq; exact Hl0).
  assert (Hs0' : st0 c' = i_st i') by (unfold st0; rewrite Hi'0; reflexivity).
  assert (C1 : forall t2, t2 <> t -> nth_error (c_threads c') t2 = nth_error (c_threads c) t2).
  { intros t2 N. rewrite Hth'. apply nth_error_set_nth_list_ne; auto. }
  assert (Ct : nth_error (c_threads c') t = Some th') by (rewrite Hth'; apply nth_error_set_nth_list_eq; exact Hlt).
  (* facts about the stepping thread *)
  assert (Hnf : f_pc f = E_load -> in_call c t (length (t_results th))).
  { intros Hpc. exists th. split; [exact Hth|]. split; [reflexivity|]. split; [|rewrite Hst; discriminate].
    destruct (t_fresh th) eqn:E; [|reflexivity]. exfalso.
    assert (X : f_pc f = first_label (f_call f)) by (eapply Rfresh; eauto; rewrite Hst; reflexivity).
    rewrite Hpc in X. destruct (f_call f); discriminate. }
  assert (Hnew : forall prog res, let thn := next_call (Thread prog [] res false) in
            Forall rfrag prog ->
            (Forall rfrag (t_prog thn) /\ Forall (fun f => rfrag (f_call f)) (t_stack thn) /\ length (t_stack thn) <= 1) /\
            (forall f0, t_fresh thn = true -> head (t_stack thn) = Some f0 -> f_pc f0 = first_label (f_call f0)) /\
            (forall f0, t_stack thn = [f0] -> range_ok f0 /\ (forall s1, snap s1 f0) /\ f_out f0 = []) /\
            t_results thn = res).
  { intros prog res thn Hp. unfold thn, next_call. cbn. destruct prog as [|c1 p1]; cbn.
    - split; [split; [constructor|split; [constructor|lia]]|]. split; [discriminate|]. split; [discriminate|reflexivity].
    - inversion Hp; subst. split; [split; [assumption|split; [constructor; [assumption|constructor]|lia]]|].
      split; [intros f0 _ [= <-]; reflexivity|]. split; [|reflexivity].
      intros f0 [= <-]. split; [apply range_ok_new|]. split; [|reflexivity]. intros s1 k e Hk. cbn in Hk. rewrite lookup_empty in Hk. discriminate. }
  (* the frame-level facts for a Range call *)
  assert (HRg : is_range (f_call f) = true ->
            match eff o with
            | Continue f' => range_ok f' /\ snap (i_st i') f' /\ f_call f' = f_call f /\
                             out_ext (f_pc f = E_load) (i_st i) (i_st i') (f_out f) (f_out f')
            | Return r => exists out cnt, r = RRange out cnt /\ out_ext (f_pc f = E_load) (i_st i) (i_st i') (f_out f) out /\ List.NoDup (keys_of out)
            | Callback _ _ _ => False
            end).
  { intros Hrg. destruct (f_call f) as [| | | | |j cb] eqn:Hcall; try discriminate Hrg.
    destruct (Rrange t th f Hth Hst) as (A & B & _); [rewrite Hcall; reflexivity|]. rewrite Hs0 in B.
    destruct (sf_range t i f ch j cb Hcall Hok Hpk Hcore Hwfl Href A B i' o Hsf) as [X _]. rewrite Hcall in X. exact X. }
  (* old witnesses and the new one *)
  assert (Hext : forall out', out_ext (f_pc f = E_load) (i_st i) (i_st i') (f_out f) out' ->
            (forall k v, In (k, v) (f_out f) -> seen_val tr t (length (t_results th)) k v) ->
            forall k v, In (k, v) out' -> seen_val (tr ++ [c']) t (length (t_results th)) k v).
  { intros out' [->|(k0 & v0 & -> & Hab & _ & HpcE)] Hold k v Hin.
    - eapply seen_val_mono; eauto.
    - apply in_app_or in Hin as [Hin|[[= <- <-]|[]]]; [eapply seen_val_mono; eauto|].
      exists c. split; [apply Hsub, Rin|]. split; [apply Hnf, HpcE|]. rewrite Hs0. exact Hab. }
  constructor.
  - apply in_or_app. right. left. reflexivity.
  - eauto.
  - (* ri_frag *)
    intros t2 th2. destruct (decide (t2 = t)) as [->|N]; [|rewrite (C1 t2 N); apply Rfrag].
    rewrite Ct. intros [= <-]. destruct (eff o) as [f'|r|? ? ?] eqn:Eo; [| |contradiction]; subst th'.
    + cbn. split; [exact Hfp|]. split; [|lia]. constructor; [|constructor].
      destruct (is_range (f_call f)) eqn:Hrg.
      * specialize (HRg eq_refl). destruct HRg as (_ & _ & -> & _). exact Hfr.
      * destruct o as [f1|r1|f1 k1 v1]; cbn in Eo; [injection Eo as ->| discriminate |].
        -- pose proof (sf_frame_ok _ _ _ _ _ _ Hok Hsf) as [_ X]. rewrite X. exact Hfr.
        -- apply sf_callback in Hsf as (_ & _ & (j & cb & Hc) & _). rewrite Hc in Hrg. discriminate.
    + apply (Hnew (t_prog th) _ Hfp).
  - (* ri_fresh *)
    intros t2 th2 f2. destruct (decide (t2 = t)) as [->|N]; [|rewrite (C1 t2 N); apply Rfresh].
    rewrite Ct. intros [= <-]. destruct (eff o) as [f'|r|? ? ?] eqn:Eo; [| |contradiction]; subst th'.
    + cbn. discriminate.
    + apply (Hnew (t_prog th) _ Hfp).
  - (* ri_range *)
    intros t2 th2 f2. destruct (decide (t2 = t)) as [->|N].
    + rewrite Ct. intros [= <-]. destruct (eff o) as [f'|r|? ? ?] eqn:Eo; [| |contradiction]; subst th'.
      * cbn. intros [= <-] Hrg2.
        assert (Hrg : is_range (f_call f) = true).
        { destruct (is_range (f_call f)) eqn:E; [reflexivity|]. exfalso.
          destruct o as [f1|r1|f1 k1 v1]; cbn in Eo; [injection Eo as ->| discriminate |].
          - pose proof (sf_frame_ok _ _ _ _ _ _ Hok Hsf) as [_ X]. congruence.
          - apply sf_callback in Hsf as (_ & _ & (j & cb & Hc) & _). rewrite Hc in E. discriminate. }
        specialize (HRg Hrg). destruct HRg as (A & B & Cc & D).
        split; [exact A|]. split; [rewrite Hs0'; exact B|].
        apply (Hext _ D). apply (Rrange t th f Hth Hst Hrg).
      * intros Hst2 _. destruct (Hnew (t_prog th) (t_results th ++ [rep (f_call f) r]) Hfp) as (_ & _ & X & _).
        destruct (X f2 Hst2) as (A & B & Cc). split; [exact A|]. split; [apply B|]. rewrite Cc. intros k v [].
    + rewrite (C1 t2 N). intros Hth2 Hst2 Hrg2. destruct (Rrange t2 th2 f2 Hth2 Hst2 Hrg2) as (A & B & Cc).
      split; [exact A|]. split.
      * rewrite Hs0'. rewrite Hs0 in B. intros k e Hk. eapply pod_trans; eauto.
      * intros k v Hin. eapply seen_val_mono; eauto.
  - (* ri_res *)
    intros t2 th2 i2 out cnt. destruct (decide (t2 = t)) as [->|N].
    + rewrite Ct. intros [= <-]. destruct (eff o) as [f'|r|? ? ?] eqn:Eo; [| |contradiction]; subst th'.
      * cbn. intros Hn. destruct (Rres t th i2 out cnt Hth Hn) as [A B]. split; [exact A|].
        intros k v Hin. eapply seen_val_mono; eauto.
      * destruct (Hnew (t_prog th) (t_results th ++ [rep (f_call f) r]) Hfp) as (_ & _ & _ & X). rewrite X.
        intros Hn. apply nth_error_snoc in Hn as [Hn|[-> Hn]].
        -- destruct (Rres t th i2 out cnt Hth Hn) as [A B]. split; [exact A|]. intros k v Hin. eapply seen_val_mono; eauto.
        -- (* the result reported now *)
           destruct (is_range (f_call f)) eqn:Hrg.
           ++ specialize (HRg eq_refl). destruct HRg as (out1 & cnt1 & -> & D & Nd).
              assert (rep (f_call f) (RRange out1 cnt1) = RRange out1 cnt1) by (destruct (f_call f); try discriminate Hrg; reflexivity).
              rewrite H0 in Hn. injection Hn as -> ->. split; [exact Nd|].
              apply (Hext _ D). apply (Rrange t th f Hth Hst Hrg).
           ++ exfalso. destruct o as [f1|r1|f1 k1 v1]; cbn in Eo; [discriminate|injection Eo as ->|].
              ** destruct (f_call f) eqn:Hcall; try discriminate Hrg; cbn in Hn; try discriminate Hn;
                   eapply (sf_no_range_res t i f ch i' r Hpk); eauto; rewrite Hcall; reflexivity.
              ** apply sf_callback in Hsf as (_ & _ & (j & cb & Hc) & _). rewrite Hc in Hrg. discriminate.
    + rewrite (C1 t2 N). intros Hth2 Hn. destruct (Rres t2 th2 i2 out cnt Hth2 Hn) as [A B]. split; [exact A|].
      intros k v Hin. eapply seen_val_mono; eauto.
Qed.

Theorem RInv_init z progs : Forall (Forall rfrag) progs -> RInv [init_config_z [z] progs] (init_config_z [z] progs).
Proof.
  intros Hfr.
  assert (Hthreads : forall t th, nth_error (c_threads (init_config_z [z] progs)) t = Some th ->
            exists p, Forall rfrag p /\ th = next_call (Thread p [] [] false)).
  { intros t th. cbn. rewrite nth_error_map. destruct (nth_error progs t) as [p|] eqn:E; [|discriminate]. cbn.
    intros [= <-]. exists p. split; [|reflexivity]. rewrite Forall_forall in Hfr. apply Hfr. eapply nth_error_In, E. }
  constructor.
  - left. reflexivity.
  - exists (empty_inst_z z). reflexivity.
  - intros t th Hth. destruct (Hthreads t th Hth) as (p & Hp & ->). unfold next_call. cbn. destruct p as [|c0 p]; cbn.
    + split; [constructor|]. split; [constructor|lia].
    + inversion Hp; subst. split; [assumption|]. split; [constructor; [assumption|constructor]|lia].
  - intros t th f Hth _. destruct (Hthreads t th Hth) as (p & Hp & ->). unfold next_call. cbn.
    destruct p; cbn; [discriminate|]. intros [= <-]. reflexivity.
  - intros t th f Hth. destruct (Hthreads t th Hth) as (p & Hp & ->). unfold next_call. cbn.
    destruct p as [|c0 p]; cbn; [discriminate|]. intros [= <-] _. split; [apply range_ok_new|]. split.
    + intros k e Hk. cbn in Hk. rewrite lookup_empty in Hk. discriminate.
    + intros k v [].
  - intros t th i out cnt Hth. destruct (Hthreads t th Hth) as (p & Hp & ->). unfold next_call. cbn.
    destruct p; cbn; destruct i; discriminate.
Qed.

Lemma RInv_run sched : forall tr c, Inv c -> Inv2 c -> RInv tr c ->
  RInv (tr ++ trace_from c sched) (run_schedule c sched).
Proof.
  induction sched as [|[t ch] sched IH]; intros tr c H1 H2 HR; cbn.
  - rewrite app_nil_r. exact HR.
  - destruct (step c t ch) as [c'|] eqn:E; cbn.
    + change (c' :: trace_from c' sched) with ([c'] ++ trace_from c' sched). rewrite app_assoc.
      apply IH; [eapply Inv_step; eauto|eapply Inv2_step; eauto|eapply RInv_step; eauto].
    + change (c :: trace_from c sched) with ([c] ++ trace_from c sched). rewrite app_assoc.
      apply IH; auto. eapply RInv_weaken; [|exact HR]. intros x Hx. apply in_or_app. auto.
Qed.

Theorem RInv_reachable z progs sched :
  Forall (Forall rfrag) progs ->
  RInv (run_trace (init_config_z [z] progs) sched) (run_schedule (init_config_z [z] progs) sched).
Proof.
  intros Hfr. unfold run_trace. change (?c :: ?l) with ([c] ++ l).
  apply RInv_run; [apply Inv_init_z|apply Inv2_init_z|apply RInv_init, Hfr].
Qed.

(* (1) Range calls its function at most once per key *)
Theorem range_once z progs sched t th i out cnt :
  Forall (Forall rfrag) progs ->
  let c := run_schedule (init_config_z [z] progs) sched in
  nth_error (c_threads c) t = Some th -> nth_error (t_results th) i = Some (RRange out cnt) ->
  List.NoDup (map fst out).
Proof. intros Hfr c Hth Hn. apply (ri_res _ _ (RInv_reachable z progs sched Hfr) t th i out cnt Hth Hn). Qed.

(* (2) ... only with a value the key held at some configuration inside the call *)
Theorem range_values z progs sched t th i out cnt :
  Forall (Forall rfrag) progs ->
  let c := run_schedule (init_config_z [z] progs) sched in
  nth_error (c_threads c) t = Some th -> nth_error (t_results th) i = Some (RRange out cnt) ->
  forall k v, In (k, v) out ->
  exists cj, In cj (run_trace (init_config_z [z] progs) sched) /\ in_call cj t i /\ abs_lookup (st0 cj) k = Some v.
Proof. intros Hfr c Hth Hn. apply (ri_res _ _ (RInv_reachable z progs sched Hfr) t th i out cnt Hth Hn). Qed.

(* ================================================================== *)
(* Part C: completeness of Range                                       *)
(* ================================================================== *)
(* every step keeps the read map, or is a promotion *)
Lemma sf_read_kept t i f ch i' o :
  frame_ok f -> (in_cs f = true -> WFL (i_st i) f) -> ref_inv (i_st i) f -> step_frame t i f ch = Some (Ok (i', o)) ->
  read_m (i_st i') = read_m (i_st i) \/
  (exists d, dirty (i_st i) = Some d /\ WF_ad (i_st i) /\ i_st i' = MState (ents (i_st i)) (next_e (i_st i)) d false None 0).
Proof.
  intros [He Hst Hdel Hpost] Hw [_ Hrp] H. unfold step_frame in H. unfold WFL, in_cs in Hw. unfold cs_class in Hw. unfold ref_prom in Hrp.
  destruct (f_pc f) eqn:Hpc; cbn in He, Hw, Hrp;
    unfold expunge_done, tlos_done, bind in H; unfold after_miss, new_entry, dirty_insert, dirty_delete in H; cbn in H;
    repeat case_match; simplify_eq; cbn; try (left; reflexivity).
  all: try (right; destruct (Hw eq_refl) as [_ Hwa]; eexists; split; [eassumption|]; split; [exact Hwa|reflexivity]).
  all: try (exfalso; apply Hrp; assumption).
  all: try (left; destruct (Hw eq_refl) as [_ [(L1 & _) _]]; exact L1).
  all: right; destruct (Hw eq_refl) as [_ Hwa]; destruct (dirty (i_st i)) as [d|] eqn:Hd; [|congruence]; exists d; auto.
Qed.

Definition final_pc (l : label) : bool := match l with Range_unlock | Range_iter | E_load => true | _ => false end.
Definition pre_pc (l : label) : bool := match l with Range_lock | Range_read2 | Range_promote | Range_unlock => true | _ => false end.
Definition prelock (f : frame) : Prop := pre_pc (f_pc f) = true -> f_visited f = [].

(* keys the loop has not dealt with yet *)
Definition notdone (f : frame) (k : Z) : Prop :=
  match f_pc f with E_load => k = f_curk f \/ ~ In k (f_visited f) | _ => ~ In k (f_visited f) end.

(* every key of interest (K) has been passed to the callback, or is still to
   come and its entry in the iterated map is the one of the current read map *)
Definition comp (s : mstate) (f : frame) (K : Z -> Z -> Prop) : Prop :=
  forall k v, K k v -> In (k, v) (f_out f) \/ (notdone f k /\ exists e, f_rd_m f !! k = Some e /\ read_m s !! k = Some e).

Lemma rn_comp s1 f1 stop (K : Z -> Z -> Prop) :
  (forall k v, K k v -> In (k, v) (f_out f1) \/ (~ In k (f_visited f1) /\ exists e, f_rd_m f1 !! k = Some e /\ read_m s1 !! k = Some e)) ->
  match range_next f1 stop with
  | Continue f' => prelock f' /\ (final_pc (f_pc f') = true -> comp s1 f' K)
  | Return r => exists out cnt, r = RRange out cnt /\ (out = f_out f1 /\ cnt = f_acc f1) /\ forall k v, K k v -> In (k, v) out \/ stop = true
  | Callback _ _ _ => False
  end.
Proof.
  intros H. unfold range_next. destruct stop.
  - exists (f_out f1), (f_acc f1). auto.
  - destruct (unvisited (f_rd_m f1) (f_visited f1)) eqn:E.
    + exists (f_out f1), (f_acc f1). split; [reflexivity|]. split; [split; reflexivity|]. intros k v HK. left.
      destruct (H k v HK) as [Hin|(Hnd & e & He & _)]; [exact Hin|]. exfalso. apply Hnd.
      apply elem_of_list_In. eapply unvisited_nil; eauto.
    + split; [unfold prelock; cbn; discriminate|]. intros _. exact H.
Qed.

Lemma abs_read_unamended s k v : amended s = false -> abs_lookup s k = Some v -> exists e, read_m s !! k = Some e.
Proof.
  unfold abs_lookup, reach. intros ->. destruct (read_m s !! k) as [e|]; [eauto|discriminate].
Qed.

Lemma classic_in (x : Z * Z) (l : list (Z * Z)) : In x l \/ ~ In x l.
Proof.
  destruct (in_dec (fun a b : Z * Z => prod_eq_dec a b) x l); auto.
Qed.

Section RangeComp.
Variables (t : nat) (i : inst) (f : frame) (ch : Z) (j : nat) (cb : cb) (K : Z -> Z -> Prop).
Hypothesis Hcall : f_call f = CRange j cb.
Hypothesis Hok : frame_ok f.
Hypothesis Hpk : frame_pc_ok f.
Hypothesis Hc : WF_core (i_st i).
Hypothesis Hw : in_cs f = true -> WFL (i_st i) f.
Hypothesis Hr : ref_inv (i_st i) f.
Hypothesis Hro : range_ok f.
Hypothesis Hpre : prelock f.
Hypothesis HK : forall k v, K k v -> abs_lookup (i_st i) k = Some v.
Hypothesis Hcomp : final_pc (f_pc f) = true -> comp (i_st i) f K.

Lemma sf_range3 i' o :
  step_frame t i f ch = Some (Ok (i', o)) ->
  match eff o with
  | Continue f' => prelock f' /\ (final_pc (f_pc f') = true -> comp (i_st i') f' K)
  | Return r => exists out cnt, r = RRange out cnt /\
                 forall k v, K k v -> In (k, v) out \/ exists n, cb = CbStop (Some n) /\ out <> [] /\ (Z.of_nat n <= cnt)%Z
  | Callback _ _ _ => False
  end.
Proof.
  intros H. pose proof Hok as [He Hst Hdel Hpost]. pose proof Hro as (R1 & R2 & R3 & R4 & R5). destruct Hr as [_ Hrp].
  pose proof Hw as Hw'. pose proof Hpk as Hpk'. unfold frame_pc_ok in Hpk'. rewrite Hcall in Hpk'.
  unfold step_frame in H. unfold WFL, in_cs in Hw'. unfold cs_class in Hw'. unfold ref_prom in Hrp. unfold prelock in Hpre.
  (* range_next without a stop request *)
  assert (RN : forall s1 f1,
            (forall k v, K k v -> In (k, v) (f_out f1) \/ (~ In k (f_visited f1) /\ exists e, f_rd_m f1 !! k = Some e /\ read_m s1 !! k = Some e)) ->
            match eff (range_next f1 false) with
            | Continue f' => prelock f' /\ (final_pc (f_pc f') = true -> comp s1 f' K)
            | Return r => exists out cnt, r = RRange out cnt /\
                           forall k v, K k v -> In (k, v) out \/ exists n, cb = CbStop (Some n) /\ out <> [] /\ (Z.of_nat n <= cnt)%Z
            | Callback _ _ _ => False
            end).
  { intros s1 f1 X. rewrite eff_range_next. pose proof (rn_comp s1 f1 false K X) as Y.
    destruct (range_next f1 false) as [f'|r|]; [exact Y| |exact Y].
    destruct Y as (out & cnt & -> & _ & Y). exists out, cnt. split; [reflexivity|]. intros k v Hk. destruct (Y k v Hk); [auto|discriminate]. }
  (* a fresh snapshot of a read map that is not amended *)
  assert (SN : forall s1 f1, amended s1 = false -> f_rd_m f1 = read_m s1 -> f_visited f1 = [] ->
            (forall k v, K k v -> abs_lookup s1 k = Some v) ->
            forall k v, K k v -> In (k, v) (f_out f1) \/ (~ In k (f_visited f1) /\ exists e, f_rd_m f1 !! k = Some e /\ read_m s1 !! k = Some e)).
  { intros s1 f1 Ham Hrd Hv Hab k v Hk. right. rewrite Hv. split; [intros []|].
    destruct (abs_read_unamended s1 k v Ham (Hab k v Hk)) as [e He']. exists e. rewrite Hrd. auto. }
  destruct (f_pc f) eqn:Hpc; try discriminate Hpk'; rewrite ?Hcall in H; cbn -[range_next] in H; cbn in Hw', Hrp, He, Hpre.
  - (* E_load *)
    specialize (Hcomp eq_refl).
    destruct (R5 eq_refl) as (e & Hfe & Hrd & Hcv & Hco). rewrite Hfe in H.
    assert (Hcur : forall k v, K k v -> k = f_curk f -> ~ In (k, v) (f_out f) ->
              read_m (i_st i) !! f_curk f = Some e /\ e_load (i_st i) e = Some v).
    { intros k v Hk -> Hni. destruct (Hcomp _ v Hk) as [Hin|(_ & e0 & He0 & Hr0)]; [contradiction|].
      assert (e0 = e) by congruence. subst e0. split; [exact Hr0|].
      rewrite <- (abs_reach _ _ _ (reach_read _ _ _ Hr0)). apply HK, Hk. }
    assert (Hrest : forall k v, K k v -> k <> f_curk f ->
              In (k, v) (f_out f) \/ (~ In k (f_visited f) /\ exists e0, f_rd_m f !! k = Some e0 /\ read_m (i_st i) !! k = Some e0)).
    { intros k v Hk N. destruct (Hcomp k v Hk) as [Hin|(Hnd & X)]; [auto|]. right. split; [|exact X].
      unfold notdone in Hnd. rewrite Hpc in Hnd. destruct Hnd; [contradiction|assumption]. }
    assert (Hmiss : forall p, ent i e = p -> (forall v, p <> PVal v) ->
              forall k v, K k v -> In (k, v) (f_out f) \/ (~ In k (f_visited f) /\ exists e0, f_rd_m f !! k = Some e0 /\ read_m (i_st i) !! k = Some e0)).
    { intros p Hent Hnv k v Hk. destruct (decide (k = f_curk f)) as [E|N]; [|apply Hrest; auto].
      destruct (classic_in (k, v) (f_out f)) as [Hin|Hni]; [auto|]. exfalso.
      destruct (Hcur k v Hk E Hni) as [_ Hl]. unfold e_load in Hl. unfold ent in Hent. rewrite Hent in Hl.
      destruct p; try discriminate. eapply Hnv; eauto. }
    destruct (ent i e) eqn:Hent; injection H as <- <-; cbn [eff].
    + apply (RN (i_st i) f). eapply Hmiss; eauto; discriminate.
    + apply (RN (i_st i) f). eapply Hmiss; eauto; discriminate.
    + (* the callback is called with (curk, v) *)
      set (f2 := set_out f (f_out f ++ [(f_curk f, v)]) (f_acc f + 1)%Z).
      assert (X2 : forall k v0, K k v0 -> In (k, v0) (f_out f2) \/ (~ In k (f_visited f2) /\ exists e0, f_rd_m f2 !! k = Some e0 /\ read_m (i_st i) !! k = Some e0)).
      { intros k v0 Hk. unfold f2. cbn. destruct (decide (k = f_curk f)) as [E|N].
        - left. destruct (classic_in (k, v0) (f_out f)) as [Hin|Hni]; [apply in_or_app; auto|].
          destruct (Hcur k v0 Hk E Hni) as [_ Hl]. unfold e_load in Hl. unfold ent in Hent. rewrite Hent in Hl. injection Hl as ->.
          apply in_or_app. right. left. congruence.
        - destruct (Hrest k v0 Hk N) as [Hin|Y]; [left; apply in_or_app; auto|right; exact Y]. }
      unfold cb_next. cbv zeta. fold f2. rewrite Hcall. cbn [cb_of].
      pose proof (rn_comp (i_st i) f2 (match cb with CbStop (Some n) => (Z.of_nat n <=? f_acc f2)%Z | _ => false end) K X2) as Y.
      destruct (range_next f2 _) as [f'|r|]; [exact Y| |exact Y].
      destruct Y as (out & cnt & -> & [Hout Hcnt] & Y). exists out, cnt. split; [reflexivity|]. intros k v0 Hk.
      destruct (Y k v0 Hk) as [Hin|Hstop]; [auto|]. right.
      destruct cb as [[n|]| |]; try discriminate Hstop. exists n. split; [reflexivity|]. split.
      { rewrite Hout. unfold f2. cbn. intros E. symmetry in E. apply app_cons_not_nil in E. exact E. }
      apply Z.leb_le in Hstop. lia.
  - (* Range_read1 *)
    destruct (amended (i_st i)) eqn:Ham; injection H as <- <-; cbn [eff].
    + split; [unfold prelock; cbn; reflexivity|discriminate].
    + apply (RN (i_st i) (set_iter (set_rd f (read_m (i_st i)) false None) [] 0)). apply SN; auto.
  - (* Range_lock *)
    destruct (i_mu i); [discriminate|]. injection H as <- <-. cbn [eff]. split; [unfold prelock; cbn; intros _; apply Hpre; reflexivity|discriminate].
  - (* Range_read2 *)
    destruct (amended (i_st i)) eqn:Ham; injection H as <- <-; cbn [eff].
    + split; [unfold prelock; cbn; intros _; apply Hpre; reflexivity|discriminate].
    + split; [unfold prelock; cbn; intros _; apply Hpre; reflexivity|]. intros _. unfold comp, notdone. cbn.
      apply (SN (i_st i) (set_pc (set_rd f (read_m (i_st i)) false None) Range_unlock)); auto.
  - (* Range_promote *)
    destruct (Hw' eq_refl) as [_ Hwa]. destruct (dirty (i_st i)) as [d|] eqn:Hd; [|congruence]. injection H as <- <-. cbn [eff]. cbn.
    split; [unfold prelock; cbn; intros _; apply Hpre; reflexivity|]. intros _. unfold comp, notdone. cbn.
    apply (SN (MState (ents (i_st i)) (next_e (i_st i)) d false None 0) (set_pc (set_rd f d false None) Range_unlock)); auto.
    intros k v Hk. rewrite abs_promote by auto. apply HK, Hk.
  - (* Range_unlock *)
    injection H as <- <-. cbn [eff]. apply (RN (i_st i) f). intros k v Hk. destruct (Hcomp eq_refl k v Hk) as [Hin|(Hnd & X)]; [auto|].
    right. split; [|exact X]. unfold notdone in Hnd. rewrite Hpc in Hnd. exact Hnd.
  - (* Range_iter *)
    destruct (f_rd_m f !! ch) as [e|] eqn:Hch; [|discriminate]. destruct (existsb (Z.eqb ch) (f_visited f)) eqn:Hex; [discriminate|].
    injection H as <- <-. cbn [eff]. split; [unfold prelock; cbn; discriminate|]. intros _ k v Hk.
    destruct (Hcomp eq_refl k v Hk) as [Hin|(Hnd & X)]; [left; exact Hin|]. right. split; [|exact X].
    unfold notdone in *. rewrite Hpc in Hnd. cbn. destruct (decide (k = ch)) as [->|N]; [left; reflexivity|].
    right. intros [E|Hin]; [congruence|contradiction].
Qed.
End RangeComp.

(* everything about one step of a program of the Range fragment *)
Lemma rstep_facts tr c t ch c' :
  Inv c -> Inv2 c -> RInv tr c -> step c t ch = Some c' ->
  exists th f i i' o th',
    nth_error (c_threads c) t = Some th /\ t_stack th = [f] /\ rfrag (f_call f) /\
    nth_error (c_insts c) 0 = Some i /\ st0 c = i_st i /\ st0 c' = i_st i' /\
    frame_ok f /\ frame_pc_ok f /\ WF_core (i_st i) /\ (in_cs f = true -> WFL (i_st i) f) /\ ref_inv (i_st i) f /\
    step_frame t i f ch = Some (Ok (i', o)) /\
    c_threads c' = set_nth_list t th' (c_threads c) /\
    match eff o with
    | Continue f' => th' = Thread (t_prog th) [f'] (t_results th) false /\ f_call f' = f_call f
    | Return r => th' = next_call (Thread (t_prog th) [] (t_results th ++ [rep (f_call f) r]) false)
    | Callback _ _ _ => False
    end /\
    (is_range (f_call f) = false -> forall r out cnt, eff o = Return r -> rep (f_call f) r <> RRange out cnt).
Proof.
  intros HI HI2 HR H. pose proof HR as [Rin [i0 Hi0] Rfrag Rfresh Rrange Rres].
  destruct (step_nopost c t ch c' HI (RInv_nopost tr c HR) H) as [_ Hnp].
  pose proof H as Hstep. apply step_cases in Hstep as (th & f & rest & th0 & Hth & Hst & _ & _).
  destruct (Rfrag t th Hth) as (Hfp & Hfs & Hlen). rewrite Hst in Hfs, Hlen.
  destruct rest as [|? ?]; [|cbn in Hlen; lia]. inversion Hfs as [|? ? Hfr _]; subst.
  assert (Tt : top_frame c t = Some f) by (unfold top_frame; rewrite Hth, Hst; reflexivity).
  assert (Hok : frame_ok f) by (eapply inv_frames; eauto).
  assert (Hpl : is_post_label (f_pc f) = false).
  { destruct (is_post_label (f_pc f)) eqn:E; [|reflexivity]. exfalso. apply (fo_post _ Hok) in E.
    pose proof (rfrag_nopost _ Hfr). destruct (f_call f); cbn in *; try contradiction. }
  destruct (step_rfrag c t ch c' th f H Hth Hst Hfr Hpl) as (i & r & Hi & Hsf & Hr).
  destruct r as [[i' o]|kk]; [|rewrite Hr in Hnp; discriminate].
  pose proof (rfrag_inst _ Hfr) as Hinst0.
  assert (Hl0 : 0 < length (c_insts c)) by (eapply nth_error_lt; eauto).
  assert (Hpk : frame_pc_ok f) by (eapply i2_pc; eauto).
  assert (Hshape : exists th',
            c_insts c' = set_nth_list 0 i' (c_insts c) /\
            c_threads c' = set_nth_list t th' (c_threads c) /\
            match eff o with
            | Continue f' => th' = Thread (t_prog th) [f'] (t_results th) false
            | Return r => th' = next_call (Thread (t_prog th) [] (t_results th ++ [rep (f_call f) r]) false)
            | Callback _ _ _ => False
            end).
  { destruct (eff o) as [f'|r|? ? ?]; [| |contradiction]; subst c'; eexists; cbn; eauto. }
  destruct Hshape as (th' & Hi' & Hth' & Hthe).
  assert (Hi'0 : nth_error (c_insts c') 0 = Some i') by (rewrite Hi'; apply nth_error_set_nth_list_eq; exact Hl0).
  exists th, f, i, i', o, th'.
  split; [exact Hth|]. split; [exact Hst|]. split; [exact Hfr|]. split; [exact Hi|].
  split; [unfold st0; rewrite Hi; reflexivity|]. split; [unfold st0; rewrite Hi'0; reflexivity|].
  split; [exact Hok|]. split; [exact Hpk|]. split; [eapply Inv_WF_core; eauto|].
  split.
  { intros Hcs. destruct (inv_insts c HI _ _ Hi) as [Hm Hw].
    assert (Hmu : i_mu i = Some t) by (apply Hm; exists f; rewrite Hinst0; auto). rewrite Hmu in Hw. apply Hw, Tt. }
  split; [eapply i2_ref; eauto; rewrite Hinst0; exact Hi|]. split; [exact Hsf|]. split; [exact Hth'|].
  split.
  - destruct (eff o) as [f'|r|? ? ?] eqn:Eo; [|exact Hthe|contradiction]. split; [exact Hthe|].
    destruct o as [f1|r1|f1 k1 v1]; cbn in Eo.
    + injection Eo as ->. apply (sf_frame_ok _ _ _ _ _ _ Hok Hsf).
    + discriminate.
    + pose proof Hsf as Hsf'. apply sf_callback in Hsf' as (-> & _ & _ & _).
      destruct (cb_next_cases f k1 v1) as [E|E]; rewrite E in Eo; [injection Eo as <-; reflexivity|discriminate].
  - intros Hnr r out cnt Eo. destruct o as [f1|r1|f1 k1 v1]; cbn in Eo.
    + discriminate.
    + injection Eo as ->. intros E. destruct (f_call f) eqn:Hcall; try discriminate Hnr; cbn in E; try discriminate E;
        eapply (sf_no_range_res t i f ch i' r Hpk); eauto; rewrite Hcall; reflexivity.
    + exfalso. apply sf_callback in Hsf as (_ & _ & (j & cb & Hc) & _). rewrite Hc in Hnr. discriminate.
Qed.

(* ---- the run as a list of (configuration, thread scheduled in it) ---- *)
Fixpoint steps_from (c : config) (sched : list (nat * Z)) : list (config * nat) :=
  match sched with
  | [] => []
  | (t, ch) :: sched' => (c, t) :: steps_from (default c (step c t ch)) sched'
  end.

(* the configurations of the closed interval of the i-th call of thread t: those
   strictly inside it, and the one in which t takes the call's first step *)
Definition in_call_at (x : config * nat) (t i : nat) : Prop :=
  in_call x.1 t i \/
  (x.2 = t /\ exists th, nth_error (c_threads x.1) t = Some th /\ length (t_results th) = i /\ t_fresh th = true /\ t_stack th <> []).

(* key k holds v throughout the i-th call of thread t, as far as the run has got *)
Definition stable (ptr : list (config * nat)) (t i : nat) (k v : Z) : Prop :=
  forall x, In x ptr -> in_call_at x t i -> abs_lookup (st0 x.1) k = Some v.

Record RInv3 (progs : list (list call)) (ptr : list (config * nat)) (c : config) : Prop := {
  r3_len : length (c_threads c) = length progs;
  r3_prog : forall t th p, nth_error progs t = Some p -> nth_error (c_threads c) t = Some th ->
            exists done, p = done ++ map f_call (t_stack th) ++ t_prog th /\ length done = length (t_results th);
  r3_pre : forall t th f, nth_error (c_threads c) t = Some th -> t_stack th = [f] -> is_range (f_call f) = true -> prelock f;
  r3_comp : forall t th f, nth_error (c_threads c) t = Some th -> t_stack th = [f] -> is_range (f_call f) = true ->
            final_pc (f_pc f) = true -> comp (st0 c) f (stable ptr t (length (t_results th)));
  r3_res : forall t th i out cnt, nth_error (c_threads c) t = Some th -> nth_error (t_results th) i = Some (RRange out cnt) ->
           forall k v, stable ptr t i k v ->
           In (k, v) out \/ exists p n, nth_error progs t = Some p /\ nth_error p i = Some (CRange 0 (CbStop (Some n))) /\ out <> [] /\ (Z.of_nat n <= cnt)%Z
}.

Lemma stable_mono ptr ptr' t i k v : (forall x, In x ptr -> In x ptr') -> stable ptr' t i k v -> stable ptr t i k v.
Proof. intros H S x Hx. apply S, H, Hx. Qed.

Lemma RInv3_weaken progs ptr ptr' c : (forall x, In x ptr -> In x ptr') -> RInv3 progs ptr c -> RInv3 progs ptr' c.
Proof.
  intros Hsub [L A B C D]. constructor; auto.
  - intros t th f H1 H2 H3 H4 k v Hk. apply (C t th f H1 H2 H3 H4 k v). eapply stable_mono; eauto.
  - intros t th i out cnt H1 H2 k v Hk. apply (D t th i out cnt H1 H2 k v). eapply stable_mono; eauto.
Qed.

Lemma final_not_first f : is_range (f_call f) = true -> final_pc (f_pc f) = true -> f_pc f <> first_label (f_call f).
Proof. destruct (f_call f); try discriminate. intros _ H E. rewrite E in H. discriminate. Qed.

Theorem RInv3_step progs tr ptr c t ch c' :
  Inv c -> Inv2 c -> RInv tr c -> RInv3 progs ptr c -> step c t ch = Some c' -> RInv3 progs (ptr ++ [(c, t)]) c'.
Proof.
  intros HI HI2 HR HR3 H. pose proof HR3 as [Rlen Rcalls Rpre Rcomp Rres3]. pose proof HR as [_ _ Rfrag Rfresh Rrange _].
  destruct (rstep_facts tr c t ch c' HI HI2 HR H)
    as (th & f & i & i' & o & th' & Hth & Hst & Hfr & Hi & Hs0 & Hs0' & Hok & Hpk & Hcore & Hwfl & Href & Hsf & Hth' & Hthe & Hnrr).
  assert (Hlt : t < length (c_threads c)) by (eapply nth_error_lt; eauto).
  assert (Hsub : forall x, In x ptr -> In x (ptr ++ [(c, t)])) by (intros; apply in_or_app; auto).
  assert (Hlast : In (c, t) (ptr ++ [(c, t)])) by (apply in_or_app; right; left; reflexivity).
  assert (C1 : forall t2, t2 <> t -> nth_error (c_threads c') t2 = nth_error (c_threads c) t2).
  { intros t2 N. rewrite Hth'. apply nth_error_set_nth_list_ne; auto. }
  assert (Ct : nth_error (c_threads c') t = Some th') by (rewrite Hth'; apply nth_error_set_nth_list_eq; exact Hlt).
  destruct (Rfrag t th Hth) as (Hfp & _ & _).
  (* the stepping thread is in its call in c (possibly taking its first step) *)
  assert (Hat : in_call_at (c, t) t (length (t_results th))).
  { destruct (t_fresh th) eqn:E.
    - right. split; [reflexivity|]. exists th. rewrite Hst. repeat split; auto; discriminate.
    - left. exists th. rewrite Hst. repeat split; auto; discriminate. }
  assert (HKt : forall k v, stable (ptr ++ [(c, t)]) t (length (t_results th)) k v -> abs_lookup (i_st i) k = Some v).
  { intros k v S. rewrite <- Hs0. apply (S (c, t) Hlast Hat). }
  (* the read map after the step *)
  pose proof (sf_read_kept t i f ch i' o Hok Hwfl Href Hsf) as Hkept.
  assert (Hread : forall k e v, read_m (i_st i) !! k = Some e -> abs_lookup (i_st i) k = Some v -> read_m (i_st i') !! k = Some e).
  { intros k e v Hk Hab. destruct Hkept as [E|(d & Hd & Hwa & E)]; [rewrite E; exact Hk|].
    rewrite E. destruct (t2_read _ _ (trans2_promote _ d Hcore Hwa Hd) k e Hk) as [X|X]; [exact X|congruence]. }
  (* the frame-level facts for a Range call of t *)
  assert (HRg : forall jj cbb, f_call f = CRange jj cbb ->
            match eff o with
            | Continue f' => prelock f' /\ (final_pc (f_pc f') = true -> comp (i_st i') f' (stable (ptr ++ [(c, t)]) t (length (t_results th))))
            | Return r => exists out cnt, r = RRange out cnt /\
                           forall k v, stable (ptr ++ [(c, t)]) t (length (t_results th)) k v ->
                             In (k, v) out \/ exists n, cbb = CbStop (Some n) /\ out <> [] /\ (Z.of_nat n <= cnt)%Z
            | Callback _ _ _ => False
            end).
  { intros jj cbb Hcall. assert (Hrg : is_range (f_call f) = true) by (rewrite Hcall; reflexivity).
    destruct (Rrange t th f Hth Hst Hrg) as (A & _ & _).
    apply (sf_range3 t i f ch jj cbb _ Hcall Hok Hpk Hcore Hwfl Href A (Rpre t th f Hth Hst Hrg) HKt); [|exact Hsf].
    intros Hfin. rewrite <- Hs0. intros k v S. apply (Rcomp t th f Hth Hst Hrg Hfin k v). eapply stable_mono; eauto. }
  assert (Hnewc : forall res, let thn := next_call (Thread (t_prog th) [] res false) in
            (forall done, done ++ map f_call (t_stack thn) ++ t_prog thn = done ++ t_prog th) /\
            (forall f0, t_stack thn = [f0] -> f_pc f0 = first_label (f_call f0) /\ prelock f0) /\ t_results thn = res).
  { intros res thn. unfold thn, next_call. cbn. destruct (t_prog th) as [|c1 p1]; cbn.
    - split; [reflexivity|]. split; [discriminate|reflexivity].
    - split; [reflexivity|]. split; [|reflexivity].
      intros f0 [= <-]. split; [reflexivity|]. unfold prelock. destruct c1; discriminate. }
  constructor.
  - (* r3_len *)
    rewrite Hth', length_set_nth_list; [exact Rlen|exact Hlt].
  - (* r3_prog *)
    intros t2 th2 p Hp. destruct (decide (t2 = t)) as [->|N]; [|rewrite (C1 t2 N); apply Rcalls; exact Hp].
    rewrite Ct. intros [= <-]. destruct (Rcalls t th p Hp Hth) as (done & Hpd & Hld). rewrite Hst in Hpd. cbn in Hpd.
    destruct (eff o) as [f'|r|? ? ?]; [| |contradiction].
    + destruct Hthe as [-> Hc']. cbn. exists done. rewrite Hc'. split; [exact Hpd|exact Hld].
    + subst th'. destruct (Hnewc (t_results th ++ [rep (f_call f) r])) as (X1 & _ & X3). exists (done ++ [f_call f]).
      rewrite X3. split; [|rewrite !app_length; cbn; lia]. rewrite X1, <- app_assoc. exact Hpd.
  - (* r3_pre *)
    intros t2 th2 f2. destruct (decide (t2 = t)) as [->|N]; [|rewrite (C1 t2 N); apply Rpre].
    rewrite Ct. intros [= <-]. destruct (eff o) as [f'|r|? ? ?] eqn:Eo; [| |contradiction].
    + destruct Hthe as [-> Hc']. cbn. intros [= <-] Hrg. rewrite Hc' in Hrg.
      destruct (f_call f) as [| | | | |jj cbb] eqn:Hcall; try discriminate Hrg. apply (HRg jj cbb eq_refl).
    + subst th'. intros Hst2 _. destruct (Hnewc (t_results th ++ [rep (f_call f) r])) as (_ & X & _). apply (X f2 Hst2).
  - (* r3_comp *)
    intros t2 th2 f2. destruct (decide (t2 = t)) as [->|N].
    + rewrite Ct. intros [= <-]. destruct (eff o) as [f'|r|? ? ?] eqn:Eo; [| |contradiction].
      * destruct Hthe as [-> Hc']. cbn. intros [= <-] Hrg Hfin. rewrite Hc' in Hrg.
        destruct (f_call f) as [| | | | |jj cbb] eqn:Hcall; try discriminate Hrg. rewrite Hs0'. apply (HRg jj cbb eq_refl), Hfin.
      * subst th'. intros Hst2 Hrg Hfin. exfalso. destruct (Hnewc (t_results th ++ [rep (f_call f) r])) as (_ & X & _).
        destruct (X f2 Hst2) as [Y _]. eapply final_not_first; eauto.
    + rewrite (C1 t2 N). intros Hth2 Hst2 Hrg Hfin k v S.
      assert (Hat2 : in_call_at (c, t) t2 (length (t_results th2))).
      { left. exists th2. rewrite Hst2. split; [exact Hth2|]. split; [reflexivity|]. split; [|discriminate].
        destruct (t_fresh th2) eqn:E; [|reflexivity]. exfalso.
        eapply final_not_first; eauto. eapply Rfresh; eauto. rewrite Hst2. reflexivity. }
      assert (Hab : abs_lookup (i_st i) k = Some v) by (rewrite <- Hs0; apply (S (c, t) Hlast Hat2)).
      destruct (Rcomp t2 th2 f2 Hth2 Hst2 Hrg Hfin k v) as [Hin|(Hnd & e & He & Hr)]; [eapply stable_mono; eauto|auto|].
      right. split; [exact Hnd|]. exists e. split; [exact He|]. rewrite Hs0'. rewrite Hs0 in Hr. eapply Hread; eauto.
  - (* r3_res *)
    intros t2 th2 i2 out cnt. destruct (decide (t2 = t)) as [->|N].
    + rewrite Ct. intros [= <-]. destruct (eff o) as [f'|r|? ? ?] eqn:Eo; [| |contradiction].
      * destruct Hthe as [-> _]. cbn. intros Hn k v S. apply (Rres3 t th i2 out cnt Hth Hn k v). eapply stable_mono; eauto.
      * subst th'. destruct (Hnewc (t_results th ++ [rep (f_call f) r])) as (_ & _ & X). rewrite X.
        intros Hn k v S. apply nth_error_snoc in Hn as [Hn|[-> Hn]].
        -- apply (Rres3 t th i2 out cnt Hth Hn k v). eapply stable_mono; eauto.
        -- destruct (is_range (f_call f)) eqn:Hrg.
           ++ destruct (f_call f) as [| | | | |jj cbb] eqn:Hcall; try discriminate Hrg.
              destruct (HRg jj cbb eq_refl) as (out1 & cnt1 & -> & Y). cbn in Hn. injection Hn as -> ->.
              destruct (Y k v S) as [Hin|(n & -> & Hle)]; [auto|]. right.
              cbn in Hfr. subst jj.
              destruct (nth_error progs t) as [p|] eqn:Hp.
              ** destruct (Rcalls t th p Hp Hth) as (done & Hpd & Hld). rewrite Hst in Hpd. cbn in Hpd.
                 exists p, n. split; [reflexivity|]. split; [|exact Hle]. rewrite Hpd, <- Hld.
                 rewrite nth_error_app2 by lia. rewrite Nat.sub_diag. cbn. rewrite Hcall. reflexivity.
              ** exfalso. apply nth_error_None in Hp. lia.
           ++ exfalso. eapply (Hnrr eq_refl r out cnt eq_refl). symmetry. exact Hn.
    + rewrite (C1 t2 N). intros Hth2 Hn k v S. apply (Rres3 t2 th2 i2 out cnt Hth2 Hn k v). eapply stable_mono; eauto.
Qed.

Theorem RInv3_init z progs : RInv3 progs [] (init_config_z [z] progs).
Proof.
  assert (Hthreads : forall t th, nth_error (c_threads (init_config_z [z] progs)) t = Some th ->
            exists p, In p progs /\ th = next_call (Thread p [] [] false)).
  { intros t th. cbn. rewrite nth_error_map. destruct (nth_error progs t) as [p|] eqn:E; [|discriminate]. cbn.
    intros [= <-]. exists p. split; [eapply nth_error_In, E|reflexivity]. }
  constructor.
  - cbn. apply map_length.
  - intros t th p Hp. cbn. rewrite nth_error_map, Hp. cbn. intros [= <-]. exists [].
    unfold next_call. cbn. destruct p as [|c0 p]; split; reflexivity.
  - intros t th f Hth. destruct (Hthreads t th Hth) as (p & _ & ->). unfold next_call. cbn.
    destruct p as [|c0 p]; cbn; [discriminate|]. intros [= <-] _. unfold prelock. destruct c0; discriminate.
  - intros t th f Hth. destruct (Hthreads t th Hth) as (p & _ & ->). unfold next_call. cbn.
    destruct p as [|c0 p]; cbn; [discriminate|]. intros [= <-] Hrg Hfin. exfalso. eapply final_not_first; eauto.
  - intros t th i out cnt Hth. destruct (Hthreads t th Hth) as (p & _ & ->). unfold next_call. cbn.
    destruct p; cbn; destruct i; discriminate.
Qed.

Lemma RInv3_run progs sched : forall tr ptr c, Inv c -> Inv2 c -> RInv tr c -> RInv3 progs ptr c ->
  RInv3 progs (ptr ++ steps_from c sched) (run_schedule c sched).
Proof.
  induction sched as [|[t ch] sched IH]; intros tr ptr c H1 H2 HR HR3; cbn.
  - rewrite app_nil_r. exact HR3.
  - change ((c, t) :: ?l) with ([(c, t)] ++ l). rewrite app_assoc.
    destruct (step c t ch) as [c'|] eqn:E; cbn.
    + apply (IH (tr ++ [c'])); [eapply Inv_step; eauto|eapply Inv2_step; eauto|eapply RInv_step; eauto|eapply RInv3_step; eauto].
    + apply (IH tr); auto. eapply RInv3_weaken; [|exact HR3]. intros x Hx. apply in_or_app. auto.
Qed.

(* (3) every key that holds one and the same value v in every configuration of
   the (closed) interval of a completed Range call is passed to the callback
   with v - unless the callback asked to stop (its bound n was reached) *)
Theorem range_complete z progs sched t th i out cnt :
  Forall (Forall rfrag) progs ->
  let c := run_schedule (init_config_z [z] progs) sched in
  nth_error (c_threads c) t = Some th -> nth_error (t_results th) i = Some (RRange out cnt) ->
  forall k v,
    (forall x, In x (steps_from (init_config_z [z] progs) sched) -> in_call_at x t i -> abs_lookup (st0 x.1) k = Some v) ->
    In (k, v) out \/ exists p n, nth_error progs t = Some p /\ nth_error p i = Some (CRange 0 (CbStop (Some n))) /\ out <> [] /\ (Z.of_nat n <= cnt)%Z.
Proof.
  intros Hfr c Hth Hn k v S.
  pose proof (RInv3_run progs sched [init_config_z [z] progs] [] (init_config_z [z] progs) (Inv_init_z [z] progs) (Inv2_init_z [z] progs)
                (RInv_init z progs Hfr) (RInv3_init z progs)) as HR3. cbn [app] in HR3.
  apply (r3_res _ _ _ HR3 t th i out cnt Hth Hn k v). exact S.
Qed.

(* in particular a Range whose own callback never stops reports every such key,
   whatever the other calls of the program (other Ranges included) do *)
Corollary range_complete_nonstop z progs sched t th i out cnt p :
  Forall (Forall rfrag) progs ->
  nth_error progs t = Some p -> nth_error p i = Some (CRange 0 (CbStop None)) ->
  let c := run_schedule (init_config_z [z] progs) sched in
  nth_error (c_threads c) t = Some th -> nth_error (t_results th) i = Some (RRange out cnt) ->
  forall k v,
    (forall x, In x (steps_from (init_config_z [z] progs) sched) -> in_call_at x t i -> abs_lookup (st0 x.1) k = Some v) ->
    In (k, v) out.
Proof.
  intros Hfr Hp Hpi c Hth Hn k v S.
  destruct (range_complete z progs sched t th i out cnt Hfr Hth Hn k v S) as [H|(p2 & n & Hp2 & Hi2 & _)]; [exact H|].
  congruence.
Qed.

(* ---- the stability hypothesis of [range_complete] can be checked by computation ---- *)
Definition in_call_atb (x : config * nat) (t i : nat) : bool :=
  match nth_error (c_threads x.1) t with
  | Some th => Nat.eqb (length (t_results th)) i && match t_stack th with [] => false | _ => true end &&
               (negb (t_fresh th) || Nat.eqb x.2 t)
  | None => false
  end.

Lemma in_call_at_b x t i : in_call_at x t i -> in_call_atb x t i = true.
Proof.
  unfold in_call_atb. intros [(th & -> & <- & Hf & Hs)|(E & th & -> & <- & Hf & Hs)].
  - rewrite Nat.eqb_refl, Hf. destruct (t_stack th); [contradiction|reflexivity].
  - rewrite Nat.eqb_refl, Hf, E, Nat.eqb_refl. destruct (t_stack th); [contradiction|reflexivity].
Qed.

Lemma stable_check (ptr : list (config * nat)) t i k v :
  forallb (fun x => implb (in_call_atb x t i) (bool_decide (abs_lookup (st0 x.1) k = Some v))) ptr = true ->
  forall x, In x ptr -> in_call_at x t i -> abs_lookup (st0 x.1) k = Some v.
Proof.
  intros H x Hx Hat. rewrite forallb_forall in H. specialize (H x Hx). rewrite (in_call_at_b x t i Hat) in H.
  cbn in H. apply bool_decide_eq_true in H. exact H.
Qed.
