(* The counts of sync2.Set add up (C05): programs of Has / Add / Remove and of
   Range with ANY callback - Len (counting Range), AddSet and RemoveSet (Range
   over the argument set with a nested Add / Remove of the receiver per element;
   the nested call runs in a child frame of the Range frame, as in the code) -
   on any number of sets, any number of goroutines, every schedule.

   AddSet / RemoveSet are NOT atomic: they are a Range plus a sequence of
   ordinary atomic Adds / Removes of the receiver. What is proved:
   (a) [nested_return_counted] thread-local accounting: the running count of an
       AddSet / RemoveSet starts at 0 and grows by exactly 1 at each nested call
       that reports success, and only then; the count returned is that sum. The
       nested call is an ordinary LoadOrStore / LoadAndDelete frame: every
       per-step lemma (Inv, Inv2, sf_cons) applies to it unchanged.
   (b) [set_counts] in every reachable configuration, for every set j:
         successful Adds - successful Removes + counts of completed AddSets
         - counts of completed RemoveSets + (running counts and decided but
         unreported effects of the calls in flight) = number of members of j;
       [set_counts_quiescent] with no call in progress the reported numbers alone
       add up to the number of members.
   (c) [len_constant] Len returns the number of pairs it was shown, and if the
       contents of the set are the same map in every configuration of the Len
       call (e.g. nothing else runs) that is the number of members (programs of
       Has / Add / Remove / Len on one set; uses SyncMap/RangeConc.v). *)
From Typ Require Import SyncMap.Model SyncMap.Inv SyncMap.SetAtomic Lib.Lin SyncMap.Linearizable SyncMap.RangeConc.
From Typ Require SyncMap.SeqProofs.
Local Open Scope Z_scope.

(* programs of sync2.Set: Has / Add / Remove and Range with any callback
   (Len = counting Range, AddSet / RemoveSet = Range with a nested Add / Remove) *)
Definition sfrag (c : call) : Prop :=
  match c with
  | CLoad _ _ | CLoadAndDelete _ _ | CRange _ _ => True
  | CLoadOrStore _ _ _ p => p = PNone
  | _ => False
  end.

Lemma sfrag_nopost c : sfrag c -> nopost c.
Proof. destruct c; cbn; auto. Qed.

Lemma pendf_range f : is_range (f_call f) = true -> pendf f = 0.
Proof. unfold pendf. destruct (f_call f); try discriminate. reflexivity. Qed.

(* the frames of these programs: per-key effect of a step *)
Lemma cons_any t i f ch i' o :
  sfrag (f_call f) -> frame_ok f -> frame_pc_ok f -> WF_core (i_st i) -> (in_cs f = true -> WFL (i_st i) f) ->
  WF2 (i_st i) -> ref_inv (i_st i) f -> step_frame t i f ch = Some (Ok (i', o)) ->
  cons_post (i_st i) (i_st i') f o.
Proof.
  intros Hfr Hok Hpk Hc Hw H2 Hr H. destruct (f_call f) as [| | | | |j cb] eqn:Hcall; try contradiction.
  - eapply sf_cons; eauto. rewrite Hcall. exact I.
  - eapply sf_cons; eauto. rewrite Hcall. exact Hfr.
  - eapply sf_cons; eauto. rewrite Hcall. exact I.
  - pose proof (cons_Range t i f ch i' o j cb Hcall Hok Hpk Hc Hw Hr H) as Ha.
    split; [intros; apply Ha|]. unfold Aof. rewrite Ha.
    rewrite (pendf_range f) by (rewrite Hcall; reflexivity).
    destruct o as [f'|r|? ? ?]; cbn.
    + pose proof (sf_frame_ok _ _ _ _ _ _ Hok H) as [_ X]. rewrite (pendf_range f') by (rewrite X, Hcall; reflexivity). lia.
    + rewrite Hcall. cbn. lia.
    + lia.
Qed.

(* ---- what is counted for set j ---- *)
(* what the Range parent adds to its count when the nested call returns r (as in do_return) *)
Definition inc_of (cb : cb) (r : res) : Z :=
  match cb, r with
  | CbAdd _, RLos _ loaded => if loaded then 0 else 1
  | CbRemove _, ROpt (Some _) => 1
  | _, _ => 0
  end.

(* a completed top-level call: Add that added +1, Remove that removed -1,
   AddSet(.., into j) +count, RemoveSet(.., from j) -count *)
Definition contrib (j : nat) (cr : call * res) : Z :=
  match cr.1 with
  | CRange _ (CbAdd j') => if Nat.eqb j' j then match cr.2 with RRange _ cnt => cnt | _ => 0 end else 0
  | CRange _ (CbRemove j') => if Nat.eqb j' j then match cr.2 with RRange _ cnt => - cnt | _ => 0 end else 0
  | CRange _ (CbStop _) => 0
  | c0 => if Nat.eqb (call_inst c0) j then dH c0 cr.2 else 0
  end.
Definition total (j : nat) (h : list event) : Z := sumZ (map (contrib j) (completed h)).

(* a call in flight: the running count of an AddSet / RemoveSet, the decided but unreported effect of an Add / Remove *)
Definition frame_pend (j : nat) (f : frame) : Z :=
  match f_call f with
  | CRange _ (CbAdd j') => if Nat.eqb j' j then f_acc f else 0
  | CRange _ (CbRemove j') => if Nat.eqb j' j then - f_acc f else 0
  | CRange _ (CbStop _) => 0
  | c0 => if Nat.eqb (call_inst c0) j then pendf f else 0
  end.
Definition thread_pend (j : nat) (th : thread) : Z := sumZ (map (frame_pend j) (t_stack th)).
Definition pendingT (j : nat) (c : config) : Z := sumZ (map (thread_pend j) (c_threads c)).

(* the history as a left fold *)
Definition hstepT (j : nat) (st : gmap nat call * Z) (ev : event) : gmap nat call * Z :=
  match ev with
  | EvInv t c => (<[t := c]> st.1, st.2)
  | EvRes t r => (delete t st.1, st.2 + match st.1 !! t with Some c0 => contrib j (c0, r) | None => 0 end)
  end.
Definition histT (j : nat) (h : list event) : gmap nat call * Z := fold_left (hstepT j) h (∅, 0).

Lemma fold_hstepT j h cur acc :
  (fold_left (hstepT j) h (cur, acc)).2 = acc + sumZ (map (contrib j) (completed_from cur h)).
Proof.
  revert cur acc. induction h as [|ev h IH]; intros cur acc; cbn; [lia|].
  destruct ev as [t c|t r]; cbn; [apply IH|]. rewrite IH. destruct (cur !! t) as [c0|] eqn:E; cbn.
  - unfold sumZ. cbn [map fold_right fst snd]. lia.
  - assert (X : completed_from (delete t cur) h = completed_from cur h) by (f_equal; apply delete_notin; exact E).
    rewrite X. unfold sumZ. lia.
Qed.

Lemma histT_total j h : (histT j h).2 = total j h.
Proof. unfold histT, total, completed. rewrite fold_hstepT. lia. Qed.

Lemma histT_app j h evs : histT j (h ++ evs) = fold_left (hstepT j) evs (histT j h).
Proof. unfold histT. apply fold_left_app. Qed.

(* ---- the stacks of these programs ---- *)
Definition is_child (cb : cb) (c : call) : Prop :=
  match cb with
  | CbAdd j => exists k v, c = CLoadOrStore j k v PNone
  | CbRemove j => exists k, c = CLoadAndDelete j k
  | CbStop _ => False
  end.
Definition stack_ok (st : list frame) : Prop :=
  match st with
  | [] => True
  | [f] => sfrag (f_call f)
  | [ch; p] => exists i cb, f_call p = CRange i cb /\ is_child cb (f_call ch)
  | _ => False
  end.

Lemma is_child_sfrag cb c : is_child cb c -> sfrag c /\ is_range c = false.
Proof.
  destruct cb; cbn; [tauto| |].
  - intros (k & v & ->). cbn. auto.
  - intros (k & ->). cbn. auto.
Qed.

(* the nested call's result, as counted by the parent, is what the call reports *)
Lemma inc_dH cb c r : is_child cb c ->
  match cb with CbAdd _ => inc_of cb r = dH c r | CbRemove _ => - inc_of cb r = dH c r | CbStop _ => True end.
Proof.
  destruct cb as [n|j|j]; cbn; [tauto| |].
  - intros (k & v & ->). destruct r; reflexivity.
  - intros (k & ->). destruct r; try reflexivity. destruct o; reflexivity.
Qed.

(* ---- [fin] for these programs ---- *)
Definition thread_after (t : nat) (th : thread) (f : frame) (rest : list frame) (o : outcome) (th' : thread) (evs : list event) : Prop :=
  match o with
  | Continue f' => th' = Thread (t_prog th) (f' :: rest) (t_results th) false /\ evs = []
  | Return r =>
      match rest with
      | [] => th' = next_call (Thread (t_prog th) [] (t_results th ++ [r]) false) /\ evs = [EvRes t r]
      | p :: rest' =>
          let p' := set_out p (f_out p) (f_acc p + inc_of (cb_of (f_call p)) r) in
          (th' = Thread (t_prog th) (set_pc p' Range_iter :: rest') (t_results th) false /\ evs = []) \/
          (th' = next_call (Thread (t_prog th) [] (t_results th ++ [RRange (f_out p') (f_acc p')]) false) /\
           evs = [EvRes t (RRange (f_out p') (f_acc p'))])
      end
  | Callback f' k v =>
      match cb_of (f_call f') with
      | CbStop _ =>
          match cb_next f' k v with
          | Continue p => th' = Thread (t_prog th) (p :: rest) (t_results th) false /\ evs = []
          | Return r => rest = [] /\ th' = next_call (Thread (t_prog th) [] (t_results th ++ [r]) false) /\ evs = [EvRes t r]
          | Callback _ _ _ => False
          end
      | CbAdd j =>
          th' = Thread (t_prog th) (new_frame (CLoadOrStore j k 0 PNone) :: set_out f' (f_out f' ++ [(k, v)]) (f_acc f') :: rest) (t_results th) false /\ evs = []
      | CbRemove j =>
          th' = Thread (t_prog th) (new_frame (CLoadAndDelete j k) :: set_out f' (f_out f' ++ [(k, v)]) (f_acc f') :: rest) (t_results th) false /\ evs = []
      end
  end.

Lemma fin_after c t th f rest insts um o c' :
  fin c t th f rest insts um (Ok o) = Some c' -> t_stack th = f :: rest ->
  (forall j k, f_call f <> CDelete j k) -> (forall f' k v, o = Callback f' k v -> rest = []) ->
  exists th' evs, thread_after t th f rest o th' evs /\
    c' = Config insts um (set_nth_list t th' (c_threads c))
                (c_hist c ++ (if t_fresh th then [EvInv t (f_call f)] else []) ++ evs) false.
Proof.
  intros H Hst Hnd Hcb. unfold fin in H. destruct o as [f'|r|f' k v]; cbn [thread_after].
  - simplify_eq. eexists _, []. split; [split; reflexivity|]. f_equal; rewrite app_nil_r; reflexivity.
  - assert (Er : match f_call f with CDelete _ _ => RUnit | _ => r end = r).
    { destruct (f_call f) eqn:E; try reflexivity. exfalso. eapply Hnd; eauto. }
    rewrite Er in H. unfold do_return in H. destruct rest as [|p rest'].
    + simplify_eq. eexists _, _. split; [split; reflexivity|reflexivity].
    + cbn [t_prog t_results] in H.
      replace (match cb_of (f_call p) with
               | CbStop _ => 0
               | CbAdd _ => match r with RLos _ loaded => if loaded then 0 else 1 | _ => 0 end
               | CbRemove _ => match r with ROpt (Some _) => 1 | _ => 0 end
               end) with (inc_of (cb_of (f_call p)) r) in H
        by (unfold inc_of; destruct (cb_of (f_call p)); try reflexivity; destruct r; reflexivity).
      match type of H with context [range_next ?x false] => destruct (range_next_cases x false) as [[r' Hr]|Hr]; rewrite Hr in H end.
      * unfold range_next in Hr. destruct (unvisited _ _); [|discriminate]. injection Hr as <-.
        simplify_eq. eexists _, _. split; [right; split; reflexivity|reflexivity].
      * simplify_eq. eexists _, []. split; [left; split; reflexivity|]. f_equal; rewrite app_nil_r; reflexivity.
  - specialize (Hcb f' k v eq_refl). subst rest.
    destruct (cb_of (f_call f')) as [n|j|j] eqn:Ecb.
    + unfold cb_next. rewrite Ecb. cbv zeta.
      match type of H with context [range_next ?x ?y] => destruct (range_next_cases x y) as [[r' Hr]|Hr]; rewrite Hr in H |- * end.
      * cbn in H. simplify_eq. eexists _, _. split; [split; [reflexivity|split; reflexivity]|reflexivity].
      * simplify_eq. eexists _, []. split; [split; reflexivity|]. f_equal; rewrite app_nil_r; reflexivity.
    + simplify_eq. eexists _, []. split; [split; reflexivity|]. f_equal; rewrite app_nil_r; reflexivity.
    + simplify_eq. eexists _, []. split; [split; reflexivity|]. f_equal; rewrite app_nil_r; reflexivity.
Qed.

(* step_frame never touches the running count *)
Lemma sf_acc t i f ch i' f' : step_frame t i f ch = Some (Ok (i', Continue f')) -> f_acc f' = f_acc f.
Proof.
  intros H. unfold step_frame in H.
  destruct (f_pc f) eqn:Hpc;
    unfold expunge_done, tlos_done, bind in H; unfold after_miss, dirty_next, los_return, range_next in H;
    repeat case_match; simplify_eq; reflexivity.
Qed.

Lemma sf_range_ret t i f ch i' r j cb :
  f_call f = CRange j cb -> frame_pc_ok f -> step_frame t i f ch = Some (Ok (i', Return r)) -> exists out, r = RRange out (f_acc f).
Proof.
  intros Hcall Hpk H. unfold frame_pc_ok in Hpk. rewrite Hcall in Hpk. unfold step_frame in H.
  destruct (f_pc f) eqn:Hpc; try discriminate Hpk; rewrite ?Hcall in H; unfold range_next in H; cbn in H;
    repeat case_match; simplify_eq; eauto.
Qed.

Lemma thread_pend_next j prog res : thread_pend j (next_call (Thread prog [] res false)) = 0.
Proof.
  unfold next_call, thread_pend. cbn. destruct prog as [|c0 p]; cbn; [reflexivity|].
  unfold frame_pend. cbn. destruct c0 as [| | | | |i0 [n|j0|j0]]; cbn; try (destruct (Nat.eqb _ _); reflexivity); reflexivity.
Qed.

Lemma frame_pend_frag j f : is_range (f_call f) = false ->
  frame_pend j f = if Nat.eqb (call_inst (f_call f)) j then pendf f else 0.
Proof. unfold frame_pend. destruct (f_call f); try discriminate; reflexivity. Qed.

Lemma contrib_frag j c0 r : is_range c0 = false -> contrib j (c0, r) = if Nat.eqb (call_inst c0) j then dH c0 r else 0.
Proof. unfold contrib. destruct c0; try discriminate; reflexivity. Qed.

(* what the events of a step add to the total, given the top-level call c0 of the thread *)
Definition ev_contrib (j : nat) (c0 : call) (evs : list event) : Z :=
  match evs with [EvRes _ r] => contrib j (c0, r) | _ => 0 end.

Definition bottom_call (f : frame) (rest : list frame) : call := f_call (last rest f).

(* thread-local accounting of one step *)
Lemma thread_account j t i f ch i' o th rest th' evs :
  t_stack th = f :: rest -> stack_ok (f :: rest) -> frame_ok f -> frame_pc_ok f ->
  step_frame t i f ch = Some (Ok (i', o)) -> thread_after t th f rest o th' evs ->
  ev_contrib j (bottom_call f rest) evs + thread_pend j th' - thread_pend j th =
    (if Nat.eqb (call_inst (f_call f)) j then out_delta f o - pendf f else 0) /\
  (evs = [] \/ exists r, evs = [EvRes t r]).
Proof.
  intros Hst Hso Hok Hpk Hsf Hta. unfold bottom_call. unfold thread_pend at 2. rewrite Hst. cbn [map sumZ fold_right].
  destruct o as [f'|r|f' k v]; cbn [thread_after out_delta] in *.
  - (* the frame goes on *)
    destruct Hta as [-> ->]. split; [|auto]. cbn [ev_contrib]. unfold thread_pend. cbn [t_stack map sumZ fold_right].
    pose proof (sf_frame_ok _ _ _ _ _ _ Hok Hsf) as [_ Hcall]. pose proof (sf_acc _ _ _ _ _ _ Hsf) as Hacc.
    destruct (is_range (f_call f)) eqn:Hrg.
    + rewrite (pendf_range f Hrg), (pendf_range f') by (rewrite Hcall; exact Hrg).
      assert (frame_pend j f' = frame_pend j f) by (unfold frame_pend; rewrite Hcall, Hacc; destruct (f_call f); try discriminate Hrg; reflexivity).
      destruct (Nat.eqb _ _); lia.
    + rewrite (frame_pend_frag j f Hrg), (frame_pend_frag j f') by (rewrite Hcall; exact Hrg). rewrite Hcall.
      destruct (Nat.eqb _ _); lia.
  - (* the frame returns r *)
    destruct rest as [|p rest'].
    + destruct Hta as [-> ->]. split; [|eauto]. rewrite thread_pend_next. cbn [ev_contrib bottom_call last sumZ fold_right map].
      destruct (is_range (f_call f)) eqn:Hrg.
      * destruct (f_call f) as [| | | | |i0 cb] eqn:Hcall; try discriminate Hrg.
        destruct (sf_range_ret _ _ _ _ _ _ _ _ Hcall Hpk Hsf) as [out ->].
        rewrite (pendf_range f) by (rewrite Hcall; reflexivity). unfold contrib, frame_pend. cbn [last fst snd]. rewrite Hcall. cbn.
        destruct cb as [n|j0|j0]; cbn; [destruct (Nat.eqb i0 j); lia| |]; destruct (Nat.eqb j0 j); destruct (Nat.eqb i0 j); lia.
      * rewrite (contrib_frag j _ r Hrg), (frame_pend_frag j f Hrg). destruct (Nat.eqb _ _); lia.
    + (* a nested call returns to its Range *)
      destruct rest' as [|? ?]; [|contradiction]. destruct Hso as (i0 & cb & Hp & Hch).
      destruct (is_child_sfrag _ _ Hch) as [_ Hrg]. rewrite (frame_pend_frag j f Hrg).
      pose proof (inc_dH cb (f_call f) r Hch) as Hinc.
      assert (Hinst : match cb with CbAdd j0 | CbRemove j0 => call_inst (f_call f) = j0 | CbStop _ => False end).
      { destruct cb; cbn in Hch; [contradiction| |].
        - destruct Hch as (k0 & v0 & E). rewrite E. reflexivity.
        - destruct Hch as (k0 & E). rewrite E. reflexivity. }
      cbn [bottom_call last]. rewrite Hp in Hta. cbn [cb_of] in Hta. cbn [map sumZ fold_right].
      destruct Hta as [[-> ->]|[-> ->]]; (split; [|eauto]).
      * cbn [ev_contrib]. unfold thread_pend. cbn [t_stack map sumZ fold_right]. unfold frame_pend. cbn [f_call f_acc set_pc set_out]. rewrite Hp.
        destruct cb as [n|j0|j0]; [contradiction| |]; subst j0; destruct (Nat.eqb _ _); lia.
      * rewrite thread_pend_next. cbn [ev_contrib]. unfold contrib, frame_pend. cbn [fst snd f_acc set_out]. rewrite Hp.
        destruct cb as [n|j0|j0]; [contradiction| |]; subst j0; destruct (Nat.eqb _ _); lia.
  - (* Range calls its callback *)
    pose proof Hsf as Hsf'. apply sf_callback in Hsf' as (-> & Hpc & (i0 & cb & Hcall) & _).
    rewrite (pendf_range f) by (rewrite Hcall; reflexivity). rewrite Hcall in Hta. cbn [cb_of] in Hta.
    assert (Z0 : (if Nat.eqb (call_inst (f_call f)) j then 0 - 0 else 0) = 0) by (destruct (Nat.eqb _ _); reflexivity). rewrite Z0.
    destruct cb as [n|j0|j0].
    + destruct (cb_next_cases f k v) as [E|E]; rewrite E in Hta.
      * destruct Hta as [-> ->]. split; [|auto]. cbn [ev_contrib]. unfold thread_pend. cbn [t_stack map sumZ fold_right].
        assert (A : frame_pend j f = 0) by (unfold frame_pend; rewrite Hcall; reflexivity).
        assert (B : frame_pend j (set_pc (set_out f (f_out f ++ [(k, v)]) (f_acc f + 1)) Range_iter) = 0)
          by (unfold frame_pend; cbn; rewrite Hcall; reflexivity).
        rewrite A, B. lia.
      * destruct Hta as (-> & -> & ->). split; [|eauto]. rewrite thread_pend_next. cbn [ev_contrib bottom_call last map sumZ fold_right].
        unfold contrib, frame_pend. cbn. rewrite Hcall. lia.
    + destruct Hta as [-> ->]. split; [|auto]. cbn [ev_contrib]. unfold thread_pend. cbn [t_stack map sumZ fold_right].
      assert (A : frame_pend j (new_frame (CLoadOrStore j0 k 0 PNone)) = 0)
        by (unfold frame_pend, pendf; cbn; destruct (Nat.eqb j0 j); reflexivity).
      assert (B : frame_pend j (set_out f (f_out f ++ [(k, v)]) (f_acc f)) = frame_pend j f)
        by (unfold frame_pend; cbn; rewrite Hcall; reflexivity).
      rewrite A, B. lia.
    + destruct Hta as [-> ->]. split; [|auto]. cbn [ev_contrib]. unfold thread_pend. cbn [t_stack map sumZ fold_right].
      assert (A : frame_pend j (new_frame (CLoadAndDelete j0 k)) = 0)
        by (unfold frame_pend, pendf, is_priv; cbn; destruct (Nat.eqb j0 j); reflexivity).
      assert (B : frame_pend j (set_out f (f_out f ++ [(k, v)]) (f_acc f)) = frame_pend j f)
        by (unfold frame_pend; cbn; rewrite Hcall; reflexivity).
      rewrite A, B. lia.
Qed.

Lemma last_cons_default {X} (x : X) l d d' : last (x :: l) d = last (x :: l) d'.
Proof. revert x. induction l as [|y l IH]; intros x; [reflexivity|]. cbn in *. apply (IH y). Qed.

(* the shape of the thread after the step *)
Lemma thread_after_shape t i f ch i' o th rest th' evs :
  t_stack th = f :: rest -> stack_ok (f :: rest) -> frame_ok f ->
  step_frame t i f ch = Some (Ok (i', o)) -> thread_after t th f rest o th' evs ->
  (evs = [] /\ t_fresh th' = false /\ t_prog th' = t_prog th /\
   exists f1 rest1, t_stack th' = f1 :: rest1 /\ bottom_call f1 rest1 = bottom_call f rest /\ stack_ok (f1 :: rest1)) \/
  (exists r res', evs = [EvRes t r] /\ th' = next_call (Thread (t_prog th) [] res' false)).
Proof.
  intros Hst Hso Hok Hsf Hta. unfold bottom_call.
  destruct o as [f'|r|f' k v]; cbn [thread_after] in Hta.
  - destruct Hta as [-> ->]. left. cbn. repeat split; auto. exists f', rest. split; [reflexivity|].
    pose proof (sf_frame_ok _ _ _ _ _ _ Hok Hsf) as [_ Hcall]. split.
    + destruct rest; [cbn; exact Hcall|f_equal; apply last_cons_default].
    + destruct rest as [|p [|? ?]]; cbn in *; [rewrite Hcall; exact Hso|rewrite Hcall; exact Hso|contradiction].
  - destruct rest as [|p rest'].
    + destruct Hta as [-> ->]. right. eauto.
    + destruct rest' as [|? ?]; [|contradiction]. destruct Hso as (i0 & cb & Hp & Hch).
      destruct Hta as [[-> ->]|[-> ->]]; [left|right; eauto].
      cbn. repeat split; auto. eexists _, []. split; [reflexivity|]. split; [reflexivity|]. cbn. rewrite Hp. exact I.
  - pose proof Hsf as Hsf'. apply sf_callback in Hsf' as (-> & Hpc & (i0 & cb & Hcall) & _).
    assert (Hrest : rest = []).
    { destruct rest as [|p [|? ?]]; [reflexivity| |contradiction]. destruct Hso as (i1 & cb1 & _ & Hch).
      apply is_child_sfrag in Hch as [_ Hch]. rewrite Hcall in Hch. discriminate. }
    subst rest. rewrite Hcall in Hta. cbn [cb_of] in Hta. destruct cb as [n|j0|j0].
    + destruct (cb_next_cases f k v) as [E|E]; rewrite E in Hta.
      * destruct Hta as [-> ->]. left. cbn. repeat split; auto. eexists _, []. split; [reflexivity|]. split; [reflexivity|]. cbn. rewrite Hcall. exact I.
      * destruct Hta as (_ & -> & ->). right. eauto.
    + destruct Hta as [-> ->]. left. cbn. repeat split; auto. eexists _, [_]. split; [reflexivity|]. split; [reflexivity|].
      cbn. exists i0, (CbAdd j0). split; [exact Hcall|]. cbn. eauto.
    + destruct Hta as [-> ->]. left. cbn. repeat split; auto. eexists _, [_]. split; [reflexivity|]. split; [reflexivity|].
      cbn. exists i0, (CbRemove j0). split; [exact Hcall|]. cbn. eauto.
Qed.

(* the set of present keys after a change at one key *)
Lemma dom_update (a a' : Z -> option Z) (D : gset Z) k0 :
  (forall k, k ∈ D <-> a k <> None) -> (forall k, k <> k0 -> a' k = a k) ->
  exists D' : gset Z, (forall k, k ∈ D' <-> a' k <> None) /\
    Z.of_nat (size D') = Z.of_nat (size D) + ((match a' k0 with Some _ => 1 | None => 0 end) - (match a k0 with Some _ => 1 | None => 0 end)).
Proof.
  intros HD Ho.
  destruct (a k0) as [v|] eqn:E; destruct (a' k0) as [v'|] eqn:E'.
  - exists D. split; [|lia]. intros k. rewrite HD. destruct (decide (k = k0)) as [->|N]; [rewrite E, E'; split; discriminate|rewrite Ho by exact N; reflexivity].
  - exists (D ∖ {[k0]}). split.
    + intros k. rewrite elem_of_difference, elem_of_singleton, HD. destruct (decide (k = k0)) as [->|N].
      * rewrite E'. split; [intros [_ X]; contradiction|congruence].
      * rewrite Ho by exact N. tauto.
    + assert (k0 ∈ D) by (apply HD; rewrite E; discriminate).
      rewrite size_difference by set_solver. rewrite size_singleton.
      assert (size D <> 0)%nat by (apply size_non_empty_iff; set_solver). lia.
  - exists ({[k0]} ∪ D). split.
    + intros k. rewrite elem_of_union, elem_of_singleton, HD. destruct (decide (k = k0)) as [->|N].
      * rewrite E'. split; [discriminate|auto].
      * rewrite Ho by exact N. tauto.
    + assert (k0 ∉ D) by (rewrite HD, E; auto).
      rewrite size_union by set_solver. rewrite size_singleton. lia.
  - exists D. split; [|lia]. intros k. rewrite HD. destruct (decide (k = k0)) as [->|N]; [rewrite E, E'; tauto|rewrite Ho by exact N; reflexivity].
Qed.

Record InvT (j : nat) (c : config) : Prop := {
  it_prog : forall t th, nth_error (c_threads c) t = Some th -> Forall sfrag (t_prog th) /\ stack_ok (t_stack th);
  it_fresh : forall t th, nth_error (c_threads c) t = Some th -> t_fresh th = true -> exists f, t_stack th = [f];
  it_cur : forall t th, nth_error (c_threads c) t = Some th ->
           (histT j (c_hist c)).1 !! t =
           if t_fresh th then None else match t_stack th with [] => None | f :: rest => Some (bottom_call f rest) end;
  it_bal : forall i, nth_error (c_insts c) j = Some i ->
           exists D : gset Z, (forall k, k ∈ D <-> abs_lookup (i_st i) k <> None) /\
                              (histT j (c_hist c)).2 + pendingT j c = Z.of_nat (size D)
}.

Lemma stack_ok_calls st : stack_ok st -> Forall (fun f => sfrag (f_call f)) st.
Proof.
  destruct st as [|f [|p [|? ?]]]; cbn; try contradiction; intros H.
  - constructor.
  - constructor; [exact H|constructor].
  - destruct H as (i & cb & Hp & Hch). apply is_child_sfrag in Hch as [Hch _].
    constructor; [exact Hch|]. constructor; [rewrite Hp; exact I|constructor].
Qed.

Lemma InvT_nopost j c : InvT j c -> calls_nopost c.
Proof.
  intros H t th Hth. destruct (it_prog j c H t th Hth) as [H1 H2]. split.
  - eapply List.Forall_impl; [|exact H1]. apply sfrag_nopost.
  - eapply List.Forall_impl; [|apply stack_ok_calls, H2]. intros f. apply sfrag_nopost.
Qed.

Lemma next_call_props prog res :
  Forall sfrag prog ->
  let thn := next_call (Thread prog [] res false) in
  Forall sfrag (t_prog thn) /\ stack_ok (t_stack thn) /\ (t_fresh thn = true -> exists f, t_stack thn = [f]) /\
  (if t_fresh thn then True else t_stack thn = []).
Proof.
  intros Hp. unfold next_call. cbn. destruct prog as [|c0 p]; cbn.
  - repeat split; auto. discriminate.
  - inversion Hp; subst. repeat split; eauto.
Qed.

Theorem InvT_step j c t ch c' : Inv c -> Inv2 c -> InvT j c -> step c t ch = Some c' -> InvT j c'.
Proof.
  intros HI HI2 HT H. pose proof HT as [Tprog Tfresh Tcur Tbal].
  destruct (step_nopost c t ch c' HI (InvT_nopost j c HT) H) as [_ Hnp].
  rewrite step_unfold in H. destruct (c_panicked c); [discriminate|].
  destruct (nth_error (c_threads c) t) as [th|] eqn:Hth; [|discriminate].
  destruct (t_stack th) as [|f rest] eqn:Hst; [discriminate|].
  destruct (Tprog t th Hth) as [Hfp Hso]. rewrite Hst in Hso.
  assert (Tt : top_frame c t = Some f) by (unfold top_frame; rewrite Hth, Hst; reflexivity).
  assert (Hok : frame_ok f) by (eapply inv_frames; eauto).
  assert (Hfr : sfrag (f_call f)) by (apply stack_ok_calls in Hso; inversion Hso; assumption).
  assert (Hpl : is_post_label (f_pc f) = false).
  { destruct (is_post_label (f_pc f)) eqn:E; [|reflexivity]. exfalso. apply (fo_post _ Hok) in E.
    destruct (f_call f); cbn in *; try contradiction. }
  rewrite Hpl in H. set (jf := call_inst (f_call f)) in *.
  destruct (nth_error (c_insts c) jf) as [i|] eqn:Hi; [|discriminate].
  destruct (step_frame t i f ch) as [[[i' o]|kk]|] eqn:Hsf; [| |discriminate].
  2:{ unfold fin in H. simplify_eq. }
  assert (Hlt : (t < length (c_threads c))%nat) by (eapply nth_error_lt; eauto).
  assert (Hlj : (jf < length (c_insts c))%nat) by (eapply nth_error_lt; eauto).
  assert (Hpk : frame_pc_ok f) by (eapply i2_pc; eauto).
  assert (Hcore : WF_core (i_st i)) by (eapply Inv_WF_core; eauto).
  assert (Hwfl : in_cs f = true -> WFL (i_st i) f).
  { intros Hcs. destruct (inv_insts c HI _ _ Hi) as [Hm Hw].
    assert (Hmu : i_mu i = Some t) by (apply Hm; exists f; auto). rewrite Hmu in Hw. apply Hw, Tt. }
  assert (H2 : WF2 (i_st i)) by (eapply i2_wf2; eauto).
  assert (Href : ref_inv (i_st i) f) by (eapply i2_ref; eauto).
  pose proof (cons_any t i f ch i' o Hfr Hok Hpk Hcore Hwfl H2 Href Hsf) as [Hco Hck].
  destruct (fin_after _ _ _ _ _ _ _ _ _ H Hst) as (th' & evs & Hta & ->).
  { intros j0 k0 E. rewrite E in Hfr. exact Hfr. }
  { intros f' k v ->. apply sf_callback in Hsf as (_ & _ & (i0 & cb & Hc) & _).
    destruct rest as [|p [|? ?]]; [reflexivity| |contradiction]. destruct Hso as (i1 & cb1 & _ & Hch).
    apply is_child_sfrag in Hch as [_ Hch]. rewrite Hc in Hch. discriminate. }
  destruct (thread_account j t i f ch i' o th rest th' evs Hst Hso Hok Hpk Hsf Hta) as [Hacc Hevs].
  pose proof (thread_after_shape t i f ch i' o th rest th' evs Hst Hso Hok Hsf Hta) as Hshape.
  (* the current call of t in the history, after the invocation event (if any) *)
  set (inv := if t_fresh th then [EvInv t (f_call f)] else []).
  set (st1 := fold_left (hstepT j) inv (histT j (c_hist c))).
  assert (Hst1 : st1.2 = (histT j (c_hist c)).2 /\ st1.1 !! t = Some (bottom_call f rest) /\
                 forall t2, t2 <> t -> st1.1 !! t2 = (histT j (c_hist c)).1 !! t2).
  { unfold st1, inv. destruct (t_fresh th) eqn:Efr; cbn.
    - destruct (Tfresh t th Hth Efr) as [f0 E0]. rewrite Hst in E0. injection E0 as <- ->.
      split; [reflexivity|]. split; [apply lookup_insert|]. intros t2 N. apply lookup_insert_ne. congruence.
    - split; [reflexivity|]. split; [|reflexivity]. rewrite (Tcur t th Hth), Efr, Hst. reflexivity. }
  destruct Hst1 as (S1 & S2 & S3).
  set (st2 := fold_left (hstepT j) evs st1).
  assert (Hst2 : st2.2 = st1.2 + ev_contrib j (bottom_call f rest) evs /\
                 st2.1 !! t = (match evs with [] => Some (bottom_call f rest) | _ => None end) /\
                 forall t2, t2 <> t -> st2.1 !! t2 = st1.1 !! t2).
  { unfold st2. destruct Hevs as [->|[r ->]]; cbn.
    - split; [lia|]. split; [exact S2|reflexivity].
    - rewrite S2. split; [reflexivity|]. split; [apply lookup_delete|]. intros t2 N. apply lookup_delete_ne. congruence. }
  destruct Hst2 as (U1 & U2 & U3).
  assert (Hh : histT j (c_hist c ++ inv ++ evs) = st2).
  { rewrite histT_app, fold_left_app. reflexivity. }
  constructor; cbn [c_threads c_hist c_insts].
  - (* it_prog *)
    intros t2 th2. destruct (decide (t2 = t)) as [->|N]; [|rewrite nth_error_set_nth_list_ne by auto; apply Tprog].
    rewrite nth_error_set_nth_list_eq by exact Hlt. intros [= <-].
    destruct Hshape as [(_ & _ & Hp' & f1 & rest1 & E1 & _ & Hso1)|(r & res' & _ & ->)].
    + rewrite Hp', E1. auto.
    + destruct (next_call_props (t_prog th) res' Hfp) as (A & B & _). auto.
  - (* it_fresh *)
    intros t2 th2. destruct (decide (t2 = t)) as [->|N]; [|rewrite nth_error_set_nth_list_ne by auto; apply Tfresh].
    rewrite nth_error_set_nth_list_eq by exact Hlt. intros [= <-].
    destruct Hshape as [(_ & Hf' & _)|(r & res' & _ & ->)]; [congruence|].
    apply (next_call_props (t_prog th) res' Hfp).
  - (* it_cur *)
    intros t2 th2. rewrite Hh. destruct (decide (t2 = t)) as [->|N].
    + rewrite nth_error_set_nth_list_eq by exact Hlt. intros [= <-]. rewrite U2.
      destruct Hshape as [(-> & Hf' & _ & f1 & rest1 & E1 & Hb & _)|(r & res' & -> & ->)].
      * rewrite Hf', E1, Hb. reflexivity.
      * destruct (next_call_props (t_prog th) res' Hfp) as (_ & _ & _ & X). cbv zeta in X.
        destruct (t_fresh (next_call (Thread (t_prog th) [] res' false))); [reflexivity|]. rewrite X. reflexivity.
    + rewrite nth_error_set_nth_list_ne by auto. intros Hth2. rewrite U3, S3 by exact N. apply Tcur, Hth2.
  - (* it_bal *)
    intros i2 Hi2. rewrite Hh, U1, S1.
    assert (Hpend : pendingT j (Config (set_nth_list jf i' (c_insts c)) (c_um c) (set_nth_list t th' (c_threads c))
                                  (c_hist c ++ inv ++ evs) false) = pendingT j c - thread_pend j th + thread_pend j th').
    { unfold pendingT. cbn [c_threads]. apply sumZ_set. exact Hth. }
    rewrite Hpend.
    destruct (decide (j = jf)) as [->|Nj].
    + rewrite nth_error_set_nth_list_eq in Hi2 by exact Hlj. injection Hi2 as <-.
      destruct (Tbal i Hi) as (D & HD & Hb).
      destruct (dom_update (abs_lookup (i_st i)) (abs_lookup (i_st i')) D (key_of (f_call f)) HD Hco) as (D' & HD' & Hsz).
      exists D'. split; [exact HD'|]. rewrite Hsz, <- Hb.
      unfold Aof in Hck. rewrite Nat.eqb_refl in Hacc. lia.
    + rewrite nth_error_set_nth_list_ne in Hi2 by auto.
      destruct (Tbal i2 Hi2) as (D & HD & Hb). exists D. split; [exact HD|].
      assert (E : Nat.eqb (call_inst (f_call f)) j = false) by (apply Nat.eqb_neq; auto). rewrite E in Hacc. lia.
Qed.

Theorem InvT_init j zs progs : Forall (Forall sfrag) progs -> InvT j (init_config_z zs progs).
Proof.
  intros Hfr.
  assert (Hthreads : forall t th, nth_error (c_threads (init_config_z zs progs)) t = Some th ->
            exists p, Forall sfrag p /\ th = next_call (Thread p [] [] false)).
  { intros t th. cbn. rewrite nth_error_map. destruct (nth_error progs t) as [p|] eqn:E; [|discriminate]. cbn.
    intros [= <-]. exists p. split; [|reflexivity]. rewrite Forall_forall in Hfr. apply Hfr. eapply nth_error_In, E. }
  constructor.
  - intros t th Hth. destruct (Hthreads t th Hth) as (p & Hp & ->). destruct (next_call_props p [] Hp) as (A & B & _). auto.
  - intros t th Hth. destruct (Hthreads t th Hth) as (p & Hp & ->). apply (next_call_props p [] Hp).
  - intros t th Hth. destruct (Hthreads t th Hth) as (p & Hp & ->). cbn. rewrite lookup_empty.
    destruct (next_call_props p [] Hp) as (_ & _ & _ & X). cbv zeta in X.
    destruct (t_fresh (next_call (Thread p [] [] false))); [reflexivity|]. rewrite X. reflexivity.
  - intros i Hi. cbn in Hi. rewrite nth_error_map in Hi. destruct (nth_error zs j) as [z|]; [|discriminate]. injection Hi as <-. exists ∅. split.
    + intros k. cbn. split; [intros Hk; apply elem_of_empty in Hk; contradiction|]. intros Hk. exfalso. apply Hk. reflexivity.
    + cbn. unfold pendingT. cbn. rewrite sumZ_zero; [reflexivity|].
      intros th Hin. apply in_map_iff in Hin as (p & <- & _). apply thread_pend_next.
Qed.

Lemma InvT_run j c sched : Inv c -> Inv2 c -> InvT j c -> InvT j (run_schedule c sched).
Proof.
  revert c. induction sched as [|[t ch] sched IH]; intros c H1 H2 HT; cbn; [exact HT|].
  destruct (step c t ch) as [c'|] eqn:E; cbn; [|apply IH; assumption].
  apply IH; [eapply Inv_step; eauto|eapply Inv2_step; eauto|eapply InvT_step; eauto].
Qed.

(* The counts add up. For every set j, in every reachable configuration of
   programs of Has / Add / Remove / Len / AddSet / RemoveSet on any number of sets:
     (Adds into j that reported "added") - (Removes from j that reported "removed")
   + (counts returned by the completed AddSets into j) - (counts returned by the completed RemoveSets from j)
   + (calls in flight: the running count of every AddSet / RemoveSet of j, and the
      decided but unreported effect of every Add / Remove of j, nested or not)
   = the number of members of j. *)
Theorem set_counts zs progs sched j i :
  Forall (Forall sfrag) progs ->
  let c := run_schedule (init_config_z zs progs) sched in
  nth_error (c_insts c) j = Some i ->
  exists D : gset Z, (forall k, k ∈ D <-> abs_lookup (i_st i) k <> None) /\
                     total j (c_hist c) + pendingT j c = Z.of_nat (size D).
Proof.
  intros Hfr c Hi.
  pose proof (InvT_run j (init_config_z zs progs) sched (Inv_init_z zs progs) (Inv2_init_z zs progs) (InvT_init j zs progs Hfr)) as HT.
  destruct (it_bal j _ HT i Hi) as (D & HD & Hb). exists D. split; [exact HD|]. rewrite <- histT_total. exact Hb.
Qed.

Lemma pendingT_finished j c : finished c = true -> pendingT j c = 0.
Proof.
  unfold finished, pendingT. intros H. apply sumZ_zero. intros th Hin.
  rewrite forallb_forall in H. specialize (H th Hin). unfold thread_pend. destruct (t_stack th); [reflexivity|discriminate].
Qed.

(* when no call is in progress the counts reported so far add up to the size of the set *)
Theorem set_counts_quiescent zs progs sched j i :
  Forall (Forall sfrag) progs ->
  let c := run_schedule (init_config_z zs progs) sched in
  nth_error (c_insts c) j = Some i -> finished c = true ->
  exists D : gset Z, (forall k, k ∈ D <-> abs_lookup (i_st i) k <> None) /\ total j (c_hist c) = Z.of_nat (size D).
Proof.
  intros Hfr c Hi Hfin. destruct (set_counts zs progs sched j i Hfr Hi) as (D & HD & Hb). fold c in Hb.
  exists D. split; [exact HD|]. rewrite (pendingT_finished j c Hfin) in Hb. lia.
Qed.

(* (a) thread-local accounting: when the nested Add / Remove of an AddSet / RemoveSet
   returns r, the Range's running count grows by exactly 1 if r reports success
   (Add: loaded = false, Remove: loaded = true) and by 0 otherwise, and this is the
   only way the count of an AddSet / RemoveSet changes; if the Range completes in
   the same step, the count it returns is that sum. *)
Theorem nested_return_counted c t ch c' th child p rest r i i' :
  step c t ch = Some c' -> c_panicked c = false ->
  nth_error (c_threads c) t = Some th -> t_stack th = child :: p :: rest ->
  is_post_label (f_pc child) = false -> (forall j k, f_call child <> CDelete j k) ->
  nth_error (c_insts c) (call_inst (f_call child)) = Some i -> step_frame t i child ch = Some (Ok (i', Return r)) ->
  exists th', nth_error (c_threads c') t = Some th' /\
    let p' := set_out p (f_out p) (f_acc p + inc_of (cb_of (f_call p)) r) in
    (t_stack th' = set_pc p' Range_iter :: rest /\ t_results th' = t_results th) \/
    (t_results th' = t_results th ++ [RRange (f_out p) (f_acc p + inc_of (cb_of (f_call p)) r)]).
Proof.
  intros H Hp Hth Hst Hpl Hnd Hi Hsf. rewrite step_unfold, Hp, Hth, Hst, Hpl, Hi, Hsf in H.
  assert (Hlt : (t < length (c_threads c))%nat) by (eapply nth_error_lt; eauto).
  destruct (fin_after _ _ _ _ _ _ _ _ _ H Hst Hnd) as (th' & evs & Hta & ->); [discriminate|].
  exists th'. cbn [c_threads]. split; [apply nth_error_set_nth_list_eq; exact Hlt|].
  cbn [thread_after] in Hta. destruct Hta as [[-> _]|[-> _]].
  - left. split; reflexivity.
  - right. unfold next_call. cbn. destruct (t_prog th); reflexivity.
Qed.

Local Close Scope Z_scope.
(* ================================================================== *)
(* Len: a counting Range returns the number of pairs it was shown      *)
(* ================================================================== *)
Lemma sf_out t i f ch i' f' : step_frame t i f ch = Some (Ok (i', Continue f')) -> f_out f' = f_out f.
Proof.
  intros H. unfold step_frame in H.
  destruct (f_pc f) eqn:Hpc;
    unfold expunge_done, tlos_done, bind in H; unfold after_miss, dirty_next, los_return, range_next in H;
    repeat case_match; simplify_eq; reflexivity.
Qed.

Lemma sf_range_ret2 t i f ch i' r j cb :
  f_call f = CRange j cb -> frame_pc_ok f -> step_frame t i f ch = Some (Ok (i', Return r)) -> r = RRange (f_out f) (f_acc f).
Proof.
  intros Hcall Hpk H. unfold frame_pc_ok in Hpk. rewrite Hcall in Hpk. unfold step_frame in H.
  destruct (f_pc f) eqn:Hpc; try discriminate Hpk; rewrite ?Hcall in H; unfold range_next in H; cbn in H;
    repeat case_match; simplify_eq; reflexivity.
Qed.

Definition len_ok (f : frame) : Prop := f_acc f = Z.of_nat (length (f_out f)).

Lemma sf_len t i f ch i' o j n :
  f_call f = CRange j (CbStop n) -> frame_pc_ok f -> len_ok f -> step_frame t i f ch = Some (Ok (i', o)) ->
  match eff o with
  | Continue f' => len_ok f'
  | Return r => exists out cnt, r = RRange out cnt /\ cnt = Z.of_nat (length out)
  | Callback _ _ _ => False
  end.
Proof.
  intros Hcall Hpk Hl H. destruct o as [f'|r|f' k v]; cbn [eff].
  - unfold len_ok in *. rewrite (sf_acc _ _ _ _ _ _ H), (sf_out _ _ _ _ _ _ H). exact Hl.
  - rewrite (sf_range_ret2 _ _ _ _ _ _ _ _ Hcall Hpk H). eauto.
  - apply sf_callback in H as (-> & _ & _ & _).
    assert (Hl2 : (f_acc f + 1)%Z = Z.of_nat (length (f_out f ++ [(k, v)]))).
    { rewrite app_length. cbn. unfold len_ok in Hl. lia. }
    destruct (cb_next_cases f k v) as [E|E]; rewrite E.
    + unfold len_ok. cbn. exact Hl2.
    + cbn. eauto.
Qed.

Record LInv (c : config) : Prop := {
  li_frame : forall t th f j n, nth_error (c_threads c) t = Some th -> t_stack th = [f] -> f_call f = CRange j (CbStop n) -> len_ok f;
  li_res : forall t th i out cnt, nth_error (c_threads c) t = Some th -> nth_error (t_results th) i = Some (RRange out cnt) ->
           cnt = Z.of_nat (length out)
}.

Lemma LInv_step tr c t ch c' : Inv c -> Inv2 c -> RInv tr c -> LInv c -> step c t ch = Some c' -> LInv c'.
Proof.
  intros HI HI2 HR [Lf Lr] H.
  destruct (rstep_facts tr c t ch c' HI HI2 HR H)
    as (th & f & i & i' & o & th' & Hth & Hst & Hfr & Hi & Hs0 & Hs0' & Hok & Hpk & Hcore & Hwfl & Href & Hsf & Hth' & Hthe & Hnrr).
  assert (Hlt : t < length (c_threads c)) by (eapply nth_error_lt; eauto).
  assert (C1 : forall t2, t2 <> t -> nth_error (c_threads c') t2 = nth_error (c_threads c) t2).
  { intros t2 N. rewrite Hth'. apply nth_error_set_nth_list_ne; auto. }
  assert (Ct : nth_error (c_threads c') t = Some th') by (rewrite Hth'; apply nth_error_set_nth_list_eq; exact Hlt).
  assert (HL : forall j n, f_call f = CRange j (CbStop n) ->
            match eff o with
            | Continue f' => len_ok f'
            | Return r => exists out cnt, r = RRange out cnt /\ cnt = Z.of_nat (length out)
            | Callback _ _ _ => False
            end).
  { intros j n Hcall. eapply sf_len; eauto. }
  constructor.
  - intros t2 th2 f2 j n. destruct (decide (t2 = t)) as [->|N]; [|rewrite (C1 t2 N); apply (Lf t2)].
    rewrite Ct. intros [= <-]. destruct (eff o) as [f'|r|? ? ?] eqn:Eo; [| |contradiction].
    + destruct Hthe as [-> Hc']. cbn. intros [= <-] Hcall. rewrite Hc' in Hcall. apply (HL j n Hcall).
    + subst th'. unfold next_call. cbn. destruct (t_prog th) as [|c1 p1]; cbn; [discriminate|].
      intros [= <-] _. reflexivity.
  - intros t2 th2 i2 out cnt. destruct (decide (t2 = t)) as [->|N]; [|rewrite (C1 t2 N); apply (Lr t2)].
    rewrite Ct. intros [= <-]. destruct (eff o) as [f'|r|? ? ?] eqn:Eo; [| |contradiction].
    + destruct Hthe as [-> _]. cbn. apply (Lr t th), Hth.
    + subst th'. assert (X : t_results (next_call (Thread (t_prog th) [] (t_results th ++ [rep (f_call f) r]) false)) = t_results th ++ [rep (f_call f) r])
        by (unfold next_call; cbn; destruct (t_prog th); reflexivity).
      rewrite X. intros Hn. apply nth_error_snoc in Hn as [Hn|[-> Hn]]; [eapply Lr; eauto|].
      destruct (is_range (f_call f)) eqn:Hrg.
      * destruct (f_call f) as [| | | | |jj cbb] eqn:Hcall; try discriminate Hrg.
        cbn in Hfr. destruct cbb as [n| |]; try contradiction.
        destruct (HL jj n eq_refl) as (out1 & cnt1 & -> & E). cbn in Hn. injection Hn as -> ->. exact E.
      * exfalso. eapply (Hnrr eq_refl r out cnt eq_refl). symmetry. exact Hn.
Qed.

Lemma LInv_init z progs : LInv (init_config_z [z] progs).
Proof.
  assert (Hthreads : forall t th, nth_error (c_threads (init_config_z [z] progs)) t = Some th ->
            exists p, th = next_call (Thread p [] [] false)).
  { intros t th. cbn. rewrite nth_error_map. destruct (nth_error progs t) as [p|]; [|discriminate]. cbn. intros [= <-]. eauto. }
  constructor.
  - intros t th f j n Hth. destruct (Hthreads t th Hth) as (p & ->). unfold next_call. cbn. destruct p; cbn; [discriminate|].
    intros [= <-] _. reflexivity.
  - intros t th i out cnt Hth. destruct (Hthreads t th Hth) as (p & ->). unfold next_call. cbn. destruct p; cbn; destruct i; discriminate.
Qed.

Lemma LInv_run sched : forall tr c, Inv c -> Inv2 c -> RInv tr c -> LInv c -> LInv (run_schedule c sched).
Proof.
  induction sched as [|[t ch] sched IH]; intros tr c H1 H2 HR HL; cbn; [exact HL|].
  destruct (step c t ch) as [c'|] eqn:E; cbn; [|eapply IH; eauto].
  apply (IH (tr ++ [c'])); [eapply Inv_step; eauto|eapply Inv2_step; eauto|eapply RInv_step; eauto|eapply LInv_step; eauto].
Qed.

Lemma run_trace_steps c sched : run_trace c sched = map fst (steps_from c sched) ++ [run_schedule c sched].
Proof.
  unfold run_trace. revert c. induction sched as [|[t ch] sched IH]; intros c; cbn; [reflexivity|].
  f_equal. specialize (IH (default c (step c t ch))). cbn in IH. destruct sched as [|[t2 ch2] sched'].
  - cbn. reflexivity.
  - cbn in *. exact IH.
Qed.

(* Len (a Range whose callback only counts and never stops): if the contents of
   the set are one and the same map m in every configuration of the call's
   closed interval - in particular if nothing else runs meanwhile - then Len
   returns the number of members. Programs: Has / Add / Remove / Store / Delete
   and Len or stopping Ranges on one set ([rfrag]); the call in question - the
   i-th call of thread t - is Len. *)
Theorem len_constant z progs sched t th i out cnt (m : gmap Z Z) :
  Forall (Forall rfrag) progs ->
  (exists p, nth_error progs t = Some p /\ nth_error p i = Some (CRange 0 (CbStop None))) ->
  let c := run_schedule (init_config_z [z] progs) sched in
  nth_error (c_threads c) t = Some th -> nth_error (t_results th) i = Some (RRange out cnt) ->
  (forall x, In x (steps_from (init_config_z [z] progs) sched) -> in_call_at x t i -> forall k, abs_lookup (st0 x.1) k = m !! k) ->
  cnt = Z.of_nat (size m).
Proof.
  intros Hfr Hns c Hth Hn Hm.
  assert (HL : LInv c).
  { apply (LInv_run sched [init_config_z [z] progs]); [apply Inv_init_z|apply Inv2_init_z|apply RInv_init, Hfr|apply LInv_init]. }
  rewrite (li_res c HL t th i out cnt Hth Hn). f_equal.
  pose proof (range_once z progs sched t th i out cnt Hfr Hth Hn) as Hnd.
  assert (Hiff : forall k v, In (k, v) out <-> m !! k = Some v).
  { intros k v. split.
    - intros Hin. destruct (range_values z progs sched t th i out cnt Hfr Hth Hn k v Hin) as (cj & Hcj & Hic & Hab).
      rewrite run_trace_steps in Hcj. apply in_app_or in Hcj as [Hcj|[<-|[]]].
      + apply in_map_iff in Hcj as (x & <- & Hx). rewrite <- (Hm x Hx (or_introl Hic) k). exact Hab.
      + exfalso. destruct Hic as (th2 & Hth2 & Hlen & _). fold c in Hth2. assert (th2 = th) by congruence. subst th2.
        apply nth_error_lt in Hn. lia.
    - intros Hk. destruct (range_complete z progs sched t th i out cnt Hfr Hth Hn k v) as [Hin|(p2 & n & Hp2 & Hin & _)]; [|exact Hin|].
      + intros x Hx Hat. rewrite (Hm x Hx Hat k). exact Hk.
      + exfalso. destruct Hns as (p & Hp & Hpi). congruence. }
  assert (Hnd' : List.NoDup out).
  { clear -Hnd. induction out as [|[k v] out IH]; [constructor|]. cbn in Hnd. inversion Hnd; subst. constructor; [|auto].
    intros Hin. apply H1. apply in_map_iff. exists (k, v). auto. }
  change (size m) with (length (map_to_list m)). apply Permutation_length. apply Coq.Sorting.Permutation.NoDup_Permutation; [exact Hnd'|apply NoDup_ListNoDup, NoDup_map_to_list|].
  intros [k v]. rewrite Hiff, <- elem_of_list_In, elem_of_map_to_list. reflexivity.
Qed.

(* [range_complete] with the escape in terms of the count: the call's own
   callback stops after n entries, and it was called at least once and at
   least n times *)
Theorem range_complete_cnt z progs sched t th i out cnt :
  Forall (Forall rfrag) progs ->
  let c := run_schedule (init_config_z [z] progs) sched in
  nth_error (c_threads c) t = Some th -> nth_error (t_results th) i = Some (RRange out cnt) ->
  cnt = Z.of_nat (length out) /\
  forall k v,
    (forall x, In x (steps_from (init_config_z [z] progs) sched) -> in_call_at x t i -> abs_lookup (st0 x.1) k = Some v) ->
    In (k, v) out \/
    exists p n, nth_error progs t = Some p /\ nth_error p i = Some (CRange 0 (CbStop (Some n))) /\ (0 < cnt)%Z /\ (Z.of_nat n <= cnt)%Z.
Proof.
  intros Hfr c Hth Hn.
  assert (HL : LInv c).
  { apply (LInv_run sched [init_config_z [z] progs]); [apply Inv_init_z|apply Inv2_init_z|apply RInv_init, Hfr|apply LInv_init]. }
  pose proof (li_res c HL t th i out cnt Hth Hn) as Ec. split; [exact Ec|].
  intros k v S. destruct (range_complete z progs sched t th i out cnt Hfr Hth Hn k v S) as [Hin|(p & n & Hp & Hi & Hne & Hle)]; [auto|].
  right. exists p, n. split; [exact Hp|]. split; [exact Hi|]. split; [|exact Hle]. destruct out; [contradiction|cbn in Ec; lia].
Qed.

(* ---- the stability hypothesis of [len_constant] can be checked by computation ---- *)
Lemma abs_map_lookup_any s k : abs_map s !! k = abs_lookup s k.
Proof.
  unfold abs_map. rewrite SeqProofs.list_to_map_omap. destruct (decide (k ∈ all_keys s)) as [|N]; [reflexivity|].
  destruct (abs_lookup s k) as [v|] eqn:A; [|reflexivity]. exfalso. apply N. eapply SeqProofs.abs_lookup_all_keys; eauto.
Qed.

Lemma stable_map_check (ptr : list (config * nat)) t i (m : gmap Z Z) :
  forallb (fun x => implb (in_call_atb x t i) (bool_decide (map_to_list (abs_map (st0 x.1)) = map_to_list m))) ptr = true ->
  forall x, In x ptr -> in_call_at x t i -> forall k, abs_lookup (st0 x.1) k = m !! k.
Proof.
  intros H x Hx Hat k. rewrite forallb_forall in H. specialize (H x Hx). rewrite (in_call_at_b x t i Hat) in H.
  cbn in H. apply bool_decide_eq_true in H. assert (E : abs_map (st0 x.1) = m) by (apply map_to_list_inj; rewrite H; reflexivity).
  rewrite <- E. symmetry. apply abs_map_lookup_any.
Qed.
