(* History-level sequential refinement of sync2.Map (C04 item 1): every
   single-goroutine sequence of Load / Store / LoadOrStore / LoadAndDelete /
   Delete / Range calls, of any length, run on the model of the real data
   structure (Seq.v: read map, dirty map, entry states, promotion, expunge,
   re-creation) returns exactly what the same sequence returns on an ordinary
   map (gmap Z Z), and the final contents agree. Proved by induction over the
   history from the per-method lemmas of SeqProofs.v. *)
From Typ Require Import SyncMap.Seq SyncMap.SeqProofs.
Local Open Scope Z_scope.

(* calls; a Range call carries the order in which Go's range statement visits
   the keys (arbitrary list: absent keys are skipped) and when the callback
   says stop (Some n: f returns false at its n-th call; None: never) *)
Inductive sop :=
| SLoad (k : Z) | SStore (k v : Z) | SLoadOrStore (k v : Z) | SLoadAndDelete (k : Z) | SDelete (k : Z)
| SRange (order : list Z) (stop : option nat).

Inductive sres :=
| SROpt (o : option Z)                  (* Load, LoadAndDelete: (value, ok) *)
| SRUnit                                (* Store, Delete *)
| SRLos (actual : Z) (loaded : bool)    (* LoadOrStore *)
| SRPairs (l : list (Z * Z)).           (* Range: the (key, value) pairs passed to f, in order *)

(* ---- the implementation model, run call by call ---- *)
Definition run_op (s : mstate) (op : sop) : result (mstate * sres) :=
  match op with
  | SLoad k => let '(s', r) := Load s k in Ok (s', SROpt r)
  | SStore k v => match Store s k v with Ok s' => Ok (s', SRUnit) | Panic p => Panic p end
  | SLoadOrStore k v =>
      match LoadOrStore s k v with Ok (s', a, l) => Ok (s', SRLos a l) | Panic p => Panic p end
  | SLoadAndDelete k => let '(s', r) := LoadAndDelete s k in Ok (s', SROpt r)
  | SDelete k => Ok (Delete s k, SRUnit)
  | SRange order stop => let '(s', r) := Range s order stop in Ok (s', SRPairs r)
  end.

Fixpoint run_seq (ops : list sop) (s : mstate) : result (mstate * list sres) :=
  match ops with
  | [] => Ok (s, [])
  | op :: ops' =>
      match run_op s op with
      | Ok (s1, r) =>
          match run_seq ops' s1 with
          | Ok (s2, rs) => Ok (s2, r :: rs)
          | Panic p => Panic p
          end
      | Panic p => Panic p
      end
  end.

(* ---- the specification: an ordinary map ---- *)
Definition spec_pairs (m : gmap Z Z) (order : list Z) : list (Z * Z) :=
  omap (fun k => match m !! k with Some v => Some (k, v) | None => None end) order.

Definition spec_op (m : gmap Z Z) (op : sop) : gmap Z Z * sres :=
  match op with
  | SLoad k => (m, SROpt (m !! k))
  | SStore k v => (<[k := v]> m, SRUnit)
  | SLoadOrStore k v =>
      match m !! k with
      | Some x => (m, SRLos x true)
      | None => (<[k := v]> m, SRLos v false)
      end
  | SLoadAndDelete k => (delete k m, SROpt (m !! k))
  | SDelete k => (delete k m, SRUnit)
  | SRange order stop =>
      (m, SRPairs (match stop with None => spec_pairs m order | Some n => firstn n (spec_pairs m order) end))
  end.

Fixpoint spec_run (ops : list sop) (m : gmap Z Z) : gmap Z Z * list sres :=
  match ops with
  | [] => (m, [])
  | op :: ops' =>
      let '(m1, r) := spec_op m op in
      let '(m2, rs) := spec_run ops' m1 in
      (m2, r :: rs)
  end.

(* ---- refinement ---- *)
Definition represents (s : mstate) (m : gmap Z Z) : Prop := forall k, abs_lookup s k = m !! k.

Lemma live_pairs_spec_pairs s m order : represents s m -> live_pairs s order = spec_pairs m order.
Proof.
  intros A. unfold live_pairs, spec_pairs. induction order as [|k order IH]; [reflexivity|].
  cbn [omap list_omap]. rewrite IH, A. reflexivity.
Qed.

Lemma insert_represents s s' m k v :
  represents s m -> (forall k', abs_lookup s' k' = if decide (k' = k) then Some v else abs_lookup s k') ->
  represents s' (<[k := v]> m).
Proof.
  intros A A' k'. rewrite A'. destruct (decide (k' = k)) as [->|N].
  - rewrite lookup_insert. reflexivity.
  - rewrite lookup_insert_ne by congruence. apply A.
Qed.

Lemma delete_represents s s' m k :
  represents s m -> (forall k', abs_lookup s' k' = if decide (k' = k) then None else abs_lookup s k') ->
  represents s' (delete k m).
Proof.
  intros A A' k'. rewrite A'. destruct (decide (k' = k)) as [->|N].
  - rewrite lookup_delete. reflexivity.
  - rewrite lookup_delete_ne by congruence. apply A.
Qed.

Lemma run_op_refines s m op : WF s -> represents s m ->
  exists s' r, run_op s op = Ok (s', r) /\ WF s' /\ represents s' (spec_op m op).1 /\ r = (spec_op m op).2.
Proof.
  intros H A. destruct op as [k|k v|k v|k|k|order stop]; cbn [run_op spec_op].
  - destruct (Load_spec s k H) as (W & R & A'). destruct (Load s k) as [s' r]. cbn [fst snd] in *.
    do 2 eexists. split; [reflexivity|]. split; [exact W|]. split.
    + intros k'. rewrite A'. apply A.
    + rewrite R, A. reflexivity.
  - destruct (Store_spec s k v H) as (s' & E & W & A'). rewrite E.
    do 2 eexists. split; [reflexivity|]. split; [exact W|]. split; [|reflexivity].
    eapply insert_represents; eauto.
  - destruct (LoadOrStore_spec s k v H) as (s' & a & l & E & W & P). rewrite E.
    do 2 eexists. split; [reflexivity|]. split; [exact W|]. rewrite A in P.
    destruct (m !! k) as [x|]; destruct P as (-> & -> & A'); cbn [fst snd].
    + split; [|reflexivity]. intros k'. rewrite A'. apply A.
    + split; [|reflexivity]. eapply insert_represents; eauto.
  - destruct (LoadAndDelete_spec s k H) as (W & R & A'). destruct (LoadAndDelete s k) as [s' r].
    cbn [fst snd] in *. do 2 eexists. split; [reflexivity|]. split; [exact W|]. split.
    + eapply delete_represents; eauto.
    + rewrite R, A. reflexivity.
  - destruct (LoadAndDelete_spec s k H) as (W & _ & A'). unfold Delete.
    do 2 eexists. split; [reflexivity|]. split; [exact W|]. split; [|reflexivity].
    eapply delete_represents; eauto.
  - destruct (Range_spec s order stop H) as (W & A' & _ & R). destruct (Range s order stop) as [s' r].
    cbn [fst snd] in *. do 2 eexists. split; [reflexivity|]. split; [exact W|]. split.
    + intros k'. rewrite A'. apply A.
    + rewrite R, (live_pairs_spec_pairs s m order A). reflexivity.
Qed.

Lemma run_seq_refines ops : forall s m, WF s -> represents s m ->
  exists s' outs, run_seq ops s = Ok (s', outs) /\ WF s' /\
    represents s' (spec_run ops m).1 /\ outs = (spec_run ops m).2.
Proof.
  induction ops as [|op ops IH]; intros s m H A.
  - do 2 eexists. split; [reflexivity|]. auto.
  - destruct (run_op_refines s m op H A) as (s1 & r & E & W1 & A1 & R1).
    cbn [run_seq spec_run]. rewrite E. destruct (spec_op m op) as [m1 r1]. cbn [fst snd] in *.
    destruct (IH s1 m1 W1 A1) as (s2 & rs & E2 & W2 & A2 & R2). rewrite E2.
    destruct (spec_run ops m1) as [m2 rs2]. cbn [fst snd] in *.
    do 2 eexists. split; [reflexivity|]. split; [exact W2|]. split; [exact A2|]. congruence.
Qed.

Lemma represents_abs_map s m : WF s -> represents s m -> abs_map s = m.
Proof. intros H A. apply map_eq. intros k. rewrite abs_map_lookup by exact H. apply A. Qed.

Lemma represents_empty : represents empty_mstate ∅.
Proof. intros k. rewrite lookup_empty. reflexivity. Qed.

(* from any well-formed Map *)
Theorem seq_refinement_from : forall ops s, WF s ->
  exists s' outs, run_seq ops s = Ok (s', outs) /\ WF s' /\
    outs = (spec_run ops (abs_map s)).2 /\ abs_map s' = (spec_run ops (abs_map s)).1.
Proof.
  intros ops s H.
  destruct (run_seq_refines ops s (abs_map s) H) as (s' & outs & E & W & A & R).
  { intros k. symmetry. apply abs_map_lookup, H. }
  exists s', outs. split; [exact E|]. split; [exact W|]. split; [exact R|]. apply represents_abs_map; assumption.
Qed.

(* from the zero Map: no panic, same results as map[K]V, same final contents *)
Theorem seq_refinement : forall ops,
  exists s outs, run_seq ops empty_mstate = Ok (s, outs) /\ WF s /\
    outs = (spec_run ops ∅).2 /\ abs_map s = (spec_run ops ∅).1.
Proof.
  intros ops.
  destruct (run_seq_refines ops empty_mstate ∅ WF_empty represents_empty) as (s & outs & E & W & A & R).
  exists s, outs. split; [exact E|]. split; [exact W|]. split; [exact R|]. apply represents_abs_map; assumption.
Qed.

(* observation of the internal layout, for the examples: the pointer state of
   the entry that read.m holds for a key, and the outcome of a history *)
Definition read_state (s : mstate) (k : Z) : option ptr :=
  match read_m s !! k with Some e => Some (get_ent s e) | None => None end.
Definition run_from_empty (ops : list sop) : option (mstate * list sres) :=
  match run_seq ops empty_mstate with Ok x => Some x | Panic _ => None end.
(* results, then for each listed key the entry state in read.m and the entry id in dirty,
   read.amended, and the abstract contents *)
Definition history_obs (ops : list sop) (keys : list Z) :=
  match run_from_empty ops with
  | Some (s, outs) =>
      Some (outs, map (read_state s) keys, map (dirty_lookup s) keys, amended s, map_to_list (abs_map s))
  | None => None
  end.
