(* Proofs about the sequential model of sync2.Map (SyncMap/Seq.v): the
   structural invariant WF of a quiescent Map, and for every method that it
   preserves WF and acts on the abstraction [abs_lookup] exactly as the
   corresponding operation of an ordinary map[K]V (sequential refinement,
   C04 item 1). The exported interface (WF, WF_empty, Load_spec, Store_spec,
   LoadOrStore_spec, LoadAndDelete_spec, live_pairs, Range_spec,
   abs_map_lookup) is used by SeqHist.v, Props/C04.v and the C03 proofs. *)
From Typ Require Import SyncMap.Seq.
Local Open Scope Z_scope.

(* ---- the invariant ---- *)
(* read.m is injective and in bounds; dirty = nil iff not amended; with
   dirty = nil no entry of read.m is expunged; with dirty = d: d is injective,
   its entries are in bounds, not expunged, hold a value when their key is not
   in read.m, and an entry of d that also occurs in read.m occurs there under
   the same key; every entry of read.m is in d under the same key with the same
   id unless it is expunged, in which case the key is absent from d.
   (Not: "amended iff d has a key outside read.m": LoadAndDelete can remove the
   only such key and leave amended set.) *)
Definition WF (s : mstate) : Prop :=
  (forall k1 k2 e, read_m s !! k1 = Some e -> read_m s !! k2 = Some e -> k1 = k2) /\
  (forall k e, read_m s !! k = Some e -> (e < next_e s)%nat) /\
  match dirty s with
  | None => amended s = false /\ forall k e, read_m s !! k = Some e -> get_ent s e <> PExpunged
  | Some d =>
      amended s = true /\
      (forall k1 k2 e, d !! k1 = Some e -> d !! k2 = Some e -> k1 = k2) /\
      (forall k e, d !! k = Some e ->
         (e < next_e s)%nat /\ get_ent s e <> PExpunged /\
         (read_m s !! k = None -> exists v, get_ent s e = PVal v) /\
         (forall k', read_m s !! k' = Some e -> k' = k)) /\
      (forall k e, read_m s !! k = Some e ->
         d !! k = if decide (get_ent s e = PExpunged) then None else Some e)
  end.

Lemma WF_empty : WF empty_mstate.
Proof.
  unfold WF, empty_mstate; simpl. split; [|split; [|split]]; try reflexivity;
    intros *; rewrite lookup_empty; discriminate.
Qed.

Ltac wf_some H Ed :=
  let Hri := fresh "Hri" in let Hrb := fresh "Hrb" in let Hd := fresh "Hd" in
  let Ham := fresh "Ham" in let Hdi := fresh "Hdi" in let HB := fresh "HB" in let HC := fresh "HC" in
  destruct H as (Hri & Hrb & Hd); rewrite Ed in Hd; destruct Hd as (Ham & Hdi & HB & HC).
Ltac wf_none H Ed :=
  let Hri := fresh "Hri" in let Hrb := fresh "Hrb" in let Hd := fresh "Hd" in
  let Ham := fresh "Ham" in let HE := fresh "HE" in
  destruct H as (Hri & Hrb & Hd); rewrite Ed in Hd; destruct Hd as (Ham & HE).

(* ---- basic facts ---- *)
Lemma get_ent_set_ent s e p e0 :
  get_ent (set_ent s e p) e0 = if decide (e0 = e) then p else get_ent s e0.
Proof.
  unfold get_ent, set_ent; simpl. destruct (decide (e0 = e)) as [->|N].
  - rewrite lookup_insert. reflexivity.
  - rewrite lookup_insert_ne by congruence. reflexivity.
Qed.

Lemma e_load_ext s s' e : ents s' = ents s -> e_load s' e = e_load s e.
Proof. unfold e_load, get_ent. intros ->. reflexivity. Qed.

Lemma abs_lookup_ext s s' k :
  ents s' = ents s -> read_m s' = read_m s -> amended s' = amended s -> dirty s' = dirty s ->
  abs_lookup s' k = abs_lookup s k.
Proof.
  unfold abs_lookup, reach, dirty_lookup, e_load, get_ent. intros -> -> -> ->. reflexivity.
Qed.

Lemma WF_ext s s' :
  ents s' = ents s -> next_e s' = next_e s -> read_m s' = read_m s -> amended s' = amended s ->
  dirty s' = dirty s -> WF s -> WF s'.
Proof. unfold WF, get_ent. intros -> -> -> -> ->. exact (fun H => H). Qed.

(* the abstraction, read through the dirty map when there is one / through read.m when not *)
Lemma abs_lookup_dirty s d k : WF s -> dirty s = Some d ->
  abs_lookup s k = match d !! k with Some e => e_load s e | None => None end.
Proof.
  intros H Ed. wf_some H Ed. unfold abs_lookup, reach, dirty_lookup. rewrite Ed, Ham.
  destruct (read_m s !! k) as [e|] eqn:R; [|reflexivity].
  rewrite (HC _ _ R). destruct (decide (get_ent s e = PExpunged)) as [X|X]; [|reflexivity].
  unfold e_load. rewrite X. reflexivity.
Qed.

Lemma abs_lookup_clean s k : amended s = false ->
  abs_lookup s k = match read_m s !! k with Some e => e_load s e | None => None end.
Proof. intros Ham. unfold abs_lookup, reach. rewrite Ham. destruct (read_m s !! k); reflexivity. Qed.

Lemma reach_bound s k e : WF s -> reach s k = Some e -> (e < next_e s)%nat.
Proof.
  intros H. unfold reach, dirty_lookup. destruct (read_m s !! k) as [e'|] eqn:R.
  - intros [= ->]. destruct H as (_ & Hrb & _). eauto.
  - destruct (amended s); [|discriminate]. destruct (dirty s) as [d|] eqn:Ed; [|discriminate].
    intros Hk. wf_some H Ed. apply (HB _ _ Hk).
Qed.

Lemma reach_inj s k1 k2 e : WF s -> reach s k1 = Some e -> reach s k2 = Some e -> k1 = k2.
Proof.
  intros H. unfold reach, dirty_lookup.
  destruct (read_m s !! k1) as [e1|] eqn:R1; destruct (read_m s !! k2) as [e2|] eqn:R2.
  - intros [= ->] [= ->]. destruct H as (Hri & _). eauto.
  - intros [= ->]. destruct (amended s); [|discriminate]. destruct (dirty s) as [d|] eqn:Ed; [|discriminate].
    intros Hk. wf_some H Ed. destruct (HB _ _ Hk) as (_ & _ & _ & Hx). exact (Hx _ R1).
  - destruct (amended s); [|discriminate]. destruct (dirty s) as [d|] eqn:Ed; [|discriminate].
    intros Hk [= ->]. wf_some H Ed. destruct (HB _ _ Hk) as (_ & _ & _ & Hx). symmetry. exact (Hx _ R2).
  - destruct (amended s); [|discriminate]. destruct (dirty s) as [d|] eqn:Ed; [|discriminate].
    intros Hk1 Hk2. wf_some H Ed. eauto.
Qed.

Lemma reach_not_expunged_val s k e : WF s -> reach s k = Some e -> read_m s !! k = None ->
  exists v, get_ent s e = PVal v.
Proof.
  intros H. unfold reach, dirty_lookup. intros Hr R. rewrite R in Hr.
  destruct (amended s); [|discriminate]. destruct (dirty s) as [d|] eqn:Ed; [|discriminate].
  wf_some H Ed. destruct (HB _ _ Hr) as (_ & _ & Hx & _). eauto.
Qed.

(* ---- writing an entry ---- *)
Local Arguments get_ent : simpl never.
Local Arguments e_load : simpl never.

Definition ptr_val (p : ptr) : option Z := match p with PVal v => Some v | _ => None end.

Lemma e_load_set_ent s e p e0 :
  e_load (set_ent s e p) e0 = if decide (e0 = e) then ptr_val p else e_load s e0.
Proof. unfold e_load. rewrite get_ent_set_ent. destruct (decide (e0 = e)); reflexivity. Qed.

Lemma reach_set_ent s e p k : reach (set_ent s e p) k = reach s k.
Proof. reflexivity. Qed.

Lemma abs_lookup_set_ent s e p k k' : WF s -> reach s k = Some e ->
  abs_lookup (set_ent s e p) k' = if decide (k' = k) then ptr_val p else abs_lookup s k'.
Proof.
  intros H Hr. unfold abs_lookup. rewrite reach_set_ent.
  destruct (decide (k' = k)) as [->|N].
  - rewrite Hr, e_load_set_ent. rewrite decide_True; auto.
  - destruct (reach s k') as [e'|] eqn:R'; [|reflexivity].
    rewrite e_load_set_ent. rewrite decide_False; auto.
    intros ->. apply N. eapply reach_inj; eauto.
Qed.

(* overwriting a referenced, non-expunged entry with a non-expunged pointer *)
Lemma WF_set_ent s e p : WF s -> get_ent s e <> PExpunged -> p <> PExpunged ->
  ((exists v, p = PVal v) \/ forall d k, dirty s = Some d -> d !! k = Some e -> read_m s !! k <> None) ->
  WF (set_ent s e p).
Proof.
  intros H Hne Hp Hv.
  assert (Hx : forall e0, get_ent (set_ent s e p) e0 = PExpunged <-> get_ent s e0 = PExpunged).
  { intros e0. rewrite get_ent_set_ent. destruct (decide (e0 = e)) as [->|]; [|tauto].
    split; intros; congruence. }
  destruct (dirty s) as [d|] eqn:Ed.
  - wf_some H Ed. unfold WF. simpl. rewrite Ed.
    split; [exact Hri|]. split; [exact Hrb|]. split; [exact Ham|]. split; [exact Hdi|]. split.
    + intros k0 e0 Hk. destruct (HB _ _ Hk) as (B1 & B2 & B3 & B4).
      split; [exact B1|]. split; [rewrite Hx; exact B2|]. split; [|exact B4].
      intros R. rewrite get_ent_set_ent. destruct (decide (e0 = e)) as [->|]; [|auto].
      destruct Hv as [Hv|Hv]; [exact Hv|]. exfalso. eapply Hv; eauto.
    + intros k0 e0 R. rewrite (decide_ext _ _ _ _ (Hx e0)). auto.
  - wf_none H Ed. unfold WF. simpl. rewrite Ed.
    split; [exact Hri|]. split; [exact Hrb|]. split; [exact Ham|].
    intros k0 e0 R. rewrite Hx. eauto.
Qed.

(* writing an entry nobody references *)
Definition unref (s : mstate) (e : nat) : Prop :=
  (forall k, read_m s !! k <> Some e) /\ (forall d k, dirty s = Some d -> d !! k <> Some e).

Lemma unref_reach s e k : unref s e -> reach s k <> Some e.
Proof.
  intros [U1 U2]. unfold reach, dirty_lookup. destruct (read_m s !! k) eqn:R.
  - rewrite <- R. apply U1.
  - destruct (amended s); [|discriminate]. destruct (dirty s) eqn:Ed; [|discriminate]. eapply U2; eauto.
Qed.

Lemma abs_lookup_set_ent_unref s e p k : unref s e -> abs_lookup (set_ent s e p) k = abs_lookup s k.
Proof.
  intros U. unfold abs_lookup. rewrite reach_set_ent. destruct (reach s k) as [e'|] eqn:R; [|reflexivity].
  rewrite e_load_set_ent, decide_False; auto. intros ->. eapply unref_reach; eauto.
Qed.

Lemma WF_set_ent_unref s e p : WF s -> unref s e -> WF (set_ent s e p).
Proof.
  intros H [U1 U2].
  destruct (dirty s) as [d|] eqn:Ed.
  - wf_some H Ed. unfold WF. simpl. rewrite Ed.
    assert (Hd : forall k e0, d !! k = Some e0 -> get_ent (set_ent s e p) e0 = get_ent s e0).
    { intros k e0 Hk. rewrite get_ent_set_ent, decide_False; auto. intros ->. eapply U2; eauto. }
    assert (Hr : forall k e0, read_m s !! k = Some e0 -> get_ent (set_ent s e p) e0 = get_ent s e0).
    { intros k e0 Hk. rewrite get_ent_set_ent, decide_False; auto. intros ->. eapply U1; eauto. }
    split; [exact Hri|]. split; [exact Hrb|]. split; [exact Ham|]. split; [exact Hdi|]. split.
    + intros k0 e0 Hk. rewrite (Hd _ _ Hk). apply (HB _ _ Hk).
    + intros k0 e0 R. rewrite (Hr _ _ R). auto.
  - wf_none H Ed. unfold WF. simpl. rewrite Ed.
    split; [exact Hri|]. split; [exact Hrb|]. split; [exact Ham|].
    intros k0 e0 R. rewrite get_ent_set_ent, decide_False; eauto. intros ->. eapply U1; eauto.
Qed.

(* ---- promotion of the dirty map (missLocked, Range) ---- *)
Definition promote (s : mstate) (d : gmap Z nat) : mstate := MState (ents s) (next_e s) d false None 0.

Lemma promote_spec s d : WF s -> dirty s = Some d ->
  WF (promote s d) /\ forall k, abs_lookup (promote s d) k = abs_lookup s k.
Proof.
  intros H Ed. split.
  - wf_some H Ed. unfold WF, promote; simpl. repeat split; auto.
    + intros k e Hk. apply (HB _ _ Hk).
    + intros k e Hk. apply (HB _ _ Hk).
  - intros k. rewrite (abs_lookup_dirty s d k H Ed). rewrite abs_lookup_clean by reflexivity.
    simpl. destruct (d !! k); reflexivity.
Qed.

Lemma unref_promote s d e : dirty s = Some d -> unref s e -> unref (promote s d) e.
Proof.
  intros Ed [U1 U2]. split; simpl.
  - intros k. eapply U2; eauto.
  - intros d' k [=].
Qed.

Lemma missLocked_spec s : WF s -> amended s = true ->
  WF (missLocked s) /\ (forall k, abs_lookup (missLocked s) k = abs_lookup s k) /\
  ents (missLocked s) = ents s /\ (forall e, unref s e -> unref (missLocked s) e).
Proof.
  intros H Ham. destruct (dirty s) as [d|] eqn:Ed.
  2:{ wf_none H Ed. congruence. }
  unfold missLocked. destruct (misses s + 1 <? dirty_len s).
  - split; [|split; [|split]].
    + eapply WF_ext; [..|exact H]; reflexivity.
    + intros k. apply abs_lookup_ext; reflexivity.
    + reflexivity.
    + intros e U. exact U.
  - rewrite Ed. simpl. change (MState (ents s) (next_e s) d false None 0) with (promote s d).
    destruct (promote_spec s d H Ed) as [W A]. split; [|split; [|split]]; auto.
    intros e U. apply unref_promote; auto.
Qed.

(* ---- unexpungeLocked + "m.dirty[key] = e" ---- *)
Lemma unexpunge_spec s k e : WF s -> read_m s !! k = Some e ->
  exists s1, unexpunge s k e = Ok s1 /\ WF s1 /\ read_m s1 = read_m s /\
    get_ent s1 e = (match get_ent s e with PExpunged => PNil | p => p end) /\
    (forall k', abs_lookup s1 k' = abs_lookup s k').
Proof.
  intros H R. unfold unexpunge. destruct (get_ent s e) eqn:G.
  - exists s. rewrite G. auto.
  - destruct (dirty s) as [d|] eqn:Ed.
    2:{ wf_none H Ed. exfalso. eapply HE; eauto. }
    unfold dirty_insert. simpl. rewrite Ed. eexists. split; [reflexivity|].
    set (s1 := MState _ _ _ _ _ _).
    assert (G1 : forall e0, get_ent s1 e0 = if decide (e0 = e) then PNil else get_ent s e0).
    { intros e0. apply (get_ent_set_ent s e PNil e0). }
    assert (G1e : get_ent s1 e = PNil) by (rewrite G1, decide_True; reflexivity).
    assert (G1n : forall e0, e0 <> e -> get_ent s1 e0 = get_ent s e0)
      by (intros e0 N; rewrite G1, decide_False; auto).
    clear G1.
    assert (W1 : WF s1).
    { wf_some H Ed. unfold WF, s1; simpl. fold s1. split; [exact Hri|]. split; [exact Hrb|].
      split; [exact Ham|]. split; [|split].
      - intros k1 k2 e0. rewrite !lookup_insert_Some.
        intros [[<- <-]|[N1 H1]] [[<- E]|[N2 H2]]; auto.
        + exfalso. destruct (HB _ _ H2) as (_ & X & _). congruence.
        + exfalso. subst e0. destruct (HB _ _ H1) as (_ & X & _). congruence.
        + eauto.
      - intros k0 e0. rewrite lookup_insert_Some. intros [[<- <-]|[N Hk]].
        + split; [eauto|]. split; [rewrite G1e; discriminate|].
          split; [intros R'; congruence|]. intros k' R'. eauto.
        + destruct (HB _ _ Hk) as (B1 & B2 & B3 & B4).
          assert (e0 <> e) by congruence.
          rewrite G1n by assumption. auto.
      - intros k0 e0 R0. destruct (decide (k0 = k)) as [->|N].
        + assert (e0 = e) by congruence. subst e0. rewrite lookup_insert, G1e.
          rewrite decide_False by discriminate. reflexivity.
        + assert (e0 <> e) by (intros ->; eauto).
          rewrite lookup_insert_ne by congruence. rewrite G1n by assumption. auto. }
    split; [exact W1|]. split; [reflexivity|]. split; [exact G1e|].
    intros k'. rewrite (abs_lookup_dirty s1 _ k' W1 eq_refl), (abs_lookup_dirty s d k' H Ed).
    wf_some H Ed. destruct (decide (k' = k)) as [->|N].
    + rewrite lookup_insert. rewrite (HC _ _ R), decide_True by assumption.
      unfold e_load. rewrite G1e; reflexivity.
    + rewrite lookup_insert_ne by congruence. destruct (d !! k') as [e0|] eqn:Hk; [|reflexivity].
      destruct (HB _ _ Hk) as (_ & B2 & _). unfold e_load. rewrite G1n by congruence. reflexivity.
  - exists s. rewrite G. auto.
Qed.

(* ---- dirtyLocked: characterisation of the fold over map_to_list read.m ---- *)
Definition getp (es : gmap nat ptr) (e : nat) : ptr := default PNil (es !! e).

Lemma getp_insert es e p e0 : getp (<[e := p]> es) e0 = if decide (e0 = e) then p else getp es e0.
Proof.
  unfold getp. destruct (decide (e0 = e)) as [->|N].
  - rewrite lookup_insert. reflexivity.
  - rewrite lookup_insert_ne by congruence. reflexivity.
Qed.

Lemma fold_dirtyLocked l : base.NoDup (map fst l) -> forall es d,
  let r := fold_left dirtyLocked_body l (es, d) in
  (forall e0, e0 ∈ map snd l -> getp es e0 = PNil -> getp r.1 e0 = PExpunged) /\
  (forall e0, e0 ∉ map snd l \/ getp es e0 <> PNil -> getp r.1 e0 = getp es e0) /\
  (forall k0 e0, (k0, e0) ∈ l -> r.2 !! k0 = match getp es e0 with PVal _ => Some e0 | _ => d !! k0 end) /\
  (forall k0, k0 ∉ map fst l -> r.2 !! k0 = d !! k0).
Proof.
  induction l as [|[k1 e1] l IH]; intros ND es d.
  - simpl. split; [|split; [|split]]; auto.
    + intros e0 Hin. apply elem_of_nil in Hin. contradiction.
    + intros k0 e0 Hin. apply elem_of_nil in Hin. contradiction.
  - simpl in ND. apply stdpp.list.NoDup_cons in ND as [Hk1 ND].
    assert (Hb : dirtyLocked_body (es, d) (k1, e1) =
                 match getp es e1 with
                 | PNil => (<[e1:=PExpunged]> es, d) | PExpunged => (es, d) | PVal _ => (es, <[k1:=e1]> d)
                 end) by reflexivity.
    cbn [fold_left]. rewrite Hb. clear Hb.
    destruct (getp es e1) as [| |v1] eqn:G1.
    + (* nil -> expunged *)
      specialize (IH ND (<[e1:=PExpunged]> es) d). cbv zeta in IH |- *.
      destruct IH as (I1 & I2 & I3 & I4).
      set (r := fold_left dirtyLocked_body l (<[e1:=PExpunged]> es, d)) in *.
      split; [|split; [|split]].
      * intros e0 Hin G0. destruct (decide (e0 = e1)) as [->|N].
        -- rewrite I2; [|right]; rewrite getp_insert, decide_True by reflexivity; [reflexivity|discriminate].
        -- simpl in Hin. apply elem_of_cons in Hin as [?|Hin]; [contradiction|].
           apply I1; [exact Hin|]. rewrite getp_insert, decide_False by assumption. exact G0.
      * intros e0 Hor. assert (N : e0 <> e1).
        { intros ->. destruct Hor as [Hn|Hn]; [|congruence]. apply Hn. simpl. apply elem_of_cons. auto. }
        rewrite I2.
        -- rewrite getp_insert, decide_False by assumption. reflexivity.
        -- rewrite getp_insert, decide_False by assumption. destruct Hor as [Hn|Hn]; [left|right; exact Hn].
           intros Hin. apply Hn. simpl. apply elem_of_cons. auto.
      * intros k0 e0 Hin. apply elem_of_cons in Hin as [[= -> ->]|Hin].
        -- rewrite I4 by exact Hk1. rewrite G1. reflexivity.
        -- rewrite (I3 _ _ Hin). rewrite getp_insert. destruct (decide (e0 = e1)) as [->|N]; [|reflexivity].
           rewrite G1. reflexivity.
      * intros k0 Hn. simpl in Hn. apply not_elem_of_cons in Hn as [_ Hn]. auto.
    + (* already expunged *)
      specialize (IH ND es d). cbv zeta in IH |- *.
      destruct IH as (I1 & I2 & I3 & I4).
      set (r := fold_left dirtyLocked_body l (es, d)) in *.
      split; [|split; [|split]].
      * intros e0 Hin G0. destruct (decide (e0 = e1)) as [->|N]; [congruence|].
        simpl in Hin. apply elem_of_cons in Hin as [?|Hin]; [contradiction|]. auto.
      * intros e0 Hor. destruct (decide (e0 = e1)) as [->|N].
        -- apply I2. right. congruence.
        -- apply I2. destruct Hor as [Hn|Hn]; [left|right; exact Hn].
           intros Hin. apply Hn. simpl. apply elem_of_cons. auto.
      * intros k0 e0 Hin. apply elem_of_cons in Hin as [[= -> ->]|Hin].
        -- rewrite I4 by exact Hk1. rewrite G1. reflexivity.
        -- auto.
      * intros k0 Hn. simpl in Hn. apply not_elem_of_cons in Hn as [_ Hn]. auto.
    + (* value: copied to dirty *)
      specialize (IH ND es (<[k1:=e1]> d)). cbv zeta in IH |- *.
      destruct IH as (I1 & I2 & I3 & I4).
      set (r := fold_left dirtyLocked_body l (es, <[k1:=e1]> d)) in *.
      split; [|split; [|split]].
      * intros e0 Hin G0. destruct (decide (e0 = e1)) as [->|N]; [congruence|].
        simpl in Hin. apply elem_of_cons in Hin as [?|Hin]; [contradiction|]. auto.
      * intros e0 Hor. destruct (decide (e0 = e1)) as [->|N].
        -- apply I2. right. congruence.
        -- apply I2. destruct Hor as [Hn|Hn]; [left|right; exact Hn].
           intros Hin. apply Hn. simpl. apply elem_of_cons. auto.
      * intros k0 e0 Hin. apply elem_of_cons in Hin as [[= -> ->]|Hin].
        -- rewrite I4 by exact Hk1. rewrite G1, lookup_insert. reflexivity.
        -- rewrite (I3 _ _ Hin). assert (k0 <> k1).
           { intros ->. apply Hk1. change (map fst l) with (fst <$> l).
             apply (elem_of_list_fmap_1 fst l (k1, e0)). exact Hin. }
           rewrite lookup_insert_ne by congruence. reflexivity.
      * intros k0 Hn. simpl in Hn. apply not_elem_of_cons in Hn as [N Hn].
        rewrite I4 by exact Hn. rewrite lookup_insert_ne by congruence. reflexivity.
Qed.

(* "if !read.amended { m.dirtyLocked(); m.read.Store(readOnly{m: read.m, amended: true}) }" *)
Definition amend (s : mstate) : mstate :=
  let s' := dirtyLocked s in MState (ents s') (next_e s') (read_m s') true (dirty s') (misses s').

Lemma amend_spec s : WF s -> amended s = false ->
  WF (amend s) /\ amended (amend s) = true /\ read_m (amend s) = read_m s /\
  (forall k, abs_lookup (amend s) k = abs_lookup s k).
Proof.
  intros H Ham. destruct (dirty s) as [d0|] eqn:Ed.
  { wf_some H Ed. congruence. }
  unfold amend, dirtyLocked. rewrite Ed.
  pose proof (fold_dirtyLocked (map_to_list (read_m s)) (NoDup_fst_map_to_list _) (ents s) ∅) as F.
  cbv zeta in F. destruct (fold_left dirtyLocked_body (map_to_list (read_m s)) (ents s, ∅)) as [es d] eqn:EF.
  cbn [fst snd] in F. destruct F as (F1 & F2 & F3 & F4). cbn [ents next_e read_m amended dirty misses].
  set (s1 := MState es (next_e s) (read_m s) true (Some d) (misses s)).
  wf_none H Ed.
  assert (P1 : forall k e, read_m s !! k = Some e -> get_ent s e = PNil -> get_ent s1 e = PExpunged).
  { intros k e R G. apply F1; [|exact G]. change (map snd (map_to_list (read_m s))) with (snd <$> map_to_list (read_m s)).
    apply (elem_of_list_fmap_1 snd _ (k, e)). apply elem_of_map_to_list. exact R. }
  assert (P2 : forall e, get_ent s e <> PNil -> get_ent s1 e = get_ent s e).
  { intros e G. apply F2. right. exact G. }
  assert (P3 : forall k e, read_m s !! k = Some e ->
            d !! k = match get_ent s e with PVal _ => Some e | _ => None end).
  { intros k e R. rewrite (F3 k e) by (apply elem_of_map_to_list; exact R).
    change (getp (ents s) e) with (get_ent s e). rewrite lookup_empty. destruct (get_ent s e); reflexivity. }
  assert (P4 : forall k, read_m s !! k = None -> d !! k = None).
  { intros k R. rewrite F4; [apply lookup_empty|].
    change (map fst (map_to_list (read_m s))) with (fst <$> map_to_list (read_m s)).
    intros Hin. apply elem_of_list_fmap in Hin as ([k' e'] & -> & Hin).
    apply elem_of_map_to_list in Hin. simpl in R. congruence. }
  assert (Dk : forall k e, d !! k = Some e -> read_m s !! k = Some e /\ exists v, get_ent s e = PVal v).
  { intros k e Hk. destruct (read_m s !! k) as [e'|] eqn:R.
    - rewrite (P3 _ _ R) in Hk. destruct (get_ent s e') eqn:G; try discriminate. injection Hk as ->. eauto.
    - rewrite (P4 _ R) in Hk. discriminate. }
  clear F1 F2 F3 F4 EF.
  assert (W1 : WF s1).
  { unfold WF, s1; simpl; fold s1. split; [exact Hri|]. split; [exact Hrb|]. split; [reflexivity|].
    split; [|split].
    - intros k1 k2 e H1 H2. apply Dk in H1 as [H1 _]. apply Dk in H2 as [H2 _]. eauto.
    - intros k e Hk. apply Dk in Hk as [R [v G]]. split; [eauto|].
      assert (G1 : get_ent s1 e = PVal v) by (rewrite P2; congruence).
      split; [congruence|]. split; [congruence|]. intros k' R'. eauto.
    - intros k e R. rewrite (P3 _ _ R). destruct (get_ent s e) eqn:G.
      + rewrite (P1 _ _ R G), decide_True; reflexivity.
      + exfalso. eapply HE; eauto.
      + rewrite P2, G by congruence. rewrite decide_False by discriminate. reflexivity. }
  split; [exact W1|]. split; [reflexivity|]. split; [reflexivity|].
  intros k. rewrite (abs_lookup_dirty s1 d k W1 eq_refl), (abs_lookup_clean s k Ham).
  destruct (read_m s !! k) as [e|] eqn:R.
  - rewrite (P3 _ _ R). unfold e_load. destruct (get_ent s e) eqn:G; try reflexivity.
    rewrite P2, G by congruence. reflexivity.
  - rewrite (P4 _ R). reflexivity.
Qed.

(* "m.dirty[key] = newEntry(value)" for a key that is not in read.m *)
Lemma insert_fresh_spec s d k v : WF s -> dirty s = Some d -> read_m s !! k = None ->
  let s' := MState (<[next_e s := PVal v]> (ents s)) (S (next_e s)) (read_m s) (amended s)
                   (Some (<[k := next_e s]> d)) (misses s) in
  WF s' /\ forall k', abs_lookup s' k' = if decide (k' = k) then Some v else abs_lookup s k'.
Proof.
  intros H Ed R s'.
  assert (Ge : get_ent s' (next_e s) = PVal v).
  { unfold get_ent, s'; simpl. rewrite lookup_insert. reflexivity. }
  assert (Gn : forall e0, e0 <> next_e s -> get_ent s' e0 = get_ent s e0).
  { intros e0 N. unfold get_ent, s'; simpl. rewrite lookup_insert_ne by congruence. reflexivity. }
  assert (W : WF s').
  { wf_some H Ed. unfold WF, s'; simpl; fold s'. split; [exact Hri|].
    split; [intros k0 e0 R0; apply Hrb in R0; lia|]. split; [exact Ham|]. split; [|split].
    - intros k1 k2 e0. rewrite !lookup_insert_Some.
      intros [[<- <-]|[N1 H1]] [[<- E]|[N2 H2]]; auto.
      + exfalso. destruct (HB _ _ H2) as (X & _). lia.
      + exfalso. subst e0. destruct (HB _ _ H1) as (X & _). lia.
      + eauto.
    - intros k0 e0. rewrite lookup_insert_Some. intros [[<- <-]|[N Hk]].
      + split; [lia|]. split; [congruence|]. split; [eauto|].
        intros k' R'. apply Hrb in R'. lia.
      + destruct (HB _ _ Hk) as (B1 & B2 & B3 & B4).
        rewrite Gn by lia. split; [lia|]. auto.
    - intros k0 e0 R0. assert (k0 <> k) by congruence. pose proof (Hrb _ _ R0).
      rewrite lookup_insert_ne by congruence. rewrite Gn by lia. auto. }
  split; [exact W|]. intros k'.
  rewrite (abs_lookup_dirty s' _ k' W eq_refl). destruct (decide (k' = k)) as [->|N].
  - rewrite lookup_insert. unfold e_load. rewrite Ge. reflexivity.
  - rewrite lookup_insert_ne by congruence. rewrite (abs_lookup_dirty s d k' H Ed).
    destruct (d !! k') as [e0|] eqn:Hk; [|reflexivity].
    wf_some H Ed. destruct (HB _ _ Hk) as (B1 & _). unfold e_load. rewrite Gn by lia. reflexivity.
Qed.

Lemma insert_new_spec s k v : WF s -> read_m s !! k = None ->
  exists s', insert_new s k v = Ok s' /\ WF s' /\
    forall k', abs_lookup s' k' = if decide (k' = k) then Some v else abs_lookup s k'.
Proof.
  intros H R. unfold insert_new. destruct (amended s) eqn:Ham.
  - destruct (dirty s) as [d|] eqn:Ed.
    2:{ wf_none H Ed. congruence. }
    unfold new_entry, dirty_insert. cbn [ents next_e read_m amended dirty misses]. rewrite Ed.
    eexists. split; [reflexivity|]. apply insert_fresh_spec; auto.
  - change (MState (ents (dirtyLocked s)) (next_e (dirtyLocked s)) (read_m (dirtyLocked s)) true
                   (dirty (dirtyLocked s)) (misses (dirtyLocked s))) with (amend s).
    destruct (amend_spec s H Ham) as (W1 & Ham1 & R1 & A1).
    destruct (dirty (amend s)) as [d1|] eqn:Ed1.
    2:{ wf_none W1 Ed1. congruence. }
    unfold new_entry, dirty_insert. cbn [ents next_e read_m amended dirty misses]. rewrite Ed1.
    eexists. split; [reflexivity|].
    destruct (insert_fresh_spec (amend s) d1 k v W1 Ed1) as [W2 A2]; [rewrite R1; exact R|].
    split; [exact W2|]. intros k'. rewrite A2, A1. reflexivity.
Qed.

(* ---- "delete(m.dirty, key)" for a key that is not in read.m ---- *)
Lemma dirty_delete_spec s d k : WF s -> dirty s = Some d -> read_m s !! k = None ->
  WF (dirty_delete s k) /\ amended (dirty_delete s k) = amended s /\ ents (dirty_delete s k) = ents s /\
  (forall k', abs_lookup (dirty_delete s k) k' = if decide (k' = k) then None else abs_lookup s k') /\
  (forall e, d !! k = Some e -> unref (dirty_delete s k) e).
Proof.
  intros H Ed R. unfold dirty_delete. rewrite Ed. set (s1 := MState _ _ _ _ _ _).
  assert (W : WF s1).
  { wf_some H Ed. unfold WF, s1; simpl. split; [exact Hri|]. split; [exact Hrb|]. split; [exact Ham|].
    split; [|split].
    - intros k1 k2 e. rewrite !lookup_delete_Some. intros [_ H1] [_ H2]. eauto.
    - intros k0 e. rewrite lookup_delete_Some. intros [_ Hk]. apply (HB _ _ Hk).
    - intros k0 e R0. assert (k <> k0) by congruence. rewrite lookup_delete_ne by assumption.
      apply (HC _ _ R0). }
  split; [exact W|]. split; [reflexivity|]. split; [reflexivity|]. split.
  - intros k'. rewrite (abs_lookup_dirty s1 _ k' W eq_refl). destruct (decide (k' = k)) as [->|N].
    + rewrite lookup_delete. reflexivity.
    + rewrite lookup_delete_ne by congruence. rewrite (abs_lookup_dirty s d k' H Ed). reflexivity.
  - intros e Hk. wf_some H Ed. destruct (HB _ _ Hk) as (_ & _ & _ & B4). split.
    + intros k' R'. change (read_m s !! k' = Some e) in R'. rewrite (B4 _ R') in R'. congruence.
    + intros d' k' Ed'. change (Some (delete k d) = Some d') in Ed'. injection Ed' as <-. rewrite lookup_delete_Some. intros [N Hk'].
      apply N. eauto.
Qed.

(* ================= the methods ================= *)

Lemma Load_spec s k : WF s ->
  WF (Load s k).1 /\ (Load s k).2 = abs_lookup s k /\ forall k', abs_lookup (Load s k).1 k' = abs_lookup s k'.
Proof.
  intros H. unfold Load. destruct (read_m s !! k) as [e|] eqn:R.
  - simpl. split; [exact H|]. split; [|reflexivity]. unfold abs_lookup, reach. rewrite R. reflexivity.
  - destruct (amended s) eqn:Ham.
    + destruct (missLocked_spec s H Ham) as (W & A & E & _). cbv zeta.
      destruct (dirty_lookup s k) as [e|] eqn:D; simpl; (split; [exact W|]; split; [|exact A]).
      * unfold abs_lookup, reach. rewrite R, Ham, D. apply e_load_ext. exact E.
      * unfold abs_lookup, reach. rewrite R, Ham, D. reflexivity.
    + simpl. split; [exact H|]. split; [|reflexivity]. unfold abs_lookup, reach. rewrite R, Ham. reflexivity.
Qed.

Lemma dirty_lookup_Some s k e : WF s -> dirty_lookup s k = Some e ->
  amended s = true /\ get_ent s e <> PExpunged /\ (read_m s !! k = None -> exists v, get_ent s e = PVal v).
Proof.
  intros H. unfold dirty_lookup. destruct (dirty s) as [d|] eqn:Ed; [|discriminate].
  intros Hk. wf_some H Ed. destruct (HB _ _ Hk) as (_ & B2 & B3 & _). auto.
Qed.

Lemma Store_spec s k v : WF s -> exists s', Store s k v = Ok s' /\ WF s' /\
  forall k', abs_lookup s' k' = if decide (k' = k) then Some v else abs_lookup s k'.
Proof.
  intros H. unfold Store. destruct (read_m s !! k) as [e|] eqn:R.
  - assert (Hr : reach s k = Some e) by (unfold reach; rewrite R; reflexivity).
    destruct (get_ent s e) eqn:G.
    + eexists. split; [reflexivity|]. split.
      * apply WF_set_ent; [exact H|congruence|discriminate|left; eauto].
      * intros k'. apply (abs_lookup_set_ent s e (PVal v) k k' H Hr).
    + destruct (unexpunge_spec s k e H R) as (s1 & U & W1 & R1 & G1 & A1). rewrite U. simpl.
      rewrite G in G1. eexists. split; [reflexivity|]. split.
      * apply WF_set_ent; [exact W1|congruence|discriminate|left; eauto].
      * intros k'. rewrite (abs_lookup_set_ent s1 e (PVal v) k k' W1).
        -- rewrite A1. reflexivity.
        -- unfold reach. rewrite R1, R. reflexivity.
    + eexists. split; [reflexivity|]. split.
      * apply WF_set_ent; [exact H|congruence|discriminate|left; eauto].
      * intros k'. apply (abs_lookup_set_ent s e (PVal v) k k' H Hr).
  - destruct (dirty_lookup s k) as [e|] eqn:D.
    + destruct (dirty_lookup_Some s k e H D) as (Ham & G & _).
      assert (Hr : reach s k = Some e) by (unfold reach; rewrite R, Ham; exact D).
      eexists. split; [reflexivity|]. split.
      * apply WF_set_ent; [exact H|exact G|discriminate|left; eauto].
      * intros k'. apply (abs_lookup_set_ent s e (PVal v) k k' H Hr).
    + apply insert_new_spec; assumption.
Qed.

Lemma LoadOrStore_spec s k v : WF s -> exists s' a l, LoadOrStore s k v = Ok (s', a, l) /\ WF s' /\
  match abs_lookup s k with
  | Some x => a = x /\ l = true /\ forall k', abs_lookup s' k' = abs_lookup s k'
  | None => a = v /\ l = false /\ forall k', abs_lookup s' k' = if decide (k' = k) then Some v else abs_lookup s k'
  end.
Proof.
  intros H. unfold LoadOrStore. destruct (read_m s !! k) as [e|] eqn:R.
  - assert (Hr : reach s k = Some e) by (unfold reach; rewrite R; reflexivity).
    assert (Ha : abs_lookup s k = e_load s e) by (unfold abs_lookup; rewrite Hr; reflexivity).
    rewrite Ha. unfold tryLoadOrStore. unfold e_load. destruct (get_ent s e) eqn:G.
    + do 3 eexists. split; [reflexivity|]. split.
      * apply WF_set_ent; [exact H|congruence|discriminate|left; eauto].
      * split; [reflexivity|]. split; [reflexivity|].
        intros k'. apply (abs_lookup_set_ent s e (PVal v) k k' H Hr).
    + destruct (unexpunge_spec s k e H R) as (s1 & U & W1 & R1 & G1 & A1). rewrite U. simpl.
      rewrite G in G1. rewrite G1.
      do 3 eexists. split; [reflexivity|]. split.
      * apply WF_set_ent; [exact W1|congruence|discriminate|left; eauto].
      * split; [reflexivity|]. split; [reflexivity|].
        intros k'. rewrite (abs_lookup_set_ent s1 e (PVal v) k k' W1).
        -- rewrite A1. reflexivity.
        -- unfold reach. rewrite R1, R. reflexivity.
    + do 3 eexists. split; [reflexivity|]. split; [exact H|]. auto.
  - destruct (dirty_lookup s k) as [e|] eqn:D.
    + destruct (dirty_lookup_Some s k e H D) as (Ham & _ & [x G]); [exact R|].
      assert (Ha : abs_lookup s k = Some x).
      { unfold abs_lookup, reach. rewrite R, Ham, D. unfold e_load. rewrite G. reflexivity. }
      rewrite Ha. unfold tryLoadOrStore. rewrite G.
      destruct (missLocked_spec s H Ham) as (W & A & _).
      do 3 eexists. split; [reflexivity|]. split; [exact W|]. auto.
    + assert (Ha : abs_lookup s k = None).
      { unfold abs_lookup, reach. rewrite R. destruct (amended s); [rewrite D|]; reflexivity. }
      rewrite Ha. destruct (insert_new_spec s k v H R) as (s1 & I & W1 & A1). rewrite I. simpl.
      do 3 eexists. split; [reflexivity|]. split; [exact W1|]. auto.
Qed.

Lemma LoadAndDelete_spec s k : WF s ->
  WF (LoadAndDelete s k).1 /\ (LoadAndDelete s k).2 = abs_lookup s k /\
  forall k', abs_lookup (LoadAndDelete s k).1 k' = if decide (k' = k) then None else abs_lookup s k'.
Proof.
  intros H.
  assert (Triv : abs_lookup s k = None ->
    WF s /\ None = abs_lookup s k /\ forall k', abs_lookup s k' = if decide (k' = k) then None else abs_lookup s k').
  { intros Ha. split; [exact H|]. split; [congruence|]. intros k'. destruct (decide (k' = k)); congruence. }
  unfold LoadAndDelete. destruct (read_m s !! k) as [e|] eqn:R.
  - assert (Hr : reach s k = Some e) by (unfold reach; rewrite R; reflexivity).
    assert (Ha : abs_lookup s k = e_load s e) by (unfold abs_lookup; rewrite Hr; reflexivity).
    unfold e_delete. unfold e_load in Ha. destruct (get_ent s e) eqn:G; simpl; auto.
    split; [|split; [congruence|]].
    + apply WF_set_ent; [exact H|congruence|discriminate|right].
      intros d k0 Ed Hk. wf_some H Ed. destruct (HB _ _ Hk) as (_ & _ & _ & B4).
      rewrite <- (B4 _ R). congruence.
    + intros k'. apply (abs_lookup_set_ent s e PNil k k' H Hr).
  - destruct (amended s) eqn:Ham.
    2:{ simpl. apply Triv. unfold abs_lookup, reach. rewrite R, Ham. reflexivity. }
    destruct (dirty s) as [d|] eqn:Ed.
    2:{ wf_none H Ed. congruence. }
    cbv zeta. destruct (dirty_delete_spec s d k H Ed R) as (W1 & Ham1 & E1 & A1 & U1).
    rewrite Ham in Ham1.
    destruct (missLocked_spec _ W1 Ham1) as (W2 & A2 & E2 & U2).
    set (s2 := missLocked (dirty_delete s k)) in *.
    assert (A12 : forall k', abs_lookup s2 k' = if decide (k' = k) then None else abs_lookup s k').
    { intros k'. rewrite A2. apply A1. }
    assert (Ha : abs_lookup s k = match dirty_lookup s k with Some e => e_load s e | None => None end).
    { unfold abs_lookup, reach. rewrite R, Ham. reflexivity. }
    destruct (dirty_lookup s k) as [e|] eqn:D.
    + unfold e_delete. assert (G2 : get_ent s2 e = get_ent s e).
      { unfold get_ent. rewrite E2, E1. reflexivity. }
      rewrite G2. unfold e_load in Ha.
      assert (U : unref s2 e). { apply U2, U1. unfold dirty_lookup in D. rewrite Ed in D. exact D. }
      destruct (get_ent s e) eqn:G; simpl; auto.
      split; [apply WF_set_ent_unref; assumption|]. split; [congruence|].
      intros k'. rewrite abs_lookup_set_ent_unref by exact U. apply A12.
    + simpl. auto.
Qed.

(* ---- Range ---- *)
Definition live_pairs (s : mstate) (order : list Z) : list (Z * Z) :=
  omap (fun k => match abs_lookup s k with Some v => Some (k, v) | None => None end) order.

Lemma live_pairs_cons s k l :
  live_pairs s (k :: l) = match abs_lookup s k with Some v => (k, v) :: live_pairs s l | None => live_pairs s l end.
Proof. unfold live_pairs. simpl. destruct (abs_lookup s k); reflexivity. Qed.

Lemma live_pairs_ext s s' l : (forall k, abs_lookup s' k = abs_lookup s k) -> live_pairs s' l = live_pairs s l.
Proof.
  intros A. induction l as [|k l IH]; [reflexivity|]. rewrite !live_pairs_cons, A, IH. reflexivity.
Qed.

Lemma range_promotion_spec s : WF s ->
  WF (range_promotion s) /\ amended (range_promotion s) = false /\
  forall k, abs_lookup (range_promotion s) k = abs_lookup s k.
Proof.
  intros H. unfold range_promotion. destruct (amended s) eqn:Ham; [|auto].
  destruct (dirty s) as [d|] eqn:Ed.
  2:{ wf_none H Ed. congruence. }
  simpl. destruct (promote_spec s d H Ed) as [W A]. auto.
Qed.

Lemma Range_loop_spec s : amended s = false -> forall order stop,
  Range_loop s order stop =
  match stop with None => live_pairs s order | Some n => firstn n (live_pairs s order) end.
Proof.
  intros Ham. induction order as [|k order IH]; intros stop.
  - destruct stop as [[|n]|]; reflexivity.
  - cbn [Range_loop]. rewrite live_pairs_cons, (abs_lookup_clean s k Ham).
    destruct (read_m s !! k) as [e|]; [|apply IH].
    destruct (e_load s e) as [v|]; [|apply IH].
    destruct stop as [[|[|n]]|].
    + reflexivity.
    + reflexivity.
    + rewrite IH. reflexivity.
    + rewrite IH. reflexivity.
Qed.

Lemma Range_spec s order stop : WF s -> let s' := (Range s order stop).1 in
  WF s' /\ (forall k', abs_lookup s' k' = abs_lookup s k') /\
  (forall k v, abs_lookup s k = Some v -> is_Some (read_m s' !! k)) /\
  (Range s order stop).2 = match stop with None => live_pairs s order | Some n => firstn n (live_pairs s order) end.
Proof.
  intros H. unfold Range. cbn [fst snd]. destruct (range_promotion_spec s H) as (W & Ham & A).
  split; [exact W|]. split; [exact A|]. split.
  - intros k v Hk. rewrite <- A, (abs_lookup_clean _ k Ham) in Hk.
    destruct (read_m (range_promotion s) !! k); [eauto|discriminate].
  - rewrite (Range_loop_spec _ Ham). rewrite (live_pairs_ext s _ order A). reflexivity.
Qed.

(* ---- abs_map is the finite map of abs_lookup ---- *)
Lemma list_to_map_omap (g : Z -> option Z) l k :
  (list_to_map (omap (fun k => match g k with Some v => Some (k, v) | None => None end) l) : gmap Z Z) !! k
  = if decide (k ∈ l) then g k else None.
Proof.
  induction l as [|a l IH].
  - destruct (decide (k ∈ [])) as [Hin|Hin]; [apply elem_of_nil in Hin; contradiction|]. apply lookup_empty.
  - cbn [omap list_omap]. destruct (g a) as [v|] eqn:Ga.
    + rewrite list_to_map_cons. destruct (decide (k = a)) as [->|N].
      * rewrite lookup_insert. destruct (decide (a ∈ a :: l)) as [Hin|Hin]; [congruence|].
        exfalso. apply Hin, elem_of_cons. auto.
      * rewrite lookup_insert_ne by congruence. rewrite IH.
        destruct (decide (k ∈ l)) as [Hin|Hin]; destruct (decide (k ∈ a :: l)) as [Hin'|Hin'];
          try reflexivity; exfalso.
        -- apply Hin', elem_of_cons. auto.
        -- apply elem_of_cons in Hin' as [?|?]; auto.
    + rewrite IH.
      destruct (decide (k ∈ l)) as [Hin|Hin]; destruct (decide (k ∈ a :: l)) as [Hin'|Hin'];
          try reflexivity.
      * exfalso. apply Hin', elem_of_cons. auto.
      * apply elem_of_cons in Hin' as [->|?]; [congruence|contradiction].
Qed.

Lemma abs_lookup_all_keys s k v : abs_lookup s k = Some v -> k ∈ all_keys s.
Proof.
  unfold abs_lookup, reach, dirty_lookup, all_keys. intros A. apply elem_of_app.
  destruct (read_m s !! k) as [e|] eqn:R.
  - left. change (map fst (map_to_list (read_m s))) with (fst <$> map_to_list (read_m s)).
    apply (elem_of_list_fmap_1 fst _ (k, e)). apply elem_of_map_to_list. exact R.
  - right. destruct (amended s); [|discriminate]. destruct (dirty s) as [d|]; [|discriminate].
    destruct (d !! k) as [e|] eqn:Hk; [|discriminate].
    change (map fst (map_to_list d)) with (fst <$> map_to_list d).
    apply (elem_of_list_fmap_1 fst _ (k, e)). apply elem_of_map_to_list. exact Hk.
Qed.

Lemma abs_map_lookup s k : WF s -> abs_map s !! k = abs_lookup s k.
Proof.
  intros _. unfold abs_map. rewrite list_to_map_omap. destruct (decide (k ∈ all_keys s)) as [|N]; [reflexivity|].
  destruct (abs_lookup s k) as [v|] eqn:A; [|reflexivity]. exfalso. apply N. eapply abs_lookup_all_keys; eauto.
Qed.

(* ---- Range, stated for an iteration order without repetitions (Go's range over read.m visits
   each key once): f is called at most once per key, only with the value the key holds, and a
   Range that is not stopped visits every present key. ---- *)
Lemma elem_of_live_pairs s l k v : (k, v) ∈ live_pairs s l <-> k ∈ l /\ abs_lookup s k = Some v.
Proof.
  unfold live_pairs. rewrite elem_of_list_omap. split.
  - intros (x & Hin & Hx). destruct (abs_lookup s x) as [v'|] eqn:A; [|discriminate].
    injection Hx as -> ->. auto.
  - intros [Hin A]. exists k. rewrite A. auto.
Qed.

Lemma NoDup_live_pairs s l : base.NoDup l -> base.NoDup (map fst (live_pairs s l)).
Proof.
  induction l as [|k l IH]; intros ND.
  - constructor.
  - apply stdpp.list.NoDup_cons in ND as [Hk ND]. rewrite live_pairs_cons.
    destruct (abs_lookup s k) as [v|]; [|auto]. cbn [map fst]. apply stdpp.list.NoDup_cons. split; [|auto].
    intros Hin. change (map fst (live_pairs s l)) with (fst <$> live_pairs s l) in Hin.
    apply elem_of_list_fmap in Hin as ([k' v'] & -> & Hin). apply elem_of_live_pairs in Hin as [Hin _].
    exact (Hk Hin).
Qed.

Lemma elem_of_firstn {A} n (l : list A) x : x ∈ firstn n l -> x ∈ l.
Proof.
  revert n. induction l as [|a l IH]; intros [|n]; simpl; intros Hin;
    try (apply elem_of_nil in Hin; contradiction).
  apply elem_of_cons in Hin as [->|Hin]; apply elem_of_cons; eauto.
Qed.

Lemma NoDup_firstn {A} n (l : list A) : base.NoDup l -> base.NoDup (firstn n l).
Proof.
  revert n. induction l as [|a l IH]; intros [|n] ND; simpl; try constructor.
  - apply stdpp.list.NoDup_cons in ND as [Ha ND]. intros Hin. apply Ha. eapply elem_of_firstn; eauto.
  - apply stdpp.list.NoDup_cons in ND as [Ha ND]. auto.
Qed.

Lemma Range_sound s order stop : WF s -> base.NoDup order ->
  base.NoDup (map fst (Range s order stop).2) /\
  forall k v, (k, v) ∈ (Range s order stop).2 -> k ∈ order /\ abs_lookup s k = Some v.
Proof.
  intros H ND. destruct (Range_spec s order stop H) as (_ & _ & _ & ->).
  destruct stop as [n|].
  - split.
    + rewrite <- firstn_map. apply NoDup_firstn, NoDup_live_pairs, ND.
    + intros k v Hin. apply elem_of_firstn in Hin. apply elem_of_live_pairs. exact Hin.
  - split; [apply NoDup_live_pairs, ND|]. intros k v Hin. apply elem_of_live_pairs. exact Hin.
Qed.

Lemma Range_complete s order : WF s ->
  (forall k, is_Some (read_m (Range s order None).1 !! k) -> k ∈ order) ->
  forall k v, abs_lookup s k = Some v -> (k, v) ∈ (Range s order None).2.
Proof.
  intros H Hall k v A. destruct (Range_spec s order None H) as (_ & _ & P & ->).
  apply elem_of_live_pairs. split; [|exact A]. apply Hall. eapply P; eauto.
Qed.

Lemma Delete_spec s k : WF s ->
  WF (Delete s k) /\ forall k', abs_lookup (Delete s k) k' = if decide (k' = k) then None else abs_lookup s k'.
Proof. intros H. destruct (LoadAndDelete_spec s k H) as (W & _ & A). split; assumption. Qed.
