(* Proofs about the sequential model of sync2.Map (SyncMap/Seq.v): the
   structural invariant WF of a quiescent Map, and for every method that it
   preserves WF and acts on the abstraction [abs_lookup] exactly as the
   corresponding operation of an ordinary map[K]V (sequential refinement,
   C04 item 1). The exported interface (WF, WF_empty, Load_spec, Store_spec,
   LoadOrStore_spec, LoadAndDelete_spec, live_pairs, Range_spec,
   abs_map_lookup) is used by SeqHist.v, Props/C04.v and the C03 proofs. *)
From Typ Require Import SyncMap.Seq.
Local Open Scope Z_scope.

(* ---- the invariant ---- *)
(* read.m is injective and in bounds; dirty = nil iff not amended; with
   dirty = nil no entry of read.m is expunged; with dirty = d: d is injective,
   its entries are in bounds, not expunged, hold a value when their key is not
   in read.m, and an entry of d that also occurs in read.m occurs there under
   the same key; every entry of read.m is in d under the same key with the same
   id unless it is expunged, in which case the key is absent from d.
   (Not: "amended iff d has a key outside read.m": LoadAndDelete can remove the
   only such key and leave amended set.) *)
Definition WF (s : mstate) : Prop :=
  (forall k1 k2 e, read_m s !! k1 = Some e -> read_m s !! k2 = Some e -> k1 = k2) /\
  (forall k e, read_m s !! k = Some e -> (e < next_e s)%nat) /\
  match dirty s with
  | None => amended s = false /\ forall k e, read_m s !! k = Some e -> get_ent s e <> PExpunged
  | Some d =>
      amended s = true /\
      (forall k1 k2 e, d !! k1 = Some e -> d !! k2 = Some e -> k1 = k2) /\
      (forall k e, d !! k = Some e ->
         (e < next_e s)%nat /\ get_ent s e <> PExpunged /\
         (read_m s !! k = None -> exists v, get_ent s e = PVal v) /\
         (forall k', read_m s !! k' = Some e -> k' = k)) /\
      (forall k e, read_m s !! k = Some e ->
         d !! k = if decide (get_ent s e = PExpunged) then None else Some e)
  end.

Lemma WF_empty : WF empty_mstate.
Proof.
  unfold WF, empty_mstate; simpl. split; [|split; [|split]]; try reflexivity;
    intros *; rewrite lookup_empty; discriminate.
Qed.

Ltac wf_some H Ed :=
  let Hri := fresh "Hri" in let Hrb := fresh "Hrb" in let Hd := fresh "Hd" in
  let Ham := fresh "Ham" in let Hdi := fresh "Hdi" in let HB := fresh "HB" in let HC := fresh "HC" in
  destruct H as (Hri & Hrb & Hd); rewrite Ed in Hd; destruct Hd as (Ham & Hdi & HB & HC).
Ltac wf_none H Ed :=
  let Hri := fresh "Hri" in let Hrb := fresh "Hrb" in let Hd := fresh "Hd" in
  let Ham := fresh "Ham" in let HE := fresh "HE" in
  destruct H as (Hri & Hrb & Hd); rewrite Ed in Hd; destruct Hd as (Ham & HE).

(* ---- basic facts ---- *)
Lemma get_ent_set_ent s e p e0 :
  get_ent (set_ent s e p) e0 = if decide (e0 = e) then p else get_ent s e0.
Proof.
  unfold get_ent, set_ent; simpl. destruct (decide (e0 = e)) as [->|N].
  - rewrite lookup_insert. reflexivity.
  - rewrite lookup_insert_ne by congruence. reflexivity.
Qed.

Lemma e_load_ext s s' e : ents s' = ents s -> e_load s' e = e_load s e.
Proof. unfold e_load, get_ent. intros ->. reflexivity. Qed.

Lemma abs_lookup_ext s s' k :
  ents s' = ents s -> read_m s' = read_m s -> amended s' = amended s -> dirty s' = dirty s ->
  abs_lookup s' k = abs_lookup s k.
Proof.
  unfold abs_lookup, reach, dirty_lookup, e_load, get_ent. intros -> -> -> ->. reflexivity.
Qed.

Lemma WF_ext s s' :
  ents s' = ents s -> next_e s' = next_e s -> read_m s' = read_m s -> amended s' = amended s ->
  dirty s' = dirty s -> WF s -> WF s'.
Proof. unfold WF, get_ent. intros -> -> -> -> ->. exact (fun H => H). Qed.

(* the abstraction, read through the dirty map when there is one / through read.m when not *)
Lemma abs_lookup_dirty s d k : WF s -> dirty s = Some d ->
  abs_lookup s k = match d !! k with Some e => e_load s e | None => None end.
Proof.
  intros H Ed. wf_some H Ed. unfold abs_lookup, reach, dirty_lookup. rewrite Ed, Ham.
  destruct (read_m s !! k) as [e|] eqn:R; [|reflexivity].
  rewrite (HC _ _ R). destruct (decide (get_ent s e = PExpunged)) as [X|X]; [|reflexivity].
  unfold e_load. rewrite X. reflexivity.
Qed.

Lemma abs_lookup_clean s k : amended s = false ->
  abs_lookup s k = match read_m s !! k with Some e => e_load s e | None => None end.
Proof. intros Ham. unfold abs_lookup, reach. rewrite Ham. destruct (read_m s !! k); reflexivity. Qed.

Lemma reach_bound s k e : WF s -> reach s k = Some e -> (e < next_e s)%nat.
Proof.
  intros H. unfold reach, dirty_lookup. destruct (read_m s !! k) as [e'|] eqn:R.
  - intros [= ->]. destruct H as (_ & Hrb & _). eauto.
  - destruct (amended s); [|discriminate]. destruct (dirty s) as [d|] eqn:Ed; [|discriminate].
    intros Hk. wf_some H Ed. apply (HB _ _ Hk).
Qed.

Lemma reach_inj s k1 k2 e : WF s -> reach s k1 = Some e -> reach s k2 = Some e -> k1 = k2.
Proof.
  intros H. unfold reach, dirty_lookup.
  destruct (read_m s !! k1) as [e1|] eqn:R1; destruct (read_m s !! k2) as [e2|] eqn:R2.
  - intros [= ->] [= ->]. destruct H as (Hri & _). eauto.
  - intros [= ->]. destruct (amended s); [|discriminate]. destruct (dirty s) as [d|] eqn:Ed; [|discriminate].
    intros Hk. wf_some H Ed. destruct (HB _ _ Hk) as (_ & _ & _ & Hx). exact (Hx _ R1).
  - destruct (amended s); [|discriminate]. destruct (dirty s) as [d|] eqn:Ed; [|discriminate].
    intros Hk [= ->]. wf_some H Ed. destruct (HB _ _ Hk) as (_ & _ & _ & Hx). symmetry. exact (Hx _ R2).
  - destruct (amended s); [|discriminate]. destruct (dirty s) as [d|] eqn:Ed; [|discriminate].
    intros Hk1 Hk2. wf_some H Ed. eauto.
Qed.

Lemma reach_not_expunged_val s k e : WF s -> reach s k = Some e -> read_m s !! k = None ->
  exists v, get_ent s e = PVal v.
Proof.
  intros H. unfold reach, dirty_lookup. intros Hr R. rewrite R in Hr.
  destruct (amended s); [|discriminate]. destruct (dirty s) as [d|] eqn:Ed; [|discriminate].
  wf_some H Ed. destruct (HB _ _ Hr) as (_ & _ & Hx & _). eauto.
Qed.

(* ---- writing an entry ---- *)
Local Arguments get_ent : simpl never.
Local Arguments e_load : simpl never.

Definition ptr_val (p : ptr) : option Z := match p with PVal v => Some v | _ => None end.

Lemma e_load_set_ent s e p e0 :
  e_load (set_ent s e p) e0 = if decide (e0 = e) then ptr_val p else e_load s e0.
Proof. unfold e_load. rewrite get_ent_set_ent. destruct (decide (e0 = e)); reflexivity. Qed.

Lemma reach_set_ent s e p k : reach (set_ent s e p) k = reach s k.
Proof. reflexivity. Qed.

Lemma abs_lookup_set_ent s e p k k' : WF s -> reach s k = Some e ->
  abs_lookup (set_ent s e p) k' = if decide (k' = k) then ptr_val p else abs_lookup s k'.
Proof.
  intros H Hr. unfold abs_lookup. rewrite reach_set_ent.
  destruct (decide (k' = k)) as [->|N].
  - rewrite Hr, e_load_set_ent. rewrite decide_True; auto.
  - destruct (reach s k') as [e'|] eqn:R'; [|reflexivity].
    rewrite e_load_set_ent. rewrite decide_False; auto.
    intros ->. apply N. eapply reach_inj; eauto.
Qed.

(* overwriting a referenced, non-expunged entry with a non-expunged pointer *)
Lemma WF_set_ent s e p : WF s -> get_ent s e <> PExpunged -> p <> PExpunged ->
  ((exists v, p = PVal v) \/ forall d k, dirty s = Some d -> d !! k = Some e -> read_m s !! k <> None) ->
  WF (set_ent s e p).
Proof.
  intros H Hne Hp Hv.
  assert (Hx : forall e0, get_ent (set_ent s e p) e0 = PExpunged <-> get_ent s e0 = PExpunged).
  { intros e0. rewrite get_ent_set_ent. destruct (decide (e0 = e)) as [->|]; [|tauto].
    split; intros; congruence. }
  destruct (dirty s) as [d|] eqn:Ed.
  - wf_some H Ed. unfold WF. simpl. rewrite Ed. repeat split; auto.
    + apply (HB _ _ H).
    + rewrite Hx. apply (HB _ _ H).
    + intros R. rewrite get_ent_set_ent. destruct (decide (e0 = e)) as [->|].
      * destruct Hv as [Hv|Hv]; [exact Hv|]. exfalso. eapply Hv; eauto.
      * destruct (HB _ _ H) as (_ & _ & Hb & _). auto.
    + apply (HB _ _ H).
    + intros k0 e0 R. rewrite (decide_ext _ _ _ _ (Hx e0)). auto.
  - wf_none H Ed. unfold WF. simpl. rewrite Ed. repeat split; auto.
    intros k0 e0 R. rewrite Hx. eauto.
Qed.

(* writing an entry nobody references *)
Definition unref (s : mstate) (e : nat) : Prop :=
  (forall k, read_m s !! k <> Some e) /\ (forall d k, dirty s = Some d -> d !! k <> Some e).

Lemma unref_reach s e k : unref s e -> reach s k <> Some e.
Proof.
  intros [U1 U2]. unfold reach, dirty_lookup. destruct (read_m s !! k) eqn:R.
  - rewrite <- R. apply U1.
  - destruct (amended s); [|discriminate]. destruct (dirty s) eqn:Ed; [|discriminate]. eapply U2; eauto.
Qed.

Lemma abs_lookup_set_ent_unref s e p k : unref s e -> abs_lookup (set_ent s e p) k = abs_lookup s k.
Proof.
  intros U. unfold abs_lookup. rewrite reach_set_ent. destruct (reach s k) as [e'|] eqn:R; [|reflexivity].
  rewrite e_load_set_ent, decide_False; auto. intros ->. eapply unref_reach; eauto.
Qed.

Lemma WF_set_ent_unref s e p : WF s -> unref s e -> WF (set_ent s e p).
Proof.
  intros H [U1 U2].
  destruct (dirty s) as [d|] eqn:Ed.
  - wf_some H Ed. unfold WF. simpl. rewrite Ed.
    assert (Hd : forall k e0, d !! k = Some e0 -> get_ent (set_ent s e p) e0 = get_ent s e0).
    { intros k e0 Hk. rewrite get_ent_set_ent, decide_False; auto. intros ->. eapply U2; eauto. }
    assert (Hr : forall k e0, read_m s !! k = Some e0 -> get_ent (set_ent s e p) e0 = get_ent s e0).
    { intros k e0 Hk. rewrite get_ent_set_ent, decide_False; auto. intros ->. eapply U1; eauto. }
    repeat split; auto.
    + apply (HB _ _ H).
    + rewrite (Hd _ _ H). apply (HB _ _ H).
    + rewrite (Hd _ _ H). apply (HB _ _ H).
    + apply (HB _ _ H).
    + intros k0 e0 R. rewrite (Hr _ _ R). auto.
  - wf_none H Ed. unfold WF. simpl. rewrite Ed. repeat split; auto.
    intros k0 e0 R. rewrite get_ent_set_ent, decide_False; eauto. intros ->. eapply U1; eauto.
Qed.

(* ---- promotion of the dirty map (missLocked, Range) ---- *)
Definition promote (s : mstate) (d : gmap Z nat) : mstate := MState (ents s) (next_e s) d false None 0.

Lemma promote_spec s d : WF s -> dirty s = Some d ->
  WF (promote s d) /\ forall k, abs_lookup (promote s d) k = abs_lookup s k.
Proof.
  intros H Ed. split.
  - wf_some H Ed. unfold WF, promote; simpl. repeat split; auto.
    + intros k e Hk. apply (HB _ _ Hk).
    + intros k e Hk. apply (HB _ _ Hk).
  - intros k. rewrite (abs_lookup_dirty s d k H Ed). rewrite abs_lookup_clean by reflexivity.
    simpl. destruct (d !! k); reflexivity.
Qed.

Lemma unref_promote s d e : dirty s = Some d -> unref s e -> unref (promote s d) e.
Proof.
  intros Ed [U1 U2]. split; simpl.
  - intros k. eapply U2; eauto.
  - intros d' k [=].
Qed.

Lemma missLocked_spec s : WF s -> amended s = true ->
  WF (missLocked s) /\ (forall k, abs_lookup (missLocked s) k = abs_lookup s k) /\
  ents (missLocked s) = ents s /\ (forall e, unref s e -> unref (missLocked s) e).
Proof.
  intros H Ham. destruct (dirty s) as [d|] eqn:Ed.
  2:{ wf_none H Ed. congruence. }
  unfold missLocked. destruct (misses s + 1 <? dirty_len s).
  - split; [|split; [|split]].
    + eapply WF_ext; [..|exact H]; reflexivity.
    + intros k. apply abs_lookup_ext; reflexivity.
    + reflexivity.
    + intros e U. exact U.
  - rewrite Ed. simpl. change (MState (ents s) (next_e s) d false None 0) with (promote s d).
    destruct (promote_spec s d H Ed) as [W A]. split; [|split; [|split]]; auto.
    intros e U. apply unref_promote; auto.
Qed.

(* ---- unexpungeLocked + "m.dirty[key] = e" ---- *)
Lemma unexpunge_spec s k e : WF s -> read_m s !! k = Some e ->
  exists s1, unexpunge s k e = Ok s1 /\ WF s1 /\ read_m s1 = read_m s /\
    get_ent s1 e = (match get_ent s e with PExpunged => PNil | p => p end) /\
    (forall k', abs_lookup s1 k' = abs_lookup s k').
Proof.
  intros H R. unfold unexpunge. destruct (get_ent s e) eqn:G.
  - exists s. rewrite G. auto.
  - destruct (dirty s) as [d|] eqn:Ed.
    2:{ wf_none H Ed. exfalso. eapply HE; eauto. }
    unfold dirty_insert. simpl. rewrite Ed. eexists. split; [reflexivity|].
    set (s1 := MState _ _ _ _ _ _).
    assert (G1 : forall e0, get_ent s1 e0 = if decide (e0 = e) then PNil else get_ent s e0).
    { intros e0. apply (get_ent_set_ent s e PNil e0). }
    assert (W1 : WF s1).
    { wf_some H Ed. unfold WF, s1; simpl. fold s1. split; [exact Hri|]. split; [exact Hrb|].
      split; [exact Ham|]. split; [|split].
      - intros k1 k2 e0. rewrite !lookup_insert_Some.
        intros [[<- <-]|[N1 H1]] [[<- E]|[N2 H2]]; auto.
        + exfalso. destruct (HB _ _ H2) as (_ & X & _). congruence.
        + exfalso. subst e0. destruct (HB _ _ H1) as (_ & X & _). congruence.
        + eauto.
      - intros k0 e0. rewrite lookup_insert_Some. intros [[<- <-]|[N Hk]].
        + split; [eauto|]. split; [rewrite G1, decide_True by reflexivity; discriminate|].
          split; [intros R'; congruence|]. intros k' R'. eauto.
        + destruct (HB _ _ Hk) as (B1 & B2 & B3 & B4).
          assert (e0 <> e) by congruence.
          rewrite G1, decide_False by assumption. auto.
      - intros k0 e0 R0. destruct (decide (k0 = k)) as [->|N].
        + assert (e0 = e) by congruence. subst e0. rewrite lookup_insert, G1, decide_True by reflexivity.
          rewrite decide_False by discriminate. reflexivity.
        + assert (e0 <> e) by (intros ->; eauto).
          rewrite lookup_insert_ne by congruence. rewrite G1, decide_False by assumption. auto. }
    split; [exact W1|]. split; [reflexivity|]. split; [rewrite G1, decide_True; reflexivity|].
    intros k'. rewrite (abs_lookup_dirty s1 _ k' W1 eq_refl), (abs_lookup_dirty s d k' H Ed).
    wf_some H Ed. destruct (decide (k' = k)) as [->|N].
    + rewrite lookup_insert. rewrite (HC _ _ R), decide_True by assumption.
      unfold e_load. rewrite G1, decide_True; reflexivity.
    + rewrite lookup_insert_ne by congruence. destruct (d !! k') as [e0|] eqn:Hk; [|reflexivity].
      destruct (HB _ _ Hk) as (_ & B2 & _). unfold e_load. rewrite G1, decide_False by congruence. reflexivity.
  - exists s. rewrite G. auto.
Qed.
